"""Shared machinery of the checks: Lean build + audit, driver I/O, exact-number helpers, verdict protocol,
evidence and known-findings handling.  See DESIGN.md sections 5, 6, 7, 10."""
from __future__ import annotations

import fcntl
import hashlib
import json
import math
import os
import re
import subprocess
import sys
import time
from fractions import Fraction

VERIF = os.path.dirname(os.path.dirname(os.path.abspath(__file__)))
REPO = os.environ.get("FV_REPO", "/repo")
LEAN = os.path.join(VERIF, "lean")
WORK = os.path.join(VERIF, "work")
PY = os.environ.get("FV_PYTHON", "/venv/bin/python")

if REPO not in sys.path:
    sys.path.insert(0, REPO)

sys.set_int_max_str_digits(0)
ALLOWED_AXIOMS = {"propext", "Classical.choice", "Quot.sound"}
FORBIDDEN = re.compile(r"\b(sorry|admit|native_decide|bv_decide|implemented_by|unsafe)\b|^\s*axiom\s|maxHeartbeats\s+0\b")

TRUSTED_BASE = [
    "Lean 4.33 kernel (thorough tier: re-checked by leanchecker)",
    "axioms: subset of {propext, Classical.choice, Quot.sound}, audited with #print axioms for every property theorem; no sorry/admit/native_decide/bv_decide/user axioms (source grep)",
    "Mathlib v4.33 (ordered fields, real analysis)",
    "Tie A tracer fv/tracer.py: Python dunder / __array_ufunc__ / __array_function__ interception records the expression NumPy computes; each recorded op means the X-algebra op (validated: Gen evaluated at Q against the real functions on this run's stream; X tables against NumPy)",
    "Tie B harness: generators, canonicalisation, tolerance 1e-9 abs+rel (squares for sqrt-of-cancellation values), Fn.rat fixed-point oracle (2^-128)",
    "not modelled: IEEE-754 rounding/overflow/signed zero, NumPy broadcasting internals, CPython float()/format/repr",
]


# --------------------------------------------------------------------------------------------- numbers

def xstr(v) -> str:
    """float / Fraction / int -> protocol token (exact)"""
    if isinstance(v, Fraction):
        return f"{v.numerator}/{v.denominator}" if v.denominator != 1 else str(v.numerator)
    if isinstance(v, bool):
        return "1" if v else "0"
    if isinstance(v, int):
        return str(v)
    v = float(v)
    if v != v:
        return "nan"
    if v == math.inf:
        return "inf"
    if v == -math.inf:
        return "-inf"
    n, d = v.as_integer_ratio()
    return f"{n}/{d}" if d != 1 else str(n)


def parse_x(s: str):
    """protocol token -> Fraction | 'nan' | 'inf' | '-inf'"""
    if s in ("nan", "inf", "-inf"):
        return s
    return Fraction(s)


def cls_of(v) -> str:
    if isinstance(v, str):
        return v
    if isinstance(v, Fraction):
        return "fin"
    v = float(v)
    if v != v:
        return "nan"
    if v == math.inf:
        return "inf"
    if v == -math.inf:
        return "-inf"
    return "fin"


def close(impl, exact, atol=1e-9, rtol=1e-9, squares=False) -> bool:
    """impl: float from the implementation; exact: Fraction or class string from the model"""
    ci, ce = cls_of(impl), cls_of(exact)
    if ci != "fin" or ce != "fin":
        return ci == ce
    a = Fraction(float(impl)) if not isinstance(impl, Fraction) else impl
    b = exact
    if squares:
        a, b = a * a, b * b
        return abs(a - b) <= Fraction(1, 10 ** 12) * (1 + abs(b))
    return abs(a - b) <= Fraction(atol) + Fraction(rtol) * abs(b)


def sx(obj) -> str:
    """python nested lists / atoms -> S-expression text"""
    if isinstance(obj, (list, tuple)):
        return "(" + " ".join(sx(o) for o in obj) + ")"
    if isinstance(obj, str):
        return obj
    return xstr(obj)


def parse_sx(text: str):
    toks = text.replace("(", " ( ").replace(")", " ) ").split()
    pos = 0

    def rd():
        nonlocal pos
        t = toks[pos]
        pos += 1
        if t == "(":
            out = []
            while toks[pos] != ")":
                out.append(rd())
            pos += 1
            return out
        return t

    if not toks:
        return ""
    return rd()


def hexs(s: str) -> str:
    """free text travels hex-encoded (utf-8) with an 'h' prefix so that it is one atom"""
    return "h" + s.encode("utf-8").hex()


# --------------------------------------------------------------------------------------------- processes

class Lock:
    def __enter__(self):
        os.makedirs(WORK, exist_ok=True)
        self.f = open(os.path.join(VERIF, ".lock"), "w")
        fcntl.flock(self.f, fcntl.LOCK_EX)
        return self

    def __exit__(self, *a):
        fcntl.flock(self.f, fcntl.LOCK_UN)
        self.f.close()


def run(cmd, cwd=None, timeout=3600, inp=None, env=None):
    e = dict(os.environ)
    if env:
        e.update(env)
    p = subprocess.run(cmd, cwd=cwd, input=inp, capture_output=True, text=True, timeout=timeout, env=e)
    return p.returncode, p.stdout, p.stderr


def run_tracer():
    os.makedirs(WORK, exist_ok=True)
    status = os.path.join(WORK, "tracer_status.json")
    rc, out, err = run([PY, os.path.join(VERIF, "fv", "tracer.py"), os.path.join(LEAN, "FlVerif", "Gen"), status],
                       env={"FV_REPO": REPO, "PYTHONPATH": REPO})
    st = {"rc": rc, "stdout": out[-2000:], "stderr": err[-4000:]}
    try:
        st.update(json.load(open(status)))
    except Exception:  # noqa: BLE001
        st["functions"] = {}
    return st


def lake_build(modules, timeout=3000):
    """returns (ok, failures: list of {file, line, decl, message}) for the given modules"""
    rc, out, err = run(["lake", "build"] + list(modules), cwd=LEAN, timeout=timeout)
    text = out + err
    fails = []
    if rc != 0:
        for m in re.finditer(r"error: ([^\s:]+\.lean):(\d+):(\d+): (.*)", text):
            fails.append({"file": m.group(1), "line": int(m.group(2)), "message": m.group(4)[:400]})
        if not fails:
            fails.append({"file": "?", "line": 0, "message": text[-1500:]})
        for f in fails:
            f["decl"] = decl_at(os.path.join(LEAN, f["file"]), f["line"])
    return rc == 0, fails, text


def decl_at(path, line):
    try:
        lines = open(path).read().split("\n")
    except OSError:
        return None
    for i in range(min(line, len(lines)) - 1, -1, -1):
        m = re.match(r"\s*(?:private |protected |noncomputable )*(theorem|lemma|def|example|instance)\s+([^\s:({\[]+)?", lines[i])
        if m:
            return m.group(2) or "example"
    return None


def strip_comments(src: str) -> str:
    src = re.sub(r"/-.*?-/", lambda m: "\n" * m.group(0).count("\n"), src, flags=re.S)
    return re.sub(r"--[^\n]*", "", src)


def theorem_names(props_path: str, namespace: str):
    src = strip_comments(open(props_path).read())
    return [f"{namespace}.{m.group(1)}" for m in re.finditer(r"^\s*theorem\s+([A-Za-z_][\w.'₀-₉]*)", src, flags=re.M)]


def source_files_of(modules):
    """transitive closure of FlVerif.* imports of the given modules -> list of paths"""
    seen, todo = {}, list(modules)
    while todo:
        m = todo.pop()
        if m in seen or not m.startswith("FlVerif"):
            continue
        p = os.path.join(LEAN, *m.split(".")) + ".lean"
        if not os.path.exists(p):
            continue
        seen[m] = p
        for mm in re.finditer(r"^import\s+(\S+)", open(p).read(), flags=re.M):
            todo.append(mm.group(1))
    return seen


def grep_forbidden(modules):
    hits = []
    for m, p in source_files_of(modules).items():
        for i, line in enumerate(strip_comments(open(p).read()).split("\n"), 1):
            if FORBIDDEN.search(line):
                hits.append(f"{m}:{i}: {line.strip()[:120]}")
    return hits


def audit(pid, modules, names):
    """#print axioms of every property theorem; returns {name: [axioms] | None (missing)}"""
    os.makedirs(os.path.join(WORK, "audit"), exist_ok=True)
    path = os.path.join(WORK, "audit", f"{pid}.lean")
    with open(path, "w") as f:
        for m in modules:
            f.write(f"import {m}\n")
        for n in names:
            f.write(f"#print axioms {n}\n")
    rc, out, err = run(["lake", "env", "lean", path], cwd=LEAN, timeout=1800)
    text = out + err
    res = {n: None for n in names}
    for m in re.finditer(r"'([^']+)' depends on axioms: \[([^\]]*)\]", text, flags=re.S):
        res[m.group(1)] = [a.strip() for a in m.group(2).replace("\n", " ").split(",") if a.strip()]
    for m in re.finditer(r"'([^']+)' does not depend on any axioms", text):
        res[m.group(1)] = []
    return res, text


def leanchecker(modules):
    rc, out, err = run(["lake", "env", "leanchecker"] + list(modules), cwd=LEAN, timeout=3000)
    return rc == 0, (out + err)[-2000:]


class Driver:
    """batch line protocol to the Lean driver"""

    def __init__(self):
        self.ok = None
        self.error = None

    def eval(self, lines, timeout=3000):
        if not lines:
            return []
        data = "\n".join(lines) + "\n"
        rc, out, err = run(["lake", "env", "lean", "--run", "Driver.lean"], cwd=LEAN, inp=data, timeout=timeout)
        outs = out.split("\n")
        if outs and outs[-1] == "":
            outs.pop()
        if rc != 0 or len(outs) != len(lines):
            self.ok = False
            self.error = f"rc={rc} lines_in={len(lines)} lines_out={len(outs)} stderr={err[-1500:]} stdout_tail={out[-300:]}"
            raise DriverError(self.error)
        self.ok = True
        return outs


class DriverError(Exception):
    pass


def build_driver():
    ok, fails, text = lake_build(["FlVerif.Drv.All"])
    return ok, fails


# --------------------------------------------------------------------------------------------- verdicts

class Violation:
    def __init__(self, pid, what, replay: dict, key: str | None = None):
        self.pid, self.what, self.replay, self.key = pid, what, replay, key


def known_findings():
    p = os.path.join(VERIF, "known_findings.json")
    try:
        return json.load(open(p))["findings"]
    except FileNotFoundError:
        return []


def match_known(pid, key):
    """a violation is known iff its key matches a listed `known` entry of the same property"""
    for f in known_findings():
        if f.get("property") == pid and f.get("status") == "known" and key is not None:
            if re.fullmatch(f["match"], key):
                return f
    return None


def write_replay(pid, replay: dict) -> str:
    d = os.path.join(VERIF, "replays")
    os.makedirs(d, exist_ok=True)
    blob = json.dumps(replay, sort_keys=True, default=str)
    h = hashlib.sha1(blob.encode()).hexdigest()[:12]
    path = os.path.join(d, f"{pid}-{h}.json")
    with open(path, "w") as f:
        json.dump(replay, f, indent=1, sort_keys=True, default=str)
    return path


def write_evidence(pid, tier, seed, coverage, wall, violations, assumptions=None):
    d = os.path.join(VERIF, "evidence")
    os.makedirs(d, exist_ok=True)
    ev = {"property_id": pid, "tier": tier, "seed": int(seed), "level": "proof", "coverage": coverage,
          "assumptions": assumptions or [], "wall_s": round(wall, 2), "violations": int(violations)}
    tmp = os.path.join(d, f"{pid}.json.tmp")
    with open(tmp, "w") as f:
        json.dump(ev, f, indent=1, default=str)
    os.replace(tmp, os.path.join(d, f"{pid}.json"))


class Stats:
    """input distribution / coverage counters of a correspondence run"""

    def __init__(self):
        self.evaluations = 0
        self.nontrivial = set()
        self.dist = {}
        self.samples = []
        self.skipped_fragile = 0
        self.validated = 0

    def count(self, key, n=1):
        self.dist[key] = self.dist.get(key, 0) + n

    def case(self, canon, nontrivial: bool, sample=None):
        self.evaluations += 1
        if nontrivial:
            self.nontrivial.add(hashlib.sha1(repr(canon).encode()).digest()[:8])
        if sample is not None and len(self.samples) < 6:
            self.samples.append(sample)
