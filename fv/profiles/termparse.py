"""Profiles of the import side of term parameters (`Term._parse`, the `configure` methods of representative classes) and of
the helpers of `Operation` the FuzzyLite Language layer uses (`as_identifier`, `strip_comments`, `scale`, `bound`).

Strings stay strings.  `to_float(x)` of a string is the reader `rd : String → Option Num` (a Lean parameter of every
function: CPython's `float(text)` is an external), `parameters.split()` is `Py.split`; the attributes a `configure`
assigns are locals `self_<attribute>`.  The externals are in `lean/FlVerif/Op/PyExtTermParse.lean`."""

FILE = "CodeTermParse"
P = "Py.FllIn"
RD = ("rd", "String → Option Num")

NUM_EXT = [
    ("_0.split()", "(Py.split {0})", "List String", True, ["String"]),
    ("to_float(_0)", f"({P}.toFloat rd {{0}})", "Num", False, ["String"]),
    # the two ways `configure` methods call `Term._parse` (what `code_termParse` proves the method returns)
    ("self._parse(_0, parameters)", f"({P}.parseVals rd {{0}} parameters true)", "List Num", False, ["Nat"]),
    ("self._parse(_0, parameters, height=False)", f"({P}.parseVals rd {{0}} parameters false)", "List Num", False, ["Nat"]),
    ("1.0", "Dec.one", "Num", True),
]


def conf(cls, attrs, **kw):
    return dict({"name": f"{cls}_configure", "module": "fuzzylite.term", "object": f"{cls}.configure", "file": FILE,
                 "params": [RD, ("parameters", "String")], "locals": {f"self_{a}": t for a, t in attrs.items()},
                 "externals": NUM_EXT}, **kw)


PROFILES = [
    # ---- term.py
    {"name": "Term_parse", "module": "fuzzylite.term", "object": "Term._parse", "file": FILE,
     "params": [RD, ("required", "Nat"), ("parameters", "String"), ("height", "Bool")],
     "locals": {"values": "List Num"}, "ret": "List Num",
     "ignore_locals": ["height_message"],          # only read by the message of the `raise`
     "externals": NUM_EXT},
    conf("Triangle", {"left": "Num", "top": "Num", "right": "Num", "height": "Num"}),
    conf("Trapezoid", {"bottom_left": "Num", "top_left": "Num", "top_right": "Num", "bottom_right": "Num", "height": "Num"}),
    conf("Constant", {"value": "Num"}),
    conf("Linear", {"coefficients": "List Num"}),
    conf("Discrete", {"height": "Num", "values": "List Num"}, locals={"as_list": "List String", "self_height": "Num", "self_values": "List Num"},
         externals=NUM_EXT + [("Discrete.to_xy(_0[0::2], _0[1::2])", f"({P}.toXY rd {{0}})", "List Num", False, ["List String"])]),
    # `Function.configure`: `load : String → Py.M Unit` is what `self.load()` raises for the formula (tied by C17)
    {"name": "Function_configure", "module": "fuzzylite.term", "object": "Function.configure", "file": FILE,
     "params": [("load", "String → Py.M Unit"), ("parameters", "String")], "locals": {"self_formula": "String"},
     "externals": [("self.load()", "(load σ.self_formula)", "Unit", False)]},
    # ---- library.py: `to_float(x)` of a string is `settings.float_type(x)` = numpy's `float64(text)` = CPython's `float(text)`
    {"name": "to_float", "module": "fuzzylite.library", "object": "to_float", "file": FILE,
     "params": [RD, ("x", "String")], "ret": "Num",
     "externals": [("settings.float_type(_0)", f"({P}.toFloat rd {{0}})", "Num", False, ["String"])]},
    # ---- operation.py
    # the character classes of `str.isalnum` / `str.isnumeric` are parameters; a string is iterated by its characters
    {"name": "Op_as_identifier", "module": "fuzzylite.operation", "object": "Operation.as_identifier", "file": FILE,
     "params": [("alnum", "Char → Bool"), ("numeric", "Char → Bool"), ("name", "String")],
     "rebind": {"name": "name1"}, "locals": {"name1": "String"}, "ret": "String",
     "iter_view": {"String": ("({0}).toList", "List Char")},
     "externals": [
         ("_0.isalnum()", "(alnum {0})", "Bool", True, ["Char"]),
         ("_0 == '_'", "({0} == '_')", "Bool", True, ["Char"]),
         ("''.join(_0)", "(String.ofList {0})", "String", True, ["List Char"]),
         ("_0[0]", f"({P}.first {{0}})", "Char", False, ["String"]),
         ("_0.isnumeric()", "(numeric {0})", "Bool", True, ["Char"]),
     ]},
    # a one-character delimiter (the default `#`); `line[:ignore]` is only reached for `ignore ≥ 0`
    {"name": "Op_strip_comments", "module": "fuzzylite.operation", "object": "Operation.strip_comments", "file": FILE,
     "params": [("fll", "String"), ("delimiter", "Char")],
     "locals": {"lines": "List String", "line": "String", "ignore": "Int"}, "ret": "String",
     "externals": [
         ("fll.split('\\n')", f"({P}.splitNl fll)", "List String", True),
         ("_0.find(delimiter)", "(Py.findChar {0} delimiter)", "Int", True, ["String"]),
         ("_0[:_1]", "(Py.strPrefix {0} {1})", "String", True, ["String", "Int"]),
         ("_0.strip()", f"({P}.strip {{0}})", "String", True, ["String"]),
         ("'\\n'.join(_0)", "(\"\\n\".intercalate {0})", "String", True, ["List String"]),
     ]},
    {"name": "Op_scale", "module": "fuzzylite.operation", "object": "Operation.scale", "file": FILE,
     "params": [("x", "X Rat"), ("x_min", "X Rat"), ("x_max", "X Rat"), ("y_min", "X Rat"), ("y_max", "X Rat")],
     "rebind": {"x": "x1"}, "locals": {"x1": "X Rat"}, "ret": "X Rat",
     "externals": [("scalar(_0)", "{0}", "X Rat", True, ["X Rat"])]},
    {"name": "Op_bound", "module": "fuzzylite.operation", "object": "Operation.bound", "file": FILE,
     "params": [("x", "X Rat"), ("minimum", "X Rat"), ("maximum", "X Rat")], "ret": "X Rat",
     "externals": [("scalar(_0)", "{0}", "X Rat", True, ["X Rat"]),
                   ("np.clip(_0, _1, _2)", "(X.clip {0} {1} {2})", "X Rat", True, ["X Rat", "X Rat", "X Rat"])]},
]

FILES = {FILE: {"imports": ["FlVerif.Op.PyExtTermParse"]}}
