"""Profiles of the evaluation of a rule: `Antecedent.activation_degree` (recursive over the expression tree),
`Aggregated.activation_degree`, and the methods of `Rule` the activation methods call (`deactivate`, `activate_with`,
`trigger`, `is_loaded`).  Externals: `lean/FlVerif/Op/PyExtDegree.lean`."""
from .base import PROP, W_ACT, W_DICT, W_NORM, W_TERM

EXPR = "Py.Deg.Expression"
VAR = "Py.Deg.Var"
NORM = "X Rat → X Rat → X Rat"

# ---- Antecedent.activation_degree (C06)
# env: the evaluation context of the model (`Lang.DegCtx`; its fields `conj` / `disj` are not used: the operators are
# the parameters `conjunction` / `disjunction`; `env.hasTerms`: `len(variable.terms) != 0` by name, the truth value of a
# variable object); expression: `self.expression`; node: the parameter `node` (`None` on the call from outside).
DEGREE_EXT = [
    ("self.expression", "expression", EXPR, True),
    ("isinstance(node, Proposition)", "node.isProp", "Bool", True),
    ("isinstance(node, Operator)", "node.isOp", "Bool", True),
    ("node.variable", "(Py.Deg.variableOf node)", f"Option {VAR}", False),
    ("node.hedges", "(Py.Deg.hedgesOf node)", "List String", False),
    ("node.term", "(Py.Deg.termOf node)", "Option String", False),
    ("node.left", "(Py.Deg.leftOf node)", EXPR, False),
    ("node.right", "(Py.Deg.rightOf node)", EXPR, False),
    ("node.name", "(Py.Deg.nameOf node)", "String", False),
    ("_0.enabled", "(env.enabled {0}.name)", "Bool", True, [VAR]),
    ("isinstance(_0, Any)", '({0} == "any")', "Bool", True, ["String"]),
    ("isinstance(_0, InputVariable)", "(!(env.isOutput {0}.name))", "Bool", True, [VAR]),
    ("isinstance(_0, OutputVariable)", "(env.isOutput {0}.name)", "Bool", True, [VAR]),
    ("_0.membership(_1.value)", "(env.membership {1}.name {0})", "X Rat", True, ["String", VAR]),
    ("_0.fuzzy.activation_degree(_1)", "(env.outDegree {0}.name {1})", "X Rat", True, [VAR, "String"]),
    ("_0.hedge(_1)", "(env.hedge {0} {1})", "X Rat", True, ["String", "X Rat"]),
    ("_0.compute(_1, _2)", "({0} {1} {2})", "X Rat", True, [NORM, "X Rat", "X Rat"]),
    ("scalar(_0)", "{0}", "X Rat", True, ["X Rat"]),
]
DEGREE_PROFILE = {
    "name": "Antecedent_activation_degree", "module": "fuzzylite.rule", "object": "Antecedent.activation_degree",
    "file": "CodeDegree",
    "params": [("env", "Lang.DegCtx Rat"), ("expression", EXPR),
               ("conjunction", f"Option ({NORM})"), ("disjunction", f"Option ({NORM})"), ("node", EXPR)],
    "locals": {"result": "X Rat", "hedge": "String"},
    "ret": "X Rat",
    "truthy": {EXPR: "{0}.truthy", f"Option {VAR}": "(Py.Deg.varTruthy env.hasTerms {0})"},
    "self_call": "self.activation_degree(_0, _1, _2)", "self_call_params": ["conjunction", "disjunction", "node"],
    "rec_fuel": "Py.Deg.depth expression + Py.Deg.depth node + 1",
    "externals": DEGREE_EXT,
}

# ---- Aggregated.activation_degree (C06): the callee `grouped_terms` is its own translation (tied in C10)
AGGR_PROFILE = {
    "name": "Aggregated_activation_degree", "module": "fuzzylite.term", "object": "Aggregated.activation_degree",
    "file": "CodeDegree",
    "params": [("agg", f"Option ({W_NORM})"), ("terms", f"List ({W_ACT})"), ("term", W_TERM)],
    "locals": {"activated": f"Option ({W_ACT})"},
    "ret": "X Rat",
    "externals": [
        ("self.grouped_terms()", "(Aggregated_grouped_terms.run agg terms {{}} >>= fun g => Py.deref g.ret)", W_DICT, False),
        ("_0.get(_1)", "(Py.W.dictGet {0} {1})", f"Option ({W_ACT})", True, [W_DICT, "String"]),
        ("_0.name", "{0}.name", "String", True, [W_TERM]),
        ("_0.degree", "{0}.2", "X Rat", True, [W_ACT]),
        ("scalar(_0)", "{0}", "X Rat", True, ["X Rat"]),
    ],
}

# ---- Rule.is_loaded / deactivate / activate_with / trigger (C07, C08)
RULE_COMMON = [
    ("scalar(_0)", "{0}", "X Rat", True, ["X Rat"]),
    ("array(_0)", "{0}", "Bool", True, ["Bool"]),
    ("self.is_loaded()", "loaded", "Bool", True),
    ("self.activation_degree", "σ.self_activation_degree", "X Rat", True),
]
RULE_PROFILES = [
    {
        "name": "Rule_is_loaded_flags", "module": "fuzzylite.rule", "object": "Rule.is_loaded", "file": "CodeDegree",
        "params": [("antecedentLoaded", "Bool"), ("consequentLoaded", "Bool")],
        "locals": {}, "ret": "Bool",
        "externals": [("self.antecedent.is_loaded()", "antecedentLoaded", "Bool", True),
                      ("self.consequent.is_loaded()", "consequentLoaded", "Bool", True)],
    },
    {
        "name": "Rule_deactivate", "module": "fuzzylite.rule", "object": "Rule.deactivate", "file": "CodeDegree",
        "params": [],
        "locals": {"self_activation_degree": "X Rat", "self_triggered": "Bool"},
        "externals": RULE_COMMON,
    },
    {
        # antecedent: what `self.antecedent.activation_degree(conjunction, disjunction)` returns or raises
        "name": "Rule_activate_with", "module": "fuzzylite.rule", "object": "Rule.activate_with", "file": "CodeDegree",
        "params": [("loaded", "Bool"), ("weight", "X Rat"), ("antecedent", "Py.M (X Rat)")],
        "locals": {"self_activation_degree": "X Rat"},
        "ret": "X Rat",
        "externals": RULE_COMMON + [
            ("self.weight", "weight", "X Rat", True),
            ("self.antecedent.activation_degree(conjunction, disjunction)", "antecedent", "X Rat", False),
        ],
    },
    {
        # the callee `Consequent.modify` is its own translation (tied in C07); `calls` records the degrees it is called
        # with, `out` the activated terms it appends to the fuzzy outputs
        "name": "Rule_trigger", "module": "fuzzylite.rule", "object": "Rule.trigger", "file": "CodeDegree",
        "params": [("san", "X Rat → X Rat"), ("impl", "String"), ("loaded", "Bool"), ("enabled", "Bool"), ("d", "X Rat"),
                   ("conclusions", f"List {PROP}")],
        "init": {"self_activation_degree": "d"},
        "locals": {"self_activation_degree": "X Rat", "self_triggered": "Bool", "calls": "List (X Rat)",
                   "out": "List (Spec.Consequent.Act (X Rat) String)"},
        "externals": RULE_COMMON + [("self.enabled", "enabled", "Bool", True)],
        "stmt_externals": [
            ("self.consequent.modify(self.activation_degree, implication)",
             "(Consequent_modify.run san impl σ.self_activation_degree conclusions {{}} >>= fun m => "
             ".ok {{ σ with calls := σ.calls ++ [σ.self_activation_degree], out := σ.out ++ m.out }})", False),
        ],
    },
]

PROFILES = [DEGREE_PROFILE, AGGR_PROFILE] + RULE_PROFILES
FILES = {
    "CodeDegree": {"imports": ["FlVerif.Op.PyExtDegree", "FlVerif.Gen.CodeWeighted", "FlVerif.Gen.CodeConsequent"]},
}
