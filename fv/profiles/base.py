"""Translation profiles for `pylean.py`: which functions of /repo are regenerated as Lean code, the types of
their locals (Python is untyped) and the externals (library calls the translator does not look into).

`file` groups the definitions into `Gen/<file>.lean`; `imports` are the Lean modules the externals live in."""

STR_EXT = [
    ("_0.find('#')", "(Py.findChar {0} '#')", "Int", True),
    ("_0[0:_1]", "(Py.strPrefix {0} {1})", "String", True),
    ("_0.split()", "(Py.split {0})", "List String", True, ["String"]),
    ("float(_0)", "(Py.float {0})", "X Rat", False),
    ("' '.join(_0)", "(Py.joinSp {0})", "String", True),
]

# ---------------------------------------------------------------- the element table of FunctionFactory
ELEM_EXT = [
    ("factory.objects.get(_0)", "(Lang.Table.lookup tbl {0})", "Option Lang.Elem", True),
    ("_0 in factory.objects", "(Lang.Table.lookup tbl {0}).isSome", "Bool", True),
    ("factory.objects[_0]", "(Py.lookupElem tbl {0})", "Lang.Elem", False),
    ("_0.is_function()", "(!{0}.isOp)", "Bool", True, ["Lang.Elem"]),
    ("_0.is_operator()", "{0}.isOp", "Bool", True, ["Lang.Elem"]),
    ("_0.associativity", "{0}.assoc", "Int", True, ["Lang.Elem"]),
    ("_0.precedence", "{0}.prec", "Nat", True, ["Lang.Elem"]),
    ("_0.arity", "{0}.arity", "Nat", True, ["Lang.Elem"]),
]

# ---------------------------------------------------------------- activation methods
VIS = "Op.Activation.Visit Rat"
TRIG_LOCAL = "(let p := Op.Activation.trigger σ.rule.1 σ.rule.2; {{ σ with rule := (σ.rule.1, p.1), fires := σ.fires ++ p.2 }})"
ACT_STMT = [
    ("rule.deactivate()", "{{ σ with rule := (σ.rule.1, Op.Activation.deactivate σ.rule.2) }}", True),
    ("rule.activate_with(conjunction, disjunction)", "{{ σ with rule := (σ.rule.1, Op.Activation.activateWith σ.rule.2) }}", True),
    ("activation_degree = rule.activate_with(conjunction, disjunction)",
     "{{ σ with rule := (σ.rule.1, Op.Activation.activateWith σ.rule.2), activation_degree := (Op.Activation.activateWith σ.rule.2).actDegree }}", True),
    ("self.assert_is_not_vector(activation_degree)", "(if σ.rule.2.vector then .error .value else .ok σ)", False),
    ("rule.trigger(implication)", TRIG_LOCAL, True),
    ("heapq.heappush(activate, (-activation_degree, index))",
     "{{ σ with activate := Op.Activation.heappush σ.activate (X.neg σ.activation_degree, σ.index) }}", True),
    ("heapq.heappush(activate, (activation_degree, index))",
     "{{ σ with activate := Op.Activation.heappush σ.activate (σ.activation_degree, σ.index) }}", True),
    ("index = heapq.heappop(activate)[1]", "(Py.popTop σ.activate >>= fun p => .ok {{ σ with activate := p.2, index := p.1.2 }})", False),
    ("rule_block.rules[index].trigger(implication)",
     "(Py.Act.triggerAt σ.visited σ.fires σ.index >>= fun p => .ok {{ σ with visited := p.1, fires := p.2 }})", False),
    # Proportional: the list `activate` holds rule objects = positions among the visited rules
    ("activate.append(rule)", "{{ σ with activate := σ.activate ++ [σ.rule.1] }}", True),
    ("ref.activation_degree /= sum_degrees",
     "(Py.Act.modifyAt σ.visited σ.ref (fun r => {{ r with actDegree := X.div r.actDegree σ.sum_degrees }}) >>= fun v => .ok {{ σ with visited := v }})", False),
    ("ref.trigger(implication)",
     "(Py.Act.triggerAt σ.visited σ.fires σ.ref >>= fun p => .ok {{ σ with visited := p.1, fires := p.2 }})", False),
]
ACT_EXT = [
    ("rule.is_loaded()", "σ.rule.2.loaded", "Bool", True),
    ("rule_block.rules", "rules", f"List ({VIS})", True),
    ("self.rules", "n", "Nat", True),
    ("self.threshold", "t", "X Rat", True),
    ("self.comparator.operator(_0, _1)", "(cmp.eval {0} {1})", "Bool", True),
    ("scalar(_0)", "{0}", "X Rat", True, ["X Rat"]),
]


def act(cls, extra_locals=None, params=None, **kw):
    loc = {"rule": VIS, "visited": f"List ({VIS})", "fires": "List (Op.Activation.Fire Rat)"}
    loc.update(extra_locals or {})
    return dict({"name": f"{cls}_activate", "module": "fuzzylite.activation", "object": f"{cls}.activate", "file": "CodeActivation",
                 "params": [("rules", f"List ({VIS})")] + (params or []),
                 "alias_locals": {"conjunction": "rule_block.conjunction", "disjunction": "rule_block.disjunction",
                                  "implication": "rule_block.implication"},
                 "locals": loc, "externals": ACT_EXT, "stmt_externals": ACT_STMT,
                 "loop_writeback": {"rule": "{ σ with visited := σ.visited ++ [σ.rule] }"}}, **kw)


# ---- loaders of rule.py (Consequent.load, Antecedent.load)
# Objects: engine = Op.EngineInfo `e`, variable = Op.VarInfo, hedge / term object = the name it was looked up by,
# `{o.name: o for o in l}` = the list l (get: last entry of the name).  `proposition` is a second reference to the
# Proposition appended last (alias_last).
LOAD_PROP = "Py.Load.Proposition"
LOAD_EXT = [
    ("self.text", "text", "String", True),
    ("_0.split()", "(Py.split {0})", "List String", True, ["String"]),
    ("engine.output_variables", "(Py.Load.outputs e)", "List Op.VarInfo", True),
    ("engine.variables", "e.vars", "List Op.VarInfo", True),
    ("{v.name: v for v in _0}", "{0}", "List Op.VarInfo", True, ["List Op.VarInfo"]),
    ("_0.get(_1)", "(Py.Load.varGet {0} {1})", "Option Op.VarInfo", True, ["List Op.VarInfo", "String"]),
    ("Proposition(_0)", "({{ variable_ := {0} }} : Py.Load.Proposition)", LOAD_PROP, True, ["Op.VarInfo"]),
    ("_0 in factory", "(e.hedges.contains {0})", "Bool", True, ["String"]),
    ("factory.construct(_0)", "{0}", "String", True, ["String"]),
    ("_0.terms", "{0}.terms", "List String", True, ["Op.VarInfo"]),
    ("{t.name: t for t in _0}", "{0}", "List String", True, ["List String"]),
    ("_0.get(_1)", "(Py.Load.termGet {0} {1})", "Option String", True, ["List String", "String"]),
]
LOAD_FIELDS = {(LOAD_PROP, "variable"): "Op.VarInfo", (LOAD_PROP, "hedges"): "List String", (LOAD_PROP, "term"): "Option String",
               ("Py.Load.Operator", "left"): "Py.Load.Expression", ("Py.Load.Operator", "right"): "Py.Load.Expression"}
LOAD_TRUTHY = {"Option Op.VarInfo": "(Py.Load.varTruthy {0})"}
# ---- end loaders

DEG = {"activation_degree": "X Rat"}
HEAP = {"activated": "Nat", "activation_degree": "X Rat", "index": "Nat", "activate": "List (X Rat × Nat)"}

# ---------------------------------------------------------------- Function.parse (second half: postfix tokens -> tree)
PARSE_PROFILE = {
    "name": "Function_parse", "module": "fuzzylite.term", "object": "Function.parse", "file": "CodeFunctionParse",
    "params": [("tbl", "Lang.Table"), ("formula", "String")],
    "alias_locals": {"factory": "settings.factory_manager.function"},
    "locals": {"postfix": "List String", "stack": "Stack Py.Node", "token": "String", "element": "Option Lang.Elem",
               "is_operand": "Bool", "node": "Py.Node"},
    "ret": "Py.Node",
    "record_fields": {("Py.Node", "left"): "Option Py.Node", ("Py.Node", "right"): "Option Py.Node"},
    "externals": ELEM_EXT + [
        ("cls.infix_to_postfix(_0)", "(Py.infixToPostfix tbl {0})", "List String", False),
        ("_0.split()", "{0}", "List String", True, ["List String"]),
        ("factory.copy(_0)", "(Py.copyElem tbl {0})", "Lang.Elem", False),
        ("to_float(_0)", "(Py.float {0})", "X Rat", False),
        ("Function.Node(_0)", "({{ element := some {0} }} : Py.Node)", "Py.Node", True, ["Lang.Elem"]),
        ("Function.Node(constant=_0)", "({{ constant := {0} }} : Py.Node)", "Py.Node", True, ["X Rat"]),
        ("Function.Node(variable=_0)", "({{ variable_ := {0} }} : Py.Node)", "Py.Node", True, ["String"]),
    ],
}
# ---- Engine.is_ready (C19): the abstract configuration of Op/IsReady.lean
RDY = "Op.Ready"
RDY_ERR = "{{{{ σ with errors := σ.errors ++ [Op.Ready.Err.{0}] }}}}"
READY_STMT = [
    ("errors.append(f\"Engine '{self.name}' does not have any input variables\")", RDY_ERR.format("noInputs"), True),
    ("errors.append(f\"Engine '{self.name}' does not have any output variables\")", RDY_ERR.format("noOutputs"), True),
    ("errors.append(f\"Engine '{self.name}' does not have any rule blocks\")", RDY_ERR.format("noBlocks"), True),
    # a component is named by its position (`variable` is a Lean keyword: the translator renames it `variable_`)
    ("errors.append(f\"Output variable '{variable_.name}' does not have any terms\")", RDY_ERR.format("noTerms σ.variable_.1"), True),
    ("errors.append(f\"Output variable '{variable_.name}' does not have any defuzzifier\")", RDY_ERR.format("noDefuzzifier σ.variable_.1"), True),
    ("errors.append(f\"Output variable '{variable_.name}' does not have any aggregation operator\")",
     RDY_ERR.format("noAggregation σ.variable_.1"), True),
    ("errors.append(f'Rule block {name_or_index} does not have any rules')", RDY_ERR.format("noRules σ.index"), True),
    ("errors.append(f\"Rule block {name_or_index} does not have any conjunction operator and is needed by {conjunction_needed} rule{'s'[:conjunction_needed ^ 1]}\")",
     RDY_ERR.format("noConjunction σ.index"), True),
    ("errors.append(f\"Rule block {name_or_index} does not have any disjunction operator and is needed by {disjunction_needed} rule{'s'[:disjunction_needed ^ 1]}\")",
     RDY_ERR.format("noDisjunction σ.index"), True),
    ("errors.append(f\"Rule block {name_or_index} does not have any implication operator and is needed by {implication_needed} rule{'s'[:implication_needed ^ 1]}\")",
     RDY_ERR.format("noImplication σ.index"), True),
]
READY_EXT = [
    ("errors is None", "errors0.isNone", "Bool", True),
    ("self.input_variables", "e.inputs", "Nat", True),                                # only its truth value is used
    ("self.output_variables", "(Op.Ready.enumFrom 0 e.outputs)", f"List (Nat × {RDY}.Output)", True),   # (position, variable)
    ("self.rule_blocks", "e.blocks", f"List {RDY}.Block", True),
    ("variable_.terms", "σ.variable_.2.hasTerms", "Bool", True),
    ("isinstance(variable_.defuzzifier, IntegralDefuzzifier)", "(σ.variable_.2.defuzz == .integral)", "Bool", True),
    ("variable_.defuzzifier", "(σ.variable_.2.defuzz != .none)", "Bool", True),
    ("variable_.aggregation", "σ.variable_.2.aggr", "Bool", True),
    ("rule_block.rules", "σ.rule_block.rules", f"List {RDY}.Rule", True),
    ("rule_block.conjunction", "σ.rule_block.conj", "Bool", True),
    ("rule_block.disjunction", "σ.rule_block.disj", "Bool", True),
    ("rule_block.implication", "σ.rule_block.impl", "Bool", True),
    ("f' {Rule.AND} ' in rule.antecedent.text", "σ.rule.textAnd", "Bool", True),
    ("f' {Rule.OR} ' in rule.antecedent.text", "σ.rule.textOr", "Bool", True),
    ("rule.is_loaded()", "σ.rule.loaded", "Bool", True),
    ("rule.consequent.conclusions", "σ.rule.concls", "List Nat", True),               # the variable each one refers to
    ("isinstance(consequent.variable, OutputVariable)", "(e.outputs[σ.consequent]?).isSome", "Bool", True),
    ("isinstance(consequent.variable.defuzzifier, IntegralDefuzzifier)", "(Op.Ready.isIntegral e.outputs σ.consequent)", "Bool", True),
]
READY_PROFILE = {
    "name": "Engine_is_ready", "module": "fuzzylite.engine", "object": "Engine.is_ready", "file": "CodeReady",
    "params": [("e", f"{RDY}.Engine"), ("errors0", f"Option (List {RDY}.Err)")],
    "init": {"errors": "(errors0.getD [])"},
    "ignore_locals": ["name_or_index"],
    "locals": {"errors": f"List {RDY}.Err", "variable": f"Nat × {RDY}.Output", "index": "Nat", "rule_block": f"{RDY}.Block",
               "conjunction_needed": "Nat", "disjunction_needed": "Nat", "implication_needed": "Nat",
               "rule": f"{RDY}.Rule", "mamdani_consequents": "Nat", "consequent": "Nat"},
    "ret": "Bool",
    "externals": READY_EXT, "stmt_externals": READY_STMT,
}
# ---- end Engine.is_ready

# ---- OutputVariable.defuzzify (C12): the value cascade of Op/Cascade.lean; the array `value` is the list of its rows
XL = "List (X Rat)"
CASCADE_PROFILE = {
    "name": "OutputVariable_defuzzify", "module": "fuzzylite.variable", "object": "OutputVariable.defuzzify", "file": "CodeCascade",
    # c: the settings of the variable; has_defuzzifier: `self.defuzzifier` is set; raw: what `defuzzifier.defuzzify(...)`
    # returns or raises; s: value / previous_value before the call
    "params": [("c", "Op.CascadeCfg Rat"), ("has_defuzzifier", "Bool"), ("raw", f"Py.M ({XL})"), ("s", "Op.OutState Rat")],
    "init": {"self_value": "s.value", "self_previous_value": "s.previous"},
    "locals": {"value": XL, "previous_value": "X Rat", "value_i": "X Rat", "self_value": XL, "self_previous_value": "X Rat"},
    "externals": [
        ("self.enabled", "c.enabled", "Bool", True),
        ("self.defuzzifier", "has_defuzzifier", "Bool", True),
        ("np.array(self.defuzzifier.defuzzify(self.fuzzy, self.minimum, self.maximum), dtype=float)", "raw", XL, False),
        ("np.take(self.value, -1).astype(float)", "(Op.lastOr X.nan σ.self_value)", "X Rat", True),
        ("self.lock_previous", "c.lockPrev", "Bool", True),
        ("self.previous_value", "σ.self_previous_value", "X Rat", True),
        ("self.default_value", "c.dflt", "X Rat", True),
        ("np.isnan(_0)", "(X.isnan {0})", "Bool", True, ["X Rat"]),
    ],
    "stmt_externals": [
        ("value[np.isnan(value)] = self.default_value", "{{ σ with value := Py.Cascade.maskNan σ.value c.dflt }}", True),
        ("self.value = value", "{{ σ with self_value := Py.Cascade.setValue c σ.value }}", True),
    ],
}
# ---- end OutputVariable.defuzzify

# ---- Engine.process (C01): the top-level structure of Op.Engine.processRow (one input row)
ENG = "Op.Engine"
PROCESS_PROFILE = {
    "name": "Engine_process", "module": "fuzzylite.engine", "object": "Engine.process", "file": "CodeEngine",
    # fz: the fuzzy output (list of activated terms) of the output variable at each position before the call
    "params": [("F", "Fn Rat"), ("e", f"{ENG}.EngineD Rat"), ("fz", f"Nat → List ({ENG}.Act Rat)")],
    "init": {"fuzzy": "((List.range e.outputs.length).map fz)"},
    "locals": {"variable": f"Nat × {ENG}.OutVar Rat", "block": f"{ENG}.Block Rat", "fuzzy": f"{ENG}.Fuzzy Rat",
               "rules": f"List (List ({ENG}.RuleObs Rat))", "raw": "List (Option (X Rat))"},
    "externals": [
        ("self.output_variables", "(Py.enumerate e.outputs)", f"List (Nat × {ENG}.OutVar Rat)", True),   # (position, variable)
        ("self.rule_blocks", "e.blocks", f"List ({ENG}.Block Rat)", True),
        ("block.enabled", "σ.block.enabled", "Bool", True),
    ],
    "stmt_externals": [
        ("variable_.fuzzy.clear()", "{{ σ with fuzzy := σ.fuzzy.set σ.variable_.1 [] }}", True),
        ("block.activate()",
         "(Py.Eng.ofOption (Op.Engine.activateBlock F e.inputs e.outputs σ.block σ.fuzzy) >>= fun p => .ok {{ σ with fuzzy := p.1, rules := σ.rules ++ [p.2] }})", False),
        ("variable_.defuzzify()",
         "(Py.Eng.defuzzifyVar F e σ.fuzzy σ.variable_ >>= fun r => .ok {{ σ with raw := σ.raw ++ [r] }})", False),
    ],
}
# ---- end Engine.process
# ---- Consequent.modify (C07): begin
PROP = "Py.Cons.Proposition"
CONS_EXT = [
    ("self.conclusions", "conclusions", f"List {PROP}", True),
    ("not _0.variable", "(!(Py.Cons.varTruth {0}.var))", "Bool", True, [PROP]),      # Variable.__len__
    ("_0.variable", "{0}.var", "Option Py.Cons.Var", True, [PROP]),
    ("_0.enabled", "{0}.enabled", "Bool", True, ["Py.Cons.Var"]),
    ("_0.hedges", "{0}.hedges", "List (X Rat → X Rat)", True, [PROP]),
    ("_0.hedge(_1)", "({0} {1})", "X Rat", True, ["X Rat → X Rat", "X Rat"]),
    ("_0.term", "{0}.term", "Option String", True, [PROP]),
    ("Activated(_0, _1, implication)", "(Py.Cons.mkActivated san {0} {1} impl)", "Py.Cons.ATerm", True, ["String", "X Rat"]),
    ("isinstance(_0, OutputVariable)", "{0}.isOutput", "Bool", True, ["Py.Cons.Var"]),
]
CONS_STMT = [
    ("proposition.variable.fuzzy.terms.append(activated_term)",
     "(Py.deref σ.proposition.var >>= fun v => .ok {{ σ with out := σ.out ++ [Py.Cons.contributionOf v σ.activated_term] }})", False),
]
CONS_PROFILES = [
    {
        "name": "Consequent_modify", "module": "fuzzylite.rule", "object": "Consequent.modify", "file": "CodeConsequent",
        "params": [("san", "X Rat → X Rat"), ("impl", "String"), ("d", "X Rat"), ("conclusions", f"List {PROP}")],
        "init": {"activation_degree": "d"},
        "locals": {"activation_degree": "X Rat", "proposition": PROP, "hedge": "X Rat → X Rat", "activated_term": "Py.Cons.ATerm",
                   "out": "List (Spec.Consequent.Act (X Rat) String)"},
        "externals": CONS_EXT, "stmt_externals": CONS_STMT,
    },
]
# ---- Consequent.modify (C07): end

# ---- Aggregated.grouped_terms, WeightedAverage.defuzzify, WeightedSum.defuzzify (C10): begin
W_ACT = "Op.Weighted.Act String Rat"
W_TERM = "Op.Weighted.WTerm String Rat"
W_TYPE = "Op.Weighted.WType"
W_AGGR = "Py.W.Aggregated"
W_NORM = "X Rat → X Rat → X Rat"
W_DICT = f"List (String × {W_ACT})"
W_COMMON_EXT = [
    ("_0.term", "{0}.1", W_TERM, True, [W_ACT]),
    ("_0.degree", "{0}.2", "X Rat", True, [W_ACT]),
]
GROUPED_EXT = [
    ("self.aggregation", "agg", f"Option ({W_NORM})", True),
    ("UnboundedSum()", "Gen.Norm.UnboundedSum", W_NORM, True),
    ("{}", "[]", W_DICT, True),
    ("self.terms", "terms", f"List ({W_ACT})", True),
    ("_0.name", "{0}.name", "String", True, [W_TERM]),
    ("_0 not in groups", "(!(Py.Dict.mem σ.groups {0}))", "Bool", True, ["String"]),
    ("Activated(_0, _1, implication=None)", "({0}, Op.Weighted.setDegree {1})", W_ACT, True, [W_TERM, "X Rat"]),
    # `aggregated_term` is a reference to an object stored in `groups`: its key
    ("aggregated_term.degree", "(Py.Dict.get σ.groups σ.aggregated_term >>= fun g => .ok g.2)", "X Rat", False),
    ("aggregation.compute(_0, _1)", "(σ.aggregation {0} {1})", "X Rat", True, ["X Rat", "X Rat"]),
] + W_COMMON_EXT
GROUPED_STMT = [
    ("groups[_0] = _1", "{{ σ with groups := Py.Dict.set σ.groups {0} {1} }}", True, ["String", W_ACT]),
    ("aggregated_term = groups[_0]", "(Py.Dict.get σ.groups {0} >>= fun _ => .ok {{ σ with aggregated_term := {0} }})", False, ["String"]),
    ("aggregated_term.degree = _0",
     "(Py.Dict.modify σ.groups σ.aggregated_term (fun g => (g.1, Op.Weighted.setDegree {0})) >>= fun gs => .ok {{ σ with groups := gs }})",
     False, ["X Rat"]),
]
DEFUZZ_EXT = [
    ("isinstance(_0, Aggregated)", "({0}).isSome", "Bool", True, [f"Option {W_AGGR}"]),
    ("self.type", "ty", W_TYPE, True),
    ("WeightedDefuzzifier.Type.Automatic", "Op.Weighted.WType.automatic", W_TYPE, True),
    ("WeightedDefuzzifier.Type.Tsukamoto", "Op.Weighted.WType.tsukamoto", W_TYPE, True),
    ("self.infer_type(_0)", "(Py.W.inferType {0})", W_TYPE, False, [W_AGGR]),
    ("_0.terms", "{0}.terms", f"List ({W_ACT})", True, [W_AGGR]),
    ("scalar(_0)", "{0}", "X Rat", True, ["X Rat"]),
    ("_0.grouped_terms().values()", "(Op.Weighted.groupedTerms {0}.aggregation {0}.terms)", f"List ({W_ACT})", True, [W_AGGR]),
    ("_0.__getattribute__(_1)(_2)", "(Py.W.callMethod {0} {1} {2})", "X Rat", False, [W_TERM, "String", "X Rat"]),
    ("np.where(_0, _1, _2)", "(X.sel {0} {1} {2})", "X Rat", True, ["Bool", "X Rat", "X Rat"]),
    ("_0.squeeze()", "{0}", "X Rat", True, ["X Rat"]),
] + W_COMMON_EXT


def wdefuzz(cls):
    return {"name": f"{cls}_defuzzify", "module": "fuzzylite.defuzzifier", "object": f"{cls}.defuzzify", "file": "CodeWeighted",
            "params": [("ty", W_TYPE), ("term", f"Option {W_AGGR}")],
            "locals": {"fuzzy_output": f"Option {W_AGGR}", "this_type": W_TYPE, "weighted_sum": "X Rat", "weights": "X Rat",
                       "membership": "String", "activated": W_ACT, "w": "X Rat", "z": "X Rat", "y": "X Rat"},
            "ret": "X Rat", "externals": DEFUZZ_EXT}


W_PROFILES = [
    {
        "name": "Aggregated_grouped_terms", "module": "fuzzylite.term", "object": "Aggregated.grouped_terms", "file": "CodeWeighted",
        "params": [("agg", f"Option ({W_NORM})"), ("terms", f"List ({W_ACT})")],
        "locals": {"aggregation": W_NORM, "groups": W_DICT, "activated": W_ACT, "aggregated_term": "String"},
        "ret": W_DICT, "externals": GROUPED_EXT, "stmt_externals": GROUPED_STMT,
    },
    wdefuzz("WeightedAverage"),
    wdefuzz("WeightedSum"),
]
# ---- Aggregated.grouped_terms, WeightedAverage.defuzzify, WeightedSum.defuzzify (C10): end

PROFILES = [
    {
        "name": "Rule_parse", "module": "fuzzylite.rule", "object": "Rule.parse", "file": "CodeRule",
        "params": [("text", "String")],
        "locals": {"comment_index": "Int", "rule": "String", "antecedent": "List String", "consequent": "List String",
                   "weight": "X Rat", "state": "Nat", "token": "String",
                   "self_antecedent_text": "String", "self_consequent_text": "String", "self_weight": "X Rat"},
        "externals": STR_EXT,
    },
    {
        "name": "infix_to_postfix", "module": "fuzzylite.term", "object": "Function.infix_to_postfix", "file": "CodeFunction",
        "params": [("tbl", "Lang.Table"), ("formula", "String")],
        "rebind": {"formula": "formula1"},
        "alias_locals": {"factory": "settings.factory_manager.function"},
        "locals": {"formula1": "List String", "queue": "List String", "stack": "Stack String", "token": "String",
                   "element": "Option Lang.Elem", "is_operand": "Bool", "top": "Lang.Elem", "postfix": "String"},
        "ret": "String",
        "fuel": {2: "σ.stack.length + 1", 3: "σ.stack.length + 1", 4: "σ.stack.length + 1", 5: "σ.stack.length + 1"},
        "externals": ELEM_EXT + [("cls.format_infix(_0)", "(Op.formatInfix tbl {0})", "List String", True),
                                 ("_0.split()", "{0}", "List String", True, ["List String"]),
                                 ("deque()", "[]", "List String", True),
                                 ("' '.join(_0)", "(Py.joinSp {0})", "String", True)],
    },
    PARSE_PROFILE,
    # ---- loaders of rule.py
    {
        "name": "Consequent_load", "module": "fuzzylite.rule", "object": "Consequent.load", "file": "CodeLoad",
        "params": [("e", "Op.EngineInfo"), ("text", "String")],
        "locals": {"state": "Nat", "conclusions": f"List {LOAD_PROP}", "output_variables": "List Op.VarInfo", "token": "String",
                   "variable": "Option Op.VarInfo", "hedge": "String", "terms": "List String", "term": "Option String",
                   "self_conclusions": f"List {LOAD_PROP}"},
        "alias_last": {"proposition": "conclusions"},
        "record_fields": LOAD_FIELDS, "truthy": LOAD_TRUTHY, "none_init": ["token"],
        "externals": LOAD_EXT,
        "stmt_externals": [("self.unload()", "{{ σ with self_conclusions := [] }}", True),
                           ("factory = settings.factory_manager.hedge", "σ", True)],
    },
    {
        # the callee `Function.infix_to_postfix` is the parameter `post` (its own tie is `infix_to_postfix`)
        "name": "Antecedent_load", "module": "fuzzylite.rule", "object": "Antecedent.load", "file": "CodeLoad",
        "params": [("e", "Op.EngineInfo"), ("post", "String → Py.M String"), ("text", "String")],
        "locals": {"postfix": "String", "state": "Nat", "stack": "Stack Py.Load.Expression", "variables": "List Op.VarInfo",
                   "token": "String", "variable": "Option Op.VarInfo", "hedge": "String", "terms": "List String",
                   "term": "Option String", "operator": "Py.Load.Operator", "self_expression": "Py.Load.Expression"},
        "alias_last": {"proposition": {"list": "stack", "type": LOAD_PROP, "embed": "(Py.Load.Expression.prop {0})",
                                       "view": "(Py.Load.Expression.asProp {0})"}},
        "record_fields": LOAD_FIELDS, "truthy": LOAD_TRUTHY, "none_init": ["token"],
        "skip_stmts": ["settings.logger.debug(_0)"],
        "externals": LOAD_EXT + [("Function.infix_to_postfix(_0)", "(post {0})", "String", False, ["String"]),
                                 ("deque()", "[]", "List Py.Load.Expression", True),
                                 ("isinstance(_0, Any)", '({0} == "any")', "Bool", True, ["String"]),
                                 ("Operator(_0)", "({{ name := {0} }} : Py.Load.Operator)", "Py.Load.Operator", True, ["String"]),
                                 ("operator", "(Py.Load.Expression.ofOp σ.operator)", "Py.Load.Expression", True)],
        "stmt_externals": [("self.unload()", "{{ σ with self_expression := Py.Load.Expression.none }}", True),
                           ("factory = settings.factory_manager.hedge", "σ", True),
                           ("errors = ' '.join((str(element) for element in stack))", "σ", True)],
    },
    # ---- end loaders
    act("General"),
    act("First", dict(DEG, activated="Nat"), [("n", "Nat"), ("t", "X Rat")]),
    act("Last", dict(DEG, activated="Nat"), [("n", "Nat"), ("t", "X Rat")]),
    act("Threshold", DEG, [("cmp", "Spec.Activation.Comparator"), ("t", "X Rat")]),
    act("Highest", HEAP, [("n", "Nat")], fuel={2: "σ.activate.length + 1"}),
    act("Lowest", HEAP, [("n", "Nat")], fuel={2: "σ.activate.length + 1"}),
    act("Proportional", dict(DEG, sum_degrees="X Rat", activate="List Nat", ref="Nat"), loop_rename={2: {"rule": "ref"}}),
    READY_PROFILE,
    CASCADE_PROFILE,
    PROCESS_PROFILE,
] + CONS_PROFILES + W_PROFILES

# ---- FLD grid (Op.increment, FldExporter.write_from_scope)
# `Op.increment` mutates the list `x` in place: the parameter `x0` initialises the local `x`, the recursive call
# copies the callee's final `x` back (`inout`).  The digits are naturals; the maxima are integers because
# `write_from_scope` computes them by subtraction (`values - 1` is -1 for `values = 0`).
FLD_VAR = "Py.Fld.Var"
PROFILES += [
    {
        "name": "Op_increment", "module": "fuzzylite.operation", "object": "Operation.increment", "file": "CodeFld",
        "params": [("x0", "List Nat"), ("minimum", "List Nat"), ("maximum", "List Int"), ("position0", "Option Int")],
        "init": {"x": "x0", "position": "position0"},
        "locals": {"x": "List Nat", "position": "Option Int", "incremented": "Bool"},
        "ret": "Bool",
        "self_call": "Op.increment(_0, _1, _2, _3)", "rec_fuel": "x0.length + 1", "inout": {"x0": "x"},
    },
    {
        # the call with `active_variables` given (the membership test is the field `active` of a variable); the
        # floating-point guess of the root is an arbitrary function `guess values inputs`; the export itself
        # (`self.write`) is outside: the observable is the list `input_values` of rows
        "name": "write_from_scope", "module": "fuzzylite.exporter", "object": "FldExporter.write_from_scope", "file": "CodeFld",
        "params": [("vars", f"List {FLD_VAR}"), ("values", "Nat"), ("allVariables", "Bool"), ("guess", "Nat → Nat → Nat")],
        "skip_if": ["active_variables is None"],
        "locals": {"inputs": "Nat", "root": "Int", "resolution": "Int", "sample_values": "List Nat", "min_values": "List Nat",
                   "max_values": "List Int", "input_values": "List (List (X Rat))", "incremented": "Bool",
                   "row": "List (X Rat)", "index": "Nat", "variable": FLD_VAR, "dx": "X Rat", "value": "X Rat"},
        "fuel": {1: "Op.Fld.total (σ.max_values.map Int.toNat) + 1", 3: "σ.root.toNat + 1", 4: "values + 1"},
        "externals": [
            ("engine.input_variables", "vars", f"List {FLD_VAR}", True),
            ("scope == FldExporter.ScopeOfValues.AllVariables", "allVariables", "Bool", True),
            ("int(pow(_0, 1.0 / _1))", "(guess {0} {1})", "Nat", True, ["Nat", "Nat"]),
            ("_0 in active_variables", "{0}.active", "Bool", True, [FLD_VAR]),
            ("_0 not in active_variables", "(!{0}.active)", "Bool", True, [FLD_VAR]),
            ("_0.drange", "{0}.drange", "X Rat", True, [FLD_VAR]),
            ("_0.minimum", "{0}.minimum", "X Rat", True, [FLD_VAR]),
            ("np.take(_0.value, -1).astype(float)", "{0}.value", "X Rat", True, [FLD_VAR]),
        ],
        "stmt_externals": [
            # the call of the other translated function: its generated definition; `sample_values` is mutated in place
            ("incremented = Op.increment(sample_values, min_values, max_values)",
             "(Op_increment.run σ.sample_values σ.min_values σ.max_values none {{}} >>= fun r => Py.deref r.ret >>= fun v => "
             ".ok {{ σ with sample_values := r.x, incremented := v }})", False),
            ("self.write(engine, writer, np.array(input_values))", "σ", True),
        ],
    },
]

# ---- Python representation (Representation.construction_arguments)
# The call with `fields` given: `fields name` is the text `self.repr` produces for the value stored under `name`
# (`None` = the name is not a key); `signature` is `inspect.signature(...).parameters.values()` (with `self`),
# `noInit` says that the class has no constructor of its own.
PARAM = "Op.PyRepr.Param"
PROFILES += [
    {
        "name": "construction_arguments", "module": "fuzzylite.library", "object": "Representation.construction_arguments",
        "file": "CodeRepr",
        "params": [("noInit", "Bool"), ("signature", f"List {PARAM}"), ("fields", "String → Option String"), ("positional0", "Bool")],
        "init": {"positional": "positional0"},
        "skip_if": ["fields is None"],
        "locals": {"positional": "Bool", "arguments": "List String", "constructor": f"List {PARAM}", "parameter": PARAM,
                   "value": "String", "argument": "String"},
        "ret": "List String",
        "externals": [
            ("x.__class__.__init__ == object.__init__", "noInit", "Bool", True),
            ("list(inspect.signature((cast_as or x.__class__).__init__).parameters.values())", "signature", f"List {PARAM}", True),
            ("_0.name", "{0}.name", "String", True, [PARAM]),
            ("_0 in fields", "(fields {0}).isSome", "Bool", True, ["String"]),
            ("self.repr(fields[_0])", "(Py.Repr.field fields {0})", "String", False, ["String"]),
            ("_0.default != _0.empty", "{0}.hasDefault", "Bool", True, [PARAM]),
        ],
    },
]

# ---- Settings.context (generator-based context manager: enter = up to the yield, exit = the finally block)
# Keys are the indices of the keyword parameters / attributes (model `Op.Settings`), values are abstract identifiers;
# `None` = argument not given.  The object is the local `store` (attribute index -> value).  The renaming of the key
# `factory_manager` to the attribute `_factory_manager` keeps the index (and the entry stays last).
SET_LOCALS = {"context_settings": "List (Nat × Option Nat)", "rollback_settings": "Nat → Option Nat", "key": "Nat",
              "value": "Option Nat", "store": "Nat → Option Nat"}
SET_EXT = [("locals().items()", "kwargs", "List (Nat × Option Nat)", True),
           ("_0 == 'self'", "false", "Bool", True, ["Nat"]),
           ("vars(self).copy()", "σ.store", "Nat → Option Nat", True)]
SET_STMT = [("if 'factory_manager' in context_settings:\n    context_settings['_factory_manager'] = context_settings.pop('factory_manager')", "σ", True),
            ("setattr(self, key, value)", "{{ σ with store := Py.Settings.setattr σ.store σ.key σ.value }}", True),
            ("setattr(self, key, rollback_settings[key])", "{{ σ with store := Py.Settings.setattr σ.store σ.key (σ.rollback_settings σ.key) }}", True)]
PROFILES += [
    dict({"name": "Settings_context_enter", "module": "fuzzylite.library", "object": "Settings.context", "file": "CodeSettings",
          "part": "enter", "params": [("kwargs", "List (Nat × Option Nat)"), ("store0", "Nat → Option Nat")], "init": {"store": "store0"},
          "locals": SET_LOCALS, "externals": SET_EXT, "stmt_externals": SET_STMT}),
    dict({"name": "Settings_context_exit", "module": "fuzzylite.library", "object": "Settings.context", "file": "CodeSettings",
          "part": "exit", "params": [], "locals": SET_LOCALS, "externals": SET_EXT, "stmt_externals": SET_STMT}),
]

FILES = {
    "CodeRule": {"imports": ["FlVerif.Op.PyExt"]},
    "CodeFunction": {"imports": ["FlVerif.Op.PyExt"]},
    "CodeFunctionParse": {"imports": ["FlVerif.Op.PyExtFunction"]},
    "CodeActivation": {"imports": ["FlVerif.Op.PyExtAct"]},
    "CodeReady": {"imports": ["FlVerif.Op.PyExtReady"]},
    "CodeCascade": {"imports": ["FlVerif.Op.PyExtCascade"]},
    "CodeEngine": {"imports": ["FlVerif.Op.PyExtEngine"]},
    "CodeConsequent": {"imports": ["FlVerif.Op.PyExtCons"]},
    "CodeWeighted": {"imports": ["FlVerif.Op.PyExtWeighted"]},
    "CodeLoad": {"imports": ["FlVerif.Op.PyExtLoad"]},  # loaders of rule.py
    # ---- FLD grid
    "CodeFld": {"imports": ["FlVerif.Op.PyExtFld"]},
    # ---- Python representation
    "CodeRepr": {"imports": ["FlVerif.Op.PyExtRepr"]},
    # ---- Settings.context
    "CodeSettings": {"imports": ["FlVerif.Op.PyExtSettings"]},
}
