"""Profiles of the terms whose membership is not a traced formula (C03 / C10): `Discrete.membership`, `Discrete.x` / `y`,
`Discrete.to_xy`, `Discrete.create`, `Term.discretize`, `Linear.membership`, `Constant.membership`,
`Term.update_reference` / `Linear.update_reference`, `Aggregated.range`, `Aggregated.highest_activated_term`.

Externals: `lean/FlVerif/Op/PyExtDiscrete.lean` (`Py.Disc.*`) and the NumPy vocabulary `Py.Np.*` of the integral
defuzzifiers.  `np.interp` is the external whose meaning is the interpolation model `Op.interp` of C03."""
from .base import W_ACT, W_NORM

X = "X Rat"
ROW, MAT, ND = "Py.Np.Row", "Py.Np.Mat", "Py.Np.Nd"
VALUES, COORD, XY, ARG = "Py.Disc.Values", "Py.Disc.Coord", "Py.Disc.XY", "Py.Disc.Arg"
ENGINE = "Py.Disc.Engine"

VALUES_EXT = [
    ("self.values.size", "values.size", "Nat", True),
    ("self.values.ndim", "values.ndim", "Nat", True),
    ("self.values[:, _0]", "(Py.Disc.Values.column values {0})", ND, False, ["Nat"]),
]

# ---- Discrete.membership (C03).  values: `self.values`; height: `self.height`; x: a scalar argument;
# nf: what `np.interp` returns for sample points that are not finite (an arbitrary function)
DISCRETE_MEMBERSHIP = {
    "name": "Discrete_membership", "module": "fuzzylite.term", "object": "Discrete.membership", "file": "CodeDiscrete",
    "params": [("nf", f"{X} → {ROW} → {ROW} → {X}"), ("values", VALUES), ("height", X), ("x", X)],
    "rebind": {"x": "x1"},
    "locals": {"x1": X, "y": X}, "ret": X,
    "externals": VALUES_EXT + [
        ("self.height", "height", X, True),
        ("scalar(_0)", "{0}", X, True, [X]),
        ("np.isnan(_0)", "(X.isnan {0})", "Bool", True, [X]),
        ("np.where(_0, _1, _2)", "(X.sel {0} {1} {2})", X, True, ["Bool", X, X]),
        ("np.interp(_0, _1, _2)", "(Py.Disc.npInterp nf {0} {1} {2})", X, False, [X, ND, ND]),
    ],
}


def column(name):
    return {"name": f"Discrete_{name}", "module": "fuzzylite.term", "object": f"Discrete.{name}", "file": "CodeDiscrete",
            "params": [("values", VALUES)], "locals": {}, "ret": ND, "externals": VALUES_EXT}


# ---- Discrete.to_xy: x0, y0 are the arguments `x`, `y`
TO_XY = {
    "name": "Discrete_to_xy", "module": "fuzzylite.term", "object": "Discrete.to_xy", "file": "CodeDiscrete",
    "params": [("x0", COORD), ("y0", COORD)],
    "init": {"x": "x0", "y": "y0"},
    "locals": {"x": COORD, "y": COORD}, "ret": VALUES,
    "externals": [
        ("array(_0, dtype=settings.float_type)", "{0}", COORD, True, [COORD]),
        ("_0.shape", "{0}.shape", "List Nat", True, [COORD]),
        ("array([_0, _1]).T", "(Py.Disc.stackT {0} {1})", VALUES, False, [COORD, COORD]),
    ],
}

# ---- Discrete.create: parse = NumPy's conversion of a text to a float; xy0 is the argument `xy`
CREATE = {
    "name": "Discrete_create", "module": "fuzzylite.term", "object": "Discrete.create", "file": "CodeDiscrete",
    "params": [("parse", f"String → Py.M ({X})"), ("name", "String"), ("xy0", XY), ("height", X)],
    "init": {"xy": "xy0"},
    "locals": {"xy": XY, "x": COORD, "y": COORD}, "ret": "Py.Disc.Discrete",
    "externals": [
        ("scalar(0)", "(Py.Disc.Coord.scalar (.fin 0))", COORD, True),
        ("isinstance(_0, str)", "{0}.isStr", "Bool", True, [XY]),
        ("isinstance(_0, Sequence)", "{0}.isSequence", "Bool", True, [XY]),
        ("isinstance(_0, tuple)", "{0}.isTuple", "Bool", True, [XY]),
        ("isinstance(_0, dict)", "{0}.isDict", "Bool", True, [XY]),
        ("_0.split()", "(Py.Disc.XY.split {0})", XY, False, [XY]),
        ("_0[0::2]", "(Py.Disc.XY.slice0 {0})", ARG, False, [XY]),
        ("_0[1::2]", "(Py.Disc.XY.slice1 {0})", ARG, False, [XY]),
        ("_0[_1]", "(Py.Disc.XY.index {0} {1})", ARG, False, [XY, "Nat"]),
        ("[xi for xi in _0.keys()]", "(Py.Disc.XY.keys {0})", ARG, False, [XY]),
        ("[yi for yi in _0.values()]", "(Py.Disc.XY.vals {0})", ARG, False, [XY]),
        ("scalar(_0)", "(Py.Disc.scalarOf parse {0})", COORD, False, [ARG]),
        ("Discrete.to_xy(_0, _1)", "(Discrete_to_xy.run {0} {1} {{}} >>= fun r => Py.deref r.ret)", VALUES, False, [COORD, COORD]),
        ("Discrete(_0, _1, height=_2)", "({{ name := {0}, values := {1}, height := {2} }} : Py.Disc.Discrete)", "Py.Disc.Discrete", True,
         ["String", VALUES, X]),
    ],
}

# ---- Term.discretize: mem = `self.membership` on a vector; the term's name is `name`
DISCRETIZE = {
    "name": "Term_discretize", "module": "fuzzylite.term", "object": "Term.discretize", "file": "CodeDiscrete",
    "params": [("mem", f"{ROW} → Py.M {COORD}"), ("name", "String"), ("start", X), ("end", X), ("resolution", "Nat"),
               ("midpoints", "Bool")],
    "locals": {"x": ROW, "y": COORD, "xy": VALUES}, "ret": "Py.Disc.Discrete",
    "externals": [
        ("Op.midpoints(_0, _1, _2)", "(Py.Np.midpoints {0} {1} {2})", ROW, False, [X, X, "Nat"]),
        ("np.linspace(_0, _1, _2 + 1, endpoint=True)", "(Py.Disc.linspace {0} {1} {2})", ROW, True, [X, X, "Nat"]),
        ("self.membership(_0)", "(mem {0})", COORD, False, [ROW]),
        ("self.name", "name", "String", True),
        ("Discrete.to_xy(_0, _1)", "(Discrete_to_xy.run (.vec {0}) {1} {{}} >>= fun r => Py.deref r.ret)", VALUES, False, [ROW, COORD]),
        ("Discrete(_0, _1)", "({{ name := {0}, values := {1}, height := .fin 1 }} : Py.Disc.Discrete)", "Py.Disc.Discrete", True,
         ["String", VALUES]),
    ],
}

# ---- Constant.membership (C03 / C10): value = `self.value`
CONSTANT = {
    "name": "Constant_membership", "module": "fuzzylite.term", "object": "Constant.membership", "file": "CodeDiscrete",
    "params": [("value", X), ("x", ND)],
    "locals": {"y": ND}, "ret": ND,
    "externals": [("np.full_like(_0, fill_value=self.value)", "(Py.Disc.fullLike {0} value)", ND, True, [ND])],
}

# ---- Linear.membership (C10): coeffs = `self.coefficients`; engine = `self.engine`
LINEAR = {
    "name": "Linear_membership", "module": "fuzzylite.term", "object": "Linear.membership", "file": "CodeDiscrete",
    "params": [("coeffs", f"List ({X})"), ("engine", f"Option {ENGINE}")],
    "locals": {"coefficients": MAT, "constant": X, "inputs": ND, "y": ND}, "ret": ND,
    "externals": [
        ("self.engine.input_values", "(Py.deref engine >>= fun e => .ok e.inputValues)", ND, False),
        ("len(self.engine.input_variables)", "(Py.deref engine >>= fun e => .ok e.n)", "Nat", False),
        ("self.engine", "engine", f"Option {ENGINE}", True),
        ("self.coefficients[:_0]", "(List.take {0} coeffs)", ROW, True, ["Nat"]),
        ("self.coefficients", "coeffs", f"List ({X})", True),
        ("scalar([_0])", "[{0}]", MAT, True, [ROW]),
        ("_0 * _1", "(Py.Np.zipNd X.mul (.mat {0}) {1})", ND, False, [MAT, ND]),
        ("_0.sum(axis=1, keepdims=False)", "(Py.Disc.sumAxis1 {0})", ND, False, [ND]),
        ("_0 + _1", "(Py.Disc.addScalar {0} {1})", ND, True, [ND, X]),
    ],
}

# ---- Term.update_reference (does nothing), Linear.update_reference
UPDATE_REFERENCE = [
    {"name": "Term_update_reference", "module": "fuzzylite.term", "object": "Term.update_reference", "file": "CodeDiscrete",
     "params": [("engine", f"Option {ENGINE}")], "locals": {"self_engine": f"Option {ENGINE}"}, "externals": []},
    {"name": "Linear_update_reference", "module": "fuzzylite.term", "object": "Linear.update_reference", "file": "CodeDiscrete",
     "params": [("engine", f"Option {ENGINE}")], "locals": {"self_engine": f"Option {ENGINE}"}, "externals": []},
]

# ---- Aggregated.range, Aggregated.highest_activated_term
RANGE = {
    "name": "Aggregated_range", "module": "fuzzylite.term", "object": "Aggregated.range", "file": "CodeDiscrete",
    "params": [("minimum", X), ("maximum", X)], "locals": {}, "ret": X,
    "externals": [("self.maximum", "maximum", X, True), ("self.minimum", "minimum", X, True)],
}
# size: `np.size` of a degree (an arbitrary function: the degrees of the model are scalars, a batch of degrees has a
# larger size); the callee `grouped_terms` is tied in C10
HIGHEST = {
    "name": "Aggregated_highest_activated_term", "module": "fuzzylite.term", "object": "Aggregated.highest_activated_term",
    "file": "CodeDiscrete",
    "params": [("size_of", f"{X} → Nat"), ("agg", f"Option ({W_NORM})"), ("terms", f"List ({W_ACT})")],
    "locals": {"highest": f"Option ({W_ACT})", "activated": W_ACT, "size": "Nat"}, "ret": f"Option ({W_ACT})",
    "externals": [
        ("self.grouped_terms().values()", "(Op.Weighted.groupedTerms agg terms)", f"List ({W_ACT})", True),
        ("np.size(_0)", "(size_of {0})", "Nat", True, [X]),
        ("_0.degree", "{0}.2", X, True, [W_ACT]),
    ],
}

PROFILES = [DISCRETE_MEMBERSHIP, column("x"), column("y"), TO_XY, CREATE, DISCRETIZE, CONSTANT, LINEAR] + UPDATE_REFERENCE + [
    RANGE, HIGHEST]
FILES = {"CodeDiscrete": {"imports": ["FlVerif.Op.PyExtDiscrete"]}}
