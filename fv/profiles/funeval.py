"""Translation profiles: evaluation of a `Function` term (`Function.Node.evaluate`, `Function.evaluate`,
`Function.membership`, term.py) and the reader / header / write functions of `FldExporter` (exporter.py).

Values (`Scalar`) are an arbitrary type `V` (`type_params`); `sem : Op.Sem V` gives the meaning of
`element.method(*args)` (`ap0` / `ap1` / `ap2`; its field `leaf` is not used by the code), `const : X Rat → V` is the
scalar of a float.  A dictionary built by item assignment / `update` is the list of its assignments, a look-up takes
the last binding (`Op.lookupLast`)."""

DICT = "List (String × V)"
SEM = [("sem", "Op.Sem V"), ("const", "X Rat → V")]
EVAL_NODE = "(Node_evaluate.run sem const {0} {1} {{}} >>= fun r => Py.deref r.ret)"

PROFILES = [
    {
        # recursive over the tree: `node.evaluate(local_variables)` is the function itself on a child (`self_call`),
        # the bound of the recursion is the height of the tree
        "name": "Node_evaluate", "module": "fuzzylite.term", "object": "Function.Node.evaluate", "file": "CodeFunEval",
        "type_params": ["V"],
        "params": SEM + [("self", "Py.Node"), ("local_variables", f"Option ({DICT})")],
        "rec_fixed": ["sem", "const"], "self_call": "_0.evaluate(_1)", "rec_fuel": "Py.FunEval.height self",
        "locals": {"result": "V", "arity": "Nat", "node": "Option Py.Node"},
        "ret": "V",
        "truthy": {f"Option ({DICT})": "(Py.FunEval.dictTruthy {0})"},
        "externals": [
            ("scalar(nan)", "(const X.nan)", "V", True),
            ("self.element", "self.element", "Option Lang.Elem", True),
            ("self.left", "self.left", "Option Py.Node", True),
            ("self.right", "self.right", "Option Py.Node", True),
            ("self.variable", "self.variable_", "String", True),
            ("self.constant", "(const self.constant)", "V", True),
            ("_0.arity", "{0}.arity", "Nat", True, ["Lang.Elem"]),
            ("_0.method()", "(sem.ap0 {0})", "V", True, ["Lang.Elem"]),
            ("_0.method(_1)", "(sem.ap1 {0} {1})", "V", True, ["Lang.Elem", "V"]),
            ("_0.method(_1, _2)", "(sem.ap2 {0} {1} {2})", "V", True, ["Lang.Elem", "V", "V"]),
            ("_0 not in local_variables", "(Py.deref local_variables >>= fun d => .ok (!Py.FunEval.dictHas d {0}))", "Bool", False),
            ("local_variables[_0]", "(Py.deref local_variables >>= fun d => Py.FunEval.dictGet d {0})", "V", False),
        ],
    },
    {
        "name": "Function_evaluate", "module": "fuzzylite.term", "object": "Function.evaluate", "file": "CodeFunEval",
        "type_params": ["V"],
        "params": SEM + [("root", "Option Py.Node"), ("variables", f"Option ({DICT})")],
        "locals": {}, "ret": "V",
        "externals": [
            ("self.root", "root", "Option Py.Node", True),
            # the method of the node, translated above
            ("_0.evaluate(_1)", EVAL_NODE, "V", False, ["Py.Node", None]),
        ],
    },
    {
        # `fvars` = `self.variables`, `engine` = the (name, value) pairs of `self.engine.variables` (None: no engine)
        "name": "Function_membership", "module": "fuzzylite.term", "object": "Function.membership", "file": "CodeFunEval",
        "type_params": ["V"],
        "params": SEM + [("root", "Option Py.Node"), ("fvars", DICT), ("engine", f"Option ({DICT})"), ("x", "V")],
        "locals": {"engine_variables": DICT, "variable": "String × V", "overrides": "List String", "y": "V"},
        "ret": "V",
        "externals": [
            ("_0 in self.variables", "(Py.FunEval.dictHas fvars {0})", "Bool", True, ["String"]),
            ("_0 in engine_variables", "(Py.FunEval.dictHas σ.engine_variables {0})", "Bool", True, ["String"]),
            ("self.engine.variables", "(Py.deref engine)", DICT, False),
            ("self.engine", "engine", f"Option ({DICT})", True),
            ("_0.name", "{0}.1", "String", True, ["String × V"]),
            ("_0.value", "{0}.2", "V", True, ["String × V"]),
            ("self.variables.keys() & engine_variables.keys()", "(Py.FunEval.keysInter fvars σ.engine_variables)", "List String", True),
            # the method translated above
            ("self.evaluate(engine_variables)",
             "(Function_evaluate.run sem const root (some σ.engine_variables) {{}} >>= fun r => Py.deref r.ret)", "V", False),
        ],
        "stmt_externals": [
            ("engine_variables: dict[str, Scalar] = {}", "{{ σ with engine_variables := [] }}", True),
            ("engine_variables[_0] = _1", "{{ σ with engine_variables := Py.FunEval.dictSet σ.engine_variables {0} {1} }}", True),
            ("engine_variables.update(self.variables)", "{{ σ with engine_variables := σ.engine_variables ++ fvars }}", True),
        ],
    },
    # ---------------------------------------------------------------- FldExporter
    {
        # `lines` = `reader.readlines()`; `parseRow` = the floats of a kept line (`[to_float(x) for x in line.split()]`,
        # `ValueError` for a field that is not a number): any function; the export itself (`self.write`) is outside
        "name": "write_from_reader", "module": "fuzzylite.exporter", "object": "FldExporter.write_from_reader", "file": "CodeFldReader",
        "params": [("lines", "List String"), ("skip_lines", "Nat"), ("parseRow", "String → Py.M (List (X Rat))")],
        "locals": {"input_values": "List (List (X Rat))", "i": "Nat", "line": "String"},
        "externals": [
            ("reader.readlines()", "lines", "List String", True),
            ("_0.strip()", "(Op.Fld.strip {0})", "String", True, ["String"]),
            ("_0[0] == '#'", "(Py.Fld.startsHash {0})", "Bool", False, ["String"]),
            ("[to_float(x) for x in _0.split()]", "(parseRow {0})", "List (X Rat)", False, ["String"]),
        ],
        "stmt_externals": [("self.write(engine, writer, np.asarray(input_values))", "σ", True)],
    },
    {
        # `ops` = what the function uses of NumPy and of the engine (`E` = engines, `A` = arrays: Op.Fld.WriteOps);
        # input variables are represented by their names; observable: the engine afterwards and the arguments of
        # `np.savetxt` (the stacked array and the header text) in `out`
        "name": "FldExporter_write", "module": "fuzzylite.exporter", "object": "FldExporter.write", "file": "CodeFldWrite",
        "type_params": ["E", "A"],
        "params": [("ops", "Op.Fld.WriteOps E A"), ("inputs", "List String"), ("outputs", "List String"), ("inputValues", "Bool"),
                   ("outputValues", "Bool"), ("headers", "Bool"), ("sep", "String"), ("engine0", "E"), ("input_values0", "A")],
        "init": {"engine": "engine0", "input_values": "input_values0"},
        "locals": {"engine": "E", "input_values": "A", "index": "Nat", "variable": "String", "values": "List A",
                   "out": "Option (A × String)"},
        "externals": [
            ("np.atleast_2d(_0)", "(ops.atleast2d {0})", "A", True, ["A"]),
            ("_0.shape[1]", "(ops.ncols {0})", "Nat", True, ["A"]),
            ("engine.input_variables", "inputs", "List String", True),
            ("engine.input_values", "(ops.inputBlock σ.engine)", "A", True),
            ("engine.output_values", "(ops.outputBlock σ.engine)", "A", True),
            ("self.input_values", "inputValues", "Bool", True),
            ("self.output_values", "outputValues", "Bool", True),
            ("self.headers", "headers", "Bool", True),
            # the method translated below
            ("self.header(engine)", "(FldExporter_header.run inputs outputs inputValues outputValues sep {{}} >>= fun r => Py.deref r.ret)",
             "String", False),
        ],
        "stmt_externals": [
            ("engine.restart()", "{{ σ with engine := ops.restart σ.engine }}", True),
            # (`variable` is a Lean keyword: the translator renames the local to `variable_`)
            ("variable_.value = input_values[:, index]",
             "{{ σ with engine := ops.setInput σ.engine σ.variable_ (ops.col σ.input_values σ.index) }}", True),
            ("engine.process()", "{{ σ with engine := ops.process σ.engine }}", True),
            ("values.append([])", "{{ σ with values := σ.values ++ [ops.emptyBlock] }}", True),
            ("np.savetxt(writer, np.hstack(_0), fmt=f'%0.{settings.decimals}f', delimiter=self.separator, header=_1, comments='')",
             "{{ σ with out := some (ops.hstack {0}, {1}) }}", True),
        ],
    },
    {
        # variables are represented by their names
        "name": "FldExporter_header", "module": "fuzzylite.exporter", "object": "FldExporter.header", "file": "CodeFldReader",
        "params": [("inputs", "List String"), ("outputs", "List String"), ("inputValues", "Bool"), ("outputValues", "Bool"),
                   ("sep", "String")],
        "locals": {"result": "List String"}, "ret": "String",
        "externals": [
            ("self.input_values", "inputValues", "Bool", True),
            ("self.output_values", "outputValues", "Bool", True),
            ("engine.input_variables", "inputs", "List String", True),
            ("engine.output_variables", "outputs", "List String", True),
            ("_0.name", "{0}", "String", True, ["String"]),
            ("self.separator.join(_0)", "(sep.intercalate {0})", "String", True, ["List String"]),
        ],
    },
]

FILES = {
    "CodeFunEval": {"imports": ["FlVerif.Op.PyExtFunEval"]},
    "CodeFldReader": {"imports": ["FlVerif.Op.PyExtFunEvalFld"]},
    "CodeFldWrite": {"imports": ["FlVerif.Gen.CodeFldReader"]},
}
