"""Profiles that translate functions a second time with the state kept at a raise (`raise_state`), and the remaining
small functions of the exporter / term classes.

`OutputVariable.defuzzify`, `Rule.parse`, `Consequent.load`, `Antecedent.load` are tied to their models in the plain
monad (`OutputVariable_defuzzify`, `Rule_parse`, `Consequent_load`, `Antecedent_load` of `base.py`), where the record of
the locals is dropped at a raise.  The `_rs` profiles below are *the same profiles* (same externals, same types - taken
from `base.py`, nothing is restated) with `raise_state: True`: an exception carries the record as it is at the raise, so
"nothing has been assigned when the function raises" is a theorem about the translated source
(`C12.code_defuzzify_raise_unchanged`, `C16.code_ruleParse_raise_unchanged`, `C16.code_consequentLoad_raise_unloaded`,
`C16.code_antecedentLoad_raise_unloaded`), and on success the two translations agree field by field."""
from .base import CASCADE_PROFILE
from .base import PROFILES as _BASE

FILE = "CodeRaised"


def _base(name):
    return next(p for p in _BASE if p["name"] == name)


def _rs(name, prior):
    """the profile `name` of base.py with the state kept at a raise; `prior` = [(field of the record, parameter, type)]: what
    the attributes of `self` hold before the call (the record starts from them instead of the default values)"""
    b = _base(name)
    return dict(b, name=f"{name}_rs", file=FILE, raise_state=True,
                params=list(b["params"]) + [(par, ty) for _, par, ty in prior],
                init=dict(b.get("init", {}), **{fld: par for fld, par, _ in prior}))


PROFILES = [
    # `self_fuzzy`: the fuzzy output `self.fuzzy` as a field of the record (the function only passes it to the defuzzifier;
    # an assignment `self.fuzzy = …` would be translated and break the theorem)
    dict(CASCADE_PROFILE, name="OutputVariable_defuzzify_rs", file=FILE, raise_state=True,
         params=CASCADE_PROFILE["params"] + [("fz", "List (Op.Engine.Act Rat)")],
         init=dict(CASCADE_PROFILE["init"], self_fuzzy="fz"),
         locals=dict(CASCADE_PROFILE["locals"], self_fuzzy="List (Op.Engine.Act Rat)")),
    _rs("Rule_parse", [("self_antecedent_text", "a0", "String"), ("self_consequent_text", "c0", "String"), ("self_weight", "w0", "X Rat")]),
    _rs("Consequent_load", [("self_conclusions", "loaded0", "List Py.Load.Proposition")]),
    _rs("Antecedent_load", [("self_expression", "loaded0", "Py.Load.Expression")]),
]

FILES = {
    FILE: {"imports": ["FlVerif.Base.PyRaise", "FlVerif.Op.PyExt", "FlVerif.Op.PyExtCascade", "FlVerif.Op.PyExtEngine",
                       "FlVerif.Op.PyExtLoad"]},
}
