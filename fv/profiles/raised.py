"""Profiles that translate functions a second time with the state kept at a raise (`raise_state`), and the remaining
small functions of the exporter / term classes.

`OutputVariable.defuzzify`, `Rule.parse`, `Consequent.load`, `Antecedent.load` are tied to their models in the plain
monad (`OutputVariable_defuzzify`, `Rule_parse`, `Consequent_load`, `Antecedent_load` of `base.py`), where the record of
the locals is dropped at a raise.  The `_rs` profiles below are *the same profiles* (same externals, same types - taken
from `base.py`, nothing is restated) with `raise_state: True`: an exception carries the record as it is at the raise, so
"nothing has been assigned when the function raises" is a theorem about the translated source
(`C12.code_defuzzify_raise_unchanged`, `C16.code_ruleParse_raise_unchanged`, `C16.code_consequentLoad_raise_unloaded`,
`C16.code_antecedentLoad_raise_unloaded`), and on success the two translations agree field by field."""
from .base import CASCADE_PROFILE
from .base import PROFILES as _BASE

FILE = "CodeRaised"


def _base(name):
    return next(p for p in _BASE if p["name"] == name)


def _rs(name, prior):
    """the profile `name` of base.py with the state kept at a raise; `prior` = [(field of the record, parameter, type)]: what
    the attributes of `self` hold before the call (the record starts from them instead of the default values)"""
    b = _base(name)
    return dict(b, name=f"{name}_rs", file=FILE, raise_state=True,
                params=list(b["params"]) + [(par, ty) for _, par, ty in prior],
                init=dict(b.get("init", {}), **{fld: par for fld, par, _ in prior}))


PROFILES = [
    # `self_fuzzy`: the fuzzy output `self.fuzzy` as a field of the record (the function only passes it to the defuzzifier;
    # an assignment `self.fuzzy = …` would be translated and break the theorem)
    dict(CASCADE_PROFILE, name="OutputVariable_defuzzify_rs", file=FILE, raise_state=True,
         params=CASCADE_PROFILE["params"] + [("fz", "List (Op.Engine.Act Rat)")],
         init=dict(CASCADE_PROFILE["init"], self_fuzzy="fz"),
         locals=dict(CASCADE_PROFILE["locals"], self_fuzzy="List (Op.Engine.Act Rat)")),
    _rs("Rule_parse", [("self_antecedent_text", "a0", "String"), ("self_consequent_text", "c0", "String"), ("self_weight", "w0", "X Rat")]),
    _rs("Consequent_load", [("self_conclusions", "loaded0", "List Py.Load.Proposition")]),
    _rs("Antecedent_load", [("self_expression", "loaded0", "Py.Load.Expression")]),
]

# ---------------------------------------------------------------- Operation.str, FllExporter.to_string (C14)
# The argument is a sum type (`Py.Raised.SVal` / `Py.Raised.FlObj`, lean/FlVerif/Op/PyExtRaised.lean); every `isinstance`
# test of the source is the test on the sum type (with the class hierarchy of the library).  `d` = settings.decimals.
SV = "Py.Raised.SVal"
FO = "Py.Raised.FlObj"
F = "Op.FllIO"
STR_FILE = "CodeRaisedStr"


def _is(cls, test, obj="x", ty=SV):
    return (f"isinstance({obj}, {cls})", f"({ty}.{test} {obj})", "Bool", True)


def _to(method, view, text):
    """`if isinstance(instance, C): return self.<method>(instance)`: the rendering of that method on the object as a `C`
    (`instance` is a Lean keyword: the translator renames it `instance_`)"""
    return (f"self.{method}(instance_)", text.format(f"({FO}.{view} instance_)"), "String", True)


PROFILES += [
    {"name": "Op_str", "module": "fuzzylite.operation", "object": "Operation.str", "file": STR_FILE,
     "params": [("d", "Nat"), ("x", SV), ("delimiter", "String")], "ret": "String",
     # the recursive calls `Op.str(x_i)` do not pass the delimiter: the callee receives the default of the signature
     "self_call": "Op.str(_0)", "self_call_params": ["x"], "self_call_defaults": ["delimiter"], "rec_env": ["d"],
     "rec_fuel": f"{SV}.depth x + 1",
     "iter_view": {SV: (f"({SV}.items {{0}})", f"List {SV}")},
     "return_view": {SV: f"({SV}.asStr {{0}})"},
     "genexp_as_list": True,            # the generator expression is the argument of `str.join`
     "externals": [
         _is("str", "isStr"), _is("(float, np.floating)", "isNum"), _is("Sequence", "isSeq"), _is("np.ndarray", "isArray"),
         # the number formatting of a float / of the item of a 0-d array: the printed number `Dec.fmt`, rendered
         ('f"{x:.{settings.decimals}f}"', f"(Py.Fll.numText d ({SV}.asNum x))", "String", True),
         ('f"{x.item():.{settings.decimals}f}"', f"(Py.Fll.numText d ({SV}.item x))", "String", True),
         ("x.ndim", f"({SV}.ndim x)", "Nat", True),
         ("np.atleast_1d(x)", f"({SV}.elems x)", f"List {SV}", True),
         ("len(x)", f"({SV}.len x)", "Nat", True),
         ("x[_0, :]", f"({SV}.row x {{0}})", SV, True, ["Nat"]),
         ("delimiter.join(_0)", "(Py.Fll.join delimiter {0})", "String", True, ["List String"]),
         ("'\\n'.join(_0)", '(Py.Fll.join "\\n" {0})', "String", True, ["List String"]),
         ("np.array2string(x, precision=settings.decimals, floatmode='fixed')", f"({SV}.array2string x)", "String", True),
         ("builtins.str(x)", f"({SV}.strOf x)", "String", True),
     ]},
    {"name": "FllExporter_to_string", "module": "fuzzylite.exporter", "object": "FllExporter.to_string", "file": STR_FILE,
     "params": [("c", f"{F}.Cfg"), ("indent", "String"), ("sep", "String"), ("instance", FO)], "ret": "String",
     "externals": [
         _is("Engine", "isEngine", "instance_", FO), _is("InputVariable", "isInputVariable", "instance_", FO),
         _is("OutputVariable", "isOutputVariable", "instance_", FO), _is("Variable", "isVariable", "instance_", FO),
         _is("Term", "isTerm", "instance_", FO), _is("Activation", "isActivation", "instance_", FO),
         _is("Defuzzifier", "isDefuzzifier", "instance_", FO), _is("Norm", "isNorm", "instance_", FO),
         _is("RuleBlock", "isRuleBlock", "instance_", FO), _is("Rule", "isRule", "instance_", FO),
         # the methods of the exporter: what the ties `C14.code_fllExport*` prove they return
         _to("engine", "asEngine", "(Py.Raised.engineText c indent sep {0})"),
         _to("input_variable", "asVar", "(Py.Fll.inputText c indent sep {0})"),
         _to("output_variable", "asOutVar", "(Py.Fll.outputText c indent sep {0})"),
         _to("variable", "asVar", "(Py.Fll.variableText c indent sep Py.Raised.variableKey {0} true)"),
         _to("term", "asTerm", "(Py.Fll.termText c {0})"),
         _to("activation", "asActiv", "(Py.Fll.activText c {0})"),
         _to("defuzzifier", "asDefuzz", "(Py.Fll.defuzzText c.d {0})"),
         _to("norm", "asNorm", "(Py.Fll.normText {0})"),
         _to("rule_block", "asBlock", "(Py.Fll.blockText c indent sep {0})"),
         _to("rule", "asRule", "(Py.Fll.ruleLineText c {0})"),
     ]},
]

# ---------------------------------------------------------------- Term.__init__, is_monotonic of every shape class (C03)
# `T.is_monotonic` is looked up through the class: the function the class *uses* (its own override or the inherited
# `Term.is_monotonic`) is translated, so the table of `C03.code_isMonotonic` also says which classes override it.
SHAPES = ["Arc", "Bell", "Binary", "Concave", "Cosine", "Gaussian", "GaussianProduct", "PiShape", "Ramp", "Rectangle",
          "SemiEllipse", "Sigmoid", "SigmoidDifference", "SigmoidProduct", "Spike", "SShape", "Trapezoid", "Triangle", "ZShape"]
TERM_FILE = "CodeRaisedTerm"
PROFILES += [
    {"name": "Term_init", "module": "fuzzylite.term", "object": "Term.__init__", "file": TERM_FILE,
     "params": [("name", "String"), ("height", "X Rat")], "locals": {"self_name": "String", "self_height": "X Rat"}},
] + [
    {"name": f"{T}_is_monotonic", "module": "fuzzylite.term", "object": f"{T}.is_monotonic", "file": TERM_FILE,
     "params": [], "locals": {}, "ret": "Bool"} for T in SHAPES
]

FILES = {
    STR_FILE: {"imports": ["FlVerif.Op.PyExtRaised"]},
    TERM_FILE: {"imports": ["FlVerif.Op.PyExt"]},
    FILE: {"imports": ["FlVerif.Base.PyRaise", "FlVerif.Op.PyExt", "FlVerif.Op.PyExtCascade", "FlVerif.Op.PyExtEngine",
                       "FlVerif.Op.PyExtLoad"]},
}
