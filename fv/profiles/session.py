"""Profiles of the loading / unloading functions of rule.py (`Rule.load`, `unload`, `is_loaded`, the same of
`Antecedent` / `Consequent`, `RuleBlock.load_rules`, `unload_rules`, `reload_rules`), of `Engine.restart` and
`OutputVariable.clear`.

Objects (`lean/FlVerif/Op/PyExtSession.lean`): a rule is a `Py.Sess.RuleObj` (texts, loaded antecedent tree, loaded
conclusions, activation flag); a call of a method that is translated here is the *generated definition* of that method
(`rule.unload()` is `Rule_unload.run`), a call of `Antecedent.load` / `Consequent.load` is the model these functions
are tied to.  `Rule.load`, `load_rules`, `reload_rules` and `restart` keep the state at a raise (`raise_state`): what a
failing call leaves behind is what the theorems are about.  A list whose elements a loop mutates in place is rebuilt
element by element (`loop_writeback`: `visited`, `inputs`, `blocks`, `outs`)."""

RULE = "Py.Sess.RuleObj"
RULES = f"List {RULE}"
ANTE = "Option Op.ANode"
CONS = "List Op.Conclusion"
BLOCK = "Op.Engine.Block Rat"
INVAR = "Op.Engine.InVar Rat"
OUTV = "Op.Engine.OutVar Rat × Op.OutState Rat"

DEACTIVATE = ("self.deactivate()", "{{ σ with this := {{ σ.this with activated := false }} }}", True)
RULE_UNLOAD = ("rule.unload()", "(Rule_unload.run σ.rule {{}} >>= fun s => .ok {{ σ with rule := s.this }})", False)
VISIT = {"rule": "{ σ with visited := σ.visited ++ [σ.rule] }"}

PROFILES = [
    {
        "name": "Antecedent_is_loaded", "module": "fuzzylite.rule", "object": "Antecedent.is_loaded", "file": "CodeSession",
        "params": [("expression", ANTE)], "locals": {}, "ret": "Bool",
        "externals": [("self.expression", "expression", ANTE, True)],
    },
    {
        "name": "Antecedent_unload", "module": "fuzzylite.rule", "object": "Antecedent.unload", "file": "CodeSession",
        "params": [], "locals": {"self_expression": ANTE},
    },
    {
        "name": "Consequent_is_loaded", "module": "fuzzylite.rule", "object": "Consequent.is_loaded", "file": "CodeSession",
        "params": [("conclusions", CONS)], "locals": {}, "ret": "Bool",
        "externals": [("self.conclusions", "conclusions", CONS, True)],
    },
    {
        "name": "Consequent_unload", "module": "fuzzylite.rule", "object": "Consequent.unload", "file": "CodeSession",
        "params": [], "locals": {"self_conclusions": CONS},
        "stmt_externals": [("self.conclusions.clear()", "{{ σ with self_conclusions := [] }}", True)],
    },
    {
        "name": "Rule_is_loaded", "module": "fuzzylite.rule", "object": "Rule.is_loaded", "file": "CodeSession",
        "params": [("r", RULE)], "locals": {}, "ret": "Bool",
        "externals": [
            ("self.antecedent.is_loaded()", "(Antecedent_is_loaded.run r.ante {{}} >>= fun s => Py.deref s.ret)", "Bool", False),
            ("self.consequent.is_loaded()", "(Consequent_is_loaded.run r.cons {{}} >>= fun s => Py.deref s.ret)", "Bool", False),
        ],
    },
    {
        "name": "Rule_unload", "module": "fuzzylite.rule", "object": "Rule.unload", "file": "CodeSession",
        "params": [("r0", RULE)], "init": {"this": "r0"}, "locals": {"this": RULE},
        "stmt_externals": [
            DEACTIVATE,
            ("self.antecedent.unload()",
             "(Antecedent_unload.run {{ self_expression := σ.this.ante }} >>= fun s => .ok {{ σ with this := {{ σ.this with ante := s.self_expression }} }})", False),
            ("self.consequent.unload()",
             "(Consequent_unload.run {{ self_conclusions := σ.this.cons }} >>= fun s => .ok {{ σ with this := {{ σ.this with cons := s.self_conclusions }} }})", False),
        ],
    },
    {
        "name": "Rule_load", "module": "fuzzylite.rule", "object": "Rule.load", "file": "CodeSession", "raise_state": True,
        "params": [("tbl", "Lang.Table"), ("e", "Op.EngineInfo"), ("r0", RULE)], "init": {"this": "r0"}, "locals": {"this": RULE},
        "stmt_externals": [
            DEACTIVATE,
            ("self.antecedent.load(engine)", "(Py.R.map (fun o => {{ σ with this := o }}) (Py.Sess.anteLoad tbl e σ.this))", "R"),
            ("self.consequent.load(engine)", "(Py.R.map (fun o => {{ σ with this := o }}) (Py.Sess.consLoad e σ.this))", "R"),
        ],
    },
    {
        "name": "RuleBlock_unload_rules", "module": "fuzzylite.rule", "object": "RuleBlock.unload_rules", "file": "CodeSession",
        "params": [("rules", RULES)], "locals": {"rule": RULE, "visited": RULES}, "loop_writeback": VISIT,
        "externals": [("self.rules", "rules", RULES, True)],
        "stmt_externals": [RULE_UNLOAD],
    },
    {
        "name": "RuleBlock_load_rules", "module": "fuzzylite.rule", "object": "RuleBlock.load_rules", "file": "CodeSession",
        "raise_state": True,
        "params": [("tbl", "Lang.Table"), ("e", "Op.EngineInfo"), ("rules", RULES)],
        # `exceptions`: one entry per failing rule - the rule (`str(rule)`) and the exception (`str(ex)`)
        "locals": {"exceptions": "List (Op.ParsedRule × Py.Err)", "rule": RULE, "visited": RULES, "ex": "Py.Err"},
        "loop_writeback": VISIT,
        "externals": [("self.rules", "rules", RULES, True)],
        "stmt_externals": [
            RULE_UNLOAD,
            ("rule.load(engine)",
             "(Py.R.map (fun o => {{ σ with rule := o }}) (Py.R.map (fun s => s.this) (Rule_load.run tbl e σ.rule {{}})))", "R"),
            ("exceptions.append(f\"['{str(rule)}']: {str(ex)}\")",
             "{{ σ with exceptions := σ.exceptions ++ [(σ.rule.parsed, σ.ex)] }}", True),
        ],
    },
    {
        "name": "RuleBlock_reload_rules", "module": "fuzzylite.rule", "object": "RuleBlock.reload_rules", "file": "CodeSession",
        "raise_state": True,
        "params": [("tbl", "Lang.Table"), ("e", "Op.EngineInfo"), ("rules0", RULES)], "init": {"rules": "rules0"},
        "locals": {"rules": RULES},
        "stmt_externals": [
            ("self.unload_rules()", "(RuleBlock_unload_rules.run σ.rules {{}} >>= fun s => .ok {{ σ with rules := s.visited }})", False),
            ("self.load_rules(engine)",
             "(Py.R.map (fun l => {{ σ with rules := l }}) (Py.R.map (fun s => s.visited) (RuleBlock_load_rules.run tbl e σ.rules {{}})))", "R"),
        ],
    },
    {
        # the record starts as the object is (`self_fuzzy`: the terms of `self.fuzzy`; `self_value`: the rows of the value)
        "name": "OutputVariable_clear", "module": "fuzzylite.variable", "object": "OutputVariable.clear", "file": "CodeSession",
        "params": [("c", "Op.CascadeCfg Rat")],
        "locals": {"self_fuzzy": "List (Op.Engine.Act Rat)", "self_previous_value": "X Rat", "self_value": "List (X Rat)"},
        "stmt_externals": [
            ("self.fuzzy.clear()", "{{ σ with self_fuzzy := [] }}", True),
            # the setter of `Variable.value` (clipping when `lock_range`), as in `OutputVariable.defuzzify`
            ("self.value = _0", "{{ σ with self_value := Py.Cascade.setValue c [{0}] }}", True, ["X Rat"]),
        ],
    },
    {
        # `reload b`: what `rule_block.reload_rules(self)` does to the block `b` (tied on the rule objects:
        # `RuleBlock_reload_rules`); `ovs`: the output variables with their value / previous value
        "name": "Engine_restart", "module": "fuzzylite.engine", "object": "Engine.restart", "file": "CodeSession", "raise_state": True,
        "params": [("reload", f"{BLOCK} → Except (Py.Err × {BLOCK}) ({BLOCK})"), ("ins", f"List ({INVAR})"), ("bls", f"List ({BLOCK})"), ("ovs", f"List ({OUTV})")],
        "locals": {"input_variable": INVAR, "inputs": f"List ({INVAR})", "rule_block": BLOCK, "blocks": f"List ({BLOCK})",
                   "output_variable": OUTV, "outs": "List (Op.OutState Rat)"},
        "loop_writeback": {"input_variable": "{ σ with inputs := σ.inputs ++ [σ.input_variable] }",
                           "rule_block": "{ σ with blocks := σ.blocks ++ [σ.rule_block] }",
                           "output_variable": "{ σ with outs := σ.outs ++ [σ.output_variable.2] }"},
        "externals": [("self.input_variables", "ins", f"List ({INVAR})", True),
                      ("self.rule_blocks", "bls", f"List ({BLOCK})", True),
                      ("self.output_variables", "ovs", f"List ({OUTV})", True)],
        "stmt_externals": [
            ("input_variable.value = _0", "{{ σ with input_variable := σ.input_variable.setValue {0} }}", True, ["X Rat"]),
            ("rule_block.reload_rules(self)", "(Py.R.map (fun b => {{ σ with rule_block := b }}) (reload σ.rule_block))", "R"),
            ("output_variable.clear()",
             "(OutputVariable_clear.run (Op.Engine.cascadeCfg σ.output_variable.1) {{ self_value := σ.output_variable.2.value, "
             "self_previous_value := σ.output_variable.2.previous }} >>= fun s => "
             ".ok {{ σ with output_variable := (σ.output_variable.1, ⟨s.self_value, s.self_previous_value⟩) }})", False),
        ],
    },
]

# ---- the setter of `Engine.input_values`: the array is an `Op.Engine.NdArr` (number of dimensions; entries up to 2-D);
# `cols`: the batch of values every input variable has received (`v.value = values[:, i]` goes through the clipping setter)
ND = "Op.Engine.NdArr Rat"
PROFILES += [
    {
        "name": "Engine_set_input_values", "module": "fuzzylite.engine", "object": "Engine.input_values.fset", "file": "CodeSession",
        "params": [("ins", f"List ({INVAR})"), ("values0", ND)], "init": {"values": "values0"},
        "locals": {"values": ND, "i": "Nat", "v": INVAR, "cols": "List (List (X Rat))"},
        "externals": [
            ("self.input_variables", "ins", f"List ({INVAR})", True),
            ("values.ndim", "σ.values.ndim", "Nat", True),
            ("values.item()", "(Py.Sess.orValueError σ.values.item)", "X Rat", False),
            ("np.full((1, _0), fill_value=_1)", "(Op.Engine.NdArr.fullRow {0} {1})", ND, True, ["Nat", "X Rat"]),
            ("np.atleast_2d(values)", "σ.values.atleast2d", ND, True),
            ("values.T", "σ.values.transpose", ND, True),
            ("values.shape[1]", "(Py.Sess.orIndexError σ.values.shape1)", "Nat", False),
        ],
        "stmt_externals": [
            ("v.value = values[:, i]",
             "{{ σ with cols := σ.cols ++ [(σ.values.col σ.i).map (fun x => (σ.v.setValue x).value)] }}", True),
        ],
    },
]

FILES = {
    "CodeSession": {"imports": ["FlVerif.Op.PyExtSession"]},
}
