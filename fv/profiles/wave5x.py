"""Profiles of the fifth wave (group X): functions that were trusted externals of earlier ties.

* `WeightedDefuzzifier.infer_type` (`defuzzifier.py`; classmethod, recursive over `Aggregated` / `Variable` / `Activated` /
  plain term).  The argument is the tree `Py.W5.Comp` (`lean/FlVerif/Op/PyExtWave5X.lean`); `isinstance` tests and the
  attributes `.terms` / `.term` are its case tests and projections; the three `WeightedDefuzzifier.Type` members are the
  constructors of `Op.Weighted.WType`; `types` is a set kept as the list of its distinct elements, `types.pop()` is
  `Py.W5.setPop`.  The recursive call inside the set comprehension is the function itself with one unit of fuel less.
"""
from .base import W_TYPE

F = "CodeWave5X"
COMP = "Py.W5.Comp"

PROFILES = [
    {
        "name": "WeightedDefuzzifier_infer_type", "module": "fuzzylite.defuzzifier", "object": "WeightedDefuzzifier.infer_type",
        "file": F, "params": [("component", COMP)], "locals": {"types": f"List {W_TYPE}"}, "ret": W_TYPE,
        "self_call": "cls.infer_type(_0)", "rec_fuel": "Py.W5.Comp.depth component",
        "externals": [
            ("isinstance(_0, (Aggregated, Variable))", "{0}.isGroup", "Bool", True, [COMP]),
            ("isinstance(_0, Activated)", "{0}.isActivated", "Bool", True, [COMP]),
            ("isinstance(_0, (Constant, Linear, Function))", "{0}.isSugeno", "Bool", True, [COMP]),
            ("_0.is_monotonic()", "{0}.isMonotonic", "Bool", True, [COMP]),
            ("_0.terms", "{0}.terms", f"List {COMP}", True, [COMP]),
            ("_0.term", "(Py.W5.Comp.term {0})", COMP, False, [COMP]),
            ("types.pop()", "(Py.W5.setPop σ.types)", W_TYPE, False),
            ("WeightedDefuzzifier.Type.Automatic", "Op.Weighted.WType.automatic", W_TYPE, True),
            ("WeightedDefuzzifier.Type.TakagiSugeno", "Op.Weighted.WType.takagiSugeno", W_TYPE, True),
            ("WeightedDefuzzifier.Type.Tsukamoto", "Op.Weighted.WType.tsukamoto", W_TYPE, True),
        ],
    },
]

FILES = {F: {"imports": ["FlVerif.Op.PyExtWave5X"]}}
