"""Profiles of the fifth wave (group X): functions that were trusted externals of earlier ties.

* `WeightedDefuzzifier.infer_type` (`defuzzifier.py`; classmethod, recursive over `Aggregated` / `Variable` / `Activated` /
  plain term).  The argument is the tree `Py.W5.Comp` (`lean/FlVerif/Op/PyExtWave5X.lean`); `isinstance` tests and the
  attributes `.terms` / `.term` are its case tests and projections; the three `WeightedDefuzzifier.Type` members are the
  constructors of `Op.Weighted.WType`; `types` is a set kept as the list of its distinct elements, `types.pop()` is
  `Py.W5.setPop`.  The recursive call inside the set comprehension is the function itself with one unit of fuel less.
"""
from .base import W_TYPE

F = "CodeWave5X"
COMP = "Py.W5.Comp"

PROFILES = [
    {
        "name": "WeightedDefuzzifier_infer_type", "module": "fuzzylite.defuzzifier", "object": "WeightedDefuzzifier.infer_type",
        "file": F, "params": [("component", COMP)], "locals": {"types": f"List {W_TYPE}"}, "ret": W_TYPE,
        "self_call": "cls.infer_type(_0)", "rec_fuel": "Py.W5.Comp.depth component",
        "externals": [
            ("isinstance(_0, (Aggregated, Variable))", "{0}.isGroup", "Bool", True, [COMP]),
            ("isinstance(_0, Activated)", "{0}.isActivated", "Bool", True, [COMP]),
            ("isinstance(_0, (Constant, Linear, Function))", "{0}.isSugeno", "Bool", True, [COMP]),
            ("_0.is_monotonic()", "{0}.isMonotonic", "Bool", True, [COMP]),
            ("_0.terms", "{0}.terms", f"List {COMP}", True, [COMP]),
            ("_0.term", "(Py.W5.Comp.term {0})", COMP, False, [COMP]),
            ("types.pop()", "(Py.W5.setPop σ.types)", W_TYPE, False),
            ("WeightedDefuzzifier.Type.Automatic", "Op.Weighted.WType.automatic", W_TYPE, True),
            ("WeightedDefuzzifier.Type.TakagiSugeno", "Op.Weighted.WType.takagiSugeno", W_TYPE, True),
            ("WeightedDefuzzifier.Type.Tsukamoto", "Op.Weighted.WType.tsukamoto", W_TYPE, True),
        ],
    },
]

FILES = {F: {"imports": ["FlVerif.Op.PyExtWave5X"]}}

# ---- Engine.configure (C14), translated with `raise_state`: the record at a raise shows that nothing was assigned
DOC_CFG = """
* `Engine.configure` (`engine.py`): the engine is `Op.FllIO.Engine` (parameter `e`), the six arguments are the record
  `Op.Engine.ConfigArgs` (parameter `a`: each `None`, a name or an object - `Op.Engine.OpArg`), the factories are the
  parameter `F`.  The rule blocks / output variables the loops have assigned to are collected in the locals `blocks` /
  `outputs` (`loop_writeback`): at a raise they are empty.
* `FllImporter.component` (`importer.py`): the class is seen through the four `issubclass` tests (`Py.W5.ClassOf`); the
  four methods it dispatches to are their *generated definitions*.
* `Variable.term` (`variable.py`): the look-up of `Engine.input_variable` on the terms (generic in the type of a term).
"""
__doc__ += DOC_CFG
FC = "CodeWave5XCfg"
ENG, BLK, OUT = "Op.FllIO.Engine", "Op.FllIO.Block", "Op.FllIO.OutVar"
DEFUZZ, ACTIV = "Op.FllIO.Defuzz", "Op.FllIO.Activ"
ARG_N, ARG_D, ARG_A = "Op.Engine.OpArg String", f"Op.Engine.OpArg {DEFUZZ}", f"Op.Engine.OpArg {ACTIV}"


def assign(obj, attr, ty):
    return (f"{obj}.{attr} = _0", f"{{{{ σ with {obj} := {{{{ σ.{obj} with {attr} := ({{0}}).value }}}} }}}}", True, [ty])


PROFILES += [
    {
        "name": "Engine_configure", "module": "fuzzylite.engine", "object": "Engine.configure", "file": FC, "raise_state": True,
        "params": [("F", "Op.Engine.Factories"), ("e", ENG), ("a", "Op.Engine.ConfigArgs")],
        "init": {"conjunction": "a.conjunction", "disjunction": "a.disjunction", "implication": "a.implication",
                 "aggregation": "a.aggregation", "defuzzifier": "a.defuzzifier", "activation": "a.activation"},
        "alias_locals": {"factory": "settings.factory_manager"},
        "locals": {"conjunction": ARG_N, "disjunction": ARG_N, "implication": ARG_N, "aggregation": ARG_N,
                   "defuzzifier": ARG_D, "activation": ARG_A, "block": BLK, "variable": OUT,
                   "blocks": f"List {BLK}", "outputs": f"List {OUT}"},
        "loop_writeback": {"block": "{ σ with blocks := σ.blocks ++ [σ.block] }",
                           "variable_": "{ σ with outputs := σ.outputs ++ [σ.variable_] }"},
        "externals": [
            ("isinstance(_0, str)", "{0}.isName", "Bool", True, [ARG_N]),
            ("isinstance(_0, str)", "{0}.isName", "Bool", True, [ARG_D]),
            ("isinstance(_0, str)", "{0}.isName", "Bool", True, [ARG_A]),
            ("factory.tnorm.construct(_0)", "(Op.Engine.OpArg.construct F.tnorm {0})", ARG_N, False, [ARG_N]),
            ("factory.snorm.construct(_0)", "(Op.Engine.OpArg.construct F.snorm {0})", ARG_N, False, [ARG_N]),
            ("factory.defuzzifier.construct(_0)", "(Op.Engine.OpArg.construct F.defuzzifier {0})", ARG_D, False, [ARG_D]),
            ("factory.activation.construct(_0)", "(Op.Engine.OpArg.construct F.activation {0})", ARG_A, False, [ARG_A]),
            ("self.rule_blocks", "e.blocks", f"List {BLK}", True),
            ("self.output_variables", "e.outputs", f"List {OUT}", True),
        ],
        "stmt_externals": [
            assign("block", "conjunction", ARG_N), assign("block", "disjunction", ARG_N), assign("block", "implication", ARG_N),
            assign("block", "activation", ARG_A), assign("variable_", "aggregation", ARG_N), assign("variable_", "defuzzifier", ARG_D),
        ],
    },
    {
        "name": "FllImporter_component", "module": "fuzzylite.importer", "object": "FllImporter.component", "file": FC,
        "params": [("cls", "Py.W5.ClassOf"), ("fll", "String")], "locals": {}, "ret": "Py.W5.Component",
        "externals": [
            ("issubclass(cls, Activation)", "cls.isActivation", "Bool", True),
            ("issubclass(cls, Defuzzifier)", "cls.isDefuzzifier", "Bool", True),
            ("issubclass(cls, SNorm)", "cls.isSNorm", "Bool", True),
            ("issubclass(cls, TNorm)", "cls.isTNorm", "Bool", True),
        ] + [(f"self.{m}(_0)",
              f"(FllImporter_{m}.run {{0}} {{{{}}}} >>= fun r => Py.deref r.ret >>= fun v => .ok (Py.W5.Component.{m} v))",
              "Py.W5.Component", False, ["String"]) for m in ("activation", "defuzzifier", "snorm", "tnorm")],
    },
]
FILES[FC] = {"imports": ["FlVerif.Op.PyExtWave5XCfg", "FlVerif.Gen.CodeFllImport"]}

# ---- Variable.term (C02): the look-up by name or index of `Engine.input_variable`, on the terms of a variable
FV = "CodeWave5XVar"
KEY = "Op.Engine.Key"
PROFILES += [
    {
        "name": "Variable_term", "module": "fuzzylite.variable", "object": "Variable.term", "file": FV, "type_params": ["V"],
        "params": [("nameOf", "V → String"), ("terms", "List V"), ("name_or_index", KEY)],
        "locals": {"term": "V"}, "ret": "V",
        "externals": [
            ("self.terms", "terms", "List V", True),
            ("isinstance(name_or_index, int)", "name_or_index.isInt", "Bool", True),
            ("_0[name_or_index]", "(Py.EIO.atKey {0} name_or_index)", "V", False, ["List V"]),
            ("term_.name == name_or_index", "(name_or_index.isName (nameOf σ.term_))", "Bool", True),
        ],
    },
]
FILES[FV] = {"imports": ["FlVerif.Op.PyExtEngineIO"]}

# ---- Settings.__init__, the lazy property Settings.factory_manager (C20)
DOC_SET = """
* `Settings.__init__`, `Settings.factory_manager` (getter and setter; `library.py`): the object is the map from attribute
  index to value of the `Settings.context` tie (`store`), `Py.W5.attr name` is the index of a setting in the regenerated
  key list; the arguments of `__init__` are the map `args` (a parameter that is not given = its default: whatever the
  caller's map holds), `logging.getLogger("fuzzylite")` is the parameter `default_logger`, `FactoryManager()` the parameter
  `fresh` (the identity of the object that is created).
"""
__doc__ += DOC_SET
FS = "CodeWave5XSet"
OST = "Nat → Option Nat"
SETTINGS = ["float_type", "decimals", "atol", "rtol", "alias", "logger", "factory_manager"]


def attr(name):
    return f'(Py.W5.attr "{name}")'


def store(name, value):
    return f"{{{{ σ with store := Py.Settings.setattr σ.store {attr(name)} {value} }}}}"


PROFILES += [
    {
        "name": "Settings_init", "module": "fuzzylite.library", "object": "Settings.__init__", "file": FS,
        # `store0`: the attributes of the object before the constructor runs (none of the seven)
        "params": [("args", OST), ("default_logger", "Nat"), ("store0", OST)], "init": {"store": "store0"}, "locals": {"store": OST},
        "externals": [(p, f"(args {attr(p)})", "Option Nat", True) for p in SETTINGS]
        + [("logging.getLogger('fuzzylite')", "default_logger", "Nat", True)],
        "stmt_externals": [(f"self.{p} = _0", store(p, "{0}"), True, ["Option Nat"]) for p in SETTINGS if p not in ("logger", "factory_manager")]
        + [("self.logger = _0", store("logger", "(some {0})"), True, ["Nat"]),
           ("self._factory_manager = _0", store("factory_manager", "{0}"), True, ["Option Nat"])],
    },
    {
        "name": "Settings_factory_manager_get", "module": "fuzzylite.library", "object": "Settings.factory_manager.fget", "file": FS,
        "params": [("store0", OST), ("fresh", "Nat")], "init": {"store": "store0"}, "locals": {"store": OST}, "ret": "Option Nat",
        "externals": [("self._factory_manager", f"(σ.store {attr('factory_manager')})", "Option Nat", True),
                      ("FactoryManager()", "fresh", "Nat", True)],
        "stmt_externals": [("self._factory_manager = _0", store("factory_manager", "(some {0})"), True, ["Nat"])],
    },
    {
        "name": "Settings_factory_manager_set", "module": "fuzzylite.library", "object": "Settings.factory_manager.fset", "file": FS,
        "params": [("store0", OST), ("value", "Option Nat")], "init": {"store": "store0"}, "locals": {"store": OST},
        "stmt_externals": [("self._factory_manager = _0", store("factory_manager", "{0}"), True, ["Option Nat"])],
    },
]
FILES[FS] = {"imports": ["FlVerif.Op.PyExtWave5XSet"]}
