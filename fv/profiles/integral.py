"""Profiles of the integral defuzzifiers (C09): `Op.midpoints`, `Centroid / Bisector / SmallestOfMaximum / MeanOfMaximum /
LargestOfMaximum.defuzzify`, `Activated.membership`, `Aggregated.membership`.

Straight-line NumPy code: every NumPy call is an external of `lean/FlVerif/Op/PyExtIntegral.lean` (`Py.Np.*`), chosen by
the Lean types of its arguments (`Row` = 1-D array, `Mat` = 2-D array = list of rows, `BMat` = 2-D array of truth
values, `Nd` = a value of rank 0, 1 or 2).  `term.membership(x)` of the defuzzifiers is a parameter (`mem`: any
function that returns a NumPy value or raises)."""

X = "X Rat"
ROW, MAT, BMAT, ND = "Py.Np.Row", "Py.Np.Mat", "Py.Np.BMat", "Py.Np.Nd"
NORM = "X Rat → X Rat → X Rat"
ACT = "Py.Np.Act"

MIDPOINTS = {
    "name": "Op_midpoints", "module": "fuzzylite.operation", "object": "Op.midpoints", "file": "CodeIntegral",
    "params": [("start", X), ("end", X), ("resolution", "Nat")],
    "locals": {}, "ret": ROW,
    "externals": [
        ("np.array(range(_0))", "(Py.Np.arange {0})", ROW, True, ["Nat"]),
        ("_0 + _1", "(List.map (fun v => X.add v {1}) {0})", ROW, True, [ROW, X]),      # array + scalar
        ("_0 * _1", "(List.map (fun v => X.mul v {1}) {0})", ROW, True, [ROW, X]),      # array * scalar
        ("_0 + _1", "(List.map (fun v => X.add {0} v) {1})", ROW, True, [X, ROW]),      # scalar + array
        ("_0 / _1", "(Py.Np.divInt {0} {1})", X, False, [X, "Nat"]),                    # Python float / int
    ],
}

DEFUZZ_EXT = [
    ("Op.midpoints(minimum, maximum, self.resolution)", "(Py.Np.midpoints minimum maximum resolution)", ROW, False),
    ("np.atleast_2d(_0)", "[{0}]", MAT, True, [ROW]),
    ("np.atleast_2d(_0)", "(Py.Np.atleast2d {0})", MAT, True, [ND]),
    ("term.membership(_0)", "(mem {0})", ND, False, [MAT]),
    # elementwise operations with broadcasting
    ("_0 * _1", "(Py.Np.zip2 X.mul {0} {1})", MAT, False, [MAT, MAT]),
    ("_0 / _1", "(Py.Np.zip2 X.div {0} {1})", MAT, False, [MAT, MAT]),
    ("_0 / _1", "(Py.Np.zip1 X.div {0} {1})", ROW, False, [ROW, ROW]),
    ("_0 == _1", "(Py.Np.zip2 X.eq {0} {1})", BMAT, False, [MAT, MAT]),
    ("_0 & _1", "(Py.Np.zip2 and {0} {1})", BMAT, False, [BMAT, BMAT]),
    ("np.where(_0, _1, np.nan)", "(Py.Np.whereNan {0} {1})", MAT, False, [BMAT, MAT]),
    ("_0 - _1", "(Py.Np.map2 (fun v => X.sub v {1}) {0})", MAT, True, [MAT, X]),
    ("_0 > 0", "(Py.Np.map2 (fun v => X.lt (.fin 0) v) {0})", BMAT, True, [MAT]),
    ("np.abs(_0)", "(Py.Np.map2 X.abs {0})", MAT, True, [MAT]),
    # row-wise reductions and scans
    ("_0.sum(axis=1)", "(Py.Np.sumAxis1 {0})", ROW, True, [MAT]),
    ("np.nancumsum(_0, axis=1)", "(List.map Op.Integral.nancumsum {0})", MAT, True, [MAT]),
    ("_0[:, [-1]]", "(Py.Np.lastCol {0})", MAT, False, [MAT]),
    ("_0.min(axis=1, keepdims=True)", "(Py.Np.reduceKeep .value Op.Integral.npMin {0})", MAT, False, [MAT]),
    ("_0.max(axis=1, keepdims=True)", "(Py.Np.reduceKeep .value Op.Integral.npMax {0})", MAT, False, [MAT]),
    ("np.nanmean(_0, axis=1)", "(List.map Op.Integral.nanmean {0})", ROW, True, [MAT]),
    ("np.nanmin(_0, axis=1)", "(Py.Np.reduce1 .value Op.Integral.nanmin {0})", ROW, False, [MAT]),
    ("np.nanmax(_0, axis=1)", "(Py.Np.reduce1 .value Op.Integral.nanmax {0})", ROW, False, [MAT]),
    ("_0.squeeze()", "(Py.Np.squeeze1 {0})", ND, True, [ROW]),
]


def defuzz(cls):
    return {
        "name": f"{cls}_defuzzify", "module": "fuzzylite.defuzzifier", "object": f"{cls}.defuzzify", "file": "CodeIntegral",
        # mem: `term.membership`; minimum, maximum: the range (Python numbers); resolution: `self.resolution`
        "params": [("mem", f"{MAT} → Py.M {ND}"), ("minimum", X), ("maximum", X), ("resolution", "Nat")],
        "locals": {"x": MAT, "y": MAT, "z": ND, "area": MAT, "index": BMAT, "bisectors": MAT, "y_max": BMAT,
                   "lom": MAT, "mom": MAT, "som": MAT},
        "ret": ND,
        "plain_with": ["warnings.catch_warnings()"], "skip_stmts": ["warnings.simplefilter('ignore')"],
        "externals": DEFUZZ_EXT,
    }


ACTIVATED = {
    "name": "Activated_membership", "module": "fuzzylite.term", "object": "Activated.membership", "file": "CodeIntegral",
    # mu: the (elementwise) membership function of the activated term; degrees: the degrees given to the constructor
    "params": [("mu", "X Rat → X Rat"), ("degrees", "List (X Rat)"), ("impl", f"Option ({NORM})"), ("x", MAT)],
    "locals": {"y": ND}, "ret": ND,
    "externals": [
        ("self.implication.compute(_0, _1)", "(Py.deref impl >>= fun f => Py.Np.zipNd f (.mat {0}) (.mat {1}))", ND, False, [MAT, MAT]),
        ("self.implication", "impl", f"Option ({NORM})", True),
        ("np.atleast_2d(self.degree).T", "(Py.Np.degreeColumn degrees)", MAT, True),
        ("self.term.membership(_0)", "(Py.Np.map2 mu {0})", MAT, True, [MAT]),
        ("np.ndim(_0)", "2", "Nat", True, [MAT]),
        ("_0.shape[0]", "(Py.Np.shape0 {0})", "Nat", False, [ND]),
        ("_0.squeeze()", "(Py.Np.squeezeNd {0})", ND, True, [ND]),
    ],
}

AGGREGATED = {
    "name": "Aggregated_membership", "module": "fuzzylite.term", "object": "Aggregated.membership", "file": "CodeIntegral",
    # xr: the row of sample points; Python's `x` is the array `[xr]` of shape (1, n) the defuzzifiers pass
    "params": [("agg", f"Option ({NORM})"), ("terms", f"List {ACT}"), ("xr", ROW)],
    "locals": {"y": ND, "term": ACT}, "ret": ND,
    "externals": [
        ("self.aggregation.compute(_0, _1)", "(Py.deref agg >>= fun f => Py.Np.zipNd f {0} {1})", ND, False, [ND, ND]),
        ("self.aggregation", "agg", f"Option ({NORM})", True),
        ("self.terms", "terms", f"List {ACT}", True),
        ("scalar(0.0)", "(Py.Np.Nd.scalar (.fin 0))", ND, True),
        ("_0.membership(x)", "(Py.Np.activatedMembership {0} xr)", ND, False, [ACT]),
    ],
}

PROFILES = [MIDPOINTS] + [defuzz(c) for c in ("Centroid", "Bisector", "SmallestOfMaximum", "MeanOfMaximum", "LargestOfMaximum")] + [
    ACTIVATED, AGGREGATED]

FILES = {"CodeIntegral": {"imports": ["FlVerif.Op.PyExtIntegral"]}}
