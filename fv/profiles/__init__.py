"""Translation profiles for `pylean.py`, one module per topic (every module of this package that defines `PROFILES`
and `FILES` is loaded; a new topic is a new file, so that independent additions never touch the same file)."""
import importlib
import pkgutil

PROFILES, FILES = [], {}
for _m in sorted(m.name for m in pkgutil.iter_modules(__path__)):
    _mod = importlib.import_module(f"{__name__}.{_m}")
    PROFILES += list(getattr(_mod, "PROFILES", []))
    for _k, _v in getattr(_mod, "FILES", {}).items():
        if _k in FILES:
            raise RuntimeError(f"generated file {_k} is declared by two profile modules")
        FILES[_k] = _v
_names = [p["name"] for p in PROFILES]
if len(set(_names)) != len(_names):
    raise RuntimeError("two profiles have the same name: " + ", ".join(n for n in _names if _names.count(n) > 1))
