"""Profiles of the fifth wave (group Y): constructors and the remaining parameter readers / writers.

* the shape classes of `term.py` that are configured through `Term._parse`: `__init__`, `parameters`, `configure` of
  every class - ONE parametrised profile per method (`init_`, `params_`, `conf_` below), instantiated with the class and
  the list of its attributes in the order of the source.  `Triangle.__init__` / `Trapezoid.__init__` additionally
  compute missing vertices (`np.isnan` tests, float arithmetic on `X Rat`);
* `First` / `Last` / `Highest` / `Lowest` / `Threshold` of `activation.py`: `__init__`, `parameters`, `configure`;
* the plain constructors `Variable`, `InputVariable`, `OutputVariable`, `Rule`, `Rule.create`, `RuleBlock`, `Engine`,
  `Proposition`, `Operator`, `Antecedent`, `Consequent`, `Activated`, `Aggregated` as record builders.

Conventions.  An attribute `self.a` the function assigns is the local `self_a`; where the function *reads* such an
attribute back (`self.bottom_right - self.bottom_left`) the external `self.a ↦ σ.self_a` names the field of the current
record.  A call of the constructor of the base class (`super().__init__(…)`) runs the *translated* constructor of that
class and copies its fields (the generated files of the callees are imported), so its meaning is the tied callee.
Numbers of constructors are `X Rat` (they are stored, compared with NaN and added); the texts of `parameters` /
`configure` work on `Num` / `Dec` like the other ties of C14.  A list argument `Iterable | None` is `Option (List T)`;
what the constructor stores is a `Py.W5Y.Stored T`: the items together with the fact whether the stored list is a *new*
list (`list(…)`, a list literal that is extended) or the caller's own object - an assignment of the argument itself
does not type-check against the field.  The externals are in `lean/FlVerif/Op/PyExtWave5Y.lean`."""

FILE = "CodeWave5Y"
FILE_ACT = "CodeWave5YAct"
FILE_CTOR = "CodeWave5YCtor"
P = "Py.FllIn"
W = "Py.W5Y"
RD = ("rd", "String → Option Num")
CFG = "Op.FllIO.Cfg"

# ---------------------------------------------------------------- term classes configured through `Term._parse`
# class -> attributes in the order of the constructor / of `parameters` / of `configure`
SHAPES = {
    "Arc": ["start", "end"],
    "Bell": ["center", "width", "slope"],
    "Binary": ["start", "direction"],
    "Concave": ["inflection", "end"],
    "Cosine": ["center", "width"],
    "Gaussian": ["mean", "standard_deviation"],
    "GaussianProduct": ["mean_a", "standard_deviation_a", "mean_b", "standard_deviation_b"],
    "PiShape": ["bottom_left", "top_left", "top_right", "bottom_right"],
    "Ramp": ["start", "end"],
    "Rectangle": ["start", "end"],
    "SemiEllipse": ["start", "end"],
    "Sigmoid": ["inflection", "slope"],
    "SigmoidDifference": ["left", "rising", "falling", "right"],
    "SigmoidProduct": ["left", "rising", "falling", "right"],
    "Spike": ["center", "width"],
    "SShape": ["start", "end"],
    "Trapezoid": ["bottom_left", "top_left", "top_right", "bottom_right"],
    "Triangle": ["left", "top", "right"],
    "ZShape": ["start", "end"],
}
# tied already (fv/profiles/termparse.py, fllexport.py)
DONE = {("Triangle", "configure"), ("Trapezoid", "configure"), ("Triangle", "parameters")}

# `super().__init__(name, height)`: the translated `Term.__init__` (`C03.code_termInit`) on a fresh record; its two fields
SUPER_TERM = ("super().__init__(name, height)",
              "((Term_init.run name height {{}}) >>= fun s => .ok {{ σ with self_name := s.self_name, self_height := s.self_height }})",
              False)


def holes(n):
    return ", ".join(f"_{i}" for i in range(n))


def init_(cls, attrs, **kw):
    """`C.__init__(self, name, a1, …, an, height)`"""
    return dict({"name": f"{cls}_init", "module": "fuzzylite.term", "object": f"{cls}.__init__", "file": FILE,
                 "params": [("name", "String")] + [(a, "X Rat") for a in attrs] + [("height", "X Rat")],
                 "locals": dict({"self_name": "String", "self_height": "X Rat"}, **{f"self_{a}": "X Rat" for a in attrs}),
                 "stmt_externals": [SUPER_TERM], "emit_defaults": True}, **kw)


def params_(cls, attrs):
    """`C.parameters(self)`: `super()._parameters(self.a1, …, self.an)` (what `C14.code_termParameters` proves it returns)"""
    n = len(attrs)
    return {"name": f"{cls}_parameters", "module": "fuzzylite.term", "object": f"{cls}.parameters", "file": FILE,
            "params": [("c", CFG)] + [(a, "Num") for a in attrs] + [("h", "Num")], "ret": "String",
            "externals": [(f"self.{a}", a + ("_" if a == "end" else ""), "Num", True) for a in attrs] + [
                (f"super()._parameters({holes(n)})",
                 "(Py.Fll.parameters c [" + ", ".join(f"{{{i}}}" for i in range(n)) + "] h)", "String", True, ["Num"] * n)]}


def conf_(cls, attrs):
    """`C.configure(self, parameters)`: `self.a1, …, self.an, self.height = self._parse(n, parameters)`"""
    return {"name": f"{cls}_configure", "module": "fuzzylite.term", "object": f"{cls}.configure", "file": FILE,
            "params": [RD, ("parameters", "String")],
            "locals": dict({f"self_{a}": "Num" for a in attrs}, self_height="Num"),
            "externals": [("self._parse(_0, parameters)", f"({P}.parseVals rd {{0}} parameters true)", "List Num", False, ["Nat"])]}


ISNAN = ("np.isnan(_0)", "(X.isnan {0})", "Bool", True, ["X Rat"])


def reads(attrs):
    """an attribute assigned earlier in the function and read back: the field of the current record"""
    return [(f"self.{a}", f"σ.self_{a}", "X Rat", True) for a in attrs]


PROFILES = []
for _cls, _attrs in SHAPES.items():
    if _cls == "Triangle":
        PROFILES.append(init_(_cls, _attrs, externals=[ISNAN]))
    elif _cls == "Trapezoid":
        PROFILES.append(init_(_cls, _attrs, externals=[ISNAN] + reads(["bottom_left", "bottom_right"]),
                              locals=dict({"self_name": "String", "self_height": "X Rat", "range_": "X Rat"},
                                          **{f"self_{a}": "X Rat" for a in _attrs})))
    else:
        PROFILES.append(init_(_cls, _attrs))
    if (_cls, "parameters") not in DONE:
        PROFILES.append(params_(_cls, _attrs))
    if (_cls, "configure") not in DONE:
        PROFILES.append(conf_(_cls, _attrs))


# ---------------------------------------------------------------- activation.py: First / Last / Highest / Lowest / Threshold
# `int(text)` is the reader `rdi : String → Option Int`, `to_float(text)` the reader `rd` (parameters of the functions and
# of the theorems, as for the terms); `Op.str(n)` of an `int` is `str(n)`; a member of `Threshold.Comparator` is its symbol
# (`Py.W5Y.CmpArg.member`), `Threshold.Comparator(text)` the look-up by value (`ValueError` for any other text).
RDI = ("rdi", "String → Option Int")
CMP = f"{W}.CmpArg"
ACT_CONF_EXT = [
    ("_0.split()", "(Py.split {0})", "List String", True, ["String"]),
    ("int(_0)", f"({W}.toInt rdi {{0}})", "Int", False, ["String"]),
    ("to_float(_0)", f"({P}.toFloat rd {{0}})", "Num", False, ["String"]),
    ("Threshold.Comparator(_0)", f"({W}.comparatorOfText {{0}})", "String", False, ["String"]),
]


def act_init(cls, fields):
    return {"name": f"{cls}_init", "module": "fuzzylite.activation", "object": f"{cls}.__init__", "file": FILE_ACT,
            "params": list(fields), "locals": {f"self_{n}": t for n, t in fields}, "emit_defaults": True}


def act_params(cls, fields, ext):
    return {"name": f"{cls}_parameters", "module": "fuzzylite.activation", "object": f"{cls}.parameters", "file": FILE_ACT,
            "params": [("c", CFG)] + list(fields), "ret": "String", "externals": ext}


def act_conf(cls, fields, words, params):
    return {"name": f"{cls}_configure", "module": "fuzzylite.activation", "object": f"{cls}.configure", "file": FILE_ACT,
            "params": params + [("parameters", "String")],
            "locals": dict({w: "String" for w in words}, **{f"self_{n}": t for n, t in fields}),
            "externals": ACT_CONF_EXT}


STR_RULES = ("Op.str(self.rules)", "(toString rules)", "String", True)
STR_THRESHOLD = ("Op.str(self.threshold)", "(Py.Fll.numText c.d threshold)", "String", True)
NTH = [("rules", "Int"), ("threshold", "Num")]
BEST = [("rules", "Int")]
for _cls in ("First", "Last"):
    PROFILES += [act_init(_cls, NTH), act_params(_cls, NTH, [STR_RULES, STR_THRESHOLD]),
                 act_conf(_cls, NTH, ["rules", "threshold"], [RDI, RD])]
for _cls in ("Highest", "Lowest"):
    PROFILES += [act_init(_cls, BEST), act_params(_cls, BEST, [("str(self.rules)", "(toString rules)", "String", True)]),
                 {"name": f"{_cls}_configure", "module": "fuzzylite.activation", "object": f"{_cls}.configure", "file": FILE_ACT,
                  "params": [RDI, ("parameters", "String")], "locals": {"self_rules": "Int"}, "externals": ACT_CONF_EXT}]
PROFILES += [
    # the argument is a member of the enumeration or a string; the local `comparator` starts as the argument `comparator0`
    {"name": "Threshold_init", "module": "fuzzylite.activation", "object": "Threshold.__init__", "file": FILE_ACT,
     "params": [("comparator0", CMP), ("threshold", "Num")], "init": {"comparator": "comparator0"},
     "locals": {"comparator": CMP, "self_comparator": CMP, "self_threshold": "Num"}, "emit_defaults": True,
     "const_objects": [("Threshold.Comparator.GreaterThan", f'({CMP}.member ">")', CMP)],
     "externals": [("isinstance(comparator, str)", f"({CMP}.isStr σ.comparator)", "Bool", True),
                   ("Threshold.Comparator(comparator)", f"({W}.comparatorOf σ.comparator)", CMP, False)]},
    act_params("Threshold", [("comparator", "String"), ("threshold", "Num")],
               [("self.comparator.value", "comparator", "String", True), STR_THRESHOLD]),
    act_conf("Threshold", [("comparator", "String"), ("threshold", "Num")], ["comparator", "threshold"], [RD]),
]

# ---------------------------------------------------------------- plain constructors (record builders)
STORED = f"{W}.Stored"
XR = "X Rat"


def copy_of(ty):
    """`list(x or [])`: a new list with the items of `x` (none for `None` / an empty `x`)"""
    return ("list(_0 or [])", f"({STORED}.copyOf {{0}})", f"{STORED} {ty}", True, [f"Option (List {ty})"])


def ctor(name, module, obj, params, fields, **kw):
    return dict({"name": name, "module": module, "object": obj, "file": FILE_CTOR, "params": params,
                 "locals": fields, "emit_defaults": True}, **kw)


VAR_PARAMS = [("name", "String"), ("description", "String"), ("enabled", "Bool"), ("minimum", XR), ("maximum", XR),
              ("lock_range", "Bool"), ("terms", "Option (List T)")]
VAR_FIELDS = {"self_name": "String", "self_description": "String", "self_enabled": "Bool", "self_minimum": XR,
              "self_maximum": XR, "self_lock_range": "Bool", "self_terms": f"{STORED} T", "self__value": XR}
# `self.value = scalar(nan)`: the translated setter of `Variable.value` (`C12.code_valueSetter`) with the attributes
# assigned so far as its configuration
SET_VALUE_NAN = ("self.value = scalar(nan)",
                 "((Variable_set_value.run {{ lockPrev := false, lockRange := σ.self_lock_range, dflt := X.nan, lo := σ.self_minimum, "
                 "hi := σ.self_maximum }} X.nan {{}}) >>= fun s => .ok {{ σ with self__value := s.self__value }})", False)
VAR_KW = "name=name, description=description, enabled=enabled, minimum=minimum, maximum=maximum, lock_range=lock_range, terms=terms"
VAR_RUN = "(Variable_init.run name description enabled minimum maximum lock_range terms {{}})"
AGG = "(Aggregated_init.S String Unit)"          # the fuzzy output of an output variable: aggregation by name, no activated terms yet

PROFILES += [
    # `Term.__init__` once more, with the defaults of its signature (the constructors below call it with one argument)
    ctor("Term_init5", "fuzzylite.term", "Term.__init__", [("name", "String"), ("height", XR)],
         {"self_name": "String", "self_height": XR}),
    ctor("Variable_init", "fuzzylite.variable", "Variable.__init__", VAR_PARAMS, VAR_FIELDS, type_params=["T"],
         externals=[copy_of("T")], stmt_externals=[SET_VALUE_NAN]),
    # `super().__init__(…)`: the translated `Variable.__init__` on a fresh record, every field copied
    ctor("InputVariable_init", "fuzzylite.variable", "InputVariable.__init__", VAR_PARAMS, VAR_FIELDS, type_params=["T"],
         stmt_externals=[(f"super().__init__({VAR_KW})",
                          f"({VAR_RUN} >>= fun s => .ok {{{{ σ with self_name := s.self_name, self_description := s.self_description, "
                          "self_enabled := s.self_enabled, self_minimum := s.self_minimum, self_maximum := s.self_maximum, "
                          "self_lock_range := s.self_lock_range, self_terms := s.self_terms, self__value := s.self__value }})", False)]),
    # `Aggregated.__init__`: aggregation operator of type `N`, activated terms of type `A`
    ctor("Aggregated_init", "fuzzylite.term", "Aggregated.__init__",
         [("name", "String"), ("minimum", XR), ("maximum", XR), ("aggregation", "Option N"), ("terms", "Option (List A)")],
         {"self_name": "String", "self_height": XR, "self_minimum": XR, "self_maximum": XR, "self_aggregation": "Option N",
          "self_terms": f"{STORED} A"}, type_params=["N", "A"], externals=[copy_of("A")],
         stmt_externals=[("super().__init__(name)",
                          "((Term_init5.run name Term_init5.dflt_height {{}}) >>= fun s => .ok {{ σ with self_name := s.self_name, self_height := s.self_height }})",
                          False)]),
    # the object has no attributes `minimum` / `maximum` / `aggregation` of its own: the properties of the class store them
    # in `self.fuzzy` (so does the `self.minimum = minimum` inside `Variable.__init__`, which runs on this object)
    ctor("OutputVariable_init", "fuzzylite.variable", "OutputVariable.__init__",
         [("name", "String"), ("description", "String"), ("enabled", "Bool"), ("minimum", XR), ("maximum", XR), ("lock_range", "Bool"),
          ("lock_previous", "Bool"), ("default_value", XR), ("aggregation", "Option String"), ("defuzzifier", "Option D"),
          ("terms", "Option (List T)")],
         {"self_fuzzy": AGG, "self_name": "String", "self_description": "String", "self_enabled": "Bool", "self_lock_range": "Bool",
          "self_terms": f"{STORED} T", "self__value": XR, "self_defuzzifier": "Option D", "self_lock_previous": "Bool",
          "self_default_value": XR, "self_previous_value": XR}, type_params=["T", "D"],
         externals=[("Aggregated(name=_0, minimum=_1, maximum=_2, aggregation=_3)",
                     "(Aggregated_init.run (N := String) (A := Unit) {0} {1} {2} {3} Aggregated_init.dflt_terms {{}})", AGG, False,
                     ["String", XR, XR, "Option String"])],
         stmt_externals=[(f"super().__init__({VAR_KW})",
                          f"({VAR_RUN} >>= fun s => .ok {{{{ σ with self_name := s.self_name, self_description := s.self_description, "
                          "self_enabled := s.self_enabled, self_fuzzy := {{ σ.self_fuzzy with self_minimum := s.self_minimum, self_maximum := s.self_maximum }}, "
                          "self_lock_range := s.self_lock_range, self_terms := s.self_terms, self__value := s.self__value }})", False)]),
    # ---- term.py
    {"name": "Activated_set_degree", "module": "fuzzylite.term", "object": "Activated.degree.fset", "file": FILE_CTOR,
     "params": [("value", XR)], "locals": {"self__degree": XR},
     "externals": [("np.nan_to_num(_0, nan=_1, neginf=_2, posinf=_3)", "(X.nanToNum {0} {1} {2} {3})", XR, True, [XR, XR, XR, XR])]},
    ctor("Activated_init", "fuzzylite.term", "Activated.__init__",
         [("term", "T"), ("degree", XR), ("implication", "Option N")],
         {"self_name": "String", "self_height": XR, "self_term": "T", "self__degree": XR, "self_implication": "Option N"},
         type_params=["T", "N"],
         stmt_externals=[("super().__init__('_')",
                          "((Term_init5.run \"_\" Term_init5.dflt_height {{}}) >>= fun s => .ok {{ σ with self_name := s.self_name, self_height := s.self_height }})",
                          False),
                         ("self.degree = degree",
                          "((Activated_set_degree.run degree {{}}) >>= fun s => .ok {{ σ with self__degree := s.self__degree }})", False)]),
    # ---- rule.py
    ctor("Proposition_init", "fuzzylite.rule", "Proposition.__init__",
         [("variable", "Option V"), ("hedges", "Option (List H)"), ("term", "Option T")],
         {"self_variable": "Option V", "self_hedges": f"{STORED} H", "self_term": "Option T"}, type_params=["V", "H", "T"],
         truthy={"Option (List H)": f"({W}.truthyOptList {{0}})"},
         externals=[("[]", f"({STORED}.fresh [])", f"{STORED} H", True)],
         stmt_externals=[("self.hedges.extend(hedges)", "{{ σ with self_hedges := σ.self_hedges.extend (hedges.getD []) }}", True)]),
    ctor("Operator_init", "fuzzylite.rule", "Operator.__init__",
         [("name", "String"), ("right", "Option E"), ("left", "Option E")],
         {"self_name": "String", "self_right": "Option E", "self_left": "Option E"}, type_params=["E"]),
    ctor("Antecedent_init", "fuzzylite.rule", "Antecedent.__init__", [("text", "String")],
         {"self_text": "String", "self_expression": "Option E"}, type_params=["E"]),
    ctor("Consequent_init", "fuzzylite.rule", "Consequent.__init__", [("text", "String")],
         {"self_text": "String", "self_conclusions": f"{STORED} P"}, type_params=["P"],
         externals=[("[]", f"({STORED}.fresh [])", f"{STORED} P", True)]),
]

ANTE = "(Antecedent_init.S E)"
CONS = "(Consequent_init.S P)"
RULE_T = "(Rule_init.S E P)"
PROFILES += [
    # `scalar(0.0)` is the number, `array(False)` the flag; `Antecedent()` / `Consequent()` are the translated constructors
    # with the defaults of their signatures, called only when the argument is `None`
    ctor("Rule_init", "fuzzylite.rule", "Rule.__init__",
         [("enabled", "Bool"), ("weight", XR), ("antecedent", f"Option {ANTE}"), ("consequent", f"Option {CONS}")],
         {"self_enabled": "Bool", "self_weight": XR, "self_activation_degree": XR, "self_triggered": "Bool",
          "self_antecedent": ANTE, "self_consequent": CONS}, type_params=["E", "P"],
         externals=[("scalar(_0)", "{0}", XR, True, [XR]), ("array(False)", "false", "Bool", True),
                    ("Antecedent()", "(Antecedent_init.run (E := E) Antecedent_init.dflt_text {{}})", ANTE, False),
                    ("Consequent()", "(Consequent_init.run (P := P) Consequent_init.dflt_text {{}})", CONS, False)]),
    # `parse` / `load`: what `Rule.parse(text)` / `Rule.load(engine)` do to the rule object or raise (tied by C16)
    {"name": "Rule_create", "module": "fuzzylite.rule", "object": "Rule.create", "file": FILE_CTOR, "type_params": ["E", "P", "G"],
     "params": [("parse", f"String → {RULE_T} → Py.M {RULE_T}"), ("load", f"G → {RULE_T} → Py.M {RULE_T}"), ("text", "String"),
                ("engine0", "Option G")],
     # (the argument `engine` is kept in the record: a type parameter must occur in a field)
     "init": {"engine": "engine0"}, "locals": {"rule": RULE_T, "engine": "Option G"}, "ret": RULE_T, "emit_defaults": True,
     "externals": [("Rule()", "(Rule_init.run (E := E) (P := P) Rule_init.dflt_enabled Rule_init.dflt_weight Rule_init.dflt_antecedent "
                    "Rule_init.dflt_consequent {{}})", RULE_T, False)],
     "stmt_externals": [("rule.parse(text)", "((parse text σ.rule) >>= fun r => .ok ({{ σ with rule := r }} : Rule_create.S))", False),
                        ("rule.load(engine)", "((Py.deref σ.engine >>= fun g => load g σ.rule) >>= fun r => .ok ({{ σ with rule := r }} : Rule_create.S))", False)]},
    ctor("RuleBlock_init", "fuzzylite.rule", "RuleBlock.__init__",
         [("name", "String"), ("description", "String"), ("enabled", "Bool"), ("conjunction", "Option N"), ("disjunction", "Option M"),
          ("implication", "Option N"), ("activation", "Option A"), ("rules", "Option (List R)")],
         {"self_name": "String", "self_description": "String", "self_enabled": "Bool", "self_conjunction": "Option N",
          "self_disjunction": "Option M", "self_implication": "Option N", "self_activation": "Option A", "self_rules": f"{STORED} R"},
         type_params=["N", "M", "A", "R"], externals=[copy_of("R")]),
    # `termsOf v`: `v.terms`; `loadRules b`: what `b.load_rules(self)` does to the block or raises (`C16.code_loadRules`).
    # `updated`: the terms `update_reference(self)` has been called on, in order; `loaded`: the blocks as `load_rules` left them
    ctor("Engine_init", "fuzzylite.engine", "Engine.__init__",
         [("termsOf", "V → List T"), ("loadRules", "B → Py.M B"), ("name", "String"), ("description", "String"),
          ("input_variables", "Option (List V)"), ("output_variables", "Option (List V)"), ("rule_blocks", "Option (List B)"), ("load", "Bool")],
         {"self_name": "String", "self_description": "String", "self_input_variables": f"{STORED} V",
          "self_output_variables": f"{STORED} V", "self_rule_blocks": f"{STORED} B", "variable": "V", "term": "T", "rb": "B",
          "updated": "List T", "loaded": "List B"}, type_params=["V", "T", "B"],
         externals=[copy_of("V"), copy_of("B"),
                    ("self.variables", "(σ.self_input_variables.items ++ σ.self_output_variables.items)", "List V", True),
                    ("variable_.terms", "(termsOf σ.variable_)", "List T", True),
                    ("self.rule_blocks", "σ.self_rule_blocks.items", "List B", True)],
         stmt_externals=[("term_.update_reference(self)", "{{ σ with updated := σ.updated ++ [σ.term_] }}", True),
                         ("rb.load_rules(self)", "((loadRules σ.rb) >>= fun b => .ok {{ σ with loaded := σ.loaded ++ [b] }})", False)]),
]

FILES = {
    FILE: {"imports": ["FlVerif.Op.PyExtWave5Y", "FlVerif.Gen.CodeRaisedTerm"]},
    FILE_ACT: {"imports": ["FlVerif.Op.PyExtWave5Y"]},
    FILE_CTOR: {"imports": ["FlVerif.Op.PyExtWave5Y", "FlVerif.Gen.CodeEngineIO"]},
}
