"""Profiles of `RuleBlock.activate` and the two helpers of the activation methods (`Activation.assert_is_not_vector`,
`Threshold.Comparator.operator`), of the factories (`ConstructionFactory.construct`, `CloningFactory.copy`,
`FunctionFactory.operators` / `functions` / `_precedence`), of the two factory look-ups of the FLL importer
(`FllImporter.tnorm` / `snorm`), and of `Engine.infer_type`, `Variable.highest_membership`, `Variable.fuzzify` (models
`lean/FlVerif/Op/Infer.lean`).  Externals: `lean/FlVerif/Op/PyExtBlockAct.lean`.

The activation methods are tied on their own (`base.py`: `act(...)`); there `self.assert_is_not_vector(d)` and
`self.comparator.operator(d, t)` are externals (`rule.vector` / `cmp.eval`).  Here the two callees are translated
themselves, and so is the caller `RuleBlock.activate`, whose call `self.activation.activate(self)` - Python's dynamic
dispatch on the class of the activation object - runs the translation of the method of that class."""

RULE = "Spec.Activation.Rule Rat"
METHOD = "Spec.Activation.Method Rat"
FIRE = "Op.Activation.Fire Rat"
OUTCOME = f"List ({RULE}) × List ({FIRE})"
CMP = "X Rat → X Rat → Bool"


def _case(ctor, cls, args="", reverse=False):
    rules = "(σ.visited.map (·.2)).reverse" if reverse else "σ.visited.map (·.2)"
    return (f"| .{ctor}{(' ' + args) if args else ''} => ({cls}_activate.run (Spec.Activation.enum 0 rules){(' ' + args) if args else ''} {{{{}}}}).map "
            f"(fun σ : {cls}_activate.S => ({rules}, σ.fires))")


# `self.activation.activate(self)`: the method of the class of the object (the rule states in block order and the
# contributions, as `C08.code_activate` reads them off the seven translations)
DISPATCH = ("(match {0} with " + " ".join([
    _case("general", "General"), _case("first", "First", "n t"), _case("last", "Last", "n t", reverse=True),
    _case("highest", "Highest", "n"), _case("lowest", "Lowest", "n"), _case("proportional", "Proportional"),
    _case("threshold", "Threshold", "c t")]) + ")")

ACT_PROFILES = [
    {
        # n: `np.size(activation_degree)`
        "name": "Activation_assert_is_not_vector", "module": "fuzzylite.activation", "object": "Activation.assert_is_not_vector",
        "file": "CodeBlockAct",
        "params": [("n", "Nat")],
        "locals": {"size": "Nat"},
        "externals": [("np.size(activation_degree)", "n", "Nat", True)],
    },
    {
        # symbol: `self.value` of the enumeration member; the table `__operator__` is read at translation time
        "name": "Comparator_operator", "module": "fuzzylite.activation", "object": "Threshold.Comparator.operator.fget",
        "file": "CodeBlockAct",
        "params": [("symbol", "String")],
        "locals": {}, "ret": CMP,
        "const_objects": [("operator.lt", "Py.BlockAct.opLt", CMP), ("operator.le", "Py.BlockAct.opLe", CMP),
                          ("operator.eq", "Py.BlockAct.opEq", CMP), ("operator.ne", "Py.BlockAct.opNe", CMP),
                          ("operator.ge", "Py.BlockAct.opGe", CMP), ("operator.gt", "Py.BlockAct.opGt", CMP)],
        "externals": [("self.value", "symbol", "String", True),
                      ("_0[_1]", "(Py.Dict.get {0} {1})", CMP, False, [f"List (String × ({CMP}))", "String"])],
    },
    {
        # activation: `self.activation` (an object without `__bool__` / `__len__`); rules: the rules as the methods see them
        "name": "RuleBlock_activate", "module": "fuzzylite.rule", "object": "RuleBlock.activate", "file": "CodeBlockAct",
        "params": [("activation", f"Option ({METHOD})"), ("rules", f"List ({RULE})")],
        "locals": {}, "ret": OUTCOME,
        "externals": [("self.activation", "activation", f"Option ({METHOD})", True),
                      ("_0.activate(self)", DISPATCH, OUTCOME, False, [METHOD])],
    },
]

# ---------------------------------------------------------------- factories
ITEMS = "List (String × Lang.Elem)"
FACTORY_PROFILES = [
    {
        # constructors: the dictionary `self.constructors`; call: what `cls(**kwargs)` returns or raises
        "name": "ConstructionFactory_construct", "module": "fuzzylite.factory", "object": "ConstructionFactory.construct",
        "file": "CodeFactory",
        "type_params": ["C", "T"],
        "params": [("constructors", "List (String × C)"), ("call", "C → Py.M T"), ("key", "String")],
        "locals": {}, "ret": "T",
        "externals": [("_0 in self.constructors", "(Py.Dict.mem constructors {0})", "Bool", True, ["String"]),
                      ("_0 not in self.constructors", "(!(Py.Dict.mem constructors {0}))", "Bool", True, ["String"]),
                      ("self.constructors[_0]", "(Py.Dict.get constructors {0})", "C", False, ["String"]),
                      ("_0(**kwargs)", "(call {0})", "T", False, ["C"])],
    },
    {
        # `self.objects` of the FunctionFactory: the element table; a copy of a value is the value
        "name": "CloningFactory_copy", "module": "fuzzylite.factory", "object": "CloningFactory.copy", "file": "CodeFactory",
        "params": [("tbl", "Lang.Table"), ("key", "String")],
        "locals": {}, "ret": "Lang.Elem",
        "externals": [("_0 in self.objects", "(Lang.Table.lookup tbl {0}).isSome", "Bool", True, ["String"]),
                      ("_0 not in self.objects", "(Lang.Table.lookup tbl {0}).isNone", "Bool", True, ["String"]),
                      ("self.objects[_0]", "(Py.lookupElem tbl {0})", "Lang.Elem", False, ["String"]),
                      ("copy.deepcopy(_0)", "{0}", "Lang.Elem", True, ["Lang.Elem"])],
    },
] + [
    {
        "name": f"FunctionFactory_{which}", "module": "fuzzylite.factory", "object": f"FunctionFactory.{which}", "file": "CodeFactory",
        "params": [("tbl", "Lang.Table")],
        "locals": {"result": ITEMS}, "ret": ITEMS,
        "externals": [("self.objects", "(Py.BlockAct.objects tbl)", ITEMS, True),
                      ("_0.is_operator()", "{0}.isOp", "Bool", True, ["Lang.Elem"]),
                      ("_0.is_function()", "(!{0}.isOp)", "Bool", True, ["Lang.Elem"])],
    } for which in ("operators", "functions")
] + [
    {
        "name": "FunctionFactory_precedence", "module": "fuzzylite.factory", "object": "FunctionFactory._precedence", "file": "CodeFactory",
        "params": [("importance", "Nat")],
        "locals": {"maximum": "Nat", "step": "Nat"}, "ret": "Int",
    },
] + [
    {
        # keys: the names registered in `settings.factory_manager.<kind>` (each under the name of its class); the object
        # constructed is named by its class; the callee `construct` is its own translation
        "name": f"FllImporter_{kind}_factory", "module": "fuzzylite.importer", "object": f"FllImporter.{kind}", "file": "CodeFactory",
        "params": [("keys", "List String"), ("fll", "String")],
        "locals": {}, "ret": "String",
        "externals": [(f"settings.factory_manager.{kind}.construct(_0)",
                       "(ConstructionFactory_construct.run (Py.BlockAct.registered keys) (fun c => .ok c) {0} {{}} >>= fun r => Py.deref r.ret)",
                       "String", False, ["String"])],
    } for kind in ("tnorm", "snorm")
]

# ---------------------------------------------------------------- Engine.infer_type, Variable.highest_membership / fuzzify
# Models: lean/FlVerif/Op/Infer.lean.  An output variable is its defuzzifier (`Op.Infer.Defuzz`, with the result of
# `defuzzifier.infer_type(variable)` for a weighted one), a rule block is the flag "its implication is the
# AlgebraicProduct"; the list `reasons` (texts for the user) is not translated.
DEFUZZ = "Op.Infer.Defuzz"
ETYPE = "Op.Infer.EType"
WTYPE = "Op.Weighted.WType"
ACTIVATED = "T × X Rat"
INFER_PROFILES = [
    {
        "name": "Engine_infer_type", "module": "fuzzylite.engine", "object": "Engine.infer_type", "file": "CodeInfer",
        "params": [("e", "Op.Infer.Engine")],
        "skip_if": ["reasons is None"], "skip_stmts": ["reasons.append(_0)"],
        "locals": {"mamdani": "Bool", "larsen": "Bool", "takagi_sugeno": "Bool", "tsukamoto": "Bool", "inverse_tsukamoto": "Bool",
                   "hybrid": "Bool"},
        "ret": ETYPE,
        "externals": [
            ("self.output_variables", "e.outputs", f"List {DEFUZZ}", True),
            ("self.rule_blocks", "e.blocks", "List Op.Infer.Block", True),
            ("isinstance(_0.defuzzifier, IntegralDefuzzifier)", "{0}.isIntegral", "Bool", True, [DEFUZZ]),
            ("isinstance(_0.defuzzifier, WeightedDefuzzifier)", "{0}.isWeighted", "Bool", True, [DEFUZZ]),
            ("_0.defuzzifier.infer_type(_0)", "(Op.Infer.Defuzz.weightedType {0})", WTYPE, False, [DEFUZZ]),
            ("_0.defuzzifier", "{0}.present", "Bool", True, [DEFUZZ]),
            ("isinstance(_0.implication, AlgebraicProduct)", "{0}.product", "Bool", True, ["Op.Infer.Block"]),
            ("WeightedDefuzzifier.Type.TakagiSugeno", f"{WTYPE}.takagiSugeno", WTYPE, True),
            ("WeightedDefuzzifier.Type.Tsukamoto", f"{WTYPE}.tsukamoto", WTYPE, True),
            ("WeightedDefuzzifier.Type.Automatic", f"{WTYPE}.automatic", WTYPE, True),
        ] + [(f"Engine.Type.{py}", f"{ETYPE}.{ln}", ETYPE, True) for py, ln in (
            ("Unknown", "unknown"), ("Mamdani", "mamdani"), ("Larsen", "larsen"), ("TakagiSugeno", "takagiSugeno"),
            ("Tsukamoto", "tsukamoto"), ("InverseTsukamoto", "inverseTsukamoto"), ("Hybrid", "hybrid"))],
    },
    {
        # a term is any type `T`; mu: what `term.membership(x)` returns or raises; an `Activated` is the pair (term, degree as
        # the setter of `Activated.degree` stores it: `nan_to_num(value, nan=0, neginf=0, posinf=1)`)
        "name": "Variable_highest_membership", "module": "fuzzylite.variable", "object": "Variable.highest_membership",
        "file": "CodeInfer", "type_params": ["T"],
        "params": [("mu", "T → Py.M (X Rat)"), ("terms", "List T")],
        "locals": {"highest": f"Option ({ACTIVATED})", "term": "T", "degree": "X Rat"},
        "ret": ACTIVATED,
        "externals": [
            ("self.terms", "terms", "List T", True),
            ("scalar(_0)", "{0}", "X Rat", True, ["X Rat"]),
            ("_0.membership(x)", "(mu {0})", "X Rat", False, ["T"]),
            ("highest.degree", "(Py.deref σ.highest >>= fun h => .ok h.2)", "X Rat", False),
            ("Activated(_0, _1)", "({0}, X.nanToNum01 {1})", ACTIVATED, True, ["T", "X Rat"]),   # the constructor stores the degree through the setter (nan_to_num)
        ],
    },
    {
        # scalar `x`; fv: the text `Activated.fuzzy_value(padding)` of an activated term
        "name": "Variable_fuzzify", "module": "fuzzylite.variable", "object": "Variable.fuzzify", "file": "CodeInfer",
        "type_params": ["T"],
        "params": [("mu", "T → Py.M (X Rat)"), ("fv", f"{ACTIVATED} → Bool → String"), ("terms", "List T")],
        "locals": {"fuzzy_value": "String", "index": "Nat", "term": "T", "activated_term": ACTIVATED},
        "ret": "String",
        "externals": [
            ("self.terms", "terms", "List T", True),
            ("array('', dtype=np.str_)", '""', "String", True),
            ("_0.membership(x)", "(mu {0})", "X Rat", False, ["T"]),
            ("Activated(_0, _1)", "({0}, X.nanToNum01 {1})", ACTIVATED, True, ["T", "X Rat"]),   # the constructor stores the degree through the setter (nan_to_num)
            ("np.char.add(_0, _1)", "({0} ++ {1})", "String", True, ["String", "String"]),
            ("_0.fuzzy_value(padding=_1)", "(fv {0} {1})", "String", True, [ACTIVATED, "Bool"]),
        ],
    },
]

PROFILES = ACT_PROFILES + FACTORY_PROFILES + INFER_PROFILES
FILES = {
    "CodeInfer": {"imports": ["FlVerif.Op.PyExtBlockAct"]},
    "CodeBlockAct": {"imports": ["FlVerif.Op.PyExtBlockAct", "FlVerif.Gen.CodeActivation"]},
    "CodeFactory": {"imports": ["FlVerif.Op.PyExtBlockAct"]},
}
