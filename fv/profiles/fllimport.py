"""Translation profiles of the FuzzyLite Language importer (`fuzzylite/importer.py`, class `FllImporter`).

Objects: a line / a value is a `String`; the components that are built are the records of the token-level model
`Op/FllIO.lean` (`Var`, `OutVar`, `Block`, `Engine`, `Term`, `Defuzz`, `Activ`, `Rule`; an operator is its class name).
The separator is the default `"\\n"`.  String primitives and the methods of other classes (factories, `configure`,
`Rule.create`) are the externals of `lean/FlVerif/Op/PyExtFllImport.lean`.  A call of another method of the importer is

* the *generated definition* of that method for `extract_key_value`, `extract_value`, `boolean`, `range`, `tnorm`,
  `snorm`, `input_variable`, `output_variable`, `rule_block`, `_process`;
* its text-level model (`Py.Fll.termOf`, `ruleOf`, `defuzzOf`, `activOf`) for `term`, `rule`, `defuzzifier`,
  `activation` inside the line loops - the translations of these four methods are tied to the same models by their own
  theorems (`C14.code_fllTerm`, ...).
"""

F = "CodeFllImport"
M = "fuzzylite.importer"
NUM = "Num"
VAR, OUT, BLK, ENG = "Op.FllIO.Var", "Op.FllIO.OutVar", "Op.FllIO.Block", "Op.FllIO.Engine"
TERM, DEFUZZ, ACTIV, RULE = "Op.FllIO.Term", "Op.FllIO.Defuzz", "Op.FllIO.Activ", "Op.FllIO.Rule"


def call(name, *args):
    """the value returned by the generated definition of another method"""
    return f"(FllImporter_{name}.run {' '.join(args)} {{{{}}}} >>= fun r => Py.deref r.ret)"


STR = [
    ("Op.strip_comments(_0)", "(Py.Fll.stripComments {0})", "String", True, ["String"]),
    ("_0.split(':', maxsplit=1)", "(Py.Fll.splitColon {0})", "List String", True, ["String"]),
    ("_0.strip()", "(Py.Fll.strip {0})", "String", True, ["String"]),
    ("_0.split(self.separator)", "(Py.Fll.splitLines {0})", "List String", True, ["String"]),
    ("self.separator.join(_0)", "(Py.Fll.joinLines {0})", "String", True, ["List String"]),
    ("_0.split()", "(Py.Fll.words {0})", "List String", True, ["String"]),
    ("_0.split(maxsplit=1)", "(Py.Fll.split1 {0})", "List String", True, ["String"]),
    ("_0.split(maxsplit=2)", "(Py.Fll.split2 {0})", "List String", True, ["String"]),
    ("to_float(_0)", "(Py.Fll.toFloat {0})", NUM, False, ["String"]),
    ("Op.as_identifier(_0)", "(Op.FllIO.asIdent {0})", "String", True, ["String"]),
]
SELF = [
    ("self.extract_key_value(_0, _1)", call("extract_key_value", "{0}", "{1}"), "String × String", False, ["String", "Option String"]),
    ("self.extract_key_value(_0)", call("extract_key_value", "{0}", "none"), "String × String", False, ["String"]),
    ("self.extract_value(_0, _1)", call("extract_value", "{0}", "(some {1})"), "String", False, ["String", "String"]),
    ("self.boolean(_0)", call("boolean", "{0}"), "Bool", False, ["String"]),
    ("self.range(_0)", call("range", "{0}"), f"{NUM} × {NUM}", False, ["String"]),
    ("self.tnorm(_0)", call("tnorm", "{0}"), "Option String", False, ["String"]),
    ("self.snorm(_0)", call("snorm", "{0}"), "Option String", False, ["String"]),
    ("self.term(_0, engine)", "(Py.Fll.termOf {0})", TERM, False, ["String"]),
    ("self.rule(_0, engine)", "(Py.Fll.ruleOf {0})", RULE, False, ["String"]),
    ("self.defuzzifier(_0)", "(Py.Fll.defuzzOf {0})", f"Option {DEFUZZ}", False, ["String"]),
    ("self.activation(_0)", "(Py.Fll.activOf {0})", f"Option {ACTIV}", False, ["String"]),
]
TRUTHY = {"Option String": "(Py.Fll.truthyOptStr {0})", RULE: "true"}


def prof(method, **kw):
    return dict({"name": f"FllImporter_{method}", "module": M, "object": f"FllImporter.{method}", "file": F,
                 "truthy": TRUTHY}, **kw)


def setter(obj, path, attr, field, ty):
    """`obj.attr = e`  ↦  the record update of `field` (under the sub-record `path`)"""
    if path:
        return (f"{obj}.{attr} = _0", f"{{{{ σ with {obj} := {{{{ σ.{obj} with {path} := {{{{ σ.{obj}.{path} with {field} := {{0}} }}}} }}}} }}}}", True, [ty])
    return (f"{obj}.{attr} = _0", f"{{{{ σ with {obj} := {{{{ σ.{obj} with {field} := {{0}} }}}} }}}}", True, [ty])


def var_setters(obj, path):
    b = f"σ.{obj}.{path}" if path else f"σ.{obj}"
    rng = (f"{{{{ σ with {obj} := {{{{ σ.{obj} with {path} := {{{{ {b} with lo := ({{0}}).1, hi := ({{0}}).2 }}}} }}}} }}}}" if path else
           f"{{{{ σ with {obj} := {{{{ σ.{obj} with lo := ({{0}}).1, hi := ({{0}}).2 }}}} }}}}")
    app = (f"{{{{ σ with {obj} := {{{{ σ.{obj} with {path} := {{{{ {b} with terms := {b}.terms ++ [{{0}}] }}}} }}}} }}}}" if path else
           f"{{{{ σ with {obj} := {{{{ σ.{obj} with terms := σ.{obj}.terms ++ [{{0}}] }}}} }}}}")
    return [
        setter(obj, path, "name", "name", "String"),
        setter(obj, path, "description", "description", "String"),
        setter(obj, path, "enabled", "enabled", "Bool"),
        setter(obj, path, "lock_range", "lockRange", "Bool"),
        (f"{obj}.range = _0", rng, True, [f"{NUM} × {NUM}"]),
        (f"{obj}.terms.append(_0)", app, True, [TERM]),
    ]


LINE_LOCALS = {"line": "String", "key": "String", "value": "String"}

PROFILES = [
    prof("extract_key_value", params=[("fll", "String"), ("component", "Option String")],
         locals={"parts": "List String"}, ignore_locals=["key"], ret="String × String", externals=STR),
    prof("extract_value", params=[("fll", "String"), ("component", "Option String")], ret="String", externals=STR + SELF),
    prof("boolean", params=[("fll", "String")], ret="Bool", externals=STR),
    prof("range", params=[("fll", "String")], locals={"values": "List String"}, ret=f"{NUM} × {NUM}", externals=STR),
    prof("tnorm", params=[("fll", "String")], ret="Option String",
         externals=[("settings.factory_manager.tnorm.construct(_0)", "(Py.Fll.constructNorm Gen.Tables.tnormKeys {0})", "String", False, ["String"])]),
    prof("snorm", params=[("fll", "String")], ret="Option String",
         externals=[("settings.factory_manager.snorm.construct(_0)", "(Py.Fll.constructNorm Gen.Tables.snormKeys {0})", "String", False, ["String"])]),
    prof("activation", params=[("fll", "String")], ret=f"Option {ACTIV}",
         locals={"values": "List String", "name": "String", "parameters": "Option String", "result": ACTIV},
         externals=STR + [("settings.factory_manager.activation.construct(_0)", "(Py.Fll.constructActiv {0})", ACTIV, False, ["String"])],
         stmt_externals=[("result.configure(parameters)",
                          "(Py.deref σ.parameters >>= fun p => Py.Fll.configureActiv σ.result p >>= fun r => .ok {{ σ with result := r }})", False)]),
    prof("defuzzifier", params=[("fll", "String")], ret=f"Option {DEFUZZ}",
         locals={"values": "List String", "name": "String", "parameters": "Option String", "result": DEFUZZ},
         externals=STR + [("settings.factory_manager.defuzzifier.construct(_0)", "(Py.Fll.constructDefuzz {0})", DEFUZZ, False, ["String"])],
         stmt_externals=[("result.configure(parameters)",
                          "(Py.deref σ.parameters >>= fun p => Py.Fll.configureDefuzz σ.result p >>= fun r => .ok {{ σ with result := r }})", False)]),
    prof("term", params=[("fll", "String")], ret=TERM, locals={"values": "List String", "term": TERM},
         externals=STR + SELF + [("settings.factory_manager.term.construct(_0, name=_1)", "(Py.Fll.constructTerm {0} {1})", TERM, False, ["String", "String"])],
         stmt_externals=[("term_.configure(_0)", "(Py.Fll.configureTerm σ.term_ {0} >>= fun t => .ok {{ σ with term_ := t }})", False, ["String"])],
         skip_stmts=["term_.update_reference(engine)"]),
    prof("rule", params=[("fll", "String")], ret=RULE,
         externals=SELF + [("Rule.create(_0, engine)", "(Py.Fll.ruleCreate {0})", RULE, False, ["String"])]),
    prof("input_variable", params=[("fll", "String")], ret=VAR, locals=dict(LINE_LOCALS, iv=VAR),
         externals=STR + SELF + [("InputVariable()", f"({{{{}}}} : {VAR})", VAR, True), ("iv.name", "σ.iv.name", "String", True)],
         stmt_externals=var_setters("iv", "")),
    prof("output_variable", params=[("fll", "String")], ret=OUT, locals=dict(LINE_LOCALS, ov=OUT),
         externals=STR + SELF + [("OutputVariable()", f"({{{{}}}} : {OUT})", OUT, True), ("ov.name", "σ.ov.base.name", "String", True)],
         stmt_externals=var_setters("ov", "base") + [
             setter("ov", "", "default_value", "default", NUM),
             setter("ov", "", "lock_previous", "lockPrevious", "Bool"),
             setter("ov", "", "defuzzifier", "defuzzifier", f"Option {DEFUZZ}"),
             setter("ov", "", "aggregation", "aggregation", "Option String"),
         ]),
    prof("rule_block", params=[("fll", "String")], ret=BLK, locals=dict(LINE_LOCALS, rb=BLK, rule=RULE),
         externals=STR + SELF + [("RuleBlock()", f"({{{{}}}} : {BLK})", BLK, True)],
         stmt_externals=[
             setter("rb", "", "name", "name", "String"),
             setter("rb", "", "description", "description", "String"),
             setter("rb", "", "enabled", "enabled", "Bool"),
             setter("rb", "", "conjunction", "conjunction", "Option String"),
             setter("rb", "", "disjunction", "disjunction", "Option String"),
             setter("rb", "", "implication", "implication", "Option String"),
             setter("rb", "", "activation", "activation", f"Option {ACTIV}"),
             ("rb.rules.append(_0)", "{{ σ with rb := {{ σ.rb with rules := σ.rb.rules ++ [{0}] }} }}", True, [RULE]),
         ]),
    # `engine` is mutated in place: the parameter `engine0` initialises the local, the caller takes the final value
    prof("_process", params=[("component", "String"), ("block", "List String"), ("engine0", ENG)], init={"engine": "engine0"},
         locals=dict(LINE_LOCALS, engine=ENG, input_variable=VAR, output_variable=OUT, rule_block=BLK),
         externals=STR + SELF + [
             ("self.input_variable(_0, engine)", call("input_variable", "{0}"), VAR, False, ["String"]),
             ("self.output_variable(_0, engine)", call("output_variable", "{0}"), OUT, False, ["String"]),
             ("self.rule_block(_0, engine)", call("rule_block", "{0}"), BLK, False, ["String"]),
         ],
         stmt_externals=[
             setter("engine", "", "name", "name", "String"),
             setter("engine", "", "description", "description", "String"),
             ("engine.input_variables.append(_0)", "{{ σ with engine := {{ σ.engine with inputs := σ.engine.inputs ++ [{0}] }} }}", True, [VAR]),
             ("engine.output_variables.append(_0)", "{{ σ with engine := {{ σ.engine with outputs := σ.engine.outputs ++ [{0}] }} }}", True, [OUT]),
             ("engine.rule_blocks.append(_0)", "{{ σ with engine := {{ σ.engine with blocks := σ.engine.blocks ++ [{0}] }} }}", True, [BLK]),
         ]),
    prof("engine", params=[("fll", "String")], ret=ENG,
         locals={"engine": ENG, "component": "String", "block": "List String", "line": "String", "key": "String"},
         externals=STR + SELF + [("Engine()", f"({{{{}}}} : {ENG})", ENG, True)],
         stmt_externals=[
             ("self._process(component, block, engine)",
              "(FllImporter__process.run σ.component σ.block σ.engine {{}} >>= fun r => .ok {{ σ with engine := r.engine }})", False),
         ]),
]

FILES = {F: {"imports": ["FlVerif.Op.PyExtFllImport", "FlVerif.Base.PyList"]}}
