"""Profiles of the Python representation (`Representation.*` of library.py, the `__repr__` overrides of rule.py /
variable.py) and of `PythonExporter` (exporter.py).

A value is a tree `Op.PyRepr.Val` of the C15 model; texts stay strings.  CPython's leaf texts (`repr(float)`,
`repr(str)`) are the fields of `Op.PyRepr.Leaf`; a `fields` dictionary that the code only builds, pops from and hands
on is the list of its items.  Methods the translated function calls on `self` and that are tied on their own are Lean
parameters (`rec1` = `self.repr1`, `asCtor` = `representation.as_constructor`, `C` = the `repr_*` methods by
qualified name) or the model function they are proved equal to (`Op.PyRepr.packageOfOpt`, `importStatement`, `emit`).
The externals are in `lean/FlVerif/Op/PyExtPyExport.lean`.

Two facts are read from the live objects when this module is loaded (on every run, like the tables of the tracer) and
written into the generated code as literals: which `repr_<typename>` methods `Representation` has and which function
each of them is (`repr_float64 = repr_float` makes a NumPy double print like a Python float), and
`representation.maxlevel`."""
from fuzzylite.library import Representation, representation

V = "Op.PyRepr.Val"
FIELDS = f"List (String × {V})"
FILE = "CodePyExport"


def _lean_str(s):
    return '"' + s.replace("\\", "\\\\").replace('"', '\\"') + '"'


# (attribute name, qualified name of the function it is bound to) for every `repr_*` attribute of the class
METHODS = "[" + ", ".join(f"({_lean_str(n)}, {_lean_str(getattr(Representation, n).__qualname__)})"
                          for n in sorted(dir(Representation)) if n.startswith("repr_") and callable(getattr(Representation, n))) + "]"
MAXLEVEL = str(int(representation.maxlevel))

PKG_SETTINGS = ("self.package_of(settings)", "(Op.PyRepr.settingsPrefix env)", "String", True)
JOIN_COMMA = ("', '.join(_0)", '(", ".intercalate {0})', "String", True, ["List String"])


def repr_override(cls, module, extra_params=(), extra_ext=(), extra_stmt=()):
    """a `__repr__` that copies `vars(self)`, pops fields and calls `representation.as_constructor(self, fields)`"""
    return {"name": f"{cls}_repr", "module": module, "object": f"{cls}.__repr__", "file": FILE,
            "params": [("asCtor", f"{FIELDS} → Bool → Py.M String"), ("vars", FIELDS), ("description", "String"), ("enabled", "Bool")]
            + list(extra_params),
            "locals": {"fields": FIELDS}, "ret": "String",
            "externals": [
                ("vars(self).copy()", "vars", FIELDS, True),
                ("self.description", "description", "String", True),
                ("self.enabled", "enabled", "Bool", True),
                ("representation.as_constructor(self, _0)", "(asCtor {0} false)", "String", False, [FIELDS]),
            ] + list(extra_ext),
            "stmt_externals": [
                ("fields.pop(_0)", "(Py.PyExport.dictPop σ.fields {0} >>= fun d => Except.ok {{ σ with fields := d }})", False, ["String"]),
            ] + list(extra_stmt)}


PROFILES = [
    # ---- library.py
    # `modname` = the name of `inspect.getmodule(x)` (`None`: the object has no module)
    {"name": "package_of", "module": "fuzzylite.library", "object": "Representation.package_of", "file": FILE,
     "params": [("al", "String"), ("modname", "Option String")],
     "locals": {"package": "String", "module": "Option String"}, "ret": "String",
     "externals": [
         ("inspect.getmodule(x)", "modname", "Option String", True),
         ("settings.alias", "al", "String", True),
         ("_0.__name__", "{0}", "String", True, ["String"]),
         ("_0.startswith(_1)", "(String.startsWith {0} {1})", "Bool", True, ["String", "String"]),
         ("_0.endswith(_1)", "(String.endsWith {0} {1})", "Bool", True, ["String", "String"]),
         ("_0[_1:]", "(Py.PyExport.strFrom {0} {1})", "String", True, ["String", "Nat"]),
     ]},
    {"name": "import_statement", "module": "fuzzylite.library", "object": "Representation.import_statement", "file": FILE,
     "params": [("al", "String")], "ret": "String",
     "externals": [("settings.alias", "al", "String", True)]},
    # `fields name` = the text `self.repr` gives for the field (as in the profile of `construction_arguments`, whose model
    # `emit` is the callee here); `cls` = `(cast_as or x.__class__).__name__`, `modname` = the module of `cast_as or x`
    {"name": "as_constructor", "module": "fuzzylite.library", "object": "Representation.as_constructor", "file": FILE,
     "params": [("noInit", "Bool"), ("signature", "List Op.PyRepr.Param"), ("fields", "String → Option String"), ("positional", "Bool"),
                ("al", "String"), ("modname", "Option String"), ("cls", "String")],
     "locals": {"arguments": "List String"}, "ret": "String",
     "externals": [
         ("self.construction_arguments(x, fields=fields, positional=positional, cast_as=cast_as)",
          "(Py.PyExport.constructionArguments noInit signature fields positional)", "List String", False),
         ("self.package_of(cast_as or x)", "(Op.PyRepr.packageOfOpt al modname)", "String", True),
         ("(cast_as or x.__class__).__name__", "cls", "String", True),
         JOIN_COMMA,
     ]},
    # `reprlib.Repr.repr` / `repr1`, which `Representation` inherits: the dispatch on the name of the type.
    # `tn x` = `type(x).__name__`; `C q` = the function of qualified name `q` (a `repr_*` method) as a function of (x, level)
    {"name": "Representation_repr", "module": "fuzzylite.library", "object": "Representation.repr", "file": FILE,
     "params": [("rec1", f"{V} → Int → Py.M String"), ("x", V)], "ret": "String",
     "externals": [("self.repr1(_0, _1)", "(rec1 {0} {1})", "String", False, [V, "Nat"]),
                   ("self.maxlevel", MAXLEVEL, "Nat", True)]},
    {"name": "Representation_repr1", "module": "fuzzylite.library", "object": "Representation.repr1", "file": FILE,
     "params": [("C", f"String → {V} → Int → Py.M String"), ("tn", f"{V} → String"), ("x", V), ("level", "Int")],
     "locals": {"typename": "String", "parts": "List String"}, "ret": "String",
     "externals": [
         ("type(x).__name__", "(tn x)", "String", True),
         ("' ' in _0", "(Py.PyExport.hasSpace {0})", "Bool", True, ["String"]),
         ("_0.split()", "(Py.split {0})", "List String", True, ["String"]),
         ("'_'.join(_0)", '("_".intercalate {0})', "String", True, ["List String"]),
         ("hasattr(self, _0)", f"(Py.PyExport.hasMethod {METHODS} {{0}})", "Bool", True, ["String"]),
         ("getattr(self, _0)(x, level)", f"(Py.PyExport.callMethod {METHODS} C {{0}} x level)", "String", False, ["String"]),
         ("self.repr_instance(x, level)", f"(Py.PyExport.callMethod {METHODS} C \"repr_instance\" x level)", "String", False),
     ]},
    {"name": "repr_float", "module": "fuzzylite.library", "object": "Representation.repr_float", "file": FILE,
     "params": [("env", "Op.PyRepr.Env"), ("L", "Op.PyRepr.Leaf"), ("x", "Num"), ("level", "Int")],
     "locals": {"infinity": "String"}, "ret": "String",
     "externals": [
         ("Op.isinf(x)", "(Py.PyExport.numIsInf x)", "Bool", True),
         ("Op.isnan(x)", "(Py.PyExport.numIsNan x)", "Bool", True),
         ("x > 0", "(Py.PyExport.numPos x)", "Bool", True),
         ("np.abs(_0)", "(Py.PyExport.numAbs {0})", "Num", True, ["Num"]),
         ("builtins.repr(_0)", "(L.num {0})", "String", True, ["Num"]),
         PKG_SETTINGS,
     ]},
    # `ndim0` = `x.ndim == 0` (then `item` = `x.item()`); otherwise the rows of `x` are the children of the tree
    {"name": "repr_ndarray", "module": "fuzzylite.library", "object": "Representation.repr_ndarray", "file": FILE,
     "params": [("env", "Op.PyRepr.Env"), ("rec1", f"{V} → Int → Py.M String"), ("ndim0", "Bool"), ("item", V), ("x", V), ("level", "Int")],
     "locals": {"elements": "String"}, "ret": "String", "genexp_as_list": True,
     "iter_view": {V: ("(Py.PyExport.kids {0})", f"List {V}")},
     "externals": [
         ("x.ndim == 0", "ndim0", "Bool", True),
         ("x.item()", "item", V, True),
         ("self.repr1(_0, _1)", "(rec1 {0} {1})", "String", False, [V, "Int"]),
         JOIN_COMMA,
         PKG_SETTINGS,
     ]},
    # ---- the `__repr__` overrides: which fields are handed to `as_constructor` (the callee is the parameter `asCtor`)
    repr_override("RuleBlock", "fuzzylite.rule"),
    repr_override("Variable", "fuzzylite.variable"),
    repr_override("OutputVariable", "fuzzylite.variable",
                  extra_params=[("minimum", V), ("maximum", V), ("aggregation", V)],
                  extra_ext=[("self.minimum", "minimum", V, True), ("self.maximum", "maximum", V, True),
                             ("self.aggregation", "aggregation", V, True)],
                  extra_stmt=[("fields[_0] = _1", "{{ σ with fields := Py.PyExport.dictSet σ.fields {0} {1} }}", True, ["String", V])]),
    # `Rule.__repr__`: `text` = `self.text` (tied: `FllExporter` profiles, `Rule_text`)
    {"name": "Rule_repr", "module": "fuzzylite.rule", "object": "Rule.__repr__", "file": FILE,
     "params": [("env", "Op.PyRepr.Env"), ("text", "String")], "ret": "String",
     "externals": [
         ("Op.class_name(self, qualname=True)", '(Op.PyRepr.classPrefix env "Rule" ++ "Rule")', "String", True),
         ("self.text", "text", "String", True),
     ]},
    # ---- exporter.py
    # `ident` = `Op.as_identifier(Op.pascal_case(instance.name))`, `qual` = `Op.class_name(instance, qualname=True)`,
    # `text` = `repr(instance)` (the built-in: `instance.__repr__()`)
    {"name": "PythonExporter_encapsulate", "module": "fuzzylite.exporter", "object": "PythonExporter.encapsulate", "file": FILE,
     "params": [("al", "String"), ("isEngine", "Bool"), ("ident", "String"), ("qual", "String"), ("text", "String")],
     "locals": {"code": "String"}, "ret": "String",
     "externals": [
         ("representation.import_statement()", "(Op.PyRepr.importStatement al)", "String", True),
         ("isinstance(instance, Engine)", "isEngine", "Bool", True),
         ("Op.as_identifier(Op.pascal_case(instance.name))", "ident", "String", True),
         ("Op.class_name(instance, qualname=True)", "qual", "String", True),
         ("repr(instance)", "text", "String", True),
     ]},
    # `fmt` = `self.format` (`black`, which may raise), `encapsulate` = the method above on this instance
    {"name": "PythonExporter_to_string", "module": "fuzzylite.exporter", "object": "PythonExporter.to_string", "file": FILE,
     "params": [("encapsulated", "Bool"), ("formatted", "Bool"), ("fmt", "String → Py.M String"), ("wrapped", "String"), ("text", "String")],
     "locals": {"code": "String"}, "ret": "String",
     "externals": [
         ("self.encapsulated", "encapsulated", "Bool", True),
         ("self.formatted", "formatted", "Bool", True),
         ("self.encapsulate(instance)", "wrapped", "String", True),
         ("repr(instance)", "text", "String", True),
         ("self.format(_0)", "(fmt {0})", "String", False, ["String"]),
     ]},
    {"name": "PythonExporter_engine", "module": "fuzzylite.exporter", "object": "PythonExporter.engine", "file": FILE,
     "params": [("toString", "Py.M String")], "ret": "String",
     "externals": [("self.to_string(engine)", "toString", "String", False)]},
]

FILES = {FILE: {"imports": ["FlVerif.Op.PyExtPyExport"]}}
