"""Profiles of the FuzzyLite Language exporter (`FllExporter`, `Term._parameters` / `parameters`, `Rule.text`).

The objects are the records of the token model `Op.FllIO`; strings stay strings; `Op.str(x)` of a float is the
printed number `Dec` (rendered where it is put among strings, `Dec.val` where it is read back with `to_float`).
The externals are in `lean/FlVerif/Op/PyExtFllExport.lean`."""

F = "Op.FllIO"
CFG = f"{F}.Cfg"
FILE = "CodeFllExport"

# ---- attributes of the model records
ATTRS = [
    ("_0.name", "{0}.name", "String", True, [f"{F}.Engine"]),
    ("_0.description", "{0}.description", "String", True, [f"{F}.Engine"]),
    ("_0.input_variables", "{0}.inputs", f"List {F}.Var", True, [f"{F}.Engine"]),
    ("_0.output_variables", "{0}.outputs", f"List {F}.OutVar", True, [f"{F}.Engine"]),
    ("_0.rule_blocks", "{0}.blocks", f"List {F}.Block", True, [f"{F}.Engine"]),
    ("_0.name", "{0}.name", "String", True, [f"{F}.Var"]),
    ("_0.description", "{0}.description", "String", True, [f"{F}.Var"]),
    ("_0.enabled", "{0}.enabled", "Bool", True, [f"{F}.Var"]),
    ("_0.minimum", "{0}.lo", "Num", True, [f"{F}.Var"]),
    ("_0.maximum", "{0}.hi", "Num", True, [f"{F}.Var"]),
    ("_0.lock_range", "{0}.lockRange", "Bool", True, [f"{F}.Var"]),
    ("_0.terms", "{0}.terms", f"List {F}.Term", True, [f"{F}.Var"]),
    ("_0.terms", "{0}.base.terms", f"List {F}.Term", True, [f"{F}.OutVar"]),
    ("_0.aggregation", "{0}.aggregation", "Option String", True, [f"{F}.OutVar"]),
    ("_0.defuzzifier", "{0}.defuzzifier", f"Option {F}.Defuzz", True, [f"{F}.OutVar"]),
    ("_0.default_value", "{0}.default", "Num", True, [f"{F}.OutVar"]),
    ("_0.lock_previous", "{0}.lockPrevious", "Bool", True, [f"{F}.OutVar"]),
    ("_0.name", "{0}.name", "String", True, [f"{F}.Block"]),
    ("_0.description", "{0}.description", "String", True, [f"{F}.Block"]),
    ("_0.enabled", "{0}.enabled", "Bool", True, [f"{F}.Block"]),
    ("_0.conjunction", "{0}.conjunction", "Option String", True, [f"{F}.Block"]),
    ("_0.disjunction", "{0}.disjunction", "Option String", True, [f"{F}.Block"]),
    ("_0.implication", "{0}.implication", "Option String", True, [f"{F}.Block"]),
    ("_0.activation", "{0}.activation", f"Option {F}.Activ", True, [f"{F}.Block"]),
    ("_0.rules", "{0}.rules", f"List {F}.Rule", True, [f"{F}.Block"]),
    ("_0.name", "{0}.name", "String", True, [f"{F}.Term"]),
]
# ---- class names: the header key of a component, the class a term / norm / defuzzifier / activation record carries
CLASS = [
    ("Op.class_name(_0)", f"({F}.Key.text {F}.Key.engine)", "String", True, [f"{F}.Engine"]),
    ("Op.class_name(_0)", f"({F}.Key.text hdr)", "String", True, [f"{F}.Var"]),
    ("Op.class_name(_0)", f"({F}.Key.text {F}.Key.ruleBlock)", "String", True, [f"{F}.Block"]),
    ("Op.class_name(_0)", "{0}.cls", "String", True, [f"{F}.Term"]),
    ("Op.class_name(_0)", "{0}", "String", True, ["String"]),
    ("Op.class_name(_0)", "(Py.Fll.Activ.cls {0})", "String", True, [f"{F}.Activ"]),
    ("Op.class_name(_0)", "(Py.Fll.Defuzz.cls {0})", "String", True, [f"{F}.Defuzz"]),
    ("Op.as_identifier(_0)", f"({F}.asIdent {{0}})", "String", True, ["String"]),
]
# ---- `self.format(key, value)` on the values the exporter passes
FORMAT = [
    ("self.format(_0, _1)", "(Py.Fll.format c.d {0} (.str {1}))", "String", True, ["String", "String"]),
    ("self.format(_0, _1)", "(Py.Fll.format c.d {0} (.bool {1}))", "String", True, ["String", "Bool"]),
    ("self.format(_0, _1)", "(Py.Fll.format c.d {0} (.num {1}))", "String", True, ["String", "Num"]),
    ("self.format(_0, (_1, _2))", "(Py.Fll.format c.d {0} (.tuple [.num {1}, .num {2}]))", "String", True, ["String", "Num", "Num"]),
    ("self.format(_0, (_1, _2, _3))", "(Py.Fll.format c.d {0} (.tuple [.str {1}, .str {2}, .str {3}]))", "String", True,
     ["String", "String", "String", "String"]),
    ("self.format(key=None, value=(_0, _1))", "(Py.Fll.format c.d \"\" (.tuple [.str {0}, .str {1}]))", "String", True, ["String", "String"]),
]
SELF = [
    ("self.indent", "indent", "String", True),
    ("self.separator.join(_0)", "(Py.Fll.join sep {0})", "String", True, ["List String"]),
    ("self.term(_0)", "(Py.Fll.termText c {0})", "String", True, [f"{F}.Term"]),
    ("self.norm(_0)", "(Py.Fll.normText {0})", "String", True, ["Option String"]),
    ("self.activation(_0)", "(Py.Fll.activText c {0})", "String", True, [f"Option {F}.Activ"]),
    ("self.defuzzifier(_0)", "(Py.Fll.defuzzText c.d {0})", "String", True, [f"Option {F}.Defuzz"]),
    ("self.rule(_0)", "(Py.Fll.ruleLineText c {0})", "String", True, [f"{F}.Rule"]),
    ("self.variable(_0)", f"(Py.Fll.variableText c indent sep {F}.Key.inputVariable {{0}} true)", "String", True, [f"{F}.Var"]),
    ("self.variable(_0, terms=False)", f"(Py.Fll.variableText c indent sep {F}.Key.outputVariable {{0}}.base false)", "String", True, [f"{F}.OutVar"]),
    ("self.input_variable(_0)", "(Py.Fll.inputText c indent sep {0})", "String", True, [f"{F}.Var"]),
    ("self.output_variable(_0)", "(Py.Fll.outputText c indent sep {0})", "String", True, [f"{F}.OutVar"]),
    ("self.rule_block(_0)", "(Py.Fll.blockText c indent sep {0})", "String", True, [f"{F}.Block"]),
    ("_0.parameters()", "(Py.Fll.termParameters c {0}.body)", "String", True, [f"{F}.Term"]),
    ("_0.parameters()", "(Py.Fll.activParameters c {0})", "String", True, [f"{F}.Activ"]),
    ("_0.parameters()", "(Py.Fll.defuzzParameters c.d {0})", "String", True, [f"{F}.Defuzz"]),
    ("_0.text", "(Py.Fll.ruleText c {0})", "String", True, [f"{F}.Rule"]),
]
EXT = ATTRS + CLASS + FORMAT + SELF
BASE = [("c", CFG), ("indent", "String"), ("sep", "String")]


def exp(method, params, locals_=None, **kw):
    return dict({"name": f"FllExporter_{method}", "module": "fuzzylite.exporter", "object": f"FllExporter.{method}", "file": FILE,
                 "params": BASE + params, "locals": dict(locals_ or {}), "ret": "String", "externals": EXT}, **kw)


# ---- the printed number: `Op.str(x)` : Dec, rendered among strings, read back by `to_float` / `float`
NUM_EXT = [
    ("self.height", "h", "Num", True),
    ("self.weight", "rule.weight", "Num", True),
    ("Op.str(_0)", "(Dec.fmt c.d {0})", "Dec", True, ["Num"]),
    ("to_float(_0)", "(Dec.val c.d {0})", "Num", True, ["Dec"]),
    ("float(_0)", "(Dec.val c.d {0})", "Num", True, ["Dec"]),
    ("Op.is_close(_0, 1.0)", "(Dec.isClose1 c.tol {0})", "Bool", True, ["Num"]),
    ("' '.join(_0)", "(Py.joinSp {0})", "String", True, ["List String"]),
]

PROFILES = [
    # ---- term.py
    {"name": "Term_parameters", "module": "fuzzylite.term", "object": "Term._parameters", "file": FILE,
     "params": [("c", CFG), ("args", "List Num"), ("h", "Num")],
     "locals": {"result": "List String", "height": "Dec"}, "ret": "String",
     "externals": NUM_EXT,
     "stmt_externals": [
         ("result.extend(map(Op.str, args))", "{{ σ with result := σ.result ++ args.map (Py.Fll.numText c.d) }}", True),
         ("result.append(height)", "{{ σ with result := σ.result ++ [Dec.render c.d σ.height] }}", True),
     ]},
    {"name": "Triangle_parameters", "module": "fuzzylite.term", "object": "Triangle.parameters", "file": FILE,
     "params": [("c", CFG), ("left", "Num"), ("top", "Num"), ("right", "Num"), ("h", "Num")], "ret": "String",
     "externals": [("self.left", "left", "Num", True), ("self.top", "top", "Num", True), ("self.right", "right", "Num", True),
                   ("super()._parameters(_0, _1, _2)", "(Py.Fll.parameters c [{0}, {1}, {2}] h)", "String", True, ["Num", "Num", "Num"])]},
    {"name": "Constant_parameters", "module": "fuzzylite.term", "object": "Constant.parameters", "file": FILE,
     "params": [("c", CFG), ("value", "Num"), ("h", "Num")], "ret": "String",
     "externals": [("self.value", "value", "Num", True),
                   ("super()._parameters(_0)", "(Py.Fll.parameters c [{0}] h)", "String", True, ["Num"])]},
    {"name": "Linear_parameters", "module": "fuzzylite.term", "object": "Linear.parameters", "file": FILE,
     "params": [("c", CFG), ("coefficients", "List Num"), ("h", "Num")], "ret": "String",
     "externals": [("self.coefficients", "coefficients", "List Num", True),
                   ("self._parameters(*_0)", "(Py.Fll.parameters c {0} h)", "String", True, ["List Num"])]},
    # ---- rule.py
    {"name": "Rule_text", "module": "fuzzylite.rule", "object": "Rule.text.fget", "file": FILE,
     "params": [("c", CFG), ("rule", f"{F}.Rule")],
     "locals": {"result": "List String", "weight": "Dec"}, "ret": "String",
     "externals": NUM_EXT + [
         ("self.antecedent.text", "(Py.joinSp rule.antecedent)", "String", True),
         ("self.consequent.text", "(Py.joinSp rule.consequent)", "String", True),
     ],
     "stmt_externals": [
         ("result.extend([Rule.WITH, weight])", "{{ σ with result := σ.result ++ [\"with\", Dec.render c.d σ.weight] }}", True),
     ]},
    # ---- exporter.py
    # `format(key, value)`: the value is a `Py.Fll.Val`, the key `None` is the empty string (both are false in `if key:`,
    # the only use of a false key); `d` = settings.decimals (read by `Op.str`) is not a parameter of the Python function
    {"name": "FllExporter_format", "module": "fuzzylite.exporter", "object": "FllExporter.format", "file": FILE,
     "params": [("d", "Nat"), ("key", "String"), ("value", "Py.Fll.Val")],
     "locals": {"result": "List String", "v_i": "Py.Fll.Val", "f_value": "String"}, "ret": "String",
     "self_call": "self.format(key=_0, value=_1)", "rec_env": ["d"], "rec_fuel": "Py.Fll.Val.depth value + 1",
     "iter_view": {"Py.Fll.Val": ("(Py.Fll.Val.items {0})", "List Py.Fll.Val")},
     "externals": [
         ("None", '""', "String", True),
         ("value == ''", "(Py.Fll.Val.isEmptyStr value)", "Bool", True),
         ("value is None", "(Py.Fll.Val.isNone value)", "Bool", True),
         ("isinstance(value, bool)", "(Py.Fll.Val.isBool value)", "Bool", True),
         ("isinstance(value, float)", "(Py.Fll.Val.isNum value)", "Bool", True),
         ("isinstance(value, (tuple, list, set))", "(Py.Fll.Val.isTuple value)", "Bool", True),
         ("str(value).lower()", "(Py.Fll.Val.boolText value)", "String", True),
         ("Op.str(value)", "(Py.Fll.Val.numStr d value)", "String", True),
         ("str(value)", "(Py.Fll.Val.strOf value)", "String", True),
         ("' '.join(_0)", "(Py.joinSp {0})", "String", True, ["List String"]),
     ]},
    exp("term", [("term", f"{F}.Term")]),
    exp("norm", [("norm", "Option String")]),
    exp("activation", [("activation", f"Option {F}.Activ")]),
    exp("defuzzifier", [("defuzzifier", f"Option {F}.Defuzz")]),
    exp("rule", [("rule", f"{F}.Rule")]),
    exp("variable", [("hdr", f"{F}.Key"), ("variable", f"{F}.Var"), ("terms", "Bool")], {"result": "List String"}),
    exp("input_variable", [("variable", f"{F}.Var")]),
    exp("output_variable", [("variable", f"{F}.OutVar")], {"result": "List String"}),
    exp("rule_block", [("rule_block", f"{F}.Block")], {"result": "List String"}),
    exp("engine", [("engine", f"{F}.Engine")], {"result": "List String"}),
]

FILES = {FILE: {"imports": ["FlVerif.Op.PyExtFllExport"]}}
