"""Translation profiles, fifth wave (group Z): the front end of formulas and the renderings of their trees (term.py).

`Function.format_infix`: the set of operator symbols, its descending sort and the two `re.sub` calls.  The set
construction, the removal of `and` / `or` and `sorted(..., reverse=True)` are translated; the only externals are the two
regular-expression substitutions (`Op/PyExtWave5Z.lean`: (a) an alternation of escaped literals *in the given order*,
kept as the list of the literals - the local `regex` -, replaced by itself between blanks; (b) the collapse of white-space
runs followed by `strip`), the call of the translated `FunctionFactory.operators` and `.keys()` of its dictionary (a list
of items).
"""

OPERATORS = "(FunctionFactory_operators.run tbl {{}} >>= fun r => Py.deref r.ret)"

PROFILES = [
    {
        "name": "Function_format_infix", "module": "fuzzylite.term", "object": "Function.format_infix", "file": "CodeFormatInfix",
        "params": [("tbl", "Lang.Table"), ("formula", "String")],
        "alias_locals": {"factory": "settings.factory_manager.function"},
        "locals": {"operators": "Py.SetOf String", "regex": "List String", "spaced": "String", "result": "String"},
        "ret": "String",
        "externals": [
            # the method translated in `Gen/CodeFactory.lean` (`C17.code_operators`); a dictionary is the list of its items
            ("factory.operators()", OPERATORS, "List (String × Lang.Elem)", False),
            ("_0.keys()", "(List.map (fun p => p.1) {0})", "List String", True, ["List (String × Lang.Elem)"]),
            # (a) the alternation, as the list of its literals in the order in which they are written ...
            ("'|'.join(re.escape(o) for o in _0)", "{0}", "List String", True, ["List String"]),
            # ... and the substitution
            ("re.sub(f'({regex})', ' \\\\1 ', _0)", "(Py.W5Z.subAlt σ.regex {0})", "String", True, ["String"]),
            # (b)
            ("re.sub('\\\\s+', ' ', _0).strip()", "(Py.W5Z.collapseStrip {0})", "String", True, ["String"]),
        ],
    },
]

FILES = {
    "CodeFormatInfix": {"imports": ["FlVerif.Op.PyExtWave5Z", "FlVerif.Gen.CodeFactory"]},
}

# ---------------------------------------------------------------- the renderings of `Function.Node`
# `str` = the meaning of `Op.str(<float>)` (`C14.code_opStr`: the number printed with `settings.decimals` digits): any function.
STR = [("str", "X Rat → String")]
NODE_ATTRS = [
    ("_0.element", "{0}.element", "Option Lang.Elem", True, ["Py.Node"]),
    ("_0.variable", "{0}.variable_", "String", True, ["Py.Node"]),
    ("np.isnan(_0.constant)", "(X.isnan {0}.constant)", "Bool", True, ["Py.Node"]),
    ("Op.str(_0.constant)", "(str {0}.constant)", "String", True, ["Py.Node"]),
    ("_0.left", "{0}.left", "Option Py.Node", True, ["Py.Node"]),
    ("_0.right", "{0}.right", "Option Py.Node", True, ["Py.Node"]),
    ("_0.name", "{0}.name", "String", True, ["Lang.Elem"]),
    # the method translated first
    ("_0.value()", "(Node_value.run str {0} {{}} >>= fun r => Py.deref r.ret)", "String", False, ["Py.Node"]),
    ("' '.join(_0)", "(Py.joinSp {0})", "String", True, ["List String"]),
]


def rendering(method, extra_locals=None, extra_ext=None):
    """`Node.prefix / infix / postfix (self, node=None)`: recursive over the tree (`self.<method>(child)`); the first call
    passes `None` and restarts on `self`, so the depth is at most the height of the tree plus one"""
    return {
        "name": f"Node_{method}", "module": "fuzzylite.term", "object": f"Function.Node.{method}", "file": "CodeNodeText",
        "params": STR + [("self", "Py.Node"), ("node", "Option Py.Node")],
        "rec_fixed": ["str", "self"], "self_call": f"self.{method}(_0)",
        "rec_fuel": "Py.FunEval.heightO node + Py.FunEval.height self + 1",
        "locals": dict({"result": "List String"}, **(extra_locals or {})),
        "ret": "String",
        "externals": NODE_ATTRS + (extra_ext or []),
    }


PROFILES += [
    {
        "name": "Node_value", "module": "fuzzylite.term", "object": "Function.Node.value", "file": "CodeNodeText",
        "params": STR + [("self", "Py.Node")], "locals": {}, "ret": "String",
        "externals": NODE_ATTRS[:1] + NODE_ATTRS[1:2] + NODE_ATTRS[3:4] + NODE_ATTRS[6:7],
    },
    rendering("prefix"),
    rendering("infix", {"children": "List String", "is_function": "Bool", "result": "String"}, [
        # `Element.type` has the two values Operator / Function; the table keeps the flag `isOp`
        ("_0.type == Function.Element.Type.Function", "(!{0}.isOp)", "Bool", True, ["Lang.Elem"]),
        ("_0.join(_1)", "({0}.intercalate {1})", "String", True, ["String", "List String"]),
    ]),
    rendering("postfix"),
]

FILES["CodeNodeText"] = {"imports": ["FlVerif.Op.PyExtFunEval"]}

# ---------------------------------------------------------------- the texts of a loaded antecedent (rule.py)
EXPR = "Py.Load.Expression"
PROP_STR = "(Py.Load.Expression.asProp node >>= fun p => Proposition_str.run p {{}} >>= fun r => Py.deref r.ret)"


def antecedent_text(method):
    """`Antecedent.prefix / infix / postfix (self, node=None)` on the tree of `Antecedent.load`; `expression` = `self.expression`"""
    return {
        "name": f"Antecedent_{method}", "module": "fuzzylite.rule", "object": f"Antecedent.{method}", "file": "CodeAntecedentText",
        "params": [("expression", EXPR), ("node", EXPR)],
        "rec_fixed": ["expression"], "self_call": f"self.{method}(_0)", "self_call_params": ["node"],
        "rec_fuel": "Py.W5Z.depth expression + Py.W5Z.depth node + 1",
        "locals": {"result": "List String"}, "ret": "String",
        # `Expression` objects define neither `__bool__` nor `__len__`: only `None` is false
        "truthy": {EXPR: "({0} != Py.Load.Expression.none)"},
        "externals": [
            ("self.expression", "expression", EXPR, True),
            ("isinstance(node, Proposition)", "(Py.W5Z.isProp node)", "Bool", True),
            ("isinstance(node, Operator)", "(Py.W5Z.isOp node)", "Bool", True),
            # `str(node)` after the `isinstance` test: `Proposition.__str__`, translated first
            ("str(node)", PROP_STR, "String", False),
            ("node.left", "(Py.W5Z.leftOf node)", EXPR, False),
            ("node.right", "(Py.W5Z.rightOf node)", EXPR, False),
            ("node.name", "(Py.W5Z.nameOf node)", "String", False),
            ("' '.join(_0)", "(Py.joinSp {0})", "String", True, ["List String"]),
        ],
    }


PROFILES += [
    {
        # a hedge / term object is its name (as in the loaders); `self.variable` of a loaded proposition is set
        "name": "Proposition_str", "module": "fuzzylite.rule", "object": "Proposition.__str__", "file": "CodeAntecedentText",
        "params": [("p", "Py.Load.Proposition")],
        "locals": {"result": "List String", "hedge": "String"}, "ret": "String",
        "externals": [
            ("self.variable", "(some p.variable_)", "Option Op.VarInfo", True),
            ("self.hedges", "p.hedges", "List String", True),
            ("self.term", "p.term_", "Option String", True),
            ("_0.name", "{0}.name", "String", True, ["Op.VarInfo"]),
            ("_0.name", "{0}", "String", True, ["String"]),
            ("' '.join(_0)", "(Py.joinSp {0})", "String", True, ["List String"]),
        ],
    },
    antecedent_text("prefix"), antecedent_text("infix"), antecedent_text("postfix"),
]
FILES["CodeAntecedentText"] = {"imports": ["FlVerif.Op.PyExtWave5ZRule"]}
