"""Translation profiles, fifth wave (group Z): the front end of formulas and the renderings of their trees (term.py).

`Function.format_infix`: the set of operator symbols, its descending sort and the two `re.sub` calls.  The set
construction, the removal of `and` / `or` and `sorted(..., reverse=True)` are translated; the only externals are the two
regular-expression substitutions (`Op/PyExtWave5Z.lean`: (a) an alternation of escaped literals *in the given order*,
kept as the list of the literals - the local `regex` -, replaced by itself between blanks; (b) the collapse of white-space
runs followed by `strip`), the call of the translated `FunctionFactory.operators` and `.keys()` of its dictionary (a list
of items).
"""

OPERATORS = "(FunctionFactory_operators.run tbl {{}} >>= fun r => Py.deref r.ret)"

PROFILES = [
    {
        "name": "Function_format_infix", "module": "fuzzylite.term", "object": "Function.format_infix", "file": "CodeFormatInfix",
        "params": [("tbl", "Lang.Table"), ("formula", "String")],
        "alias_locals": {"factory": "settings.factory_manager.function"},
        "locals": {"operators": "Py.SetOf String", "regex": "List String", "spaced": "String", "result": "String"},
        "ret": "String",
        "externals": [
            # the method translated in `Gen/CodeFactory.lean` (`C17.code_operators`); a dictionary is the list of its items
            ("factory.operators()", OPERATORS, "List (String × Lang.Elem)", False),
            ("_0.keys()", "(List.map (fun p => p.1) {0})", "List String", True, ["List (String × Lang.Elem)"]),
            # (a) the alternation, as the list of its literals in the order in which they are written ...
            ("'|'.join(re.escape(o) for o in _0)", "{0}", "List String", True, ["List String"]),
            # ... and the substitution
            ("re.sub(f'({regex})', ' \\\\1 ', _0)", "(Py.W5Z.subAlt σ.regex {0})", "String", True, ["String"]),
            # (b)
            ("re.sub('\\\\s+', ' ', _0).strip()", "(Py.W5Z.collapseStrip {0})", "String", True, ["String"]),
        ],
    },
]

FILES = {
    "CodeFormatInfix": {"imports": ["FlVerif.Op.PyExtWave5Z", "FlVerif.Gen.CodeFactory"]},
}
