"""Profiles of the getters and look-ups of `Engine` (`variables`, `variable`, `input_variable`, `output_variable`,
`rule_block`, `__getitem__`, the getters of `input_values`, `output_values`, `values`), of `Engine.copy`, and of the
value / range accessors of `Variable` (`value` setter, `drange`, `range` getter and setter).

Objects (`lean/FlVerif/Op/PyExtEngineIO.lean`, models in `lean/FlVerif/Op/EngineIO.lean`):

* the look-ups are generic in the type `V` of the components (`type_params`); `nameOf : V → String` is `component.name`;
  the argument `name_or_index: str | int` is an `Op.Engine.Key`; `l[key]` is `Py.EIO.atKey` (an `int` indexes the list
  like Python, negative from the end, `IndexError`);
* `__getitem__` builds the list of the three *generated* look-ups (bound methods are functions `Key → Py.M Comp`);
* a variable, as far as the value getters look at it, is the pair of the variable and the value it holds
  (`Op.Engine.VarValue`: a float / 0-d array or a 1-D array); `Engine.output_values` (repaired, F17) puts the input
  variables and the output variables into ONE list: its elements are variables of either kind (`Py.EIO.Variable`, the
  base class; `Py.EIO.inVariable` / `outVariable` view a variable of a subclass as one); the NumPy calls `np.column_stack`, `np.array`,
  `np.broadcast_arrays`, `np.atleast_1d`, `np.hstack` are the operations of `Py.EIO` on these values and on `NdArr`;
* `copy.deepcopy(self)` yields an equal value (`Py.EIO.deepcopy`: the translated values are immutable, so an equal
  value is an independent copy; independence of the Python objects is observed by the correspondence run of C13);
* the attributes of a `Variable` are the fields of `Op.CascadeCfg`; `np.clip` is `X.clip`."""

IV = "Op.Engine.InVar Rat"
OV = "Op.Engine.OutVar Rat"
BL = "String × Op.Engine.Block Rat"
VAL = "Op.Engine.VarValue Rat"
VAR = "Py.EIO.Variable"
ND = "Op.Engine.NdArr Rat"
KEY = "Op.Engine.Key"
COMP = "Op.Engine.Comp Rat"
LOOKUP = f"{KEY} → Py.M ({COMP})"
SESS = "Op.Session.Sess Rat"
CFG = "Op.CascadeCfg Rat"
XX = "X Rat × X Rat"


def lookup(name, obj, attr, var):
    """`Engine.input_variable` / `output_variable` / `rule_block`: the same function over three lists"""
    var = var + "_" if var == "variable" else var              # a Lean keyword: the translator renames the local
    return {
        "name": name, "module": "fuzzylite.engine", "object": obj, "file": "CodeEngineIO", "type_params": ["V"],
        "params": [("nameOf", "V → String"), ("comps", "List V"), ("name_or_index", KEY)],
        "locals": {var.rstrip("_"): "V"}, "ret": "V",
        "externals": [
            (f"self.{attr}", "comps", "List V", True),
            ("isinstance(name_or_index, int)", "name_or_index.isInt", "Bool", True),
            ("_0[name_or_index]", "(Py.EIO.atKey {0} name_or_index)", "V", False, ["List V"]),
            (f"{var}.name == name_or_index", f"(name_or_index.isName (nameOf σ.{var}))", "Bool", True),
        ],
    }


def via(fn, args, wrap):
    """a bound method `self.<look-up>`: the generated look-up on the list, its value wrapped as a component"""
    return (f"(fun k => {fn}.run {args} k {{{{}}}} >>= fun s => Py.deref s.ret >>= fun v => .ok ({wrap} v))")


PROFILES = [
    {
        "name": "Engine_variables", "module": "fuzzylite.engine", "object": "Engine.variables.fget", "file": "CodeEngineIO",
        "type_params": ["V"], "params": [("ins", "List V"), ("outs", "List V")], "locals": {}, "ret": "List V",
        "externals": [("self.input_variables", "ins", "List V", True), ("self.output_variables", "outs", "List V", True)],
    },
    {
        "name": "Engine_variable", "module": "fuzzylite.engine", "object": "Engine.variable", "file": "CodeEngineIO",
        "type_params": ["V"],
        "params": [("nameOf", "V → String"), ("ins", "List V"), ("outs", "List V"), ("name", "String")],
        "locals": {"variable": "V"}, "ret": "V",
        "externals": [
            # the property translated above
            ("self.variables", "(Engine_variables.run ins outs {{}} >>= fun s => Py.deref s.ret)", "List V", False),
            ("variable_.name", "(nameOf σ.variable_)", "String", True),
        ],
    },
    lookup("Engine_input_variable", "Engine.input_variable", "input_variables", "variable"),
    lookup("Engine_output_variable", "Engine.output_variable", "output_variables", "variable"),
    lookup("Engine_rule_block", "Engine.rule_block", "rule_blocks", "block"),
    {
        "name": "Engine_getitem", "module": "fuzzylite.engine", "object": "Engine.__getitem__", "file": "CodeEngineIO",
        "params": [("ins", f"List ({IV})"), ("outs", f"List ({OV})"), ("bls", f"List ({BL})"), ("item", KEY)],
        "locals": {"components": f"List ({LOOKUP})", "component": LOOKUP}, "ret": COMP,
        "externals": [
            ("self.input_variable", via("Engine_input_variable", "(fun v => v.name) ins", "Op.Engine.Comp.input"), LOOKUP, True),
            ("self.output_variable", via("Engine_output_variable", "(fun v => v.name) outs", "Op.Engine.Comp.output"), LOOKUP, True),
            ("self.rule_block", via("Engine_rule_block", "(fun b => b.1) bls", "Op.Engine.Comp.block"), LOOKUP, True),
            ("component(item)", "(σ.component item)", COMP, False),
        ],
    },
    {
        "name": "Engine_input_values", "module": "fuzzylite.engine", "object": "Engine.input_values.fget", "file": "CodeEngineIO",
        "params": [("ins", f"List ({IV} × {VAL})")], "locals": {"values": f"List ({VAL})", "result": ND}, "ret": ND,
        "externals": [
            ("self.input_variables", "ins", f"List ({IV} × {VAL})", True),
            ("_0.value", "{0}.2", VAL, True, [f"{IV} × {VAL}"]),
            ("np.column_stack(_0)", "(Py.EIO.columnStack {0})", ND, False, [f"List ({VAL})"]),
            ("np.array(_0)", "(Py.EIO.npArray {0})", ND, False, [f"List ({VAL})"]),
        ],
    },
    {
        "name": "Engine_output_values", "module": "fuzzylite.engine", "object": "Engine.output_values.fget", "file": "CodeEngineIO",
        # the list `variables` holds input variables followed by output variables: objects of the base class `Variable`
        "params": [("ins", f"List ({IV} × {VAL})"), ("outs", f"List ({OV} × {VAL})")],
        "locals": {"variables": f"List ({VAR} × {VAL})", "values": f"List ({VAL})", "result": ND}, "ret": ND,
        "externals": [
            ("self.input_variables", "(ins.map Py.EIO.inVariable)", f"List ({VAR} × {VAL})", True),
            ("self.output_variables", "(outs.map Py.EIO.outVariable)", f"List ({VAR} × {VAL})", True),
            ("_0.value", "{0}.2", VAL, True, [f"{VAR} × {VAL}"]),
            ("np.atleast_1d(_0)", "(Py.EIO.atleast1d {0})", VAL, True, [VAL]),
            ("np.broadcast_arrays(*_0)", "(Py.EIO.broadcastArrays {0})", f"List ({VAL})", False, [f"List ({VAL})"]),
            ("np.column_stack(_0)", "(Py.EIO.columnStack {0})", ND, False, [f"List ({VAL})"]),
            ("np.array(_0)", "(Py.EIO.npArray {0})", ND, False, [f"List ({VAL})"]),
        ],
    },
    {
        "name": "Engine_values", "module": "fuzzylite.engine", "object": "Engine.values.fget", "file": "CodeEngineIO",
        "params": [("ins", f"List ({IV} × {VAL})"), ("outs", f"List ({OV} × {VAL})")], "locals": {}, "ret": ND,
        "externals": [
            # the two properties translated above
            ("self.input_values", "(Engine_input_values.run ins {{}} >>= fun s => Py.deref s.ret)", ND, False),
            ("self.output_values", "(Engine_output_values.run ins outs {{}} >>= fun s => Py.deref s.ret)", ND, False),
            ("np.hstack((_0, _1))", "(Py.EIO.hstack {0} {1})", ND, False, [ND, ND]),
        ],
    },
    {
        "name": "Engine_copy", "module": "fuzzylite.engine", "object": "Engine.copy", "file": "CodeEngineIO",
        "params": [("this", SESS)], "locals": {"engine": SESS}, "ret": SESS,
        "externals": [("copy.deepcopy(self)", "(Py.EIO.deepcopy this)", SESS, True)],
    },
    # ---------------------------------------------------------------- Variable
    {
        "name": "Variable_set_value", "module": "fuzzylite.variable", "object": "Variable.value.fset", "file": "CodeEngineIO",
        "params": [("c", CFG), ("value", "X Rat")], "locals": {"self__value": "X Rat"},
        "externals": [
            ("self.lock_range", "c.lockRange", "Bool", True),
            ("self.minimum", "c.lo", "X Rat", True),
            ("self.maximum", "c.hi", "X Rat", True),
            ("np.clip(_0, _1, _2)", "(X.clip {0} {1} {2})", "X Rat", True, ["X Rat", "X Rat", "X Rat"]),
        ],
    },
    {
        "name": "Variable_drange", "module": "fuzzylite.variable", "object": "Variable.drange.fget", "file": "CodeEngineIO",
        "params": [("c", CFG)], "locals": {}, "ret": "X Rat",
        "externals": [("self.minimum", "c.lo", "X Rat", True), ("self.maximum", "c.hi", "X Rat", True)],
    },
    {
        "name": "Variable_range", "module": "fuzzylite.variable", "object": "Variable.range.fget", "file": "CodeEngineIO",
        "params": [("c", CFG)], "locals": {}, "ret": XX,
        "externals": [("self.minimum", "c.lo", "X Rat", True), ("self.maximum", "c.hi", "X Rat", True)],
    },
    {
        "name": "Variable_set_range", "module": "fuzzylite.variable", "object": "Variable.range.fset", "file": "CodeEngineIO",
        "params": [("min_max", XX)], "locals": {"self_minimum": "X Rat", "self_maximum": "X Rat"},
    },
]

FILES = {
    "CodeEngineIO": {"imports": ["FlVerif.Op.PyExtEngineIO"]},
}
