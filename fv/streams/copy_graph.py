"""C13 - "copy() returns an engine that produces identical results and shares no state with the original - operating or
editing either never changes the other", checked on the object graph itself (implementation only: the Lean engine model has
values, not objects, so aliasing cannot be modelled; the reference is the observed engine's own state before the edit and a
freshly built engine of the same description).

The property quantifies over "engines whose terms (Linear, Function) and rules hold references to the engine" and over edits of
"a parameter of the copy".  A parameter is whatever the public objects expose: attributes, but also the *containers* the
attributes refer to - `Function.variables` (a dict), `Discrete.values` (an array), `Linear.coefficients` (a list), the lists of
variables / terms / rules / hedges, the `Aggregated.terms` of a fuzzy output that was filled by an earlier `process()`, the
nodes of a loaded formula, the propositions of a loaded rule.  So the stream does not pick a list of known places: it walks
everything reachable from the edited engine (`places`), edits each mutable object IN PLACE in the way its type allows
(`edits_of`: dict entries set / added / cleared, array and list elements overwritten, lists popped / reversed / extended,
float / bool / int / str attributes re-assigned on the object, object-valued attributes unset) and after every edit reads
the *other* engines: `fingerprint` = the stored state of every object reachable from them, and - before the first edit, after
the last and whenever the fingerprint moved - `state` = what the public interface shows (Python representation, FuzzyLite
Language text, input / output / previous / fuzzy values, the membership value of every term at probe points).  Reading
changes nothing.  Three histories: edit the copy and watch the original, edit the
original and watch the copy, edit a copy of the copy and watch both ancestors; the copy is taken from a fresh engine or after
some `set inputs / process` steps (fuzzy outputs filled).  At the end the watched engines process the rows of the case and must
give what a freshly built engine with the same history gives.

A case: {"stream": "copy-graph", "engine": description (gen_engine format, with terms of kind "function"), "pre": ops before the
copy, "rows": input rows, "side": "copy" | "original" | "copy2", "edits": [[path, how, argument], ...]}; a path is a list of
steps from the edited engine: "name" = attribute, integer = index, ["k", key] = dictionary key."""
from __future__ import annotations

import copy as pycopy
import enum
import math
import types

import numpy as np

import fuzzylite as fl
import gen_engine as G

STREAM = "copy-graph"
ATOMIC = (str, bytes, int, float, bool, complex, type(None), enum.Enum, type, types.ModuleType, types.FunctionType,
          types.BuiltinFunctionType, types.MethodType, np.ufunc, np.generic)
VAR_NAMES = ["gain", "off", "k0", "k1", "k2", "k3", "k4", "k5", "w", "bias", "tau", "zeta"]


# ------------------------------------------------------------------------------------------------ engines

def function_term(rng, name, input_names):
    """a Function term: a sum of products of substitution variables, `x`, engine input variables and literals"""
    nv = rng.choice([0, 1, 1, 2, 2, 3, 4, 6])
    vs = rng.sample(VAR_NAMES, nv)
    variables = {v: rng.randint(-8, 8) / 4 for v in vs}
    parts = []
    for v in vs or [None]:
        operand = rng.choice(["x", "x"] + list(input_names) + [repr(rng.randint(1, 8) / 8)])
        head = v if v is not None else repr(rng.randint(1, 8) / 4)
        parts.append(f"{head} * {operand}" if rng.random() < 0.8 else head)
    formula = parts[0]
    for p in parts[1:]:
        formula += rng.choice([" + ", " - "]) + p
    if rng.random() < 0.3:
        formula = rng.choice(["abs", "sin", "tanh"]) + f"({formula})"
    return {"name": name, "kind": "function", "formula": formula, "variables": variables,
            "with_engine": bool(input_names) or rng.random() < 0.5}


def gen_case_engine(rng):
    """a generated engine (General activation) in which terms of every variable kind are replaced - name kept, so the rules
    still refer to them - by Function terms with substitution variables, Linear terms and Discrete terms"""
    desc = G.gen_engine(rng, activation="general", weighted=rng.random() < 0.5)
    desc["exact"] = False
    names = [v["name"] for v in desc["inputs"]]
    n_fun = 0
    for grp in ("inputs", "outputs"):
        for v in desc[grp]:
            ts = grp == "outputs" and "type" in v["defuzzifier"] and all(t["kind"] in ("constant", "linear") for t in v["terms"])
            for ti, t in enumerate(v["terms"]):
                r = rng.random()
                if ts:
                    if r < 0.5:
                        v["terms"][ti] = function_term(rng, t["name"], names if rng.random() < 0.7 else [])
                        n_fun += 1
                    elif r < 0.7:
                        v["terms"][ti] = {"name": t["name"], "kind": "linear",
                                          "coeffs": [rng.randint(-8, 8) / 4 for _ in range(len(names) + 1)]}
                elif t["kind"] == "shape" and "type" not in v.get("defuzzifier", {}):
                    if r < 0.25:
                        v["terms"][ti] = function_term(rng, t["name"], names if rng.random() < 0.5 else [])
                        n_fun += 1
                    elif r < 0.45:
                        v["terms"][ti] = G.discrete_term(rng, t["name"], v["min"], v["max"], False)
    if n_fun == 0:
        v = rng.choice(desc["inputs"])
        ti = rng.randrange(len(v["terms"]))
        v["terms"][ti] = function_term(rng, v["terms"][ti]["name"], names)
    return desc


def gen_case(rng):
    desc = gen_case_engine(rng)
    pre = []
    for _ in range(rng.choice([0, 1, 1, 2])):
        pre += [["set", G.gen_rows(rng, desc, 1, special=False)[0]], ["process"]]
    if pre and rng.random() < 0.3:
        pre.append(["set", G.gen_rows(rng, desc, 1, special=False)[0]])
    return {"stream": STREAM, "engine": desc, "pre": pre, "rows": G.gen_rows(rng, desc, 2, special=False),
            "side": rng.choice(["copy", "copy", "original", "copy2"]), "edits": []}


# ------------------------------------------------------------------------------------------------ object graph

_GLOBAL = None


def library_objects():
    """ids of the objects that belong to the library itself (settings, factories): never edited"""
    global _GLOBAL
    if _GLOBAL is None:
        _GLOBAL = set()
        fl.settings.factory_manager  # noqa: B018 - created on first access
        _GLOBAL = {id(o) for o in scan(fl.settings, limit=100000)[0]}
    return _GLOBAL


_FAST = {str, int, float, bool, type(None), np.float64}


def scan(root, limit=4000):
    """breadth-first scan of everything reachable from `root`, each object once: (objects, for each object (number of
    its parent, step from the parent), for each object its record = type name and, per child, the step and either the
    repr of an atomic value or the number of the object referred to; arrays: dtype, shape, bytes).
    Steps: attribute name (objects), index (lists, tuples), ["k", key] (dicts)."""
    skip = _GLOBAL or ()
    seen = {id(root): 0}
    objs, parents, records = [root], [None], []
    i = 0
    while i < len(objs):
        o = objs[i]
        t = type(o)
        i += 1
        if t is np.ndarray:
            records.append(("ndarray", str(o.dtype), o.shape, repr(o.tolist())))
            continue
        if isinstance(o, dict):
            items = [(["k", k], v) for k, v in o.items() if type(k) is str or type(k) is int]
        elif isinstance(o, (list, tuple)):
            items = enumerate(o)
        elif isinstance(o, (set, frozenset)):
            records.append((t.__name__, sorted(map(repr, o))))
            continue
        else:
            items = getattr(o, "__dict__", {}).items()
        rec = [t.__name__]
        for step, c in items:
            if type(c) in _FAST or isinstance(c, ATOMIC) or (callable(c) and not hasattr(c, "__dict__")):
                rec.append((step, repr(c)))
                continue
            j = seen.get(id(c))
            if j is None:
                if id(c) in skip or len(objs) >= limit:
                    rec.append((step, t.__name__))
                    continue
                j = seen[id(c)] = len(objs)
                objs.append(c)
                parents.append((i - 1, step))
            rec.append((step, j))
        records.append(rec)
    return objs, parents, records


def path_of(parents, i):
    path = []
    while parents[i] is not None:
        i, step = parents[i]
        path.append(step)
    return path[::-1]


def places(root, limit=4000):
    """every mutable object (and tuple) reachable from `root` with the shortest access path"""
    objs, parents, _ = scan(root, limit)
    return [(path_of(parents, i), o) for i, o in enumerate(objs)]


def resolve(root, path):
    obj = root
    for step in path:
        if isinstance(step, list):
            obj = obj[step[1]]
        elif isinstance(step, int):
            obj = obj[step]
        else:
            obj = vars(obj)[step]
    return obj


def other_float(v):
    v = float(v)
    return v + 1.0 if math.isfinite(v) and v + 1.0 != v else 0.25


def edits_of(obj):
    """the in-place edits the type of `obj` allows: [how, argument]"""
    out = []
    if isinstance(obj, dict):
        out += [["setitem", k] for k in obj if isinstance(k, str)]
        out += [["additem", "added_entry"]] + ([["delitem", next(iter(obj))]] if obj else []) + [["clear", None]]
    elif isinstance(obj, np.ndarray):
        if obj.size and obj.dtype.kind == "f":
            out += [["setflat", i] for i in sorted({0, obj.size // 2, obj.size - 1})]
    elif isinstance(obj, list):
        if obj and all(isinstance(v, float) for v in obj):
            out += [["setelem", i] for i in sorted({0, len(obj) // 2, len(obj) - 1})]
        if obj:
            out += [["pop", None], ["extend", None]]
        if len(obj) >= 2:
            out += [["reverse", None]]
        out += [["clear", None]]
    elif hasattr(obj, "__dict__"):
        for k, v in vars(obj).items():
            if isinstance(v, (bool, int, float, str)) and not isinstance(v, enum.Enum):
                out.append(["setattr", k])
            elif v is not None and not callable(v):
                out.append(["unset", k])
    return out


def apply_edit(root, path, how, arg):
    """returns False when the place no longer exists (an earlier edit removed it)"""
    try:
        obj = resolve(root, path)
        if how == "setitem":
            v = obj[arg]
            obj[arg] = other_float(v) if isinstance(v, (int, float)) else 0.25
        elif how == "additem":
            obj[arg] = 0.75
        elif how == "delitem":
            del obj[arg]
        elif how == "clear":
            obj.clear()
        elif how == "setflat":
            obj.flat[arg] = other_float(obj.flat[arg])
        elif how == "setelem":
            obj[arg] = other_float(obj[arg])
        elif how == "pop":
            obj.pop()
        elif how == "extend":
            obj.append(obj[0])
        elif how == "reverse":
            obj.reverse()
        elif how == "setattr":
            v = vars(obj)[arg]
            new = (not v) if isinstance(v, bool) else v + 1 if isinstance(v, int) else other_float(v) if isinstance(v, float) \
                else v + "_edited"
            setattr(obj, arg, new)
        elif how == "unset":
            setattr(obj, arg, None)
        else:
            raise AssertionError(how)
        return True
    except (KeyError, IndexError, AttributeError, TypeError, ValueError):
        return False


def pick_edits(rng, root, n):
    """`n` edits of the places of `root`: every container edit (dict, array, list of numbers) first - they are few and
    are what an attribute-by-attribute copy shares -, then a sample of the attribute and list edits; the edits that
    remove things come last, so that the paths of the others still resolve"""
    first, rest = [], []
    for path, obj in places(root):
        for how, arg in edits_of(obj):
            (first if how in ("setitem", "additem", "delitem", "setflat", "setelem") else rest).append([path, how, arg])
    if len(first) > n * 2 // 3:
        first = [first[i] for i in sorted(rng.sample(range(len(first)), n * 2 // 3))]
    k = max(0, n - len(first))
    rest = [rest[i] for i in sorted(rng.sample(range(len(rest)), min(k, len(rest))))]
    order = {"clear": 2, "pop": 2, "unset": 2, "reverse": 1, "extend": 1, "delitem": 1}
    return sorted(first + rest, key=lambda e: order.get(e[1], 0))


# ------------------------------------------------------------------------------------------------ observation

def show(v):
    try:
        return repr(np.asarray(v, dtype=float).tolist())
    except Exception as ex:  # noqa: BLE001
        return type(ex).__name__


def state(e):
    """everything that can be read off an engine without changing it"""
    out = {}
    for name, f in (("repr", lambda: repr(e)), ("fll", lambda: fl.FllExporter().to_string(e))):
        try:
            out[name] = f()
        except Exception as ex:  # noqa: BLE001
            out[name] = f"raises {type(ex).__name__}"
    for v in e.input_variables + e.output_variables:
        key = f"variable {v.name}"
        out[key + " value"] = show(v.value)
        if isinstance(v, fl.OutputVariable):
            out[key + " previous value"] = show(v.previous_value)
            try:
                out[key + " fuzzy value"] = v.fuzzy_value()
            except Exception as ex:  # noqa: BLE001
                out[key + " fuzzy value"] = f"raises {type(ex).__name__}"
        lo, hi = float(v.minimum), float(v.maximum)
        for t in v.terms:
            vals = []
            for x in (lo, lo + 0.3 * (hi - lo), lo + 0.75 * (hi - lo)):
                try:
                    with np.errstate(all="ignore"):
                        vals.append(show(t.membership(x)))
                except Exception as ex:  # noqa: BLE001
                    vals.append(f"raises {type(ex).__name__}")
            out[f"{key} term {t.name} membership"] = " ".join(vals)
    return out


def where(a, b):
    """the part of two texts around their first difference"""
    a, b = str(a), str(b)
    i = next((j for j, (x, y) in enumerate(zip(a, b)) if x != y), min(len(a), len(b)))
    lo = max(0, i - 30)
    return f"{'...' if lo else ''}{a[lo:i + 50]!r} became {'...' if lo else ''}{b[lo:i + 50]!r}"


def differences(a, b):
    return [f"{k}: {where(a.get(k), b.get(k))}" for k in a if a.get(k) != b.get(k)] + \
           [f"{k}: appeared" for k in b if k not in a]


def run_ops(e, ops):
    obs = []
    for op in ops:
        if op[0] == "set":
            for iv, v in zip(e.input_variables, op[1]):
                iv.value = v
        else:
            try:
                with np.errstate(all="ignore"):
                    e.process()
                obs.append([show(ov.value) for ov in e.output_variables])
            except Exception as ex:  # noqa: BLE001
                obs.append(["raises", type(ex).__name__])
    return obs


def path_text(path):
    s = "engine"
    for step in path:
        s += f"[{step[1]!r}]" if isinstance(step, list) else f"[{step}]" if isinstance(step, int) else f".{step}"
    return s


def fingerprint(e):
    """the complete stored state of everything reachable from the engine (`scan`: attribute values, container contents,
    array bytes, who refers to whom).  Cheaper than `state` and blind to nothing that `state` could show; reading it
    changes nothing."""
    return scan(e)


def fingerprint_differences(a, b):
    (_objs, parents, fa), (_o, _p, fb) = a, b
    out = [f"{path_text(path_of(parents, i))}: {where(x, y)}" for i, (x, y) in enumerate(zip(fa, fb)) if x != y]
    if len(fa) != len(fb):
        out.append(f"{len(fa)} reachable objects became {len(fb)}")
    return out


def run_case(case, choose=None):
    """builds original, copy (and copy of the copy), applies the edits of the case to `side` and watches the others.
    `choose(target)` supplies the edits when the case has none yet (the stream).  Returns (problems, edits applied,
    index of the first edit after which a watched engine changed or None)."""
    desc = case["engine"]
    original = G.build(desc)
    run_ops(original, case["pre"])
    engines = {"original": original, "copy": original.copy()}
    if case["side"] == "copy2":
        engines["copy2"] = engines["copy"].copy()
    problems = []
    base = state(original)
    for k in ("copy", "copy2"):
        if k in engines:
            d = differences(base, state(engines[k]))
            if d:
                problems.append(f"right after copy() the {k} differs from the original: {d[:3]}")
    target = engines[case["side"]]
    watched = {k: e for k, e in engines.items() if e is not target}
    public = {k: state(e) for k, e in watched.items()}
    stored = {k: fingerprint(e) for k, e in watched.items()}      # after the public reads (they may fill caches)
    edits = case["edits"] if choose is None else choose(target)
    first_bad = None
    for i, (path, how, arg) in enumerate(edits):
        if not apply_edit(target, path, how, arg):
            continue
        for k, e in watched.items():
            d = fingerprint_differences(stored[k], fingerprint(e))
            if d:
                problems.append(f"{how}({arg!r}) in place on {path_text(path)} of the {case['side']} changed the {k}: "
                                f"{d[:2]}; read through the public interface: {differences(public[k], state(e))[:2]}")
                first_bad = i if first_bad is None else first_bad
        if first_bad is not None:
            break
    if first_bad is None:
        for k, e in watched.items():
            d = differences(public[k], state(e))
            if d:
                problems.append(f"after the edits of the {case['side']} the {k} reads differently: {d[:3]}")
        # the watched engines go on working: same results as a freshly built engine with the same history
        fresh = G.build(desc)
        run_ops(fresh, case["pre"])
        ops = [op for r in case["rows"] for op in (["set", r], ["process"])]
        want = run_ops(fresh, ops)
        for k, e in watched.items():
            got = run_ops(e, ops)
            if got != want:
                problems.append(f"after editing the {case['side']} the {k} processes {case['rows']} to {got}, a freshly built "
                                f"engine with the same history to {want}")
    return problems, edits, first_bad


def oracle(case):
    library_objects()
    problems, _, _ = run_case(case)
    return (not problems), "; ".join(problems[:3]) or "ok"


def run(ctx):
    """returns the mismatches (each a violation with a one-edit case where one edit suffices)"""
    library_objects()
    rng, st, mism = ctx.rng, ctx.stats, []
    for _ in range(ctx.scale(30, 300)):
        case = gen_case(rng)
        n = ctx.scale(30, 80)
        problems, edits, bad = run_case(case, choose=lambda target: pick_edits(rng, target, n))
        st.count(f"copy-graph:{case['side']}")
        st.count("copy-graph:edits", len(edits))
        st.case(("copy-graph", repr(case["engine"]), case["side"], repr(edits)), bool(edits),
                sample={"stream": STREAM, "side": case["side"], "edits": len(edits),
                        "first": [path_text(e[0]) + " " + e[1] for e in edits[:3]]} if len(st.samples) < 5 else None)
        st.validated += 1
        if problems:
            full = dict(case, edits=edits if bad is None else edits[: bad + 1])
            small = dict(case, edits=[edits[bad]]) if bad is not None else full
            ok, detail = oracle(small)
            if ok:
                small = full
                ok, detail = oracle(small)
            mism.append({"case": small, "violation": True, "detail": detail if not ok else "; ".join(problems[:3]),
                         "what": "copy-graph: " + (detail if not ok else "; ".join(problems[:3]))})
            if len(mism) > 3:
                break
    return mism


def search(ctx):
    for m in run(ctx):
        return [(m["case"], m["detail"])]
    return []
