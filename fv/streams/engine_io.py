"""C02 - the accessors of `Engine` against `Op/EngineIO.lean` / `Op/InputValues.lean` (driver group `Drv/EngineIO.lean`):
look-ups by name or index (`input_variable`, `output_variable`, `rule_block`, `variable`, `engine[...]`), the getters
`input_values`, `output_values`, `values` on variables that hold floats, 0-d and 1-D arrays, and the setter of
`input_values` with 0-d / 1-D / 2-D / higher-dimensional arguments.  Compared: the component found (by identity), the array
(number of dimensions, shape, every entry exactly), the exception class."""
from __future__ import annotations

import math

import numpy as np

import common as C
import fuzzylite as fl
from streams import corpus_cases

STREAM = "engine-io"
NAMES = ["a", "b", "c", "", "A", "a b", "0", "-1", "é"]
SPECIALS = [math.nan, math.inf, -math.inf, 0.0, -0.0]
ERR = {"ValueError": "value", "IndexError": "lookup", "RuntimeError": "runtime"}


# ------------------------------------------------------------------------------------------------ cases (JSON-able)

def gen_names(rng, hi=3):
    return [rng.choice(NAMES[:5] if rng.random() < 0.8 else NAMES) for _ in range(rng.randint(0, hi))]


def gen_key(rng, names, n):
    r = rng.random()
    if r < 0.45:
        return ["i", rng.randint(-n - 2, n + 1)]
    if r < 0.5:
        return ["b", rng.random() < 0.5]          # bool is an int: True is index 1
    if r < 0.9 and names:
        return ["s", rng.choice(names)]
    return ["s", rng.choice(NAMES + ["zz", "in0"])]


def num(rng):
    r = rng.random()
    if r < 0.15:
        return rng.choice(SPECIALS)
    return rng.randint(-16, 16) / 4


def gen_value(rng, n=None, scalars=True):
    """what a variable holds: ["f", x] python float, ["0d", x] 0-d array, ["f64", x] numpy scalar, ["v", [x…]] 1-D array"""
    r = rng.random()
    if scalars and r < 0.35:
        return [rng.choice(["f", "0d", "f64"]), num(rng)]
    k = n if n is not None and rng.random() < 0.75 else rng.choice([0, 1, 1, 2, 3, 4])
    return ["v", [num(rng) for _ in range(k)]]


def gen_values(rng, count):
    n = rng.choice([0, 1, 2, 3, 4])
    scalars = rng.random() < 0.6
    return [gen_value(rng, n, scalars) for _ in range(count)]


def gen_array(rng, n_in):
    """argument of the setter: ["scalar", kind, x] | ["vector", [..]] | ["matrix", rows, cols, [[..]]] | ["higher", shape]"""
    r = rng.random()
    if r < 0.2:
        return ["scalar", rng.choice(["0d", "f64"]), num(rng)]
    if r < 0.45:
        k = n_in if rng.random() < 0.6 else rng.randint(0, 5)
        return ["vector", [num(rng) for _ in range(k)]]
    if r < 0.9:
        rows = rng.choice([0, 1, 1, 2, 3])
        cols = n_in if rng.random() < 0.7 else rng.randint(0, 4)
        return ["matrix", rows, cols, [[num(rng) for _ in range(cols)] for _ in range(rows)]]
    return ["higher", [rng.randint(0, 3) for _ in range(rng.choice([3, 3, 4]))]]


def gen_invars(rng):
    out = []
    for _ in range(rng.choice([0, 1, 1, 2, 2, 3])):
        lo, hi = rng.choice([(0.0, 1.0), (-1.0, 1.0), (1.0, 0.0), (-math.inf, math.inf), (math.nan, 1.0), (0.0, math.nan),
                             (0.0, 0.0), (-2.0, math.inf)])
        out.append([rng.random() < 0.5, lo, hi])
    return out


def gen_cases(ctx):
    rng = ctx.rng
    for _ in range(ctx.scale(150, 1500)):
        names = gen_names(rng, 4)
        yield {"stream": STREAM, "op": rng.choice(["input_variable", "output_variable", "rule_block"]), "names": names,
               "key": gen_key(rng, names, len(names))}
    for _ in range(ctx.scale(80, 800)):
        ins, outs = gen_names(rng), gen_names(rng)
        yield {"stream": STREAM, "op": "variable", "ins": ins, "outs": outs,
               "key": ["s", rng.choice((ins + outs) or NAMES) if rng.random() < 0.8 else rng.choice(NAMES + ["zz"])]}
    for _ in range(ctx.scale(150, 1500)):
        ins, outs, bls = gen_names(rng), gen_names(rng), gen_names(rng)
        yield {"stream": STREAM, "op": "getitem", "ins": ins, "outs": outs, "bls": bls,
               "key": gen_key(rng, ins + outs + bls, max(len(ins), len(outs), len(bls)))}
    for _ in range(ctx.scale(120, 1200)):
        yield {"stream": STREAM, "op": "input_values", "ins": gen_values(rng, rng.choice([0, 1, 2, 2, 3]))}
    for _ in range(ctx.scale(120, 1200)):
        yield {"stream": STREAM, "op": "output_values", "outs": gen_values(rng, rng.choice([0, 1, 2, 2, 3]))}
    for _ in range(ctx.scale(120, 1200)):
        k = rng.random()
        n = rng.choice([0, 1, 2, 3]) if k < 0.7 else None
        yield {"stream": STREAM, "op": "values",
               "ins": [gen_value(rng, n) for _ in range(rng.choice([0, 1, 2, 2]))] if n is not None else gen_values(rng, rng.choice([0, 1, 2])),
               "outs": [gen_value(rng, n) for _ in range(rng.choice([0, 1, 2, 2]))] if n is not None else gen_values(rng, rng.choice([0, 1, 2]))}
    for _ in range(ctx.scale(200, 2000)):
        ins = gen_invars(rng)
        yield {"stream": STREAM, "op": "set_input_values", "ins": ins, "array": gen_array(rng, len(ins))}
    # `Variable.term(name_or_index)`: the same look-up on the terms of a variable (code tie `C02.code_variableTerm`)
    for _ in range(ctx.scale(120, 1200)):
        names = gen_names(rng, 4)
        yield {"stream": STREAM, "op": "term", "names": names, "key": gen_key(rng, names, len(names))}


def gen_late_cases(ctx):
    """`Engine.output_values` of an engine that HAS input variables (drawn after every earlier stream of the property):
    the rows of the result are those of the batch, and the batch is what the input variables hold as much as what the
    output variables hold - also when every output variable holds a single value (disabled, or without activations) while
    the input variables hold `n` rows, when the input variables hold floats, and when the values do not fit together
    (an input of 2 rows next to an output of 3: `ValueError`, whichever kind of variable holds them); `Engine.values` on
    the same engines"""
    rng = ctx.rng
    for _ in range(ctx.scale(120, 1200)):
        n = rng.choice([0, 1, 2, 3, 4])
        k = rng.random()
        if k < 0.35:
            # no output variable holds a value per row
            ins = [["v", [num(rng) for _ in range(n)]] for _ in range(rng.choice([1, 1, 2, 3]))]
            outs = [rng.choice([[rng.choice(["f", "0d", "f64"]), num(rng)], ["v", [num(rng)]]]) for _ in range(rng.choice([1, 1, 2, 3]))]
        elif k < 0.8:
            ins = [gen_value(rng, n, scalars=rng.random() < 0.3) for _ in range(rng.choice([0, 1, 1, 2, 3]))]
            outs = [gen_value(rng, n) for _ in range(rng.choice([0, 1, 1, 2, 3]))]
        else:
            ins, outs = gen_values(rng, rng.choice([1, 2])), gen_values(rng, rng.choice([0, 1, 2]))
        yield {"stream": STREAM, "op": rng.choice(["output_values", "output_values", "values"]), "ins": ins, "outs": outs}


# ------------------------------------------------------------------------------------------------ implementation

def py_key(k):
    return int(k[1]) if k[0] == "i" else bool(k[1]) if k[0] == "b" else k[1]


def py_value(v):
    kind, x = v
    if kind == "f":
        return float(x)
    if kind == "0d":
        return np.array(float(x))
    if kind == "f64":
        return np.float64(x)
    return np.array([float(t) for t in x], dtype=float)


def py_array(a):
    if a[0] == "scalar":
        return np.array(float(a[2])) if a[1] == "0d" else np.float64(a[2])
    if a[0] == "vector":
        return np.array([float(t) for t in a[1]], dtype=float)
    if a[0] == "matrix":
        return np.array(a[3], dtype=float).reshape((a[1], a[2]))
    return np.zeros(tuple(a[1]), dtype=float)


def canon(arr):
    """ndarray -> the S-expression the driver prints for an array"""
    arr = np.asarray(arr, dtype=float)
    if arr.ndim == 0:
        return ["scalar", C.xstr(float(arr))]
    if arr.ndim == 1:
        return ["vector"] + [C.xstr(float(x)) for x in arr]
    if arr.ndim == 2:
        return ["matrix", str(arr.shape[1]), [[C.xstr(float(x)) for x in r] for r in arr]]
    return ["higher"] + [str(d) for d in arr.shape]


def engine_named(ins=(), outs=(), bls=()):
    return fl.Engine("e", input_variables=[fl.InputVariable(n) for n in ins],
                     output_variables=[fl.OutputVariable(n) for n in outs], rule_blocks=[fl.RuleBlock(n) for n in bls])


def index_of(lst, obj):
    return next((i for i, x in enumerate(lst) if x is obj), None)


def observe(case):
    """what the implementation does: ["ok", …] in the vocabulary of the driver, or ["err", kind]"""
    op = case["op"]
    try:
        with np.errstate(all="ignore"):
            if op in ("input_variable", "output_variable", "rule_block"):
                e = engine_named(**{{"input_variable": "ins", "output_variable": "outs", "rule_block": "bls"}[op]: case["names"]})
                lst = {"input_variable": e.input_variables, "output_variable": e.output_variables, "rule_block": e.rule_blocks}[op]
                return ["ok", str(index_of(lst, getattr(e, op)(py_key(case["key"]))))]
            if op == "term":
                v = fl.InputVariable("v", terms=[fl.Triangle(n) for n in case["names"]])
                return ["ok", str(index_of(v.terms, v.term(py_key(case["key"]))))]
            if op == "variable":
                e = engine_named(case["ins"], case["outs"])
                return ["ok", str(index_of(e.input_variables + e.output_variables, e.variable(py_key(case["key"]))))]
            if op == "getitem":
                e = engine_named(case["ins"], case["outs"], case["bls"])
                found = e[py_key(case["key"])]
                for nm, lst in (("input", e.input_variables), ("output", e.output_variables), ("block", e.rule_blocks)):
                    i = index_of(lst, found)
                    if i is not None:
                        return ["ok", nm, str(i)]
                return ["ok", "?", "?"]
            if op in ("input_values", "output_values", "values"):
                e = engine_named(["i"] * len(case.get("ins", [])), ["o"] * len(case.get("outs", [])))
                for v, x in zip(e.input_variables, case.get("ins", [])):
                    v.value = py_value(x)
                for v, x in zip(e.output_variables, case.get("outs", [])):
                    v.value = py_value(x)
                return ["ok", canon(getattr(e, op))]
            if op == "set_input_values":
                e = fl.Engine("e", input_variables=[fl.InputVariable("i", minimum=lo, maximum=hi, lock_range=lr)
                                                   for lr, lo, hi in case["ins"]])
                e.input_values = py_array(case["array"])
                cols = []
                for v in e.input_variables:
                    val = np.asarray(v.value, dtype=float)
                    if val.ndim != 1:
                        return ["ok", "shape", str(val.shape)]
                    cols.append([C.xstr(float(x)) for x in val])
                return ["ok", cols]
    except Exception as ex:  # noqa: BLE001
        return ["err", ERR.get(type(ex).__name__, "other:" + type(ex).__name__)]
    raise AssertionError(op)


# ------------------------------------------------------------------------------------------------ model

def hx(names):
    return [C.hexs(n) for n in names]


def key_sx(k):
    return ["i", str(int(k[1]))] if k[0] in ("i", "b") else ["s", C.hexs(k[1])]


def value_sx(v):
    return ["v"] + [C.xstr(float(t)) for t in v[1]] if v[0] == "v" else ["s", C.xstr(float(v[1]))]


def array_sx(a):
    if a[0] == "scalar":
        return ["scalar", C.xstr(float(a[2]))]
    if a[0] == "vector":
        return ["vector"] + [C.xstr(float(t)) for t in a[1]]
    if a[0] == "matrix":
        return ["matrix", str(a[2]), [[C.xstr(float(t)) for t in r] for r in a[3]]]
    return ["higher"] + [str(d) for d in a[1]]


def model_line(case):
    op = case["op"]
    if op in ("input_variable", "output_variable", "rule_block", "term"):
        return C.sx(["eio-lookup", hx(case["names"]), key_sx(case["key"])])
    if op == "variable":
        return C.sx(["eio-variable", hx(case["ins"]), hx(case["outs"]), C.hexs(case["key"][1])])
    if op == "getitem":
        return C.sx(["eio-getitem", hx(case["ins"]), hx(case["outs"]), hx(case["bls"]), key_sx(case["key"])])
    if op == "input_values":
        return C.sx(["eio-input-values", [value_sx(v) for v in case["ins"]]])
    if op == "output_values":
        # the values of the input variables take part in the broadcast (an older case without "ins": no input variables)
        return C.sx(["eio-output-values", [value_sx(v) for v in case.get("ins", [])], [value_sx(v) for v in case["outs"]]])
    if op == "values":
        return C.sx(["eio-values", [value_sx(v) for v in case["ins"]], [value_sx(v) for v in case["outs"]]])
    return C.sx(["eio-set-input-values", [[lr, lo, hi] for lr, lo, hi in case["ins"]], array_sx(case["array"])])


# ------------------------------------------------------------------------------------------------ documented behaviour

def rows_of(v):
    return [float(v[1])] if v[0] != "v" else [float(t) for t in v[1]]


def documented(case):
    """what the docstrings of engine.py promise, written independently of the code (None: nothing is promised)"""
    op = case["op"]

    def find(names, key):
        k = py_key(key)
        if isinstance(k, int):
            return ["ok", str(k % len(names))] if -len(names) <= k < len(names) else ["err", "lookup"]
        return ["ok", str(names.index(k))] if k in names else ["err", "value"]

    if op in ("input_variable", "output_variable", "rule_block", "term"):
        return find(case["names"], case["key"])
    if op == "variable":
        return find(case["ins"] + case["outs"], case["key"])
    if op == "getitem":
        for nm, names in (("input", case["ins"]), ("output", case["outs"]), ("block", case["bls"])):
            r = find(names, case["key"])
            if r[0] == "ok":
                return ["ok", nm, r[1]]
        return ["err", "value"]
    if op == "set_input_values":
        n, a = len(case["ins"]), case["array"]
        if n == 0:
            return ["err", "runtime"]
        if a[0] == "higher":
            return ["err", "value"]
        if a[0] == "scalar":
            rows = [[float(a[2])] * n]
        elif a[0] == "vector":
            rows = [[float(t)] for t in a[1]] if n == 1 else [[float(t) for t in a[1]]]
            if n != 1 and len(a[1]) != n:
                return ["err", "value"]
        else:
            if a[2] != n:
                return ["err", "value"]
            rows = a[3]
        cols = []
        for j, (lr, lo, hi) in enumerate(case["ins"]):
            col = [float(r[j]) for r in rows]
            if lr:
                with np.errstate(all="ignore"):
                    col = [float(np.minimum(np.maximum(x, lo), hi)) for x in col]
            cols.append([C.xstr(x) for x in col])
        return ["ok", cols]
    return None


def same(a, b):
    return a == b


def oracle(case):
    want = documented(case)
    got = observe(case)
    if want is not None and not same(got, want):
        return False, f"Engine.{case['op']}: the implementation gives {got}, documented: {want}"
    return True, "ok" if want is not None else "no documented value: judged by the model comparison only"


def run(ctx, more=None):
    """`more(ctx) -> (lines, judge)`: further model lines of the property, drawn after this stream's cases and sent to the
    driver in the same launch; `judge(outs)` receives their answers"""
    st = ctx.stats
    cases = corpus_cases("C02", STREAM) + list(gen_cases(ctx))
    more_lines, judge = more(ctx) if more else ([], None)
    late = list(gen_late_cases(ctx))          # drawn last: the streams above are what they were for a seed
    outs = ctx.driver.eval([model_line(c) for c in cases] + more_lines + [model_line(c) for c in late])
    if judge:
        judge(outs[len(cases):len(cases) + len(more_lines)])
    outs = outs[:len(cases)] + outs[len(cases) + len(more_lines):]
    cases = cases + late
    mism, per_op = [], {}
    for case, line in zip(cases, outs):
        st.count(f"{STREAM}:{case['op']}")
        got = observe(case)
        model = C.parse_sx(line) if line not in ("bad-op", "bad-parse") else line
        nt = got[0] == "ok" and (case["op"] in ("input_values", "output_values", "values", "set_input_values") or
                                 (case["key"][0] == "s") or int(py_key(case["key"])) < 0)
        st.case((STREAM, repr(case)), nt)
        st.validated += 1
        if not same(got, model):
            per_op[case["op"]] = per_op.get(case["op"], 0) + 1
            if per_op[case["op"]] <= 2:          # a defect of one accessor must not hide the others
                mism.append({"case": case, "impl": got, "model": model,
                             "what": f"Engine.{case['op']}: implementation {got}, model {model}"})
    return mism
