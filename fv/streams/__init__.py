"""Differential streams for the models that were added with the code ties (DESIGN.md section 0.7): the model, run by the
Lean driver at exact rationals, against the real implementation.  Each module is called from the harness of its property
(`correspond(ctx)` adds `run(ctx)`, `oracle(case)` hands cases that carry a `stream` key to `oracle(case)` here)."""

import glob
import json
import os


def corpus_cases(pid, stream):
    """the recorded inputs of a stream (`corpus/<pid>/*.json` whose case carries `stream`): replayed against the model
    at the head of every run (main.py runs the property oracle on them; the model comparison is the stream's)"""
    here = os.path.dirname(os.path.dirname(os.path.dirname(os.path.abspath(__file__))))
    out = []
    for p in sorted(glob.glob(os.path.join(here, "corpus", pid, "*.json"))):
        case = json.load(open(p)).get("case", {})
        if isinstance(case, dict) and case.get("stream") == stream:
            out.append(case)
    return out
