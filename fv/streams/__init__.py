"""Differential streams for the models that were added with the code ties (DESIGN.md section 0.7): the model, run by the
Lean driver at exact rationals, against the real implementation.  Each module is called from the harness of its property
(`correspond(ctx)` adds `run(ctx)`, `oracle(case)` hands cases that carry a `stream` key to `oracle(case)` here)."""
