"""C18 - the control flow of `FldExporter.write` against `Op.Fld.write` (the model of `C18.code_write`; driver group
`Drv/TieModels.lean`), both on a recording stub: the engine is an object that logs `restart()`, every `variable.value =
column` and `process()`, and whose `input_values` / `output_values` return arrays that tell in which state of the engine
they were read; `np.savetxt` is wrapped to capture what it is given (and still writes).  Compared: `ValueError` for fewer
columns than input variables (0-d, 1-D and 2-D arguments through the real `np.atleast_2d`), the order of the operations,
the column each variable receives, which blocks are stacked (inputs / outputs / one empty block), the header text handed
over (names of the selected variables joined by the separator, or "" with headers off), the delimiter."""
from __future__ import annotations

import io
from unittest import mock

import numpy as np

import common as C
import fuzzylite as fl
from streams import corpus_cases

STREAM = "fld-write"
NAMES = ["a", "b", "in 1", "x", "é", "", "out"]
SEPS = [" ", ",", "\t", ";", " | ", ""]


class StubVariable:
    def __init__(self, name, log):
        self.name, self._log, self._value = name, log, None

    @property
    def value(self):
        return self._value

    @value.setter
    def value(self, v):
        self._value = v
        self._log.append(["set", self.name, np.array(v, dtype=float, copy=True)])


class StubEngine:
    def __init__(self, ins, outs, rows):
        self.log = []
        self.name = "stub"
        self.rows = rows
        self.input_variables = [StubVariable(n, self.log) for n in ins]
        self.output_variables = [StubVariable(n, []) for n in outs]

    def restart(self):
        self.log.append("restart")

    def process(self):
        self.log.append("process")

    @property
    def input_values(self):
        return np.full((self.rows, len(self.input_variables)), 1000.0 + len(self.log))

    @property
    def output_values(self):
        return np.full((self.rows, len(self.output_variables)), 2000.0 + len(self.log))


def gen_cases(ctx):
    rng = ctx.rng
    for _ in range(ctx.scale(300, 3000)):
        ins = [rng.choice(NAMES) for _ in range(rng.choice([0, 1, 2, 2, 3]))]
        outs = [rng.choice(NAMES) for _ in range(rng.choice([0, 1, 1, 2]))]
        n = len(ins)
        r = rng.random()
        if r < 0.1:
            shape = []
        elif r < 0.3:
            shape = [rng.choice([n, n, max(0, n - 1), n + 1, 0])]
        else:
            shape = [rng.choice([0, 1, 1, 2, 3]), rng.choice([n, n, n, max(0, n - 1), n + 1, n + 2])]
        yield {"stream": STREAM, "ins": ins, "outs": outs, "input_values": rng.random() < 0.6,
               "output_values": rng.random() < 0.6, "headers": rng.random() < 0.6, "sep": rng.choice(SEPS), "shape": shape}


def argument(shape):
    """entries tell their column (and row): value = column + row / 8"""
    if not shape:
        return np.array(0.0)
    if len(shape) == 1:
        return np.arange(shape[0], dtype=float)
    return np.array([[c + r / 8 for c in range(shape[1])] for r in range(shape[0])], dtype=float).reshape(tuple(shape))


def observe(case):
    arg = argument(case["shape"])
    rows = int(np.atleast_2d(arg).shape[0])
    e = StubEngine(case["ins"], case["outs"], rows)
    exp = fl.FldExporter(separator=case["sep"], headers=case["headers"], input_values=case["input_values"],
                         output_values=case["output_values"])
    captured = {}
    real = np.savetxt

    def savetxt(writer, X, **kw):
        captured.update(kw, X=np.array(X, dtype=float))
        return real(writer, X, **kw)

    w = io.StringIO()
    try:
        with mock.patch.object(np, "savetxt", savetxt), np.errstate(all="ignore"):
            exp.write(e, w, arg)
    except ValueError:
        return "value-error"
    except Exception as ex:  # noqa: BLE001
        return f"error:{type(ex).__name__}:{ex}"
    a2 = np.atleast_2d(arg)
    events = []
    for ev in e.log:
        if isinstance(ev, str):
            events.append(ev)
        else:
            cands = [str(c) for c in range(a2.shape[1]) if ev[2].shape == a2[:, c].shape and np.array_equal(ev[2], a2[:, c])]
            events.append(["set", C.hexs(ev[1]), cands])
    X = captured.get("X")
    blocks = "?"
    if X is not None:
        blocks = []
        if X.ndim == 1 and X.size == 0:
            blocks = [["empty"]] if not (case["input_values"] or case["output_values"]) else "?"
        elif X.ndim == 2:
            # the stacked blocks, read off the first row (a block without columns or an array without rows shows nothing)
            row = list(X[0]) if X.shape[0] else []
            i = 0
            while i < len(row):
                kind, k = ("inputs", row[i] - 1000) if row[i] < 2000 else ("outputs", row[i] - 2000)
                width = len(e.input_variables) if kind == "inputs" else len(e.output_variables)
                blocks.append([kind, str(int(k)), width])
                i += max(1, width)
    return {"events": events, "blocks": blocks, "shape": list(X.shape) if X is not None else None,
            "header": captured.get("header"), "delimiter": captured.get("delimiter"), "comments": captured.get("comments"),
            "text": w.getvalue()}


def model_line(case):
    return C.sx(["fld-write", [C.hexs(n) for n in case["ins"]], [C.hexs(n) for n in case["outs"]], case["input_values"],
                 case["output_values"], case["headers"], C.hexs(case["sep"]), [str(d) for d in case["shape"]]])


def unhex(t):
    return bytes.fromhex(t[1:]).decode("utf-8")


def compare(case, got, model):
    if isinstance(got, str) or isinstance(model, str):
        return None if got == model else f"implementation {got}, model {model}"
    _, events, blocks, header = model
    if len(events) != len(got["events"]):
        return f"operations {got['events']}, model {events}"
    for g, m in zip(got["events"], events):
        if isinstance(g, str) or isinstance(m, str):
            if g != m:
                return f"operations {got['events']}, model {events}"
        elif g[1] != m[1] or m[2] not in g[2]:
            return f"variable {unhex(m[1])!r} receives column {g[2]}, model column {m[2]}"
    rows = int(np.atleast_2d(argument(case["shape"])).shape[0])
    n_in, n_out = len(case["ins"]), len(case["outs"])
    want = []
    for b in blocks:
        if b[0] == "empty":
            want.append(["empty"])
        elif rows and (n_in if b[0] == "inputs" else n_out):
            want.append([b[0], b[1], n_in if b[0] == "inputs" else n_out])
    if got["blocks"] == "?" or (want != got["blocks"] and not (want == [] and got["blocks"] in ([], [["empty"]]))):
        return f"stacked blocks {got['blocks']} (array of shape {got['shape']}), model {blocks}"
    if got["header"] != unhex(header):
        return f"header {got['header']!r}, model {unhex(header)!r}"
    if got["delimiter"] != case["sep"] or got["comments"] != "":
        return f"delimiter {got['delimiter']!r} / comments {got['comments']!r}"
    # what the real savetxt made of the header: a first line exactly when the header is not empty
    first = got["text"].split("\n")[0] if got["text"] else ""
    if unhex(header) and first != unhex(header):
        return f"first line {first!r}, header {unhex(header)!r}"
    return None


def oracle(case):
    """documented: one value per input variable is required; the header names the selected variables"""
    got = observe(case)
    rows_cols = np.atleast_2d(argument(case["shape"])).shape[1]
    if rows_cols < len(case["ins"]):
        return got == "value-error", f"{rows_cols} columns for {len(case['ins'])} input variables: expected ValueError, got {str(got)[:80]}"
    if isinstance(got, str):
        return False, f"write raised {got}"
    want = case["sep"].join((case["ins"] if case["input_values"] else []) + (case["outs"] if case["output_values"] else [])) \
        if case["headers"] else ""
    if got["header"] != want:
        return False, f"header {got['header']!r}, expected {want!r}"
    return True, "ok"


def run(ctx):
    st = ctx.stats
    cases = corpus_cases("C18", STREAM) + list(gen_cases(ctx))
    outs = ctx.driver.eval([model_line(c) for c in cases])
    mism = []
    for case, line in zip(cases, outs):
        st.count(STREAM)
        got = observe(case)
        model = C.parse_sx(line) if line not in ("bad-op", "bad-parse") else line
        st.count(f"{STREAM}:{'ok' if not isinstance(got, str) else got.split(':')[0]}")
        st.case((STREAM, repr(case)), not isinstance(got, str) and len(case["ins"]) >= 2)
        st.validated += 1
        bad = compare(case, got, model)
        if bad:
            mism.append({"case": case, "impl": str(got)[:300], "model": str(model)[:300], "what": f"FldExporter.write: {bad}"})
            if len(mism) > 8:
                break
    return mism
