"""C09 - `Op.midpoints(start, end, resolution)` against `Op.Integral.midpoints` (the model of `C09.code_midpoints`; driver
command `midpoints`) for the resolutions 1..5 (and a few larger ones) and unusual ranges: start > end, start = end,
infinite and NaN bounds, ranges far from the origin.  Resolution 0 (`ZeroDivisionError`, outside the domain of the model)
is checked on the implementation by the C09 harness itself.  Compared: the number of points, the class (NaN / +-inf /
finite) and the value of every point (1e-9 relative to the length of the range)."""
from __future__ import annotations

import math
from fractions import Fraction as Fr

import numpy as np

import common as C
import fuzzylite as fl
from streams import corpus_cases

STREAM = "midpoints"
BOUNDS = [0.0, 1.0, -1.0, 0.5, 2.0, -2.5, 10.0, 100.0, 1e6, -1e6, 0.1, 1 / 3, 1e-3]
SPECIAL = [math.inf, -math.inf, math.nan]


def gen_cases(ctx):
    rng = ctx.rng
    # every pair of special / ordinary bounds at the resolutions 1..5
    for lo in SPECIAL + [0.0, 1.0]:
        for hi in SPECIAL + [0.0, 1.0]:
            for r in (1, 2, 3, 4, 5):
                yield {"stream": STREAM, "lo": lo, "hi": hi, "r": r}
    for _ in range(ctx.scale(250, 2500)):
        lo = rng.choice(BOUNDS) if rng.random() < 0.7 else rng.uniform(-50, 50)
        k = rng.random()
        if k < 0.15:
            hi = lo
        elif k < 0.8:
            hi = rng.choice(BOUNDS) if rng.random() < 0.6 else rng.uniform(-50, 50)     # start > end in half of the cases
        else:
            hi = rng.choice(SPECIAL)
        if rng.random() < 0.08:
            lo = rng.choice(SPECIAL)
        yield {"stream": STREAM, "lo": lo, "hi": hi, "r": rng.choice([1, 1, 2, 2, 3, 3, 4, 4, 5, 5, 7, 16, 100])}


def observe(case):
    try:
        with np.errstate(all="ignore"):
            x = np.asarray(fl.Op.midpoints(float(case["lo"]), float(case["hi"]), int(case["r"])), dtype=float)
        if x.ndim != 1:
            return f"shape {x.shape}"
        return [float(v) for v in x]
    except Exception as ex:  # noqa: BLE001
        return f"raises {type(ex).__name__}"


def scale(case):
    lo, hi = float(case["lo"]), float(case["hi"])
    if math.isfinite(lo) and math.isfinite(hi):
        return Fr(abs(hi - lo)) + Fr(abs(lo)) * Fr(1, 1000)
    return Fr(1)


def agree(case, got, want):
    """want: list of protocol tokens / exact values"""
    if isinstance(got, str) or len(got) != len(want):
        return False
    s = scale(case)
    for a, b in zip(got, want):
        b = C.parse_x(b) if isinstance(b, str) else b
        if C.cls_of(a) != "fin" or isinstance(b, str):
            if C.cls_of(a) != C.cls_of(b):
                return False
        elif abs(Fr(a) - b) > Fr(1, 10 ** 9) * s + Fr(1, 10 ** 12) * (abs(b) + 1):
            return False
    return True


def oracle(case):
    """documented: the midpoint rule - point i is start + (i + 1/2) (end - start) / resolution (finite bounds)"""
    lo, hi, r = float(case["lo"]), float(case["hi"]), int(case["r"])
    if not (math.isfinite(lo) and math.isfinite(hi)):
        return True, "no documented value for infinite bounds: judged by the model comparison only"
    got = observe(case)
    want = [Fr(lo) + (Fr(2 * i + 1, 2)) * ((Fr(hi) - Fr(lo)) / r) for i in range(r)]
    if not agree(case, got, want):
        return False, f"Op.midpoints({lo}, {hi}, {r}) = {got if isinstance(got, str) else got[:6]}, the midpoints are {[float(w) for w in want[:6]]}"
    return True, "ok"


def run(ctx):
    st = ctx.stats
    cases = corpus_cases("C09", STREAM) + list(gen_cases(ctx))
    outs = ctx.driver.eval([C.sx(["midpoints", float(c["lo"]), float(c["hi"]), str(int(c["r"]))]) for c in cases])
    mism = []
    for case, line in zip(cases, outs):
        lo, hi = float(case["lo"]), float(case["hi"])
        st.count(f"{STREAM}:{'special' if not (math.isfinite(lo) and math.isfinite(hi)) else 'reversed' if lo > hi else 'empty' if lo == hi else 'ordinary'}")
        got = observe(case)
        model = C.parse_sx(line) if line not in ("bad-op", "bad-parse") else line
        st.case((STREAM, repr(case)), not isinstance(got, str) and any(math.isfinite(v) for v in got) and lo != hi)
        st.validated += 1
        if isinstance(model, str) or not agree(case, got, model):
            mism.append({"case": case, "impl": got if isinstance(got, str) else got[:8], "model": str(model)[:200],
                         "what": f"Op.midpoints({lo}, {hi}, {case['r']}): implementation {got if isinstance(got, str) else got[:6]}, model {str(model)[:120]}"})
            if len(mism) > 8:
                break
    return mism
