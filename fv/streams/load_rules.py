"""C16 / C13 - `RuleBlock.load_rules(engine)` / `reload_rules(engine)` on blocks that mix loadable and unloadable rules
against `Op.loadRules` (the model of `C16.code_loadRules` / `code_reloadRules`; driver group `Drv/TieModels.lean`).

A block holds 1-6 rules over one generated engine: valid rules, and rules that parse but do not load (mutants and
one-error injections of the C16 stream: unknown variable / term / hedge, missing `is`, unbalanced parentheses, ...).  Some
rule objects were loaded with another text before (their old state must not survive).  Compared: `RuntimeError` iff some
rule fails (any other exception is a mismatch), which rules report `is_loaded()` afterwards, the rules named in the
message and their order, the exception class of every failing rule (loaded on its own afterwards).

Call `rule_load` (drawn after the block calls): every rule object is loaded by `rule.load(engine)` called on the rule
itself, in order - no rule block unloads it first.  Most of these objects were loaded with another (valid) text before and
got their present text through `rule.parse` / `rule.text =`: a text that does not load must be rejected and leave the rule
unloaded whatever the object held before (`never leaves a rule reporting loaded after a failed load`); the class of every
failure is also taken from a FRESH rule object with the same text."""
from __future__ import annotations

import numpy as np

import common as C
import fuzzylite as fl
from streams import corpus_cases

STREAM = "load-rules"


def valid_tokens(rng, h, vars_):
    A = h.A
    tree = A.gen_ante(rng, vars_, rng.choice([0, 1, 1, 2]))
    toks = A.awriting(tree, 0, 0, rng, rng.choice([0.0, 0.0, 0.2]))
    w = rng.choice([None, None, "0.5", "0.25"])
    return ["if"] + toks + ["then"] + h.cons_tokens(h.gen_conclusions(rng, vars_)) + (["with", w] if w else [])


def parses(text):
    try:
        fl.Rule().parse(text)
        return True
    except Exception:  # noqa: BLE001
        return False


def gen_cases(ctx, h):
    rng = ctx.rng
    n = 0
    while n < ctx.scale(300, 3000):
        base = h.make_valid(rng)
        vars_ = base["vars"]
        rules = []
        p_bad = rng.choice([0.0, 0.3, 0.5, 0.8])
        for _ in range(rng.choice([1, 2, 3, 3, 4, 6])):
            toks = valid_tokens(rng, h, vars_)
            kind = "valid"
            if rng.random() < p_bad:
                b2 = dict(base, tokens=toks)
                if rng.random() < 0.6:
                    how = rng.choice(h.INJECTIONS)
                    t = h.inject(rng, b2, how)
                else:
                    how, t = h.mutate(rng, b2)
                if t is not None:
                    toks, kind = t, how
            text = h.spell(toks, rng)
            if not parses(text):
                continue                      # a text that Rule.parse rejects never becomes a rule of a block
            prior = None
            if rng.random() < 0.3:
                prior = h.spell(valid_tokens(rng, h, vars_))      # the rule object was loaded with this text before
            rules.append({"text": text, "kind": kind, "prior": prior})
        if not rules:
            continue
        n += 1
        yield {"stream": STREAM, "vars": vars_, "rules": rules, "call": rng.choice(["load_rules", "load_rules", "reload_rules"])}
    # Rule.load called on rule objects with a history (after the block calls: their cases are unchanged for a seed)
    n = 0
    while n < ctx.scale(150, 1500):
        base = h.make_valid(rng)
        vars_ = base["vars"]
        rules = []
        for _ in range(rng.choice([1, 2, 3])):
            toks = valid_tokens(rng, h, vars_)
            kind = "valid"
            if rng.random() < 0.6:
                b2 = dict(base, tokens=toks)
                if rng.random() < 0.6:
                    how = rng.choice(h.INJECTIONS)
                    t = h.inject(rng, b2, how)
                else:
                    how, t = h.mutate(rng, b2)
                if t is not None:
                    toks, kind = t, how
            text = h.spell(toks, rng)
            if not parses(text):
                continue
            prior = h.spell(valid_tokens(rng, h, vars_)) if rng.random() < 0.8 else None
            rules.append({"text": text, "kind": kind, "prior": prior, "via": rng.choice(["parse", "text"])})
        if not rules:
            continue
        n += 1
        yield {"stream": STREAM, "vars": vars_, "rules": rules, "call": "rule_load"}


def observe(case, h):
    engine = h.A.build_engine(case)
    block = fl.RuleBlock("rb")
    for r in case["rules"]:
        if r["prior"]:
            rule = fl.Rule.create(r["prior"], engine)
            if r.get("via") == "text":
                rule.text = r["text"]
            else:
                rule.parse(r["text"])
        else:
            rule = fl.Rule.create(r["text"])
        block.rules.append(rule)
    engine.rule_blocks.append(block)
    out = {"raised": None, "message": None}
    try:
        with np.errstate(all="ignore"):
            if case["call"] == "rule_load":
                # every rule loaded on its own; the failures are collected the way RuleBlock.load_rules reports them
                failed = []
                for rule in block.rules:
                    try:
                        rule.load(engine)
                    except Exception as ex:  # noqa: BLE001
                        failed.append(f"['{rule}']: {ex}")
                if failed:
                    raise RuntimeError("failed to load the following rules:\n" + "\n".join(failed))
            else:
                getattr(block, case["call"])(engine)
    except RuntimeError as ex:
        out["raised"] = "RuntimeError"
        out["message"] = str(ex)
    except Exception as ex:  # noqa: BLE001
        out["raised"] = type(ex).__name__
        out["message"] = str(ex)
    out["loaded"] = [bool(r.is_loaded()) for r in block.rules]
    out["names"] = [str(r) for r in block.rules]
    # the class of every rule's own failure
    kinds = []
    for i, r in enumerate(block.rules):
        try:
            r.load(engine)
        except Exception as ex:  # noqa: BLE001
            kinds.append([str(i), h.errkind(ex)])
    out["kinds"] = kinds
    # the class of the failure of every TEXT: a fresh rule object, never loaded before
    fresh = []
    for i, r in enumerate(case["rules"]):
        try:
            fl.Rule.create(r["text"], engine)
        except Exception as ex:  # noqa: BLE001
            fresh.append([str(i), h.errkind(ex)])
    out["fresh"] = fresh
    return out


def model_line(case, h):
    return C.sx(["load-rules", [h.A.var_sx(v) for v in case["vars"]], [C.hexs(r["text"]) for r in case["rules"]]])


def compare(case, got, model):
    if not isinstance(model, list):
        return f"the model does not read the block: {model}"
    verdict, loaded, fails = model
    loaded = [x == "1" for x in loaded]
    fails = [] if fails == "()" else fails
    if got["raised"] not in (None, "RuntimeError"):
        return f"{case['call']} raised {got['raised']}: {got['message'][:120]}"
    if (got["raised"] is not None) != (verdict == "raises"):
        return f"{case['call']} {'raised RuntimeError' if got['raised'] else 'returned'}, model: {verdict}"
    if got["loaded"] != loaded:
        return f"is_loaded() afterwards {got['loaded']}, model {loaded}"
    if got["kinds"] != [[f[0], f[1]] for f in fails]:
        return f"failing rules (position, class) {got['kinds']}, model {fails}"
    if got["fresh"] != [[f[0], f[1]] for f in fails]:
        return f"failing texts on fresh rule objects (position, class) {got['fresh']}, model {fails}"
    if got["raised"]:
        # one entry per failing rule, in the order of the rules
        pos, msg = 0, got["message"]
        head = "failed to load the following rules:\n"
        if not msg.startswith(head):
            return f"message starts with {msg[:40]!r}"
        pos = len(head)
        for f in fails:
            mark = f"['{got['names'][int(f[0])]}']: "
            k = msg.find(mark, pos)
            if k < 0:
                return f"the message does not list rule {f[0]} after position {pos}: {msg[:300]!r}"
            pos = k + len(mark)
        listed = sum(1 for ln in msg[len(head):].split("\n") if ln.startswith("['"))
        if listed != len(fails):
            return f"the message lists {listed} rules, model {len(fails)}"
    return None


def oracle(case, h):
    """documented (C16): a rule whose load fails is not loaded; no internal error; load_rules reports failures as RuntimeError"""
    got = observe(case, h)
    if got["raised"] not in (None, "RuntimeError"):
        return False, f"{case['call']} raised {got['raised']}: {got['message'][:160]}"
    bad = [k for k in got["kinds"] if k[1].startswith("INTERNAL")]
    if bad:
        return False, f"internal error when loading rule {bad[0][0]} '{case['rules'][int(bad[0][0])]['text']}': {bad[0][1]}"
    failing = {int(k[0]) for k in got["kinds"]}
    # the text decides, not the object: a text that a fresh rule object rejects is never accepted by an object with a history
    for i, k in got["fresh"]:
        if got["loaded"][int(i)]:
            r = case["rules"][int(i)]
            return False, (f"rule {i} '{r['text']}' does not load ({k} on a fresh rule object) but the rule object"
                           f"{' (loaded with ' + repr(r['prior']) + ' before)' if r['prior'] else ''} reports is_loaded() "
                           f"after {case['call']}")
    for i, ld in enumerate(got["loaded"]):
        if ld and i in failing:
            return False, f"rule {i} '{case['rules'][i]['text']}' reports is_loaded() although its load fails"
        if not ld and i not in failing:
            return False, f"rule {i} '{case['rules'][i]['text']}' loads on its own but is not loaded after {case['call']}"
    if bool(failing) != (got["raised"] is not None):
        return False, f"{len(failing)} rules fail to load, {case['call']} {'raised' if got['raised'] else 'did not raise'}"
    return True, "ok"


def run(ctx, h):
    st = ctx.stats
    cases = corpus_cases("C16", STREAM) + list(gen_cases(ctx, h))
    outs = ctx.driver.eval([model_line(c, h) for c in cases])
    mism = []
    for case, line in zip(cases, outs):
        st.count(STREAM)
        got = observe(case, h)
        model = C.parse_sx(line) if line not in ("bad-op", "bad-parse") else line
        nfail = len(got["kinds"])
        st.count(f"{STREAM}:{'all-load' if nfail == 0 else 'all-fail' if nfail == len(case['rules']) else 'mixed'}")
        st.case((STREAM, repr(case)), 0 < nfail < len(case["rules"]))
        st.validated += 1
        bad = compare(case, got, model)
        if bad:
            mism.append({"case": case, "impl": {k: got[k] for k in ("raised", "loaded", "kinds")}, "model": str(model)[:300],
                         "what": f"RuleBlock.{case['call']}: {bad}"})
            if len(mism) > 8:
                break
    return mism
