"""Streams for the models of the fifth wave of code ties (driver group `Drv/Wave5X.lean`).

* `configure` (C14): `Engine.configure` on engines whose rule blocks / output variables hold operators or `None`, with every
  argument `None`, a registered name, a name the factory does not know (another factory's class, `""`, `"none"`, a typo)
  or an object, against `Op.Engine.configure` with the factories of the FLL model.  Compared: the exception class, or the
  class of each of the six operators of every block / output variable after the call; after a raise the implementation
  must not have changed any operator (`C14.configure_unknown_name_unchanged`).
* `infer-tree` (C10): `WeightedDefuzzifier.infer_type` on nested components - `Aggregated` terms and variables whose terms
  are `Activated` terms, plain terms or again composite - against `Op.Weighted.inferComp`.  Compared: the type or `TypeError`."""
from __future__ import annotations

import numpy as np

import common as C
import fuzzylite as fl
import user_terms as U
from streams import corpus_cases
from streams.infer import KINDS, mk_class_term

# the same kinds with the classes a user of the library wrote (fv/user_terms.py) next to the built-in ones
KINDS_USER = {"sugeno": KINDS["sugeno"] + U.SUGENO * 2, "monotonic": KINDS["monotonic"] + U.MONOTONIC * 3,
              "other": KINDS["other"] + U.NON_MONOTONIC * 7}

CONFIGURE = "configure"
TREE = "infer-tree"
TNORMS = ["Minimum", "AlgebraicProduct", "BoundedDifference", "DrasticProduct", "EinsteinProduct", "HamacherProduct", "NilpotentMinimum"]
SNORMS = ["Maximum", "AlgebraicSum", "BoundedSum", "DrasticSum", "EinsteinSum", "HamacherSum", "NilpotentMaximum",
          "NormalizedSum", "UnboundedSum"]
DEFUZZ = ["Centroid", "Bisector", "MeanOfMaximum", "SmallestOfMaximum", "LargestOfMaximum", "WeightedAverage", "WeightedSum"]
ACTIV = ["General", "First", "Last", "Highest", "Lowest", "Proportional", "Threshold"]
FAMILY = {"conjunction": TNORMS, "disjunction": SNORMS, "implication": TNORMS, "aggregation": SNORMS,
          "defuzzifier": DEFUZZ, "activation": ACTIV}
ORDER = ["conjunction", "disjunction", "implication", "aggregation", "defuzzifier", "activation"]
UNKNOWN = ["", "none", "Nope", "minimum", "Minimum ", "Maximum", "Minimum", "Centroid", "General", "é"]
ERR = {"ValueError": "value", "TypeError": "internal", "AttributeError": "internal", "KeyError": "lookup", "RuntimeError": "runtime"}


# ------------------------------------------------------------------------------------------------ configure

def gen_arg(rng, key):
    r = rng.random()
    fam = FAMILY[key]
    if r < 0.3:
        return ["none"]
    if r < 0.62:
        return ["name", rng.choice(fam)]
    if r < 0.74:
        return ["name", rng.choice(UNKNOWN)]
    # an object: configure does not look at its class (a norm of the other family is accepted as it is)
    pool = fam if key in ("defuzzifier", "activation") or rng.random() < 0.8 else TNORMS + SNORMS
    return ["obj", rng.choice(pool)]


def gen_configure(rng):
    def op(fam):
        return rng.choice(fam) if rng.random() < 0.7 else None
    plan = rng.random()
    args = {k: gen_arg(rng, k) for k in ORDER}
    if plan < 0.35:                      # a call that should return: no unknown names
        for k in ORDER:
            if args[k][0] == "name" and args[k][1] not in FAMILY[k]:
                args[k] = ["name", rng.choice(FAMILY[k])]
    elif plan < 0.5:                     # exactly one rejected name, late in the parameter list
        for k in ORDER:
            if args[k][0] == "name":
                args[k] = ["name", rng.choice(FAMILY[k])]
        args[rng.choice(ORDER[2:])] = ["name", rng.choice(["Nope", "", "none"])]
    return {"stream": CONFIGURE, "args": args,
            "blocks": [[op(TNORMS), op(SNORMS), op(TNORMS), op(ACTIV)] for _ in range(rng.choice([0, 1, 1, 2, 3]))],
            "outputs": [[op(SNORMS), op(DEFUZZ)] for _ in range(rng.choice([0, 1, 1, 2, 3]))]}


def mk(cls):
    return None if cls is None else getattr(fl, cls)()


def build_engine(case):
    return fl.Engine("e", input_variables=[fl.InputVariable("x")],
                     output_variables=[fl.OutputVariable(f"o{i}", aggregation=mk(g), defuzzifier=mk(z))
                                       for i, (g, z) in enumerate(case["outputs"])],
                     rule_blocks=[fl.RuleBlock(f"b{i}", conjunction=mk(c), disjunction=mk(d), implication=mk(m), activation=mk(a))
                                  for i, (c, d, m, a) in enumerate(case["blocks"])])


def cls_of(x):
    return "none" if x is None else C.hexs(type(x).__name__)


def snapshot(e):
    return [[[cls_of(b.conjunction), cls_of(b.disjunction), cls_of(b.implication), cls_of(b.activation)] for b in e.rule_blocks],
            [[cls_of(v.aggregation), cls_of(v.defuzzifier)] for v in e.output_variables]]


def identities(e):
    return [id(x) for b in e.rule_blocks for x in (b.conjunction, b.disjunction, b.implication, b.activation)] + \
           [id(x) for v in e.output_variables for x in (v.aggregation, v.defuzzifier)]


def observe_configure(case):
    e = build_engine(case)
    kwargs = {k: (None if a[0] == "none" else a[1] if a[0] == "name" else mk(a[1])) for k, a in case["args"].items()}
    before = identities(e)
    try:
        e.configure(**kwargs)
    except Exception as ex:  # noqa: BLE001
        kind = ERR.get(type(ex).__name__, "other:" + type(ex).__name__)
        return ["err", kind] if identities(e) == before else ["err", kind, "changed"]
    return ["ok"] + snapshot(e)


def configure_line(case):
    def arg(a):
        return "none" if a[0] == "none" else [a[0], C.hexs(a[1])]

    def op(x):
        return "none" if x is None else C.hexs(x)
    return C.sx(["configure", [arg(case["args"][k]) for k in ORDER], [[op(x) for x in b] for b in case["blocks"]],
                 [[op(x) for x in v] for v in case["outputs"]]])


def oracle_configure(case):
    """documented (docstring of `Engine.configure`): an argument is an object or the name of a class registered in the
    matching factory; the operators named are the operators of every block / output variable afterwards.  A name that is
    not registered: `ValueError` of the factory, and the engine as before."""
    got = observe_configure(case)
    rejected = [k for k in ORDER if case["args"][k][0] == "name" and case["args"][k][1] not in FAMILY[k]]
    if rejected:
        if got[:2] != ["err", "value"] or len(got) > 2:
            return False, f"configure with the unregistered name {case['args'][rejected[0]][1]!r} for {rejected[0]}: {got}"
        return True, "ok"
    if got[0] != "ok":
        return False, f"configure with registered names / objects raised: {got}"
    for j, k in enumerate(["conjunction", "disjunction", "implication", "activation"]):
        a = case["args"][k]
        if a[0] != "none" and any(b[j] != C.hexs(a[1]) for b in got[1]):
            return False, f"configure({k}={a[1]!r}): the blocks hold {[b[j] for b in got[1]]}"
    for j, k in enumerate(["aggregation", "defuzzifier"]):
        a = case["args"][k]
        if a[0] != "none" and any(v[j] != C.hexs(a[1]) for v in got[2]):
            return False, f"configure({k}={a[1]!r}): the output variables hold {[v[j] for v in got[2]]}"
    return True, "ok"


def run_configure(ctx):
    st = ctx.stats
    cases = corpus_cases("C14", CONFIGURE) + [gen_configure(ctx.rng) for _ in range(ctx.scale(300, 3000))]
    outs = ctx.driver.eval([configure_line(c) for c in cases])
    mism = []
    for case, line in zip(cases, outs):
        st.count(f"{CONFIGURE}:cases")
        got = observe_configure(case)
        model = C.parse_sx(line) if line not in ("bad-op", "bad-parse") else line
        st.count(f"{CONFIGURE}:{got[0] if got[0] == 'ok' else 'raises'}")
        st.case((CONFIGURE, repr(case)), bool(case["blocks"] or case["outputs"]))
        st.validated += 1
        if got != model and len(mism) < 3:
            mism.append({"case": case, "impl": got, "model": model, "what": f"Engine.configure: implementation {got}, model {model}"})
    return mism


# ------------------------------------------------------------------------------------------------ infer_type on trees

def gen_tree(rng, depth, mode, kinds=KINDS):
    """["p", Class] | ["a", tree] | ["g", "aggregated" | "variable", [tree…]]"""
    r = rng.random()
    if depth == 0 or r < 0.35:
        kind = mode if mode in kinds else rng.choice(list(kinds))
        return ["p", rng.choice(kinds[kind])]
    if r < 0.65:
        return ["a", gen_tree(rng, depth - 1, mode, kinds)]
    return ["g", rng.choice(["aggregated", "variable"]), [gen_tree(rng, depth - 1, mode, kinds) for _ in range(rng.choice([0, 1, 2, 2, 3]))]]


def gen_tree_case(rng, kinds=KINDS):
    mode = rng.choice(["sugeno", "monotonic", "other", "mixed", "mixed"])
    t = gen_tree(rng, rng.choice([1, 2, 3, 4]), mode, kinds)
    if t[0] == "p" and rng.random() < 0.7:
        t = ["g", "aggregated", [["a", t], ["a", gen_tree(rng, 1, mode, kinds)]]]
    return {"stream": TREE, "tree": t}


def tree_cases(ctx):
    """components whose leaves are also of classes written by a user: the kind follows from what the term says about itself"""
    for _ in range(ctx.scale(200, 2000)):
        yield gen_tree_case(ctx.rng, KINDS_USER)


def build_tree(t, engine):
    if t[0] == "p" and t[1] in U.CLASSES:
        return U.CLASSES[t[1]]("t")
    if t[0] == "p":
        return mk_class_term(t[1], "t", engine)
    if t[0] == "a":
        return fl.Activated(build_tree(t[1], engine), 1.0)
    parts = [build_tree(x, engine) for x in t[2]]
    if t[1] == "variable":
        return fl.OutputVariable("v", terms=parts)
    return fl.Aggregated("g", 0.0, 1.0, None, parts)


def tree_sx(t):
    if t[0] == "p":
        return ["p", U.model_name(t[1])]
    if t[0] == "a":
        return ["a", tree_sx(t[1])]
    return ["g"] + [tree_sx(x) for x in t[2]]


def observe_tree(case):
    e = fl.Engine("e", input_variables=[fl.InputVariable("x")])
    try:
        with np.errstate(all="ignore"):
            cls = fl.WeightedAverage if len(repr(case)) % 2 else fl.WeightedSum
            return cls.infer_type(build_tree(case["tree"], e)).name
    except Exception as ex:  # noqa: BLE001
        return ["err", ERR.get(type(ex).__name__, "other:" + type(ex).__name__)]


def size(t):
    return 1 if t[0] == "p" else 1 + size(t[1]) if t[0] == "a" else 1 + sum(size(x) for x in t[2])


def run_tree(ctx, more=None):
    """`more(ctx) -> (lines, judge)`: further model lines of the property, drawn after this stream's cases and sent to the
    driver in the same launch; `judge(outs)` receives their answers"""
    st = ctx.stats
    cases = corpus_cases("C10", TREE) + [gen_tree_case(ctx.rng) for _ in range(ctx.scale(300, 3000))]
    cases += list(tree_cases(ctx))
    more_lines, judge = more(ctx) if more else ([], None)
    outs = ctx.driver.eval([C.sx(["infer-tree", tree_sx(c["tree"])]) for c in cases] + more_lines)
    if judge:
        judge(outs[len(cases):])
    outs = outs[:len(cases)]
    mism = []
    for case, line in zip(cases, outs):
        st.count(f"{TREE}:cases")
        got = observe_tree(case)
        model = C.parse_sx(line) if line not in ("bad-op", "bad-parse") else line
        st.count(f"{TREE}:{got if isinstance(got, str) else 'TypeError'}")
        st.case((TREE, repr(case)), size(case["tree"]) >= 4)
        st.validated += 1
        if got != model and len(mism) < 3:
            mism.append({"case": case, "impl": got, "model": model,
                         "what": f"WeightedDefuzzifier.infer_type on {case['tree']}: implementation {got}, model {model}"})
    return mism


def documented_kind(t):
    """the docstrings of WeightedDefuzzifier.Type / infer_type: Constant, Linear and Function terms are Takagi-Sugeno,
    monotonic terms are Tsukamoto, the others Automatic; an Activated term is of the kind of its term; a composite
    (Aggregated, Variable) is of the one kind of its parts, Automatic when it has none, a TypeError when they differ"""
    if t[0] == "p":
        if t[1] in KINDS["sugeno"] or t[1] in U.SUGENO:
            return "TakagiSugeno"
        return "Tsukamoto" if (t[1] in KINDS["monotonic"] or t[1] in U.MONOTONIC) else "Automatic"
    if t[0] == "a":
        return documented_kind(t[1])
    kinds = []
    for x in t[2]:
        k = documented_kind(x)
        if isinstance(k, list):
            return k                           # the TypeError of a part reaches the caller
        kinds.append(k)
    if len(set(kinds)) > 1:
        return ["err", "internal"]
    return kinds[0] if kinds else "Automatic"


def oracle(case):
    if case.get("stream") == CONFIGURE:
        return oracle_configure(case)
    got, want = observe_tree(case), documented_kind(case["tree"])
    if got != want:
        return False, f"WeightedDefuzzifier.infer_type on {case['tree']}: {got}, documented: {want}"
    return True, "ok"
