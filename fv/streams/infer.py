"""C01 - `Engine.infer_type`, `Variable.highest_membership`, `Variable.fuzzify` against `Op/Infer.lean` (the models of the
code ties `C01.code_inferType`, `code_highestMembership`, `code_fuzzify`; driver group `Drv/TieModels.lean`).

* infer_type: engines whose output variables carry no defuzzifier / every integral defuzzifier / a weighted defuzzifier of
  every declared type, with terms of the kinds Constant / Linear / Function / monotonic / other (none, one kind, mixed kinds
  in every order), rule blocks with and without the AlgebraicProduct.  Compared: the `Engine.Type`, or `TypeError`.
* highest_membership / fuzzify: variables with shape terms (exact and general family), constants (finite, NaN, +-inf,
  negative), terms whose membership raises `ValueError` (a Linear term with the wrong number of coefficients) or
  `RuntimeError` (a Function that is not loaded), at interior points, break points, NaN and +-inf.  Compared: the term
  found (by identity) and its degree, the text, the exception class."""
from __future__ import annotations

import math

import numpy as np

import common as C
import fuzzylite as fl
import gen_engine as G
from streams import corpus_cases

STREAM = "infer"
INTEGRAL = ["Centroid", "Bisector", "MeanOfMaximum", "SmallestOfMaximum", "LargestOfMaximum"]
WEIGHTED = ["WeightedAverage", "WeightedSum"]
WTYPES = ["Automatic", "TakagiSugeno", "Tsukamoto"]
SUGENO = ["Constant", "Linear", "Function"]
MONOTONIC = ["Ramp", "Sigmoid", "SShape", "ZShape", "Concave", "Arc"]
OTHER = ["Triangle", "Trapezoid", "Gaussian", "Bell", "Rectangle", "Binary", "PiShape", "Cosine", "Spike", "Discrete",
         "GaussianProduct", "SigmoidDifference", "SigmoidProduct", "SemiEllipse"]
KINDS = {"sugeno": SUGENO, "monotonic": MONOTONIC, "other": OTHER}
ERR = {"ValueError": "value", "RuntimeError": "runtime", "TypeError": "internal", "AttributeError": "internal",
       "IndexError": "lookup"}


# ------------------------------------------------------------------------------------------------ infer_type

def gen_terms(rng, mode):
    """classes of the terms of a weighted output variable"""
    n = rng.choice([0, 1, 2, 2, 3])
    if mode in KINDS:
        return [rng.choice(KINDS[mode]) for _ in range(max(n, 1))]
    if mode == "empty":
        return []
    return [rng.choice(KINDS[rng.choice(list(KINDS))]) for _ in range(n)]     # any mixture, any order


def gen_output(rng, mode):
    if mode == "integral":
        return {"defuzzifier": rng.choice(INTEGRAL), "terms": gen_terms(rng, "mixed")}
    if mode == "none":
        return {"defuzzifier": None, "terms": gen_terms(rng, "mixed")}
    return {"defuzzifier": [rng.choice(WEIGHTED), rng.choice(WTYPES)], "terms": gen_terms(rng, mode)}


def gen_infer(rng):
    plan = rng.choice(["integral", "sugeno", "monotonic", "other", "empty", "any", "any", "any"])
    outs = []
    for _ in range(rng.choice([0, 1, 1, 2, 2, 3, 4]) if plan != "any" else rng.randint(1, 4)):
        mode = plan if plan != "any" else rng.choice(["integral", "none", "sugeno", "monotonic", "other", "empty", "mixed"])
        if plan != "any" and rng.random() < 0.12:
            mode = rng.choice(["integral", "none", "sugeno", "monotonic", "other", "empty", "mixed"])
        outs.append(gen_output(rng, mode))
    blocks = [rng.choice(["AlgebraicProduct", "AlgebraicProduct", "Minimum", None, "EinsteinProduct"])
              for _ in range(rng.choice([0, 1, 1, 2, 3]))]
    if rng.random() < 0.4:
        blocks = ["AlgebraicProduct"] * len(blocks)
    return {"stream": STREAM, "op": "infer_type", "outputs": outs, "blocks": blocks}


def mk_class_term(cls, name, engine):
    if cls == "Constant":
        return fl.Constant(name, 0.5)
    if cls == "Linear":
        return fl.Linear(name, [1.0, 0.5], engine)
    if cls == "Function":
        return fl.Function(name, "x + 1")
    if cls == "Discrete":
        return fl.Discrete(name, [0.0, 0.0, 1.0, 1.0])
    return getattr(fl, cls)(name)


def build_infer(case):
    e = fl.Engine("e", input_variables=[fl.InputVariable("x")])
    for i, o in enumerate(case["outputs"]):
        d = o["defuzzifier"]
        df = None if d is None else getattr(fl, d)() if isinstance(d, str) else getattr(fl, d[0])(d[1])
        e.output_variables.append(fl.OutputVariable(f"o{i}", defuzzifier=df,
                                                    terms=[mk_class_term(c, f"t{j}", e) for j, c in enumerate(o["terms"])]))
    for i, b in enumerate(case["blocks"]):
        e.rule_blocks.append(fl.RuleBlock(f"b{i}", implication=None if b is None else getattr(fl, b)()))
    return e


def infer_line(case):
    outs = []
    for o in case["outputs"]:
        d = o["defuzzifier"]
        outs.append(["none"] if d is None else ["integral"] if isinstance(d, str) else ["weighted"] + list(o["terms"]))
    return C.sx(["infer-type", outs, [b == "AlgebraicProduct" for b in case["blocks"]]])


# ------------------------------------------------------------------------------------------------ highest_membership / fuzzify

def gen_var(rng):
    exact = rng.random() < 0.5
    lo, hi = rng.choice([(0.0, 1.0), (-1.0, 1.0), (0.0, 4.0), (-2.0, 2.0)])
    terms = []
    plain = rng.random() < 0.55           # shape terms only
    for j in range(rng.choice([0, 1, 2, 3, 3, 4, 5])):
        r = rng.random()
        if plain or r < 0.6:
            cls, ps, h = G.shape_term(rng, "", lo, hi, exact)
            terms.append({"kind": "shape", "cls": cls, "params": ps, "height": h})
        elif r < 0.86:
            terms.append({"kind": "constant", "value": rng.choice([math.inf, -math.inf, math.nan, 0.0, 0.5, 1.0, 2.0, 5.0, -1.0, 0.25])})
        elif r < 0.94:
            terms.append({"kind": "raise", "error": "value"})
        else:
            terms.append({"kind": "raise", "error": "runtime"})
    # distinct names unless a duplicate is wanted (the text shows names only)
    for j, t in enumerate(terms):
        t["name"] = f"t{j}" if rng.random() < 0.9 else rng.choice(["t0", "a b", "é", ""])
    r = rng.random()
    if exact:
        x = rng.choice([lo + k * (hi - lo) / 16 for k in range(-2, 19)])
    elif r < 0.6:
        x = rng.uniform(lo, hi)
    elif r < 0.8:
        ps = [p for t in terms if t["kind"] == "shape" for p in t["params"] if math.isfinite(p)]
        x = rng.choice(ps) if ps else lo
    else:
        x = rng.choice([lo - 0.37 * (hi - lo), hi + 0.21 * (hi - lo), lo, hi])
    if rng.random() < 0.08:
        x = rng.choice([math.nan, math.inf, -math.inf])
    return {"exact": exact, "terms": terms, "x": float(x)}


def mk_term(t, engine):
    if t["kind"] == "shape":
        return getattr(fl, t["cls"])(t["name"], *t["params"], height=t["height"])
    if t["kind"] == "constant":
        return fl.Constant(t["name"], t["value"])
    if t["error"] == "value":
        return fl.Linear(t["name"], [1.0, 2.0, 3.0], engine)      # one input variable: ValueError
    return fl.Function(t["name"], "x + 1")                        # not loaded: RuntimeError


def build_var(case):
    e = fl.Engine("e", input_variables=[fl.InputVariable("x")])
    v = fl.InputVariable("v", terms=[mk_term(t, e) for t in case["terms"]])
    return v


def term_sx(t):
    if t["kind"] == "shape":
        return ["shape", t["cls"], list(t["params"]), t["height"]]
    if t["kind"] == "constant":
        return ["const", t["value"]]
    return ["raise", t["error"]]


def var_line(case):
    if case["op"] == "highest_membership":
        return C.sx(["highest-membership", case["x"], [term_sx(t) for t in case["terms"]]])
    return C.sx(["fuzzify", case["x"], [[C.hexs(t["name"]), term_sx(t)] for t in case["terms"]]])


def degrees(case):
    """what every membership function of the variable gives at x (floats, or the name of the exception)"""
    v = build_var(case)
    out = []
    for t in v.terms:
        try:
            with np.errstate(all="ignore"):
                out.append(float(t.membership(case["x"])))
        except Exception as ex:  # noqa: BLE001
            out.append(type(ex).__name__)
    return out


# ------------------------------------------------------------------------------------------------ run

def gen_cases(ctx):
    rng = ctx.rng
    for _ in range(ctx.scale(400, 4000)):
        yield gen_infer(rng)
    for _ in range(ctx.scale(400, 4000)):
        yield {"stream": STREAM, "op": "highest_membership", **gen_var(rng)}
    for _ in range(ctx.scale(300, 3000)):
        yield {"stream": STREAM, "op": "fuzzify", **gen_var(rng)}


def observe(case):
    try:
        with np.errstate(all="ignore"):
            if case["op"] == "infer_type":
                return build_infer(case).infer_type().name
            v = build_var(case)
            if case["op"] == "highest_membership":
                h = v.highest_membership(case["x"])
                if h is None:
                    return "none"
                return ["some", str(next(i for i, t in enumerate(v.terms) if t is h.term)), float(h.degree)]
            return ["ok", str(v.fuzzify(case["x"]))]
    except Exception as ex:  # noqa: BLE001
        return ["err", ERR.get(type(ex).__name__, "other:" + type(ex).__name__), type(ex).__name__]


def agree(case, got, model):
    if isinstance(got, list) and got[0] == "err":
        ok = isinstance(model, list) and model[0] == "err" and model[1] == got[1]
        if ok and case["op"] == "infer_type":
            ok = got[2] == "TypeError"           # the only exception of the decision table
        return ok
    if case["op"] == "infer_type" or got == "none":
        return got == model
    if case["op"] == "highest_membership":
        return isinstance(model, list) and model[0] == "some" and model[1] == got[1] and C.close(got[2], C.parse_x(model[2]))
    return isinstance(model, list) and model[0] == "ok" and bytes.fromhex(model[1][1:]).decode("utf-8") == got[1]


def fragile(case, got=None, model=None):
    """float evaluation can decide differently from exact evaluation: two degrees closer than 1e-9 without being equal,
    a positive degree below 1e-9 (float underflows to 0 where the exact value is positive), two degrees that are equal
    in float while the exact values differ (general family: 1 - 1e-150 is 1.0), or (text) a degree within 1e-6 of a
    rounding boundary of three decimals"""
    ds = [d for d in degrees(case) if isinstance(d, float) and d == d]
    for i, a in enumerate(ds):
        if 0 < abs(a) < 1e-6:          # sqrt of a cancellation (SemiEllipse, Arc at their end points) gives 1e-8
            return True
        if case["op"] == "fuzzify" and math.isfinite(a):
            frac = (abs(a) * 1000 + 0.5) % 1.0
            if frac < 1e-6 or frac > 1 - 1e-6:
                return True
        for b in ds[i + 1:]:
            if a != b and math.isfinite(a) and math.isfinite(b) and abs(a - b) < 1e-9:
                return True
    if case["op"] == "highest_membership" and isinstance(model, list) and model[0] == "some":
        md = C.parse_x(model[2])
        if not isinstance(md, str) and 0 < md < 1e-6:
            return True
        if not case["exact"] and isinstance(got, list) and got[0] == "some" and got[1] != model[1]:
            dd = degrees(case)
            a, b = dd[int(got[1])], dd[int(model[1])]
            if isinstance(a, float) and isinstance(b, float) and abs(a - b) < 1e-9:
                return True
    return False


def oracle(case):
    """documented: `highest_membership` returns the term that maximises the membership function value (judged when every
    membership function returns a number below +inf; the first of equal maxima and None without a positive degree are the
    behaviour of the loop, not documented, and not judged)"""
    if case["op"] != "highest_membership":
        return True, "no documented value: judged by the model comparison only"
    ds = degrees(case)
    if any(isinstance(d, str) or d == math.inf for d in ds) or fragile(case):
        return True, "not judged"
    got = observe(case)
    pos = [d for d in ds if d > 0]
    if pos and (got == "none" or got[0] != "some" or ds[int(got[1])] != max(pos)):
        return False, f"highest_membership({case['x']}) returned {got}, the degrees are {ds}"
    return True, "ok"


def run(ctx):
    st = ctx.stats
    cases = corpus_cases("C01", STREAM) + list(gen_cases(ctx))
    lines = [infer_line(c) if c["op"] == "infer_type" else var_line(c) for c in cases]
    outs = ctx.driver.eval(lines)
    mism, per_op = [], {}
    for case, line in zip(cases, outs):
        st.count(f"{STREAM}:{case['op']}")
        got = observe(case)
        model = C.parse_sx(line) if line not in ("bad-op", "bad-parse") else line
        if case["op"] == "infer_type":
            st.count(f"{STREAM}:type:{got if isinstance(got, str) else got[2]}")
            nt = len(case["outputs"]) >= 2
        else:
            nt = len(case["terms"]) >= 2 and got != "none"
        st.case((STREAM, repr(case)), nt)
        st.validated += 1
        if not agree(case, got, model):
            if case["op"] != "infer_type" and fragile(case, got, model):
                st.skipped_fragile += 1
                continue
            per_op[case["op"]] = per_op.get(case["op"], 0) + 1
            if per_op[case["op"]] <= 3:          # a defect of one function must not hide the others
                mism.append({"case": case, "impl": got, "model": model,
                             "what": f"{case['op']}: implementation {got}, model {model}"})
    return mism
