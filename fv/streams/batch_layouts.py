"""C02 - two families of batches that the plain generator (`c02.gen_cases`) reaches only by accident.

The property quantifies over *all batches of 1..N rows including NaN and +-inf rows* and over *both ways of setting a
batch* (per-variable arrays, engine-level input matrix), and speaks of *the effect of lock-previous, default values and range
locking from one row to the next*.  Two things follow that a functional reading of the code does not exercise:

`special-value histories`
    what is carried from one row to the next is the *defuzzified* value of an output, and that value can be +inf or -inf as
    well as NaN (a weighted defuzzifier over a Constant / Linear term with an infinite constant, coefficient or input).  The
    family builds Takagi-Sugeno / Tsukamoto engines whose constants may be infinite and batches that are dense in NaN / +-inf
    cells and all-NaN rows, so that every order of {finite, +inf, -inf, NaN} raw values occurs from one row to the next, with
    lock-previous mostly on and every default / lock-range setting.  The cases have the ordinary shape {"engine", "rows"
    [, "first"]} and are judged by the ordinary three-way comparison (arrays / matrix / row by row).

`memory layouts`
    "giving the input variables arrays" does not say that each variable gets a freshly allocated C-contiguous array of its
    own.  The same numbers can be handed over as columns of one matrix the caller owns, as interleaved / reversed / read-only
    views, as ONE array object for two variables that carry the same signal, as lagged windows `rec[j : j + n]` of one
    recording (previous sample, current sample), or as a matrix whose columns alias each other (a delay embedding made with
    stride tricks).  A row-by-row run with floats cannot see any of that, so the batch run must not either: the results are
    compared with the row-by-row run, and the caller's buffers are compared with what they held before the assignment
    (a variable may clip or fill its *own* value, never the caller's array, which somebody else may be reading).
    The case carries {"layout": name}; `arrays_for` / `matrix_for` rebuild the buffers from the rows, falling back to
    separate arrays when the rows of a (minimised) case do not have the structure the layout needs.

`no value per row`
    "all engines": an engine may hold output variables and rule blocks that are switched off, and output variables that no
    rule concludes.  After a batch such an output variable holds ONE value (NaN, its default or its previous value) whatever
    the number of rows.  When that is true of EVERY output variable - all of them disabled, every rule block disabled, both,
    no enabled rule concluding any of them, or (an antecedent over a disabled input variable has degree 0) every input
    variable disabled - nothing the outputs hold tells how many rows the batch had; the batch still has N rows, and
    `Engine.output_values` / `Engine.values` still show one row per row of the inputs (row by row they do).  The family takes
    engines of the ordinary generator and switches off what the variant names, leaving the rest as drawn; batches of 1..8
    rows, sometimes after an earlier call.  Cases have the ordinary shape and are judged by the ordinary comparison, which
    includes the shapes and the rows of `output_values` and `values` (`c02.same_tables`).

`reused buffers`
    "histories": an application that processes batch after batch does not allocate new arrays for each of them.  It keeps one
    array per input variable (or one input matrix), writes the next batch into it in place (`buffer[:] = column`) and
    processes again - handing the arrays over again before each call, or only once (a variable without range locking holds
    the caller's array itself; `Engine.input_values = matrix` gives every variable a column VIEW of the matrix).  "The arrays
    of N values" of a call are what those arrays hold when `process()` starts, so the case reads back what the variables
    hold (`c02.run_reused`) and runs exactly those rows one after another with floats on a second engine that lives through
    the same history.  Nothing that was derived from an earlier content of the same array objects may survive into the next
    call.  The case carries {"calls": [rows, rows(, rows)], "reuse": mode} and "rows" (= the last batch, for the ordinary
    comparison from a fresh engine and the model).
"""
from __future__ import annotations

import math

import numpy as np

import gen_engine as G

LAYOUTS = ["matrix-columns", "fortran-columns", "interleaved", "reversed", "read-only", "shared", "lagged"]


# ------------------------------------------------------------------------------------------------ buffers

def _eq(a, b):
    return (a != a and b != b) or a == b


def _col(rows, j):
    return [float(r[j]) for r in rows]


def is_lagged(rows):
    """rows[i][j + 1] == rows[i + 1][j]: the columns are consecutive windows of one recording"""
    return all(_eq(rows[i][j + 1], rows[i + 1][j]) for i in range(len(rows) - 1) for j in range(len(rows[i]) - 1))


def recording(rows):
    return _col(rows, 0) + [float(x) for x in rows[-1][1:]]


def arrays_for(rows, layout):
    """-> (one array per input variable, [(label, buffer the caller owns)])"""
    n, k = len(rows), len(rows[0])
    cols = [_col(rows, j) for j in range(k)]
    if layout == "matrix-columns":
        m = np.array(rows, dtype=float)
        return [m[:, j] for j in range(k)], [("the matrix whose columns were given", m)]
    if layout == "fortran-columns":
        m = np.asfortranarray(np.array(rows, dtype=float))
        return [m[:, j] for j in range(k)], [("the Fortran-ordered matrix whose columns were given", m)]
    if layout == "interleaved":
        buf = np.array(rows, dtype=float).reshape(-1)
        return [buf[j::k] for j in range(k)], [("the interleaved buffer", buf)]
    if layout == "reversed":
        bufs = [np.array(c[::-1], dtype=float) for c in cols]
        return [b[::-1] for b in bufs], [(f"the reversed buffer of variable {j}", b) for j, b in enumerate(bufs)]
    if layout == "read-only":
        arrs = [np.array(c, dtype=float) for c in cols]
        for a in arrs:
            a.setflags(write=False)
        return arrs, [(f"the read-only array of variable {j}", a) for j, a in enumerate(arrs)]
    if layout == "shared":
        # variables that carry the same signal are given the same array object
        arrs = []
        for j, c in enumerate(cols):
            first = next((i for i in range(j) if all(_eq(x, y) for x, y in zip(cols[i], c))), None)
            arrs.append(arrs[first] if first is not None else np.array(c, dtype=float))
        return arrs, [(f"the array given to variable {j}", a) for j, a in enumerate(arrs)]
    if layout == "lagged" and is_lagged(rows):
        rec = np.array(recording(rows), dtype=float)
        return [rec[j:j + n] for j in range(k)], [("the recording whose windows were given", rec)]
    arrs = [np.array(c, dtype=float) for c in cols]
    return arrs, [(f"the array given to variable {j}", a) for j, a in enumerate(arrs)]


def matrix_for(rows, layout):
    """-> (the 2-D array handed to `engine.input_values`, [(label, buffer the caller owns)])"""
    n, k = len(rows), len(rows[0])
    if layout in ("fortran-columns", "matrix-columns"):
        m = np.asfortranarray(np.array(rows, dtype=float))
        return m, [("the Fortran-ordered input matrix", m)]
    if layout == "interleaved":
        big = np.zeros((n, 2 * k), dtype=float)
        big[:, ::2] = np.array(rows, dtype=float)
        return big[:, ::2], [("the wider matrix of which every other column was given", big)]
    if layout == "reversed":
        m = np.array([r[::-1] for r in rows[::-1]], dtype=float)
        return m[::-1, ::-1], [("the reversed input matrix", m)]
    if layout == "read-only":
        m = np.array(rows, dtype=float)
        m.setflags(write=False)
        return m, [("the read-only input matrix", m)]
    if layout == "shared" and all(_eq(x, r[0]) for r in rows for x in r):
        col = np.array(_col(rows, 0), dtype=float)
        m = np.lib.stride_tricks.as_strided(col, shape=(n, k), strides=(col.strides[0], 0), writeable=True)
        return m, [("the signal that every column of the input matrix shows", col)]
    if layout == "lagged" and is_lagged(rows):
        rec = np.array(recording(rows), dtype=float)
        m = np.lib.stride_tricks.as_strided(rec, shape=(n, k), strides=(rec.strides[0], rec.strides[0]), writeable=True)
        return m, [("the recording of which the input matrix is the delay embedding", rec)]
    m = np.array(rows, dtype=float)
    return m, [("the input matrix", m)]


def snapshot(owned):
    return [(label, buf, np.array(buf, dtype=float, copy=True)) for label, buf in owned]


def touched(snap):
    """the first caller-owned buffer that no longer holds what it held, or None"""
    for label, buf, before in snap:
        if not np.array_equal(np.asarray(buf, dtype=float), before, equal_nan=True):
            i = next(i for i, (x, y) in enumerate(zip(before.reshape(-1), np.asarray(buf, dtype=float).reshape(-1))) if not _eq(x, y))
            return (f"{label} was modified in place: element {i} was {float(before.reshape(-1)[i])!r}, "
                    f"is {float(np.asarray(buf, dtype=float).reshape(-1)[i])!r}")
    return None


# ------------------------------------------------------------------------------------------------ generators

def special_cell(rng):
    return rng.choice([math.nan, math.nan, math.inf, -math.inf])


def gen_special_history_cases(ctx):
    """weighted engines with possibly infinite constants x batches dense in NaN / +-inf cells"""
    rng = ctx.rng
    for _ in range(ctx.scale(60, 600)):
        desc = G.gen_engine(rng, activation="general", weighted=True, n_in=rng.choice([1, 2, 2, 3]))
        for o in desc["outputs"]:
            if rng.random() < 0.75:
                o["lock_previous"] = True
            if rng.random() < 0.8:
                o["enabled"] = True
            for t in o["terms"]:
                if t["kind"] == "constant" and rng.random() < 0.2:
                    t["value"] = rng.choice([math.inf, -math.inf])
        n = rng.choice([2, 3, 4, 5, 6, 8])
        rows = G.gen_rows(rng, desc, n, special=False)
        for r in rows:
            u = rng.random()
            if u < 0.25:
                r[:] = [math.nan] * len(r)                 # no information at all in this row
            elif u < 0.7:
                for j in range(len(r)):
                    if rng.random() < 0.5:
                        r[j] = special_cell(rng)
        case = {"engine": desc, "rows": rows}
        if rng.random() < 0.3:
            # the state the batch starts from was left by an earlier call whose last row is special as well
            first = G.gen_rows(rng, desc, rng.choice([1, 2]), special=False)
            if rng.random() < 0.6:
                j = rng.randrange(len(first[-1]))
                first[-1][j] = rng.choice([math.inf, -math.inf])
            case["first"] = first
        yield case


def gen_signal(rng, desc, length):
    """one recording read by every input variable: inside, on the bounds and outside of each variable's range"""
    los = [v["min"] for v in desc["inputs"]]
    his = [v["max"] for v in desc["inputs"]]
    lo, hi = min(los), max(his)
    w = hi - lo
    out = []
    for _ in range(length):
        u = rng.random()
        if u < 0.45:
            x = rng.uniform(lo - 0.5 * w, hi + 0.5 * w)
        elif u < 0.7:
            x = rng.choice(los + his)
        elif u < 0.9:
            x = rng.choice(los + his) + rng.choice([-1, 1]) * rng.choice([0.125, 0.5, 1.0])
        else:
            x = rng.choice([math.nan, math.inf, -math.inf])
        if desc["exact"] and x == x and math.isfinite(x):
            x = round(x * 16) / 16
        out.append(float(x))
    return out


def gen_layout_cases(ctx):
    """engines of the ordinary generator with two or three inputs x every layout of the per-variable arrays / input matrix"""
    rng = ctx.rng
    for i in range(ctx.scale(56, 560)):
        layout = LAYOUTS[i % len(LAYOUTS)]
        desc = G.gen_engine(rng, activation="general", n_in=rng.choice([2, 2, 3]))
        # range locking is what may tempt a variable to write into the array it was given: mostly on for some of the
        # variables and off for the others (any setting is in the quantifier)
        if rng.random() < 0.8:
            locked = rng.sample(range(len(desc["inputs"])), rng.randint(1, len(desc["inputs"])))
            for j, v in enumerate(desc["inputs"]):
                v["lock_range"] = j in locked
        for v in desc["inputs"]:
            if rng.random() < 0.7:
                v["enabled"] = True
        n = rng.choice([1, 2, 3, 4, 5, 8])
        k = len(desc["inputs"])
        if layout == "shared":
            # two (or all) variables read the same signal
            same = rng.sample(range(k), rng.randint(2, k))
            sig = gen_signal(rng, desc, n)
            own = [gen_signal(rng, desc, n) for _ in range(k)]
            rows = [[sig[r] if j in same else own[j][r] for j in range(k)] for r in range(n)]
        elif layout == "lagged":
            rec = gen_signal(rng, desc, n + k - 1)
            rows = [[rec[r + j] for j in range(k)] for r in range(n)]
        else:
            own = [gen_signal(rng, desc, n) for _ in range(k)]
            rows = [[own[j][r] for j in range(k)] for r in range(n)]
        yield {"engine": desc, "rows": rows, "layout": layout}


NO_ROW_VARIANTS = ["outputs-off", "blocks-off", "outputs-and-blocks-off", "unconcluded", "unconcluded-only", "rules-off",
                   "inputs-off"]


def gen_no_value_per_row_cases(ctx):
    """engines of the ordinary generator in which (some or all) output variables receive no value per row"""
    import copy
    rng = ctx.rng
    for i in range(ctx.scale(42, 420)):
        variant = NO_ROW_VARIANTS[i % len(NO_ROW_VARIANTS)]
        desc = G.gen_engine(rng, activation="general", n_in=rng.choice([1, 2, 2, 3]))
        if variant in ("outputs-off", "outputs-and-blocks-off"):
            for o in desc["outputs"]:
                o["enabled"] = False
        if variant in ("blocks-off", "outputs-and-blocks-off"):
            for b in desc["blocks"]:
                b["enabled"] = False
        if variant in ("unconcluded", "unconcluded-only"):
            # one more output variable, enabled, that no rule concludes (the others as drawn / switched off)
            extra = copy.deepcopy(rng.choice(desc["outputs"]))
            extra["name"] = f"out{len(desc['outputs'])}"
            extra["enabled"] = True
            for t in extra["terms"]:
                t["name"] = t["name"] + "x"
            desc["outputs"].insert(rng.randint(0, len(desc["outputs"])), extra)
            if variant == "unconcluded-only":
                for o in desc["outputs"]:
                    if o is not extra:
                        o["enabled"] = False
        if variant == "rules-off":
            for b in desc["blocks"]:
                for r in b["rules"]:
                    r["enabled"] = False
        if variant == "inputs-off":
            for v in desc["inputs"]:
                v["enabled"] = False
        for o in desc["outputs"]:
            # the single value is NaN, the default or the previous value: every setting is in the quantifier
            if rng.random() < 0.4:
                o["lock_previous"] = rng.random() < 0.6
        n = rng.choice([1, 2, 2, 3, 4, 5, 8])
        case = {"engine": desc, "rows": G.gen_rows(rng, desc, n), "family": "no value per row: " + variant}
        if rng.random() < 0.3:
            case["first"] = G.gen_rows(rng, desc, rng.choice([1, 2, 3]), special=False)
        yield case


REUSE = ["arrays-reassigned", "arrays-refilled", "matrix-reassigned", "matrix-refilled"]


def gen_tall_term_cases(ctx):
    """engines of the exact family whose output terms have heights above 1 (legal: a height scales the membership), with a
    clipping implication and an integral defuzzifier, on batches that mix rows in which a rule fires with degree exactly 1
    (inputs on the vertices of the input terms) with rows in which it does not: a shortcut that is right for heights <= 1
    only, or that is decided for the whole batch at once, makes the batch differ from the rows processed one by one
    (drawn after the families above)"""
    rng = ctx.rng
    for _ in range(ctx.scale(40, 400)):
        desc = G.gen_engine(rng, exact=True, activation="general", n_in=rng.choice([1, 2, 2]), weighted=False)
        for o in desc["outputs"]:
            for t in o["terms"]:
                if t["kind"] == "shape" and rng.random() < 0.7:
                    t["height"] = rng.choice([1.5, 2.0, 2.0, 4.0])
        for b in desc["blocks"]:
            if rng.random() < 0.7:
                b["implication"] = "Minimum"
        n = rng.choice([2, 3, 4, 5, 8])
        rows = G.gen_rows(rng, desc, n, special=False)
        # some rows on parameters of the input terms (vertices: degree exactly 1)
        for r in rows:
            if rng.random() < 0.5:
                for j, iv in enumerate(desc["inputs"]):
                    ps = [p for t in iv["terms"] if t["kind"] == "shape" for p in t["params"] if math.isfinite(p)]
                    if ps:
                        r[j] = rng.choice(ps)
        yield {"engine": desc, "rows": rows, "family": "output terms taller than 1"}


def gen_reused_buffer_cases(ctx):
    """engines of the ordinary generator x two or three batches of equal length written, one after the other, into the same
    per-variable arrays / the same input matrix"""
    rng = ctx.rng
    for i in range(ctx.scale(48, 480)):
        reuse = REUSE[i % len(REUSE)]
        desc = G.gen_engine(rng, activation="general", n_in=rng.choice([1, 2, 2, 3]))
        for v in desc["inputs"]:
            # a range-locked variable holds a clipped COPY of what it is given, the others hold the caller's array (or a
            # view of the caller's matrix): both kinds, mostly the second
            if rng.random() < 0.6:
                v["lock_range"] = False
            if rng.random() < 0.7:
                v["enabled"] = True
        for o in desc["outputs"]:
            if rng.random() < 0.4:
                o["lock_previous"] = True
        n = rng.choice([1, 2, 3, 4, 5, 8])
        calls = [G.gen_rows(rng, desc, n, special=c > 0 and rng.random() < 0.5) for c in range(rng.choice([2, 2, 3]))]
        yield {"engine": desc, "rows": calls[-1], "calls": calls, "reuse": reuse, "family": "reused buffers: " + reuse}
