"""C10 - `Aggregated.highest_activated_term()` and `Aggregated.range()` against `Op.Weighted.highestActivated` /
`maximum - minimum` (the models of `C10.code_highestActivatedTerm`, `code_aggregatedRange`; driver group
`Drv/TieModels.lean`).  The fuzzy outputs are those of the C10 stream (0-6 activations over 1-4 terms with repetitions,
every S-norm or none, degrees incl. exact 0, 1, NaN, +-inf), once with scalar degrees and once with some activations
carrying a batch of degrees (1-D arrays of one or several entries): `ValueError` iff the degree of some group has more
than one entry, otherwise the first group with the strictly largest positive aggregated degree, or None."""
from __future__ import annotations

import math

import numpy as np

import common as C
import fuzzylite as fl
from streams import corpus_cases

STREAM = "highest-activated"


def gen_cases(ctx, h):
    rng = ctx.rng
    for k in range(ctx.scale(500, 5000)):
        base = h.gen_case(ctx, k)
        acts = []
        mode = rng.choice(["scalar", "scalar", "scalar", "mixed", "vector1"])
        for a in base["acts"]:
            d = a["deg"][0] if isinstance(a["deg"], list) else a["deg"]
            if rng.random() < 0.25:
                d = rng.choice([0.0, 0.5, 0.5, 1.0, 0.25, "nan", "inf", "-inf", -0.5, 1.5])
            if mode == "mixed" and rng.random() < 0.4:
                d = [d] + [rng.choice(h.DEG) for _ in range(rng.choice([1, 2]))]     # a batch of degrees: ValueError
            elif mode == "vector1" and rng.random() < 0.5:
                d = [d]                                                               # a 1-D array of one entry: size 1
            acts.append({"name": a["name"], "deg": d})
        yield {"stream": STREAM, "op": "highest", "agg": base["agg"], "terms": {n: {"cls": "Constant", "value": 1.0} for n in base["terms"]},
               "acts": acts}
    for _ in range(ctx.scale(60, 600)):
        pool = [0.0, 1.0, -1.0, 0.5, 2.5, math.inf, -math.inf, math.nan, rng.uniform(-5, 5)]
        yield {"stream": STREAM, "op": "range", "min": rng.choice(pool), "max": rng.choice(pool)}


def own_term_cases(ctx, h):
    """the term found does not depend on what kind of term it is: the activations of the C10 stream over their own terms -
    built-in and user-defined classes (fv/user_terms.py), monotonic or not - instead of constants"""
    for k in range(ctx.scale(120, 1200)):
        base = h.gen_case(ctx, k, user=True)
        acts = [{"name": a["name"], "deg": a["deg"][0] if isinstance(a["deg"], list) else a["deg"]} for a in base["acts"]]
        yield {"stream": STREAM, "op": "highest", "agg": base["agg"], "terms": base["terms"], "own_terms": True,
               "inputs": [c[0] if isinstance(c, list) else c for c in base["inputs"]], "acts": acts}


def build(case, h):
    pool = h.build_terms(case) if case.get("own_terms") else {n: fl.Constant(n, 1.0) for n in case["terms"]}
    terms = []
    for a in case["acts"]:
        d = a["deg"]
        d = np.array([h.fl_num(v) for v in d], dtype=float) if isinstance(d, list) else h.fl_num(d)
        terms.append(fl.Activated(pool[a["name"]], d))
    agg = fl.settings.factory_manager.snorm.construct(case["agg"]) if case["agg"] else None
    return fl.Aggregated("out", math.nan, math.nan, agg, terms), pool


def observe(case, h):
    with np.errstate(all="ignore"):
        try:
            if case["op"] == "range":
                return float(fl.Aggregated("out", case["min"], case["max"]).range())
            A, pool = build(case, h)
            A.grouped_terms()                      # reading must not change the fuzzy output
            r = A.highest_activated_term()
            if r is None:
                return "none"
            if r.term is not pool[r.term.name]:
                return ["some", "?", 0.0]
            return ["some", r.term.name, float(np.asarray(r.degree, dtype=float).ravel()[0])]
        except ValueError:
            return "value-error"
        except Exception as ex:  # noqa: BLE001
            return f"error:{type(ex).__name__}"


def first(d):
    return d[0] if isinstance(d, list) else d


def model_line(case, h):
    if case["op"] == "range":
        return C.sx(["wrange", case["min"], case["max"]])
    acts = [[a["name"], ["Constant", 1.0], h.fl_num(first(a["deg"]))] for a in case["acts"]]
    vec = any(isinstance(a["deg"], list) and len(a["deg"]) > 1 for a in case["acts"])
    return C.sx(["whighest", case["agg"] or "none", acts, vec])


def agree(case, got, model):
    if case["op"] == "range":
        return isinstance(got, float) and C.close(got, C.parse_x(model))
    if isinstance(got, str) or isinstance(model, str):
        return got == model
    return model[0] == "some" and got[1] == model[1] and C.close(got[2], C.parse_x(model[2]))


def near_tie(case, h):
    """float rounding of the aggregation may order two groups differently from exact arithmetic: two group degrees closer
    than 1e-9 without being equal - in float, or in exact arithmetic (0.3 + 0.7 is 1.0 in float and below 1 exactly) - or
    a positive group degree below 1e-9.  Groups whose exact degrees are equal form a genuine tie and are compared."""
    with np.errstate(all="ignore"):
        try:
            A, _ = build(case, h)
            ds = [float(np.asarray(g.degree, dtype=float).ravel()[0]) for g in A.grouped_terms().values()]
            ex = [w for _, w in h.grouped({**case, "acts": [{"name": a["name"], "deg": first(a["deg"])} for a in case["acts"]]}, 0)]
        except Exception:  # noqa: BLE001
            return False
    for vals in (ds, ex):
        for i, a in enumerate(vals):
            if 0 < abs(a) < 1e-9:
                return True
            if any(a != b and abs(a - b) < 1e-9 for b in vals[i + 1:]):
                return True
    return False


def oracle(case, h):
    """documented: the term with the maximum aggregated activation degree, ValueError for vectors; `maximum - minimum`"""
    got = observe(case, h)
    if case["op"] == "range":
        want = case["max"] - case["min"]
        ok = (got != got and want != want) or got == want
        return ok, "ok" if ok else f"range() = {got!r}, maximum - minimum = {want!r}"
    if any(isinstance(a["deg"], list) and len(a["deg"]) > 1 for a in case["acts"]):
        return got == "value-error", f"a batch of degrees: expected ValueError, got {got}"
    if near_tie(case, h) or h.fragile({**case, "which": "WeightedAverage", "type": "Automatic", "inputs": []}):
        return True, "not judged (near tie)"
    gs = h.grouped({**case, "acts": [{"name": a["name"], "deg": first(a["deg"])} for a in case["acts"]]}, 0)
    pos = [w for _, w in gs if w > 0]
    if not pos:
        return got == "none", f"no group has a positive degree, got {got}"
    if isinstance(got, str) or dict(gs)[got[1]] != max(pos):
        return False, f"highest_activated_term() returned {got}, the aggregated degrees are {[(n, float(w)) for n, w in gs]}"
    return True, "ok"


def run(ctx, h):
    cases = corpus_cases("C10", STREAM) + list(gen_cases(ctx, h))
    return judge(ctx, h, cases, ctx.driver.eval([model_line(c, h) for c in cases]))


def judge(ctx, h, cases, outs):
    st = ctx.stats
    mism = []
    for case, line in zip(cases, outs):
        st.count(f"{STREAM}:{case['op']}")
        got = observe(case, h)
        model = C.parse_sx(line) if line not in ("bad-op", "bad-parse") else line
        st.count(f"{STREAM}:{got if isinstance(got, str) else 'value'}")
        st.case((STREAM, repr(case)), not isinstance(got, str) and case["op"] == "highest" and len(case["acts"]) >= 2)
        st.validated += 1
        if not agree(case, got, model):
            if case["op"] == "highest" and (near_tie(case, h) or h.fragile({**case, "which": "WeightedAverage", "type": "Automatic", "inputs": []})):
                st.skipped_fragile += 1
                continue
            mism.append({"case": case, "impl": got, "model": model,
                         "what": f"Aggregated.{case['op']}: implementation {got}, model {model}"})
            if len(mism) > 8:
                break
    return mism
