"""./check <ID> [--tier quick|thorough] [--replay file]   (DESIGN.md section 6 and 10)

exit 0: property held on everything explored (KNOWN-FINDING lines may be printed)
exit 1: at least one `VIOLATION property=<id> replay=<path>` line
exit 2: infrastructure failure (no verdict)
"""
from __future__ import annotations

import argparse
import importlib
import json
import os
import random
import sys
import time
import traceback

sys.path.insert(0, os.path.dirname(os.path.abspath(__file__)))
import common as C  # noqa: E402


class Ctx:
    def __init__(self, pid, tier, seed):
        self.pid, self.tier, self.seed = pid, tier, seed
        self.rng = random.Random(f"{pid}:{seed}")
        self.driver = C.Driver()
        self.stats = C.Stats()
        self.thorough = tier == "thorough"
        self.notes = {}

    def scale(self, quick, thorough):
        return thorough if self.thorough else quick


def replay(mod, path):
    data = json.load(open(path))
    if "case" not in data:
        print(f"replay {path}: no concrete input recorded ({data.get('broken')})")
        return 1
    ok, detail = mod.oracle(data["case"])
    print(json.dumps({"case": data["case"], "holds": ok, "detail": detail}, indent=1, default=str))
    if not ok:
        print(f"VIOLATION property={mod.PID} replay={path}")
        return 1
    return 0


def main(argv=None):
    ap = argparse.ArgumentParser()
    ap.add_argument("pid")
    ap.add_argument("--tier", default=os.environ.get("VERIF_TIER", "quick"), choices=["quick", "thorough"])
    ap.add_argument("--replay")
    ap.add_argument("--skip-lean", action="store_true", help="development only: correspondence without build/audit")
    a = ap.parse_args(argv)
    pid = a.pid.upper()
    seed = int(os.environ.get("VERIF_SEED", "0") or 0)
    try:
        mod = importlib.import_module(f"props.{pid.lower()}")
    except ModuleNotFoundError as ex:
        print(f"no check for {pid}: {ex}")
        return 2
    if a.replay:
        return replay(mod, a.replay)
    t0 = time.time()
    with C.Lock():
        try:
            return run_check(mod, pid, a.tier, seed, t0, a.skip_lean)
        except Exception:  # noqa: BLE001
            traceback.print_exc()
            print(f"INFRASTRUCTURE-FAILURE property={pid}")
            return 2


def run_check(mod, pid, tier, seed, t0, skip_lean=False):
    ctx = Ctx(pid, tier, seed)
    broken = []  # proof obligations / ties that no longer check
    modules = list(mod.MODULES)
    # ---- Tie A: regenerate the model from /repo
    tr = C.run_tracer()
    if tr.get("rc") != 0:
        print(tr.get("stderr", "")[-1500:])
        print("tracer crashed")
        broken.append({"kind": "tracer", "name": "tracer.py", "message": tr.get("stderr", "")[-300:]})
    for gk, gv in (tr.get("generator_errors") or {}).items():
        # a generator of the tracer / translator failed as a whole: every definition it writes is missing or stale
        broken.append({"kind": "tracer", "name": f"generator {gk}", "message": str(gv)[:300]})
    for want in getattr(mod, "TIE_A", []):
        if want.startswith("code:") and not any(k.startswith(want) for k in tr.get("functions", {})):
            broken.append({"kind": "tracer", "name": want, "message": "the function was not translated in this run (no status entry)"})
    tie_a = {}
    for k, v in tr.get("functions", {}).items():
        if any(k.startswith(p) for p in getattr(mod, "TIE_A", [])):
            tie_a[k] = v["ok"]
            if not v["ok"]:
                broken.append({"kind": "tracer", "name": k, "message": v.get("error")})
    # ---- proofs
    names = []
    ax = {}
    build_log = ""
    discharged = 0
    if not skip_lean:
        ok, fails, build_log = C.lake_build(modules + ["FlVerif.Drv.All"])
        failed_decls = set()
        if not ok:
            for f in fails:
                broken.append({"kind": "lean", "name": f"{f['file']}:{f['line']}:{f.get('decl')}", "message": f["message"]})
                if f.get("decl"):
                    failed_decls.add(f["decl"])
        for m in modules:
            names += C.theorem_names(os.path.join(C.LEAN, *m.split(".")) + ".lean", mod.NAMESPACE)
        hits = C.grep_forbidden(modules)
        for h in hits:
            broken.append({"kind": "forbidden-token", "name": h, "message": "forbidden token in Lean sources"})
        if ok:
            ax, audit_text = C.audit(pid, modules, names)
            for n in names:
                if ax.get(n) is None:
                    broken.append({"kind": "audit", "name": n, "message": "theorem missing from #print axioms output"})
                elif not set(ax[n]) <= C.ALLOWED_AXIOMS:
                    broken.append({"kind": "audit", "name": n, "message": f"axioms {ax[n]}"})
                else:
                    discharged += 1
            if not hits and tier == "thorough" and not os.environ.get("FV_NO_LEANCHECKER"):
                okc, txt = C.leanchecker(modules)
                ctx.notes["leanchecker"] = "ok" if okc else txt
                if not okc:
                    broken.append({"kind": "leanchecker", "name": ",".join(modules), "message": txt[-300:]})
    # ---- Tie B: correspondence + property oracle on the implementation
    violations = []   # list of C.Violation
    # corpus first: minimised past failures and the regression inputs of every recorded finding
    cdir = os.path.join(C.VERIF, "corpus", pid)
    if os.path.isdir(cdir):
        for fn in sorted(os.listdir(cdir)):
            if not fn.endswith(".json"):
                continue
            case = json.load(open(os.path.join(cdir, fn)))["case"]
            ok, detail = mod.oracle(case)
            ctx.stats.count("corpus")
            if not ok:
                violations.append(C.Violation(pid, f"corpus case {fn} fails", {"property": pid, "case": case, "oracle": detail,
                                              "corpus": fn}, key=mod.key(case) if hasattr(mod, "key") else None))
    try:
        mismatches = mod.correspond(ctx) or []
    except C.DriverError as ex:
        mismatches = []
        broken.append({"kind": "driver", "name": "Driver.lean", "message": str(ex)[-600:]})
    except Exception as ex:  # noqa: BLE001
        # the harness itself tripped over the implementation's behaviour (an unexpected exception class or shape):
        # the correspondence no longer checks; the failing-input search below decides what to report
        mismatches = []
        broken.append({"kind": "correspondence", "name": f"{pid} harness exception",
                       "message": "".join(traceback.format_exception_only(type(ex), ex))[-300:] + traceback.format_exc()[-700:]})
    for mm in mismatches:
        if os.environ.get("FV_DEBUG"):
            print("MISMATCH", str(mm.get("what"))[:700])
            ctx.notes["dbg"] = ctx.notes.get("dbg", 0) + 1
            json.dump(mm, open(os.path.join(C.WORK, f"mm_{pid}_{ctx.notes['dbg']}.json"), "w"), default=str)
        # mm: {"case":…, "impl":…, "model":…, "what":…, optional "violation": bool}
        ok, detail = (False, mm.get("detail")) if mm.get("violation") else mod.oracle(mm["case"])
        if not ok:
            violations.append(C.Violation(pid, mm.get("what", "implementation disagrees with the documented behaviour"),
                                          {"property": pid, "case": mm["case"], "impl": mm.get("impl"),
                                           "model": mm.get("model"), "oracle": detail, "what": mm.get("what")},
                                          key=mod.key(mm["case"]) if hasattr(mod, "key") else None))
        else:
            broken.append({"kind": "correspondence", "name": f"{pid} model vs implementation",
                           "message": json.dumps(mm, default=str)[:600]})
    # ---- a broken obligation: search for a concrete failing input on the real code
    if broken and not violations:
        try:
            for case, detail in (mod.search(ctx) or []):
                violations.append(C.Violation(pid, "failing input found after a proof/tie stopped checking",
                                              {"property": pid, "case": case, "oracle": detail, "broken": broken[:10]},
                                              key=mod.key(case) if hasattr(mod, "key") else None))
                break
        except Exception:  # noqa: BLE001
            traceback.print_exc()
    # ---- verdict
    rc = 0
    seen_known = []
    reported = set()
    for v in violations:
        kf = C.match_known(pid, v.key)
        if kf:
            if kf["id"] not in seen_known:
                seen_known.append(kf["id"])
                print(f"KNOWN-FINDING: property={pid} {kf['id']} {kf['what']}")
            continue
        sig = v.key or json.dumps(v.replay.get("case"), sort_keys=True, default=str)
        if sig in reported or len(reported) >= 5:
            continue
        reported.add(sig)
        path = C.write_replay(pid, v.replay)
        print(f"VIOLATION property={pid} replay={path}")
        rc = 1
    n_viol = len(reported)
    if broken and rc == 0:
        path = C.write_replay(pid, {"property": pid, "broken": broken[:20],
                                    "note": "a theorem / tie no longer checks and no failing input was found"})
        for b in broken[:8]:
            print(f"BROKEN {b['kind']}: {b['name']}: {str(b['message'])[:300]}")
        print(f"VIOLATION property={pid} replay={path} no-failing-input-found")
        rc = 1
        n_viol += 1
    st = ctx.stats
    coverage = {
        "obligations": max(len(names), 1),
        "discharged": discharged,
        "checker_cmd": f"cd lean && lake build {' '.join(modules)} && lake env lean work/audit/{pid}.lean  (#print axioms of every theorem)"
                       + ("; lake env leanchecker " + " ".join(modules) if tier == "thorough" else ""),
        "trusted_base": C.TRUSTED_BASE + list(getattr(mod, "TRUSTED_EXTRA", [])),
        "theorems": {n: ax.get(n) for n in names},
        "tie_a": tie_a,
        "evaluations": st.evaluations,
        "distinct_nontrivial": len(st.nontrivial),
        "rule": getattr(mod, "RULE", ""),
        "samples": st.samples or [{"note": "no correspondence cases ran"}],
        "traces_validated_against_impl": st.validated,
        "input_distribution": st.dist,
        "skipped_fragile": st.skipped_fragile,
        "known_findings_seen": seen_known,
        "broken": broken[:20],
        "notes": ctx.notes,
        "exhaustive": bool(ctx.notes.get("exhaustive", False)),
    }
    C.write_evidence(pid, tier, seed, coverage, time.time() - t0, n_viol,
                     assumptions=list(getattr(mod, "ASSUMPTIONS", [])))
    print(f"{pid} {tier} seed={seed}: theorems {discharged}/{len(names)} audit-clean, "
          f"{st.evaluations} correspondence cases ({len(st.nontrivial)} distinct non-trivial), "
          f"{len(mismatches)} mismatches, {n_viol} violations, {time.time() - t0:.1f}s")
    return rc


if __name__ == "__main__":
    sys.exit(main())
