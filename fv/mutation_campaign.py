"""Mutation campaign over the functions that are tied to their models (development tool, not a registered check).

For every function with a code tie (`code:` keys of the tracer status) single-site mutants are generated from its AST
(comparison operators, boundary constants, boolean connectives, `not`, arithmetic operators, statement deletion).  A mutant
that the repository's own test-suite does not kill is then given to the quick check of a property that claims the tie:
outcome `replay` (VIOLATION with a concrete input), `no-input` (VIOLATION ... no-failing-input-found: only the tie broke),
`missed` (exit 0) or `error`.

  python fv/mutation_campaign.py plan  <out.json> [max_per_function]
  python fv/mutation_campaign.py run   <plan.json> <worker> <nworkers> <results.jsonl>     (in a clone with its own .lake)
  python fv/mutation_campaign.py report <results.jsonl>...
"""
from __future__ import annotations

import ast
import glob
import importlib
import inspect
import json
import os
import random
import re
import subprocess
import sys
import textwrap

V = os.path.dirname(os.path.dirname(os.path.abspath(__file__)))
PY = "/venv/bin/python"

CMP = {ast.Lt: "<=", ast.LtE: "<", ast.Gt: ">=", ast.GtE: ">", ast.Eq: "!=", ast.NotEq: "=="}
BIN = {ast.Add: "-", ast.Sub: "+", ast.Mult: "/", ast.Div: "*"}


def tied_functions():
    st = json.load(open(os.path.join(V, "work", "tracer_status.json")))
    claims = {}
    for f in sorted(glob.glob(os.path.join(V, "fv", "props", "c*.py"))):
        pid = os.path.basename(f)[:3].upper()
        for k in re.findall(r"code:fuzzylite\.[\w.]+", open(f).read()):
            claims.setdefault(k, []).append(pid)
    # keys built by comprehensions: ask the manifest text as well
    man = json.load(open(os.path.join(V, "MANIFEST.json")))
    for c in man["checks"]:
        for k in re.findall(r"(?<=[ ,])((?:activation|defuzzifier|engine|exporter|factory|importer|library|operation|rule|term|variable)\.[\w.]+)",
                            c["level_claimed"]["text"].split("Tie A for algorithms: the source of")[-1]):
            claims.setdefault("code:fuzzylite." + k, []).append(c["property_id"])
    out = []
    for k in sorted(st["functions"]):
        if k.startswith("code:") and st["functions"][k]["ok"]:
            base = k.split("#")[0]
            pids = sorted(set(claims.get(base, [])))
            if pids:
                out.append((base, pids))
    return sorted(set((a, tuple(b)) for a, b in out))


def locate(key):
    modname, _, rest = key[len("code:"):].partition(".")
    parts = key[len("code:"):].split(".")
    mod = importlib.import_module(".".join(parts[:2]))
    obj = mod
    for a in parts[2:]:
        obj = getattr(obj, a)
    obj = getattr(obj, "__func__", obj)
    obj = inspect.unwrap(obj)
    if isinstance(obj, property):
        obj = obj.fget
    path = inspect.getsourcefile(obj)
    lines, start = inspect.getsourcelines(obj)
    return path, start, lines


def mutants_of(key, rng, limit):
    path, start, lines = locate(key)
    src = textwrap.dedent("".join(lines))
    indent = len(lines[0]) - len(lines[0].lstrip())
    tree = ast.parse(src)
    fdef = tree.body[0]
    body = fdef.body[1:] if (fdef.body and isinstance(fdef.body[0], ast.Expr) and isinstance(getattr(fdef.body[0], "value", None), ast.Constant)
                             and isinstance(fdef.body[0].value.value, str)) else fdef.body
    doc_end = body[0].lineno if body else 0
    cands = []

    def seg(node):
        return ast.get_source_segment(src, node)

    for node in ast.walk(fdef):
        if getattr(node, "lineno", 10 ** 9) < doc_end:
            continue
        if isinstance(node, ast.Compare) and len(node.ops) == 1 and type(node.ops[0]) in CMP:
            l, r = seg(node.left), seg(node.comparators[0])
            if l and r:
                cands.append((node, f"{l} {CMP[type(node.ops[0])]} {r}", "cmp"))
        elif isinstance(node, ast.BoolOp) and len(node.values) == 2:
            a, b = seg(node.values[0]), seg(node.values[1])
            if a and b:
                cands.append((node, f"{a} {'or' if isinstance(node.op, ast.And) else 'and'} {b}", "bool"))
        elif isinstance(node, ast.UnaryOp) and isinstance(node.op, ast.Not):
            a = seg(node.operand)
            if a:
                cands.append((node, f"({a})", "not"))
        elif isinstance(node, ast.BinOp) and type(node.op) in BIN:
            a, b = seg(node.left), seg(node.right)
            if a and b and not isinstance(node.left, ast.Constant) or isinstance(node.left, ast.Constant) and not isinstance(node.left.value, str):
                if a and b:
                    cands.append((node, f"{a} {BIN[type(node.op)]} {b}", "arith"))
        elif isinstance(node, ast.Constant) and isinstance(node.value, (int, float)) and not isinstance(node.value, bool):
            cands.append((node, repr(node.value + 1), "const"))
        elif isinstance(node, (ast.Continue, ast.Break)):
            cands.append((node, "pass", "flow"))
    # statement deletions (simple statements that are not the only statement of their block)
    for parent in ast.walk(fdef):
        for field in ("body", "orelse"):
            blk = getattr(parent, field, None)
            if isinstance(blk, list) and len(blk) > 1:
                for stmt in blk:
                    if isinstance(stmt, (ast.Assign, ast.AugAssign, ast.Expr)) and stmt.lineno >= doc_end and not (
                            isinstance(stmt, ast.Expr) and isinstance(stmt.value, ast.Constant)):
                        cands.append((stmt, "pass", "delete"))
    rng.shuffle(cands)
    out, seen = [], set()
    src_lines = src.split("\n")
    for node, repl, kind in cands:
        if len(out) >= limit:
            break
        if node.lineno != node.end_lineno:
            continue
        ln = node.lineno - 1
        line = src_lines[ln]
        new = line[:node.col_offset] + repl + line[node.end_col_offset:]
        if new == line or (ln, new) in seen:
            continue
        seen.add((ln, new))
        out.append({"key": key, "file": os.path.relpath(path, "/repo"), "line": start + ln, "old": " " * indent + line if line.strip() else line,
                    "new": " " * indent + new, "kind": kind})
    return out


def plan(out, per):
    sys.path.insert(0, "/repo")
    rng = random.Random(20260930)
    ms = []
    for key, pids in tied_functions():
        try:
            for m in mutants_of(key, rng, per):
                m["pids"] = list(pids)
                ms.append(m)
        except Exception as ex:  # noqa: BLE001
            print("skip", key, type(ex).__name__, ex)
    json.dump(ms, open(out, "w"), indent=0)
    print(len(ms), "mutants over", len({m['key'] for m in ms}), "functions")


def sh(cmd, cwd=None, env=None, timeout=1800):
    e = dict(os.environ)
    e.update(env or {})
    p = subprocess.run(cmd, cwd=cwd, shell=isinstance(cmd, str), capture_output=True, text=True, timeout=timeout, env=e)
    return p.returncode, p.stdout + p.stderr


def run(planf, worker, nworkers, resf):
    ms = json.load(open(planf))
    repo = f"/tmp/mut/r{worker}"
    if not os.path.isdir(repo):
        os.makedirs("/tmp/mut", exist_ok=True)
        sh(["git", "-C", "/repo", "worktree", "add", "-q", "--detach", repo, "HEAD"])
    done = set()
    if os.path.exists(resf):
        for l in open(resf):
            done.add(json.loads(l)["id"])
    for i, m in enumerate(ms):
        if i % nworkers != worker or i in done or m["file"].startswith(".."):
            continue
        sh(["git", "-C", repo, "checkout", "--", "."])
        path = os.path.join(repo, m["file"])
        lines = open(path).read().split("\n")
        res = dict(m, id=i)
        if lines[m["line"] - 1] != m["old"]:
            res["outcome"] = "stale"
        else:
            lines[m["line"] - 1] = m["new"]
            open(path, "w").write("\n".join(lines))
            rc, out = sh([PY, "-c", "import fuzzylite"], cwd=repo)
            if rc != 0:
                res["outcome"] = "import-error"
            else:
                rc, out = sh([PY, "-m", "pytest", "-q", "-x", "-p", "no:cacheprovider", "--timeout=600", "--deselect",
                              "tests/test_exporter.py::TestPythonExporter::test_object", "--deselect",
                              "tests/test_benchmark.py::TestBenchmark::test_measure", "--ignore=tests/test_documentation.py"], cwd=repo, timeout=1800)
                if rc != 0:
                    res["outcome"] = "killed-by-tests"
                else:
                    res["checks"] = {}
                    for pid in m["pids"][:2]:
                        rc, out = sh(["./check", pid, "--tier", "quick"], cwd=V, env={"FV_REPO": repo}, timeout=3600)
                        if rc == 0:
                            o = "missed"
                        elif "no-failing-input-found" in out and not re.search(r"VIOLATION property=\S+ replay=\S+\n", out.replace(" no-failing-input-found", "#")):
                            o = "no-input"
                        elif "VIOLATION" in out:
                            o = "replay"
                        else:
                            o = f"error rc={rc}"
                        res["checks"][pid] = o
                    os_ = list(res["checks"].values())
                    res["outcome"] = "replay" if "replay" in os_ else ("no-input" if "no-input" in os_ else ("missed" if "missed" in os_ else "error"))
        with open(resf, "a") as f:
            f.write(json.dumps(res) + "\n")
        print(worker, i, m["key"].split(".")[-2:], m["kind"], res["outcome"], flush=True)
    sh(["git", "-C", repo, "checkout", "--", "."])


def report(files):
    rs = []
    for f in files:
        rs += [json.loads(l) for l in open(f)]
    from collections import Counter
    c = Counter(r["outcome"] for r in rs)
    print(dict(c))
    live = [r for r in rs if r["outcome"] in ("replay", "no-input", "missed")]
    print("survive the test-suite:", len(live), {k: sum(1 for r in live if r["outcome"] == k) for k in ("replay", "no-input", "missed")})
    for r in rs:
        if r["outcome"] in ("missed", "no-input") or r["outcome"].startswith("error"):
            print(r["outcome"], r["key"][len("code:fuzzylite."):], r["line"], r["kind"], "|", r["old"].strip()[:70], "=>", r["new"].strip()[:70], r.get("checks"))


if __name__ == "__main__":
    if sys.argv[1] == "plan":
        plan(sys.argv[2], int(sys.argv[3]) if len(sys.argv) > 3 else 3)
    elif sys.argv[1] == "run":
        run(sys.argv[2], int(sys.argv[3]), int(sys.argv[4]), sys.argv[5])
    else:
        report(sys.argv[2:])
