"""Term classes written by a user of the library (shared by the C10 streams).

The library is open: `fl.Term` is an abstract class and the documentation invites users to subclass it (`membership`,
and for a monotonic term `is_monotonic` / `tsukamoto`).  Wherever a property quantifies over "monotonic or non-monotonic
terms" the classes below stand next to the built-in ones: what the library does with a term must follow from what the
term *says about itself* (`is_monotonic()`, `tsukamoto()`, `membership()`), not from the list of classes the library ships.

Each class computes a function that one built-in class also computes (`MODEL_AS`), so the Lean model - which knows terms by
the name of their shape - describes it under that name; the Python code is its own (no call into the built-in class).
"""
from __future__ import annotations

import numpy as np

import fuzzylite as fl


class UserRamp(fl.Term):
    """user-defined monotonic term: 0 up to `start`, linear to `height` at `end`, then `height` (or falling, start > end)"""

    def __init__(self, name="", start=fl.nan, end=fl.nan, height=1.0):
        super().__init__(name, height)
        self.start, self.end = start, end

    def membership(self, x):
        x = np.asarray(x, dtype=float)
        with np.errstate(all="ignore"):
            t = np.clip((x - self.start) / (self.end - self.start), 0.0, 1.0)
            t = np.where(np.isnan(x) | (self.start == self.end), np.nan, t)
        return self.height * t

    def is_monotonic(self):
        return True

    def tsukamoto(self, y):
        y = np.asarray(y, dtype=float)
        return self.start + (self.end - self.start) * y / self.height

    def parameters(self):
        return super()._parameters(self.start, self.end)

    def configure(self, parameters):
        self.start, self.end, self.height = self._parse(2, parameters)


class UserBump(fl.Term):
    """user-defined non-monotonic term (is_monotonic() is the inherited False): a triangle a / b / c"""

    def __init__(self, name="", a=fl.nan, b=fl.nan, c=fl.nan, height=1.0):
        super().__init__(name, height)
        self.a, self.b, self.c = a, b, c

    def membership(self, x):
        x = np.asarray(x, dtype=float)
        with np.errstate(all="ignore"):
            up = (x - self.a) / (self.b - self.a)
            down = (self.c - x) / (self.c - self.b)
            y = np.where(x == self.b, 1.0, np.clip(np.minimum(up, down), 0.0, 1.0))
            y = np.where(np.isnan(x), np.nan, y)
        return self.height * y

    def parameters(self):
        return super()._parameters(self.a, self.b, self.c)

    def configure(self, parameters):
        self.a, self.b, self.c, self.height = self._parse(3, parameters)


class RampChild(fl.Ramp):
    """a subclass of a built-in monotonic class that changes nothing"""


class ConstantChild(fl.Constant):
    """a subclass of a built-in Takagi-Sugeno class that changes nothing"""


CLASSES = {"UserRamp": UserRamp, "UserBump": UserBump, "RampChild": RampChild, "ConstantChild": ConstantChild}
# the built-in class that computes the same function (the name under which the Lean model knows the shape)
MODEL_AS = {"UserRamp": "Ramp", "UserBump": "Triangle", "RampChild": "Ramp", "ConstantChild": "Constant"}
# what the term says about itself
MONOTONIC = ["UserRamp", "RampChild"]
NON_MONOTONIC = ["UserBump"]
SUGENO = ["ConstantChild"]


def model_name(cls):
    return MODEL_AS.get(cls, cls)
