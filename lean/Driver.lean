import FlVerif.Drv.All

/-! Line-protocol driver: one S-expression per line in, one per line out (`lake env lean --run Driver.lean`). -/

def dispatch (e : SExp) : SExp :=
  match e with
  | .list l => (Drv.handlers.findSome? (fun h => h l)).getD (.atom "bad-op")
  | _ => .atom "bad-op"

partial def loop (h : IO.FS.Stream) (out : IO.FS.Stream) : IO Unit := do
  let line ← h.getLine
  if line.isEmpty then return ()
  match SExp.parse line with
  | some e => out.putStrLn (toString (dispatch e))
  | none => out.putStrLn "bad-parse"
  loop h out

def main : IO Unit := do
  let out ← IO.getStdout
  loop (← IO.getStdin) out
  out.flush
