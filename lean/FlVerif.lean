import FlVerif.Drv.All
import FlVerif.Props.C04
import FlVerif.Props.C05
import FlVerif.Props.C17
import FlVerif.Props.C06
import FlVerif.Props.C16
