import FlVerif.Drv.All
import FlVerif.Props.C04
import FlVerif.Props.C05
import FlVerif.Props.C12
import FlVerif.Props.C20
import FlVerif.Props.C18
import FlVerif.Props.C01
import FlVerif.Props.C02
