import FlVerif.Drv.All
import FlVerif.Props.C04
