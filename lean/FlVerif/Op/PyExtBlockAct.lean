import FlVerif.Op.PyExtWeighted
import FlVerif.Op.Activation
import FlVerif.Op.Infer
import FlVerif.Base.PyAll

/-! # Externals of the translated `RuleBlock.activate`, `Threshold.Comparator.operator` and the factories

* the six functions of the module `operator` that the table `Threshold.Comparator.__operator__` holds, on scalar
  degrees with NumPy's comparison semantics (every ordering / equality with NaN is false, `!=` is true);
* the dictionary `FunctionFactory.objects` as the list of its items (the regenerated element table, one item per row,
  in the order of the table), and the dictionary `ConstructionFactory.constructors` of a factory that registers every
  class under its own name (the key lists `Gen.Tables.*Keys`);
* dictionaries are lists of items (`Py.Dict` of `PyExtWeighted.lean`);
* the objects of `Engine.infer_type` / `Variable.highest_membership` / `Variable.fuzzify` are the data of `Op/Infer.lean`
  (`all(...)` over elements that can raise: `Base/PyAll.lean`). -/

namespace Py.BlockAct

/-- `operator.lt(a, b)` = `a < b` -/
def opLt (a b : X Rat) : Bool := X.lt a b
/-- `operator.le(a, b)` = `a <= b` -/
def opLe (a b : X Rat) : Bool := X.le a b
/-- `operator.eq(a, b)` = `a == b` -/
def opEq (a b : X Rat) : Bool := X.eq a b
/-- `operator.ne(a, b)` = `a != b` -/
def opNe (a b : X Rat) : Bool := X.ne a b
/-- `operator.ge(a, b)` = `a >= b` -/
def opGe (a b : X Rat) : Bool := X.le b a
/-- `operator.gt(a, b)` = `a > b` -/
def opGt (a b : X Rat) : Bool := X.lt b a

instance : Inhabited (Spec.Activation.Method Rat) := ⟨.general⟩

/-- `FunctionFactory.objects.items()`: (name, element) per row of the table -/
def objects (tbl : Lang.Table) : List (String × Lang.Elem) := tbl.map (fun r => (r.1, Lang.Elem.ofRow r))

/-- `factory.constructors` of a factory whose classes are registered under their own names: key ↦ class (by name) -/
def registered (keys : List String) : List (String × String) := keys.map (fun k => (k, k))

end Py.BlockAct
