import FlVerif.Op.PyExt
import FlVerif.Op.Activation

/-! # Externals of the translated activation methods (`activation.py`)

The methods of `Rule` that the activation loops call (`deactivate`, `activate_with`, `trigger`) are the hand-written
definitions of `Op.Activation`; a rule object that the Python code reaches through `rule_block.rules[index]` or through
a list of rule objects (`Proportional`) is a *position* in the list of rules visited so far. -/

instance : Inhabited (Spec.Activation.Rule Rat) := ⟨⟨false, false, false, .nan, .nan, false⟩⟩

namespace Py.Act
open Op.Activation Spec.Activation

/-- `rules[idx].<mutation>`: `IndexError` when there is no such rule -/
def modifyAt (vis : List (Visit Rat)) (idx : Nat) (f : Rule Rat → Rule Rat) : Py.M (List (Visit Rat)) :=
  match vis[idx]? with
  | some v => .ok (vis.set idx (v.1, f v.2))
  | none => .error .lookup

/-- `rules[idx].trigger(implication)`: the rule at the position and the contributions it adds -/
def triggerAt (vis : List (Visit Rat)) (fires : List (Fire Rat)) (idx : Nat) :
    Py.M (List (Visit Rat) × List (Fire Rat)) :=
  match vis[idx]? with
  | some v => let p := trigger idx v.2; .ok (vis.set idx (v.1, p.1), fires ++ p.2)
  | none => .error .lookup

end Py.Act
