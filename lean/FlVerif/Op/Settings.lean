/-! # Code-shaped model of `Settings.context` (library.py:194-232)

`context(**kwargs)`: drop the `None` arguments, snapshot `vars(self)`, `setattr` every named key, `try: yield`,
`finally:` restore the named keys from the snapshot.  Keys are indices into the regenerated key list, values are
abstract identifiers (the harness numbers the values it uses).  Core Lean only. -/

namespace Op.Settings

abbrev Key := Nat
abbrev Val := Nat
abbrev Store := Key → Val

def upd (s : Store) (k : Key) (v : Val) : Store := fun k' => if k' = k then v else s k'

/-- `{key: value for key, value in locals().items() if value is not None}` -/
def contextSettings (kwargs : List (Key × Option Val)) : List (Key × Val) :=
  kwargs.filterMap (fun kv => kv.2.map (fun v => (kv.1, v)))

/-- `for key, value in context_settings.items(): setattr(self, key, value)` -/
def setAll (s : Store) : List (Key × Val) → Store
  | [] => s
  | (k, v) :: kvs => setAll (upd s k v) kvs

/-- `for key in context_settings: setattr(self, key, rollback[key])` -/
def restore (s snapshot : Store) : List (Key × Val) → Store
  | [] => s
  | (k, _) :: kvs => restore (upd s k (snapshot k)) snapshot kvs

/-- a program: a sequence of statements; `ctx` holds the `with` body and the continuation after the block -/
inductive Prog where
  | done
  | assign (k : Key) (v : Val) (rest : Prog)          -- `fl.settings.<k> = v`
  | probe (rest : Prog)                                -- observe `vars(fl.settings)` (and the helpers that read it)
  | raise                                              -- `raise Boom` (nothing after it runs)
  | ctx (kwargs : List (Key × Option Val)) (body : Prog) (rest : Prog)   -- `with fl.settings.context(**kwargs): body` ; rest

structure Res where
  s : Store
  exc : Bool                       -- an exception is propagating
  log : List (List Val)            -- snapshots taken by `probe`, in order

def nKeys : Nat := 7
def snapshot (s : Store) : List Val := (List.range nKeys).map s

def run : Prog → Store → Res
  | .done, s => ⟨s, false, []⟩
  | .assign k v rest, s => run rest (upd s k v)
  | .probe rest, s => let r := run rest s; ⟨r.s, r.exc, snapshot s :: r.log⟩
  | .raise, s => ⟨s, true, []⟩
  | .ctx kwargs body rest, s =>
    let named := contextSettings kwargs
    let r := run body (setAll s named)             -- try: yield
    let s' := restore r.s s named                  -- finally: rollback of the named keys
    if r.exc then ⟨s', true, r.log⟩
    else let r2 := run rest s'; ⟨r2.s, r2.exc, r.log ++ r2.log⟩

def named (kvs : List (Key × Val)) (k : Key) : Prop := ∃ v, (k, v) ∈ kvs
def namedB (kvs : List (Key × Val)) (k : Key) : Bool := kvs.any (fun kv => kv.1 == k)

/-- keys a program may leave modified: assigned outside every context that names them -/
def mods : Prog → List Key
  | .done => []
  | .raise => []
  | .probe rest => mods rest
  | .assign k _ rest => k :: mods rest
  | .ctx kwargs body rest => (mods body).filter (fun k => !namedB (contextSettings kwargs) k) ++ mods rest

end Op.Settings
