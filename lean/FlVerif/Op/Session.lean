import FlVerif.Op.Engine

/-! # Engine as a state machine: set inputs, process, restart, reconfigure (engine.py:389-429, 599)

The state that survives between steps: the input values, and per output variable the committed value / previous
value.  Fuzzy outputs and rule activation state are recomputed by every `process` (C01), so they are observations,
not state.  Values are immutable here: a copy is the same value, so two sessions can never influence each other –
aliasing exists only on the Python side and is observed by the correspondence run. -/

namespace Op.Session
open Op.Engine
variable {α : Type} [Field α] [LinearOrder α] [IsStrictOrderedRing α]

structure Sess (α : Type) where
  engine : EngineD α                 -- configuration, with the current input values inside
  outs : List (OutState α)           -- value / previous value of every output variable

inductive Cmd (α : Type) where
  | setInputs (row : List (X α))
  | process
  | restart
  | reconfig (e : EngineD α)         -- edit a parameter / toggle a flag: new configuration, state kept

/-- observation of a `process` step: output values (last row), or `none` when it raised -/
abbrev Obs (α : Type) := Option (List (Option (X α)))

def clearedOuts (e : EngineD α) : List (OutState α) :=
  e.outputs.map (fun ov => Op.clear (cascadeCfg ov) { value := [], previous := .nan })

/-- a freshly built engine: inputs NaN, outputs NaN -/
def fresh (e : EngineD α) : Sess α :=
  { engine := setInputs e (e.inputs.map (fun _ => X.nan)), outs := clearedOuts e }

/-- `Engine.restart`: inputs to NaN, rules reloaded, outputs cleared -/
def restart (s : Sess α) : Sess α :=
  { engine := setInputs s.engine (s.engine.inputs.map (fun _ => X.nan)), outs := clearedOuts s.engine }

/-- `Engine.restart` with the step the model above leaves out: `rule_block.reload_rules(self)` for every block, which
    raises `RuntimeError` when a rule of the block does not load (a rule created without an engine whose text names an
    unknown variable or term, a rule whose variable was renamed since).  `reload b` is what that call does to the block
    `b`: the block afterwards – `.ok` when it returns, `.error` when it raises.  The restart then stops *between* the two
    other steps: the input values are NaN already, the output variables are not cleared (result `.error`: the session
    as the exception leaves it – the blocks before the failing one reloaded, the failing one as its `reload_rules` left
    it, the others untouched).  `restart` is the case in which every block reloads to itself
    (`C13.restartR_eq_restart`). -/
def reloadBlocks (reload : Block α → Except (Block α) (Block α)) :
    List (Block α) → List (Block α) → Except (List (Block α) × Block α × List (Block α)) (List (Block α))
  | [], done => .ok done
  | b :: bs, done =>
    match reload b with
    | .ok b' => reloadBlocks reload bs (done ++ [b'])
    | .error b' => .error (done, b', bs)             -- reloaded so far, the failing block as it was left, not reached

def restartR (reload : Block α → Except (Block α) (Block α)) (s : Sess α) : Except (Sess α) (Sess α) :=
  let e1 := setInputs s.engine (s.engine.inputs.map (fun _ => X.nan))
  match reloadBlocks reload e1.blocks [] with
  | .error (done, b, rest) => .error { engine := { e1 with blocks := done ++ b :: rest }, outs := s.outs }
  | .ok bs => .ok { engine := { e1 with blocks := bs }, outs := clearedOuts s.engine }

/-- `Engine.copy` (`copy.deepcopy(self)`, nothing else: no restart, no reloading – the copy holds the same input values,
    output values and previous values, and its rules are loaded on the copied variables by the deep copy itself): the
    copy is an equal session.  Values are immutable here, so the copy and the original cannot influence each other;
    that the Python objects share nothing is observed by the correspondence run -/
def copy (s : Sess α) : Sess α := s

def values (s : Sess α) : List (X α) := s.outs.map (fun o => Op.lastOr .nan o.value)

/-- `OutputVariable.defuzzify` of one output for the raw value of this step (`none`: disabled, nothing to do) -/
def outStep (ov : OutVar α) (st : OutState α) (raw : Option (X α)) : OutState α :=
  match raw with
  | some v => (Op.defuzzify (cascadeCfg ov) (some [v]) st).1
  | none => st

/-- what the step produced for one output: the committed value of an enabled variable -/
def outObs (ov : OutVar α) (st : OutState α) (raw : Option (X α)) : Option (X α) :=
  match raw with
  | some v => if ov.enabled then some (Op.lastOr .nan (outStep ov st (some v)).value) else none
  | none => none

/-- `Engine.process`: the row model, then `defuzzify` of every output through the cascade; the observation is the
    list of values the step gave to the enabled output variables -/
def process (F : Fn α) (s : Sess α) : Sess α × Option (List (Option (X α))) :=
  match processRow F s.engine with
  | none => (s, none)
  | some rr =>
    let z := s.engine.outputs.zip (s.outs.zip rr.raw)
    ({ s with outs := z.map (fun (ov, (st, raw)) => outStep ov st raw) },
     some (z.map (fun (ov, (st, raw)) => outObs ov st raw)))

def step (F : Fn α) (s : Sess α) : Cmd α → Sess α × Obs α
  | .setInputs row => ({ s with engine := setInputs s.engine row }, none)
  | .process => process F s
  | .restart => (restart s, none)
  | .reconfig e => ({ s with engine := setInputs e (s.engine.inputs.map (·.value)) }, none)

def run (F : Fn α) (s : Sess α) (cmds : List (Cmd α)) : Sess α :=
  cmds.foldl (fun s c => (step F s c).1) s

end Op.Session
