import FlVerif.Base.X
import FlVerif.Gen.NormGen

/-! # Code-shaped model of the weighted defuzzifiers (`WeightedDefuzzifier.infer_type`,
`WeightedAverage.defuzzify`, `WeightedSum.defuzzify`, `Aggregated.grouped_terms`)

A term is represented by what the defuzzifiers use of it: its name, how `infer_type` classifies it, its
`membership` and (when the class overrides it) its `tsukamoto` function.  Batches are elementwise, the model is the
scalar computation of one row. -/

namespace Op.Weighted
variable {α : Type} [Field α] [LinearOrder α] [IsStrictOrderedRing α]
open X

/-- `WeightedDefuzzifier.Type` -/
inductive WType | automatic | takagiSugeno | tsukamoto
deriving DecidableEq, Repr

/-- the three branches of `infer_type` on a plain term: `isinstance(term, (Constant, Linear, Function))`,
    `term.is_monotonic()`, anything else -/
inductive Kind | sugeno | monotonic | other
deriving DecidableEq, Repr

/-- `TypeError` of `infer_type` (several types), `RuntimeError` of `Term.tsukamoto` (not supported) -/
inductive Err | typeError | runtimeError
deriving DecidableEq, Repr

structure WTerm (ν : Type) (α : Type) where
  name : ν
  kind : Kind
  mu : X α → X α
  /-- `none`: the class inherits `Term.tsukamoto`, which raises -/
  tsk : Option (X α → X α)

/-- an `Activated` term of the fuzzy output: (term, degree) -/
abbrev Act (ν : Type) (α : Type) := WTerm ν α × X α

variable {ν : Type} [DecidableEq ν]

/-- the `Activated.degree` setter: `nan_to_num(value, nan=0, neginf=0, posinf=1)` -/
def setDegree (d : X α) : X α := nanToNum01 d

/-- one iteration of the loop of `grouped_terms`: a new name opens a group `Activated(term, degree)`, a known name
    updates the degree of its group with `aggregation.compute(group.degree, activated.degree)` -/
def insertGroup (agg : X α → X α → X α) (a : Act ν α) : List (Act ν α) → List (Act ν α)
  | [] => [(a.1, setDegree a.2)]
  | g :: gs =>
      if a.1.name = g.1.name then (g.1, setDegree (agg g.2 a.2)) :: gs else g :: insertGroup agg a gs

/-- `aggregation = self.aggregation or UnboundedSum()` -/
def aggregationOr (agg : Option (X α → X α → X α)) : X α → X α → X α := agg.getD Gen.Norm.UnboundedSum

/-- `Aggregated.grouped_terms()`: an insertion-ordered dict, as the list of its values -/
def groupedTerms (agg : Option (X α → X α → X α)) (acts : List (Act ν α)) : List (Act ν α) :=
  acts.foldl (fun gs a => insertGroup (aggregationOr agg) a gs) []

/-- `infer_type` of a plain term -/
def inferTerm (t : WTerm ν α) : WType :=
  match t.kind with
  | .sugeno => .takagiSugeno
  | .monotonic => .tsukamoto
  | .other => .automatic

/-- `set.add` -/
def insertNew (t : WType) (s : List WType) : List WType := if t ∈ s then s else s ++ [t]

/-- `{cls.infer_type(t_i) for t_i in component.terms}` -/
def typeSet (acts : List (Act ν α)) : List WType :=
  acts.foldl (fun s a => insertNew (inferTerm a.1) s) []

/-- `infer_type` of an `Aggregated` term -/
def inferType (acts : List (Act ν α)) : Except Err WType :=
  match typeSet acts with
  | [t] => .ok t
  | [] => .ok .automatic
  | _ => .error .typeError

/-- `this_type = self.type; if self.type == Automatic: this_type = self.infer_type(fuzzy_output)` -/
def resolveType (ty : WType) (acts : List (Act ν α)) : Except Err WType :=
  if ty = .automatic then inferType acts else .ok ty

/-- `z = activated.term.__getattribute__(membership)(w)` with `membership = "tsukamoto" if this_type == Tsukamoto
    else "membership"` -/
def zOf (ty : WType) (t : WTerm ν α) (w : X α) : Except Err (X α) :=
  if ty = .tsukamoto then
    match t.tsk with
    | some f => .ok (f w)
    | none => .error .runtimeError
  else .ok (t.mu w)

/-- the product of the pinned tree: `w * z` -/
def prodPinned (w z : X α) : X α := mul w z
/-- the product after the repair of F4: `np.where(w == 0.0, 0.0, w * z)` – a zero weight contributes zero -/
def prod (w z : X α) : X α := sel (X.eq w (fin 0)) (fin 0) (mul w z)

/-- `for activated in grouped_terms().values(): w = …; z = …; weighted_sum += w * z; weights += w` -/
def loop (P : X α → X α → X α) (ty : WType) : List (Act ν α) → X α × X α → Except Err (X α × X α)
  | [], s => .ok s
  | g :: gs, s => do
      let z ← zOf ty g.1 g.2
      loop P ty gs (add s.1 (P g.2 z), add s.2 g.2)

/-- `weighted_sum = 0.0 if fuzzy_output.terms else nan; weights = 0.0` -/
def start (acts : List (Act ν α)) : X α × X α := (if acts.isEmpty then nan else fin 0, fin 0)

/-- `WeightedAverage.defuzzify`: `weighted_sum / weights` -/
def weightedAverageWith (P : X α → X α → X α) (ty : WType) (agg : Option (X α → X α → X α))
    (acts : List (Act ν α)) : Except Err (X α) := do
  let thisType ← resolveType ty acts
  let s ← loop P thisType (groupedTerms agg acts) (start acts)
  pure (div s.1 s.2)

/-- `WeightedSum.defuzzify`: `y = weighted_sum / weights; y = y * weights` -/
def weightedSumWith (P : X α → X α → X α) (ty : WType) (agg : Option (X α → X α → X α))
    (acts : List (Act ν α)) : Except Err (X α) := do
  let thisType ← resolveType ty acts
  let s ← loop P thisType (groupedTerms agg acts) (start acts)
  pure (mul (div s.1 s.2) s.2)

def weightedAverage (ty : WType) (agg : Option (X α → X α → X α)) (acts : List (Act ν α)) : Except Err (X α) :=
  weightedAverageWith prod ty agg acts
def weightedSum (ty : WType) (agg : Option (X α → X α → X α)) (acts : List (Act ν α)) : Except Err (X α) :=
  weightedSumWith prod ty agg acts
/-- the defuzzifiers of the pinned tree (kept for `counterexample_pinned`) -/
def weightedAveragePinned (ty : WType) (agg : Option (X α → X α → X α)) (acts : List (Act ν α)) :
    Except Err (X α) := weightedAverageWith prodPinned ty agg acts
def weightedSumPinned (ty : WType) (agg : Option (X α → X α → X α)) (acts : List (Act ν α)) :
    Except Err (X α) := weightedSumWith prodPinned ty agg acts

/-- `Linear.membership`: `(coefficients[:n] * inputs).sum() + (coefficients[n] if len > n else 0.0)` with `n` input
    variables (the caller checked `len(coefficients) ∈ {n, n+1}`) -/
def linear (coefficients inputs : List (X α)) : X α :=
  add ((List.zipWith mul (coefficients.take inputs.length) inputs).foldr add (fin 0))
    (if coefficients.length > inputs.length then coefficients.getD inputs.length (fin 0) else fin 0)

end Op.Weighted
