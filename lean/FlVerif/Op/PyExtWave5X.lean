import FlVerif.Op.PyExtWeighted
import FlVerif.Base.PySet

/-! # Externals of the translated `WeightedDefuzzifier.infer_type` (`defuzzifier.py`)

`infer_type(component)` dispatches on the class of its argument and calls itself on the parts.  The argument is the
tree `Py.W5.Comp` of what the function can look at: an `Aggregated` term or a `Variable` (both have `.terms`), an
`Activated` term (`.term`), or any other term, seen through the record `Op.Weighted.WTerm` of the weighted model whose
field `kind` says which of the three last branches the term takes (`isinstance(term, (Constant, Linear, Function))`,
`term.is_monotonic()`, neither).  `types` is a Python set kept as the list of its distinct elements (`Base/PySet.lean`);
`types.pop()` is only meaningful here on a set of one element. -/

namespace Py.W5
open Op.Weighted

/-- what `infer_type` can be called on -/
inductive Comp where
  /-- `Aggregated` / `Variable`: the list `component.terms` -/
  | group (terms : List Comp)
  /-- `Activated`: `component.term` -/
  | activated (term : Comp)
  /-- any other term -/
  | plain (t : WTerm String Rat)

instance : Inhabited Comp := ⟨.group []⟩

/-- `isinstance(component, (Aggregated, Variable))` -/
def Comp.isGroup : Comp → Bool
  | .group _ => true
  | _ => false

/-- `isinstance(component, Activated)` -/
def Comp.isActivated : Comp → Bool
  | .activated _ => true
  | _ => false

/-- `isinstance(component, (Constant, Linear, Function))` -/
def Comp.isSugeno : Comp → Bool
  | .plain t => t.kind == .sugeno
  | _ => false

/-- `component.is_monotonic()` (asked only of a term that is none of the classes above; `Term.is_monotonic` of the two
    composite terms is `False`) -/
def Comp.isMonotonic : Comp → Bool
  | .plain t => t.kind == .monotonic
  | _ => false

/-- `component.terms` -/
def Comp.terms : Comp → List Comp
  | .group ts => ts
  | _ => []

/-- `component.term`: only an `Activated` term has the attribute -/
def Comp.term : Comp → Py.M Comp
  | .activated c => .ok c
  | _ => .error .internal

/-- nesting depth (the bound of the recursion) -/
def Comp.depth : Comp → Nat
  | .group ts => depthList ts + 1
  | .activated c => c.depth + 1
  | .plain _ => 1
where
  depthList : List Comp → Nat
    | [] => 0
    | c :: cs => max c.depth (depthList cs)

/-- `types.pop()` of a set: `KeyError` for the empty set, the element of a set that has one.  From a larger set Python
    removes an element that depends on its iteration order, which the translation does not keep: the translator's own
    error `alias` ("an object was reached in a way the translation does not follow"), which the tie theorem shows never
    happens, like `fuel` -/
def setPop {α : Type} : List α → Py.M α
  | [] => .error .lookup
  | [x] => .ok x
  | _ => .error .alias

/-- the `Aggregated` term of the weighted model as a component: its activations are `Activated` terms over plain terms -/
def ofActs (acts : List (Act String Rat)) : Comp := .group (acts.map (fun a => .activated (.plain a.1)))

end Py.W5
