import FlVerif.Base.X

/-! # Code-shaped model of the integral defuzzifiers (`fuzzylite/defuzzifier.py`, `Op.midpoints`,
`Aggregated.membership`, `Activated.membership`)

Rows are `List (X α)` (one NumPy row), batches are lists of rows (`axis=1` reductions act on every row).
Reductions are written as folds; `np.sum`'s pairwise order is not modelled (exact arithmetic). -/

namespace Op.Integral
variable {α : Type} [Field α] [LinearOrder α] [IsStrictOrderedRing α]
open X

/-- `Op.midpoints`: `start + (np.array(range(resolution)) + 0.5) * ((end - start) / resolution)` -/
def midpoints (lo hi : X α) (r : Nat) : List (X α) :=
  (List.range r).map (fun (i : Nat) => add lo (mul (add (fin (i : α)) (fin (1 / 2))) (div (sub hi lo) (fin (r : α)))))

/-! ## NumPy reductions on one row -/

/-- `np.sum` -/
def sum (l : List (X α)) : X α := l.foldr add (fin 0)

def notNan (v : X α) : Bool := !v.isnan

/-- `np.nancumsum`: NaN counts as zero -/
def nancumsumFrom (acc : X α) : List (X α) → List (X α)
  | [] => []
  | y :: ys => add acc (if y.isnan then fin 0 else y) :: nancumsumFrom (add acc (if y.isnan then fin 0 else y)) ys
def nancumsum (l : List (X α)) : List (X α) := nancumsumFrom (fin 0) l

/-- `a[-1]` (`nan` stands for the IndexError of an empty row, never reached: resolution ≥ 1) -/
def lastOr {β : Type} : List β → β → β
  | [], d => d
  | x :: xs, _ => lastOr xs x

/-- `np.min` / `np.max` of a row: NaN-propagating -/
def npMin : List (X α) → X α
  | [] => nan
  | x :: xs => xs.foldl npmin x
def npMax : List (X α) → X α
  | [] => nan
  | x :: xs => xs.foldl npmax x

/-- `np.nanmean`: sum of the non-NaN entries over their count (`0/0 = nan` when there is none) -/
def nanmean (l : List (X α)) : X α :=
  div (sum (l.filter notNan)) (fin ((l.filter notNan).length : α))
/-- `np.nanmin` / `np.nanmax`: `nan` for an all-NaN row -/
def nanmin (l : List (X α)) : X α := npMin (l.filter notNan)
def nanmax (l : List (X α)) : X α := npMax (l.filter notNan)

/-- NumPy broadcasting of a row of length 1 against a row of length `n` (the `(1,1)` membership array of an
    aggregated term without activations) -/
def bcastRow {β : Type} (n : Nat) (y : List β) : List β :=
  match y with
  | [v] => List.replicate n v
  | _ => y

/-- `np.where(mask, x, nan)` -/
def whereNan (mask : List Bool) (x : List (X α)) : List (X α) :=
  List.zipWith (fun m v => sel m v nan) (bcastRow x.length mask) x

/-! ## the five `defuzzify` bodies on one row (`x`: midpoints, `y`: memberships)

Values the array code computes once per row (`area[:, [-1]]`, `area.min()`, `y.max()`) are arguments of small
helper functions (`scoresWith`, `maskEq`, `maxMaskWith`), so that the driver also evaluates them once. -/

/-- `((x * y).sum(axis=1) / y.sum(axis=1))` -/
def centroid (x y : List (X α)) : X α :=
  div (sum (List.zipWith mul x (bcastRow x.length y))) (sum y)

/-- `area = nancumsum(y); area = abs(area / area[-1] - 0.5)` -/
def scoresWith (total : X α) (area : List (X α)) : List (X α) :=
  area.map (fun a => abs (sub (div a total) (fin (1 / 2))))
def bisectorScores (y : List (X α)) : List (X α) := scoresWith (lastOr (nancumsum y) nan) (nancumsum y)
/-- `index = area == area.min(); bisectors = where(index, x, nan); nanmean(bisectors)` -/
def maskEq (m : X α) (l : List (X α)) : List Bool := l.map (fun a => eq a m)
def bisector (x y : List (X α)) : X α :=
  nanmean (whereNan (maskEq (npMin (bisectorScores y)) (bisectorScores y)) x)

/-- `(y > 0) & (y == y.max())` -/
def maxMaskWith (m : X α) (y : List (X α)) : List Bool := y.map (fun v => lt (fin 0) v && eq v m)
def maxMask (y : List (X α)) : List Bool := maxMaskWith (npMax y) y
def lom (x y : List (X α)) : X α := nanmax (whereNan (maxMask y) x)
def mom (x y : List (X α)) : X α := nanmean (whereNan (maxMask y) x)
def som (x y : List (X α)) : X α := nanmin (whereNan (maxMask y) x)

/-! ## the fuzzy set: `Activated.membership`, `Aggregated.membership` on the row of midpoints

`degrees` is the column `np.atleast_2d(self.degree).T` (one entry for a scalar degree, one per batch row
otherwise).  Missing implication / aggregation operators raise `ValueError` before anything is computed;
the driver reports that case, the functions below take the operators as given. -/

structure Activated (α : Type) where
  mu : X α → X α
  degrees : List (X α)
  implication : X α → X α → X α

/-- the column of degrees seen by a batch of `B` rows (a scalar degree is broadcast) -/
def Activated.column (a : Activated α) (B : Nat) : List (X α) := bcastRow B a.degrees

/-- one row of `implication.compute(degree column, m)` where `m = term.membership(x)`; the degree was stored
    through `nan_to_num(nan=0, neginf=0, posinf=1)` -/
def activatedRow (a : Activated α) (d : X α) (m : List (X α)) : List (X α) :=
  m.map (fun v => a.implication (nanToNum01 d) v)

/-- `term.membership(x)` is evaluated once, then combined with every degree of the column -/
def activatedMat (a : Activated α) (B : Nat) (x : List (X α)) : List (List (X α)) :=
  let m := x.map a.mu
  (a.column B).map (fun d => activatedRow a d m)

/-- `y = 0.0; for term in terms: y = aggregation.compute(y, term.membership(x))` on a batch of `B` rows;
    without activations the result is the scalar `0.0`, seen by the defuzzifiers as a `(1,1)` array -/
def aggregatedMat (agg : X α → X α → X α) (acts : List (Activated α)) (B : Nat) (x : List (X α)) :
    List (List (X α)) :=
  if acts.isEmpty then [[fin 0]]
  else acts.foldl (fun Y a => List.zipWith (List.zipWith agg) Y (activatedMat a B x))
        (List.replicate B (x.map (fun _ => fin 0)))

/-- the same loop for one set (scalar degrees) -/
def aggregatedRow (agg : X α → X α → X α) (acts : List (Activated α × X α)) (x : List (X α)) : List (X α) :=
  if acts.isEmpty then [fin 0]
  else acts.foldl (fun y a => List.zipWith agg y (activatedRow a.1 a.2 (x.map a.1.mu))) (x.map (fun _ => fin 0))

/-- `axis=1` reductions: one result per row of the batch -/
def defuzzifyBatch (D : List (X α) → List (X α) → X α) (x : List (X α)) (Y : List (List (X α))) : List (X α) :=
  Y.map (D x)

end Op.Integral
