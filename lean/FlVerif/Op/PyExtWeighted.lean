import FlVerif.Op.PyExt
import FlVerif.Op.Weighted

/-! # Externals of the translated `Aggregated.grouped_terms` (`term.py`) and `WeightedAverage.defuzzify` /
`WeightedSum.defuzzify` (`defuzzifier.py`)

An activated term is the pair (term, degree) of `Op.Weighted.Act`; term names are strings.  A Python `dict` with
string keys is an association list in insertion order; a reference to an object stored in the dictionary is its
key.  NumPy: `np.where` on scalars is `X.sel`, `.squeeze()` and `scalar(...)` do nothing to a scalar. -/

instance : Inhabited (Op.Weighted.WTerm String Rat) := ⟨⟨"", .other, id, none⟩⟩
instance : Inhabited Op.Weighted.WType := ⟨.automatic⟩

namespace Py.Dict
variable {β : Type}

/-- `k in d` -/
def mem (d : List (String × β)) (k : String) : Bool := d.any (fun p => p.1 == k)

/-- `d[k]`: `KeyError` when the key is missing -/
def get (d : List (String × β)) (k : String) : Py.M β :=
  match d.find? (fun p => p.1 == k) with
  | some p => .ok p.2
  | none => .error .lookup

/-- `d[k] = v`: replaces the value of an existing key in place, a new key goes to the end -/
def set : List (String × β) → String → β → List (String × β)
  | [], k, v => [(k, v)]
  | p :: rest, k, v => if p.1 == k then (k, v) :: rest else p :: set rest k v

/-- mutation of the object stored under `k` (reached through a reference to it) -/
def modify (d : List (String × β)) (k : String) (f : β → β) : Py.M (List (String × β)) :=
  match get d k with
  | .ok v => .ok (set d k (f v))
  | .error e => .error e

/-- `list(d.values())` -/
def values (d : List (String × β)) : List β := d.map (fun p => p.2)

end Py.Dict

namespace Py.W
open Op.Weighted

/-- what the defuzzifiers use of an `Aggregated` term -/
structure Aggregated where
  aggregation : Option (X Rat → X Rat → X Rat)
  terms : List (Act String Rat)

instance : Inhabited Aggregated := ⟨⟨none, []⟩⟩

/-- the exception classes of the weighted defuzzifiers -/
def errToPy : Op.Weighted.Err → Py.Err
  | .typeError => .internal
  | .runtimeError => .runtime

/-- `WeightedDefuzzifier.infer_type(aggregated)` -/
def inferType (a : Aggregated) : Py.M WType :=
  match Op.Weighted.inferType a.terms with
  | .ok t => .ok t
  | .error e => .error (errToPy e)

/-- `term.__getattribute__(name)(w)` for the two method names the defuzzifiers use: a class that does not override
    `Term.tsukamoto` raises `RuntimeError`; any other attribute name is an `AttributeError` -/
def callMethod (t : WTerm String Rat) (name : String) (w : X Rat) : Py.M (X Rat) :=
  if name == "tsukamoto" then
    match t.tsk with
    | some f => .ok (f w)
    | none => .error .runtime
  else if name == "membership" then .ok (t.mu w)
  else .error .internal

end Py.W
