import FlVerif.Op.ShuntingYard
import FlVerif.Op.FormatInfix

/-! # `Antecedent.load` (rule.py): the five-flag state machine over the postfix tokens

`state` is a set of flags (`s_variable, s_is, s_hedge, s_term, s_and_or = (2**i for i in range(5))`); every token is
tried against the flags in that order, the first test that succeeds consumes it (`continue`), otherwise a
`SyntaxError` is raised.  The proposition under construction is the one on top of the stack (the code keeps a second
reference to it in `proposition`).  The final-state check is the repaired one (`state & (s_hedge | s_term)`; the
pinned code has `stack & …`, which raises `TypeError` – defect F5, property C16). -/

namespace Op
open Lang

structure VarInfo where
  name : String
  isOutput : Bool
  enabled : Bool
  terms : List String
deriving DecidableEq, Repr

structure EngineInfo where
  vars : List VarInfo        -- `engine.variables` (inputs, then outputs)
  hedges : List String       -- keys of the hedge factory
deriving Repr

/-- what Python's `if variable:` accepts: a variable object is true when it has a term (`Variable.__len__` is the
    number of terms; there is no `__bool__`) -/
def VarInfo.truthy (v : VarInfo) : Bool := !v.terms.isEmpty

/-- `variable = {v.name: v for v in engine.variables}.get(token)` followed by `if variable:` – the last variable of
    that name, provided it is true in Python's sense (it has a term).  A name whose last variable has no terms is
    *not recognised* by the loaders (`Rule.create("if A is any then …")` raises `SyntaxError` at `A`). -/
def EngineInfo.findVar (e : EngineInfo) (n : String) : Option VarInfo :=
  (e.vars.reverse.find? (·.name == n)).filter VarInfo.truthy

/-- the same over `{v.name: v for v in engine.output_variables}` -/
def EngineInfo.findOut (e : EngineInfo) (n : String) : Option VarInfo :=
  ((e.vars.filter (·.isOutput)).reverse.find? (·.name == n)).filter VarInfo.truthy

structure AFlags where
  var_ : Bool
  is_ : Bool
  hedge : Bool
  term : Bool
  andOr : Bool
deriving DecidableEq, Repr

def fVariable : AFlags := ⟨true, false, false, false, false⟩
def fIs : AFlags := ⟨false, true, false, false, false⟩
def fHedgeTerm : AFlags := ⟨false, false, true, true, false⟩
def fVariableAndOr : AFlags := ⟨true, false, false, false, true⟩

/-- the tree `Antecedent.load` builds: `Proposition(variable, hedges, term)` / `Operator(name, left, right)` -/
inductive ANode where
  | prop (v : String) (hs : List String) (t : Option String)
  | op (name : String) (l r : ANode)
deriving DecidableEq, Repr

/-- terms of the variable of the proposition on top of the stack -/
def topTerms (e : EngineInfo) : List ANode → List String
  | .prop v _ _ :: _ => ((e.findVar v).map (·.terms)).getD []
  | _ => []

/-- one iteration of the `for token in postfix.split()` loop -/
def aStep (e : EngineInfo) (st : AFlags) (stack : List ANode) (token : String) :
    Except ErrKind (AFlags × List ANode) :=
  if st.var_ && (e.findVar token).isSome then
    .ok (fIs, .prop token [] none :: stack)
  else if st.is_ && token == "is" then
    .ok (fHedgeTerm, stack)
  else if st.hedge && e.hedges.contains token then
    match stack with
    | .prop v hs t :: rest =>
        .ok (if token == "any" then fVariableAndOr else fHedgeTerm, .prop v (hs ++ [token]) t :: rest)
    | _ => .error .runtime                        -- not reachable: `s_hedge` is only set after a variable
  else if st.term && (topTerms e stack).contains token then
    match stack with
    | .prop v hs _ :: rest => .ok (fVariableAndOr, .prop v hs (some token) :: rest)
    | _ => .error .runtime                        -- not reachable
  else if st.andOr && (token == "and" || token == "or") then
    match stack with
    | r :: l :: rest => .ok (fVariableAndOr, .op token l r :: rest)
    | _ => .error .syntax                         -- operator expects 2 operands
  else .error .syntax

def aLoop (e : EngineInfo) : List String → AFlags → List ANode → Except ErrKind (AFlags × List ANode)
  | [], st, stack => .ok (st, stack)
  | t :: ts, st, stack =>
    match aStep e st stack t with
    | .error k => .error k
    | .ok (st', stack') => aLoop e ts st' stack'

/-- the state machine on the postfix tokens, with the final checks -/
def antecedentLoadPostfix (e : EngineInfo) (pf : List String) : Except ErrKind ANode :=
  match aLoop e pf fVariable [] with
  | .error k => .error k
  | .ok (st, stack) =>
    if !(st.var_ || st.andOr) then .error .syntax        -- expected `is` / hedge or term after the last token
    else match stack with
      | [a] => .ok a
      | _ => .error .syntax                                    -- unable to parse the following expressions

/-- `Function.infix_to_postfix` followed by the state machine, on the tokens of `format_infix(text)` -/
def antecedentLoadTokens (tbl : Table) (e : EngineInfo) (tokens : List String) : Except ErrKind ANode :=
  match toPostfix tbl tokens with
  | .error k => .error k
  | .ok p => antecedentLoadPostfix e p

/-- `Antecedent.load(engine)` for the antecedent text (`" ".join(tokens)` of `Rule.parse`) -/
def antecedentLoad (tbl : Table) (e : EngineInfo) (text : String) : Except ErrKind ANode :=
  if text.isEmpty then .error .syntax
  else antecedentLoadTokens tbl e (formatInfix tbl text)

/-- `Antecedent.postfix()` -/
def ANode.pfx : ANode → List String
  | .prop v hs t => [v, "is"] ++ hs ++ (match t with | some t => [t] | none => [])
  | .op n l r => l.pfx ++ r.pfx ++ [n]

/-- `Antecedent.infix()` -/
def ANode.infixWords : ANode → List String
  | .prop v hs t => [v, "is"] ++ hs ++ (match t with | some t => [t] | none => [])
  | .op n l r => l.infixWords ++ [n] ++ r.infixWords

end Op
