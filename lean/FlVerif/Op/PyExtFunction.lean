import FlVerif.Op.PyExt
import FlVerif.Op.ParsePostfix

/-! # Externals of the translated `Function.parse` (term.py): the node record and the calls it does not look into

`Py.Node` is `Function.Node` (element / variable / constant / left / right, with the defaults of its constructor).
`Py.infixToPostfix` is the call `cls.infix_to_postfix(formula)` followed by `.split()`: the function is tied to
`Op.toPostfix` on its own (`C17.code_toPostfix`), so here it is the model's token list (the text the function
returns is that list joined by single spaces). -/

namespace Py
open Lang

/-- `Function.Node` -/
structure Node where
  element : Option Elem := none
  variable_ : String := ""
  constant : X Rat := .nan
  left : Option Node := none
  right : Option Node := none

instance : Inhabited Node := ⟨{}⟩

/-- the exception class of an error kind of the models -/
def errOfKind : ErrKind → Err
  | .syntax => .syntax | .value => .value | .lookup => .lookup | .runtime => .runtime

/-- `cls.infix_to_postfix(formula)` (then `.split()`): the postfix tokens, or the exception of the function -/
def infixToPostfix (tbl : Table) (formula : String) : M (List String) :=
  match Op.toPostfix tbl (Op.formatInfix tbl formula) with
  | .ok r => .ok r
  | .error e => .error (errOfKind e)

/-- `factory.copy(name)`: a copy of the registered element, `ValueError` when the name is not registered -/
def copyElem (tbl : Table) (s : String) : M Elem :=
  match tbl.lookup s with
  | some e => .ok e
  | none => .error .value

end Py
