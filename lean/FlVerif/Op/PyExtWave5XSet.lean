import FlVerif.Op.PyExtSettings
import FlVerif.Gen.Tables

/-! # Externals of the translated `Settings.__init__` and of the property `Settings.factory_manager` (`library.py`)

As for `Settings.context` (`Op/PyExtSettings.lean`) the settings object is the map from attribute index to value, a value
is `None` or an abstract identifier.  The index of an attribute is its position in the regenerated list of the keyword
parameters of `Settings.context` (`Gen.Tables.settingsContextKeys`); the attribute `_factory_manager` has the index of
the key `factory_manager`.  `FactoryManager()` creates an object that did not exist before: the parameter `fresh` of the
translated getter. -/

namespace Py.W5

/-- the index of the attribute that holds the setting `name` -/
def attr (name : String) : Nat := Gen.Tables.settingsContextKeys.idxOf name

end Py.W5

namespace Op.Settings

/-- the attributes of a `Settings` object: `None` or a value -/
abbrev OStore := Key → Option Val

/-- the attribute `_factory_manager` -/
def fmKey : Key := Py.W5.attr "factory_manager"

/-- `Settings.__init__` on an object with the attributes `s0`: every argument is stored as it is given (`None`
    included: the factory manager is created on first use), except that a missing logger is replaced by the logger of
    the library; nothing else is assigned -/
def init (s0 args : OStore) (defaultLogger : Val) : OStore := fun k =>
  if k = Py.W5.attr "logger" then some ((args k).getD defaultLogger)
  else if k ≤ fmKey then args k
  else s0 k

/-- the property `settings.factory_manager`: the value returned and the object afterwards.  The first access of an
    object whose field is `None` creates the manager (`fresh`) and stores it; every other access returns the field -/
def getManager (fresh : Val) (s : OStore) : Val × OStore :=
  match s fmKey with
  | some m => (m, s)
  | none => (fresh, Py.Settings.setattr s fmKey (some fresh))

end Op.Settings
