import FlVerif.Op.ShuntingYard

/-! # `Function.parse` (term.py), second half: the stack machine that turns the postfix tokens into the tree

For an element: `if element.arity > len(stack): raise SyntaxError`; `node.right = stack.pop()` when the arity is at
least 1, `node.left = stack.pop()` when it is 2 (so the operand of a unary element is stored on the *right*: `app1`
has a single child and `Node.evaluate` reads it with `self.left or self.right`); operands become constant or
variable leaves (`Expr.leaf` keeps the token, the number/variable decision is taken by `float(token)` in the
semantics); `(`, `)`, `,` are skipped; at the end `len(stack) != 1` is a `SyntaxError`. -/

namespace Op
open Lang

def build : List Tok → List Expr → Except ErrKind (List Expr)
  | [], stk => .ok stk
  | .operand s :: ts, stk => build ts (.leaf s :: stk)
  | .el f :: ts, stk =>
      if stk.length < f.arity then .error .syntax
      else if f.arity = 0 then build ts (.app0 f :: stk)
      else if f.arity = 2 then
        match stk with
        | r :: l :: s => build ts (.app2 f l r :: s)
        | _ => .error .syntax
      else
        match stk with
        | r :: s => build ts (.app1 f r :: s)
        | _ => .error .syntax
  | _ :: ts, stk => build ts stk

def parsePostfixTok (ts : List Tok) : Except ErrKind Expr :=
  match build ts [] with
  | .ok [e] => .ok e
  | .ok _ => .error .syntax
  | .error k => .error k

/-- `postfix.split()` classified with the table, then the stack machine -/
def parsePostfix (tbl : Table) (tokens : List String) : Except ErrKind Expr :=
  parsePostfixTok (tokens.map (classify tbl))

/-- `Function.parse(formula)` on the tokens of `format_infix(formula)` -/
def parseFormula (tbl : Table) (tokens : List String) : Except ErrKind Expr :=
  match toPostfix tbl tokens with
  | .ok p => parsePostfix tbl p
  | .error k => .error k

/-! ## values: trees and reverse-Polish programs over any interpretation of leaves and elements -/

structure Sem (V : Type) where
  leaf : String → Option V          -- `float(token)` or the variable map; `none` = `ValueError` (unknown variable)
  ap0 : Elem → V
  ap1 : Elem → V → V
  ap2 : Elem → V → V → V

/-- `Function.Node.evaluate` -/
def evalTree {V : Type} (S : Sem V) : Expr → Option V
  | .leaf s => S.leaf s
  | .words _ => none
  | .app0 f => some (S.ap0 f)
  | .app1 f x => (evalTree S x).map (S.ap1 f)
  | .app2 f l r => match evalTree S l, evalTree S r with
    | some a, some b => some (S.ap2 f a b)
    | _, _ => none

/-- the value of a postfix token list read as a reverse-Polish program -/
def rpn {V : Type} (S : Sem V) : List Tok → List V → Option (List V)
  | [], stk => some stk
  | .operand s :: ts, stk => match S.leaf s with
    | some v => rpn S ts (v :: stk)
    | none => none
  | .el f :: ts, stk =>
      if stk.length < f.arity then none
      else if f.arity = 0 then rpn S ts (S.ap0 f :: stk)
      else if f.arity = 2 then
        match stk with
        | b :: a :: s => rpn S ts (S.ap2 f a b :: s)
        | _ => none
      else
        match stk with
        | a :: s => rpn S ts (S.ap1 f a :: s)
        | _ => none
  | _ :: ts, stk => rpn S ts stk

end Op
