import FlVerif.Base.Py
import FlVerif.Op.PyExt
import FlVerif.Op.FllText

/-! # Externals of the translated FuzzyLite Language exporter (`exporter.py`, `Term._parameters`, `Rule.text`)

The translated code works on *strings*, as the source does.  The objects it reads are the records of the token
model `Op.FllIO` (an engine, a variable, a term, a rule block, a rule); `Op.class_name(x)` of a component is the
text of its header key, of a term / norm / defuzzifier / activation method the class name the record carries.

* `Op.str(x)` of a float is a `Dec` (the printed number, `Dec.fmt`); where the code puts it into a list of strings
  it is rendered (`Dec.render`), where the code reads it back (`to_float`, `float`) its value is `Dec.val` – the
  step "CPython's `float(text)` reads the printed decimal" is the trusted assumption of C14, as before;
* `sep.join(l)` is `String.intercalate`;
* `FllExporter.format(key, value)` is `Py.Fll.format` on the values the exporter passes (`Val`);
* the methods of other classes the exporter calls (`term.parameters()`, `activation.parameters()`,
  `self.term(t)`, `self.variable(v)`, …) are the renderings of the corresponding parts of the model, i.e. exactly
  what the tie theorem of that method proves the method returns.

`Line.body`, `blockStrs`, `lineText` give the text of model lines: a line is `key: tok tok …` (single spaces), the
lines of a component are the header line followed by the indented other lines. -/

namespace Py.Fll
open Op.FllIO Dec

/-- `sep.join(l)` -/
def join (sep : String) (l : List String) : String := sep.intercalate l

/-- `Op.str(x)` of a float, as a string (`format`'s float case) -/
def numText (d : ℕ) (x : Num) : String := Dec.render d (Dec.fmt d x)

/-- the values `FllExporter.format` is called with -/
inductive Val where
  | str (s : String)
  | none
  | bool (b : Bool)
  | num (x : Num)
  | tuple (l : List Val)
  | other (text : String)      -- any other object: `str(value)`

instance : Inhabited Val := ⟨.none⟩

/-! the tests and conversions `format` applies to its value -/
def Val.isEmptyStr : Val → Bool | .str s => s == "" | _ => false       -- `value == ""`
def Val.isNone : Val → Bool | .none => true | _ => false                -- `value is None`
def Val.isBool : Val → Bool | .bool _ => true | _ => false              -- `isinstance(value, bool)`
def Val.isNum : Val → Bool | .num _ => true | _ => false                -- `isinstance(value, float)`
def Val.isTuple : Val → Bool | .tuple _ => true | _ => false            -- `isinstance(value, (tuple, list, set))`
def Val.items : Val → List Val | .tuple l => l | _ => []                -- `for v_i in value`
def Val.boolText : Val → String | .bool true => "true" | _ => "false"   -- `str(value).lower()`
def Val.numStr (d : ℕ) : Val → String | .num x => numText d x | _ => "" -- `Op.str(value)`
def Val.strOf : Val → String | .str s => s | .other t => t | _ => ""    -- `str(value)`

mutual
/-- nesting depth of a value (bounds the recursion of `format`) -/
def Val.depth : Val → ℕ
  | .tuple l => Val.depthL l + 1
  | _ => 0
def Val.depthL : List Val → ℕ
  | [] => 0
  | v :: r => max (Val.depth v) (Val.depthL r)
end

mutual
/-- what `format` appends to `result` for the value -/
def pieces (d : ℕ) : Val → List String
  | .str s => if s = "" then [] else [s]
  | .none => ["none"]
  | .bool b => [if b then "true" else "false"]
  | .num x => [numText d x]
  | .tuple l => piecesL d l
  | .other t => [t]
/-- the loop over the items of a tuple: `f_value = self.format(key=None, value=v_i)`, appended when not empty -/
def piecesL (d : ℕ) : List Val → List String
  | [] => []
  | v :: r => (if Py.joinSp (pieces d v) = "" then [] else [Py.joinSp (pieces d v)]) ++ piecesL d r
end

/-- `FllExporter.format(key, value)`; the key `None` is the empty string (both are false in `if key:`) -/
def format (d : ℕ) (key : String) (v : Val) : String :=
  Py.joinSp ((if key = "" then [] else [key ++ ":"]) ++ pieces d v)

/-! ### text of model lines -/

/-- `key: tok tok …` -/
def Line.body (d : ℕ) (l : Line) : String := Py.joinSp ((l.key.text ++ ":") :: l.toks.map (Tok.render d))

/-- the lines of one component: the first line as it is, the others indented -/
def blockStrs (indent : String) (d : ℕ) : List Line → List String
  | [] => []
  | h :: r => Line.body d h :: r.map (fun l => indent ++ Line.body d l)

/-- a line of an exported engine: header lines are not indented -/
def lineText (indent : String) (d : ℕ) (l : Line) : String :=
  (if isHeader l.key then "" else indent) ++ Line.body d l

/-! ### the methods the translated functions call -/

/-- `Term._parameters(*args)` of a term with height `h` -/
def parameters (c : Cfg) (args : List Num) (h : Num) : String :=
  Py.joinSp ((termParams (keepHeight c) c (.shape args (some h))).map (Tok.render c.d))

/-- `term.parameters()` -/
def termParameters (c : Cfg) (b : TermBody) : String :=
  Py.joinSp ((termParams (keepHeight c) c b).map (Tok.render c.d))

/-- `FllExporter.term(term)` -/
def termText (c : Cfg) (t : Term) : String := Line.body c.d (termLine (keepHeight c) c t)

/-- `FllExporter.norm(norm)` -/
def normText (o : Option String) : String := o.getD "none"

def Activ.cls : Activ → String
  | .plain cls | .nth cls _ _ | .best cls _ | .threshold cls _ _ => cls

/-- the tokens of `activation.parameters()` -/
def activParamToks (c : Cfg) : Activ → List Tok
  | .plain _ => []
  | .nth _ r t => [.i r, numTok c t]
  | .best _ r => [.i r]
  | .threshold _ cmp t => [.w cmp, numTok c t]

/-- `activation.parameters()` -/
def activParameters (c : Cfg) (a : Activ) : String := Py.joinSp ((activParamToks c a).map (Tok.render c.d))

/-- `FllExporter.activation(activation)` -/
def activText (c : Cfg) (a : Option Activ) : String := Py.joinSp ((activToks c a).map (Tok.render c.d))

def Defuzz.cls : Defuzz → String
  | .integral cls _ | .weighted cls _ => cls

/-- the tokens of `defuzzifier.parameters()` -/
def defuzzParamToks : Defuzz → List Tok
  | .integral _ r => if r = (Gen.ExportTables.defaultResolution : Int) then [] else [.i r]
  | .weighted _ ty => if ty = "Automatic" then [] else [.w ty]

/-- `defuzzifier.parameters()` -/
def defuzzParameters (d : ℕ) (x : Defuzz) : String := Py.joinSp ((defuzzParamToks x).map (Tok.render d))

/-- `FllExporter.defuzzifier(defuzzifier)` -/
def defuzzText (d : ℕ) (x : Option Defuzz) : String := Py.joinSp ((defuzzToks x).map (Tok.render d))

/-- `rule.text` -/
def ruleText (c : Cfg) (r : Rule) : String := Py.joinSp ((ruleToks (keepHeight c) c r).map (Tok.render c.d))

/-- `FllExporter.rule(rule)` -/
def ruleLineText (c : Cfg) (r : Rule) : String := Line.body c.d (ruleLine (keepHeight c) c r)

/-- `FllExporter.variable(variable, terms)`; `hdr` is the key of `Op.class_name(variable)` -/
def variableText (c : Cfg) (indent sep : String) (hdr : Key) (v : Var) (terms : Bool) : String :=
  join sep (blockStrs indent c.d (varHead c hdr v ++ (if terms then v.terms.map (termLine (keepHeight c) c) else [])))

/-- `FllExporter.input_variable(variable)` -/
def inputText (c : Cfg) (indent sep : String) (v : Var) : String :=
  join sep (blockStrs indent c.d (inputLines (keepHeight c) c v))

/-- `FllExporter.output_variable(variable)` -/
def outputText (c : Cfg) (indent sep : String) (o : OutVar) : String :=
  join sep (blockStrs indent c.d (outputLines (keepHeight c) c o))

/-- `FllExporter.rule_block(rule_block)` -/
def blockText (c : Cfg) (indent sep : String) (b : Block) : String :=
  join sep (blockStrs indent c.d (blockLines (keepHeight c) c b))

/-! ### facts about the data the string-level ties rely on: class names are not the empty string (a Python class
has a name), a rule has an antecedent and a consequent -/

def termNamed (t : Term) : Prop := t.cls ≠ ""
def normNamed (o : Option String) : Prop := o ≠ some ""
def activNamed : Option Activ → Prop
  | none => True
  | some (.threshold cls cmp _) => cls ≠ "" ∧ cmp ≠ ""
  | some a => Activ.cls a ≠ ""
def defuzzNamed : Option Defuzz → Prop
  | none => True
  | some (.weighted cls ty) => cls ≠ "" ∧ ty ≠ ""
  | some (.integral cls _) => cls ≠ ""
def ruleNamed (r : Rule) : Prop := r.antecedent ≠ [] ∧ r.consequent ≠ []
def varNamed (v : Var) : Prop := ∀ t ∈ v.terms, termNamed t
def outNamed (o : OutVar) : Prop := varNamed o.base ∧ normNamed o.aggregation ∧ defuzzNamed o.defuzzifier
def blockNamed (b : Block) : Prop :=
  normNamed b.conjunction ∧ normNamed b.disjunction ∧ normNamed b.implication ∧ activNamed b.activation
def engineNamed (e : Engine) : Prop :=
  (∀ v ∈ e.inputs, varNamed v) ∧ (∀ o ∈ e.outputs, outNamed o) ∧ (∀ b ∈ e.blocks, blockNamed b)

end Py.Fll
