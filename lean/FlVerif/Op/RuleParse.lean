import FlVerif.Op.FormatInfix
import FlVerif.Spec.FloatLit

/-! # `Rule.parse` (rule.py): the five-state machine over the white-space separated tokens of the rule text

```python
comment_index = text.find("#"); rule = text if comment_index == -1 else text[0:comment_index]
s_begin, s_if, s_then, s_with, s_end = range(5)
```
The weight is `float(token)` (a `ValueError` when it is not the text of a number). -/

namespace Op
open Lang

inductive PState where
  | sBegin | sIf | sThen | sWith | sEnd
deriving DecidableEq, Repr

structure ParsedRule where
  ante : List String
  cons : List String
  weight : X Rat
deriving DecidableEq, Repr

/-- the loop: (state, antecedent, consequent, weight) threaded through the tokens -/
def parseLoop : PState → List String → List String → X Rat → List String →
    Except ErrKind (PState × List String × List String × X Rat)
  | s, a, c, w, [] => .ok (s, a, c, w)
  | .sBegin, a, c, w, t :: ts => if t = "if" then parseLoop .sIf a c w ts else .error .syntax
  | .sIf, a, c, w, t :: ts => if t = "then" then parseLoop .sThen a c w ts else parseLoop .sIf (a ++ [t]) c w ts
  | .sThen, a, c, w, t :: ts => if t = "with" then parseLoop .sWith a c w ts else parseLoop .sThen a (c ++ [t]) w ts
  | .sWith, a, c, _, t :: ts =>
      match parseFloat t with
      | some v => parseLoop .sEnd a c v ts
      | none => .error .value                       -- float(token) raises ValueError
  | .sEnd, _, _, _, _ :: _ => .error .syntax

/-- `Rule.parse` on the tokens of the text before `#` -/
def ruleParseTokens (ts : List String) : Except ErrKind ParsedRule :=
  match parseLoop .sBegin [] [] (.fin 1) ts with
  | .error e => .error e
  | .ok (s, a, c, w) =>
    if s = .sBegin ∨ s = .sIf ∨ s = .sWith then .error .syntax
    else if a = [] ∨ c = [] then .error .syntax
    else .ok ⟨a, c, w⟩

/-- `text[0:text.find("#")]` -/
def cutComment (cs : List Char) : List Char := cs.takeWhile (· != '#')

/-- `Rule.parse(text)` -/
def ruleParse (text : String) : Except ErrKind ParsedRule :=
  ruleParseTokens (scan [] (cutComment text.toList) 0 [])

end Op
