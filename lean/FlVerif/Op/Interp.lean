import FlVerif.Base.X

/-! # `Op.interp`: piecewise-linear interpolation as `numpy.interp(x, xp, fp)` computes it for a
non-decreasing `xp` (the call made by `Discrete.membership`)

`numpy.interp` returns `fp[0]` left of the first point, `fp[-1]` at and right of the last point and, for
`xp[j] ≤ x < xp[j+1]`, `fp[j] + (fp[j+1] - fp[j]) / (xp[j+1] - xp[j]) * (x - xp[j])` (for repeated abscissae the
rightmost `j` is taken).  NaN gives NaN, `-inf`/`+inf` give the first / last ordinate.  `Discrete.membership`
multiplies the result by the height.  This model is hand-written (not traced): it is tied to the code by the
correspondence run only. -/

namespace Op
variable {α : Type} [Field α] [LinearOrder α] [IsStrictOrderedRing α]

/-- walk to the right from the current point `p`: the segment `[p, q)` owns `x` when `x < q.1` -/
def interpGo : α × α → List (α × α) → α → α
  | p, [], _ => p.2
  | p, q :: rest, x =>
      if x < q.1 then p.2 + (q.2 - p.2) / (q.1 - p.1) * (x - p.1) else interpGo q rest x

/-- `numpy.interp(x, xs, ys)` for the points `pts = zip xs ys`; `0` for an empty list (the implementation raises) -/
def interp : List (α × α) → α → α
  | [], _ => 0
  | p :: rest, x => if x < p.1 then p.2 else interpGo p rest x

/-- ordinate of the last point (`d` for the empty list) -/
def lastY : α → List (α × α) → α
  | d, [] => d
  | _, q :: rest => lastY q.2 rest

/-- ordinate of the first point (`0` for the empty list) -/
def firstY : List (α × α) → α
  | [] => 0
  | p :: _ => p.2

/-- the same on extended arguments -/
def interpX (pts : List (α × α)) : X α → X α
  | .nan => .nan
  | .ninf => .fin (firstY pts)
  | .pinf => .fin (lastY 0 pts)
  | .fin x => .fin (interp pts x)

/-- `Discrete.membership`: `height * numpy.interp(x, xs, ys)` -/
def discrete (pts : List (α × α)) (h : X α) (x : X α) : X α := X.mul h (interpX pts x)

/-- pairs up a flat list `x₁ y₁ x₂ y₂ …` (driver input); `none` for an odd length -/
def pairs : List α → Option (List (α × α))
  | [] => some []
  | [_] => none
  | a :: b :: rest => (pairs rest).map ((a, b) :: ·)

end Op
