import FlVerif.Base.PyRaise
import FlVerif.Op.PyExtFunction
import FlVerif.Op.PyExtCascade
import FlVerif.Op.PyExtEngine
import FlVerif.Op.RuleLoad
import FlVerif.Op.Session
import FlVerif.Op.InputValues

/-! # Externals of the translated loading / unloading functions of `rule.py` and of `Engine.restart`

A rule object, as far as `load` / `unload` / `is_loaded` look at it: the texts of its two parts (the tokens
`Rule.parse` stored, `Op.ParsedRule`), the loaded antecedent tree (`antecedent.expression`, `None` when unloaded), the
loaded conclusions (`consequent.conclusions`) and whether it carries an activation (`deactivate()` resets
`activation_degree` and `triggered`).

The two calls `self.antecedent.load(engine)` and `self.consequent.load(engine)` are the *models* of the functions that
are tied on their own (`C06.code_antecedentLoad` with `C17.code_toPostfix`, `C16.code_consequentLoad`).  What the
externals add is what such a call leaves behind when it raises: both functions start with `self.unload()` and assign
the loaded part in their last statement, so a failing call leaves its own part unloaded and does not touch the other. -/

instance : Inhabited Py.Err := ⟨.internal⟩
instance : Inhabited (Op.OutState Rat) := ⟨⟨[], .nan⟩⟩
instance : Inhabited (Op.Engine.InVar Rat) := ⟨⟨"", false, .nan, [], .ninf, .pinf, false⟩⟩

namespace Py.Sess
open Op

/-- a `Rule` as `load` / `unload` / `is_loaded` see it -/
structure RuleObj where
  parsed : ParsedRule
  ante : Option ANode := none
  cons : List Conclusion := []
  activated : Bool := false

instance : Inhabited RuleObj := ⟨⟨⟨[], [], .nan⟩, none, [], false⟩⟩

/-- `rule.antecedent.load(engine)`: the model of `Antecedent.load` on the antecedent text; a failing load leaves
    `expression = None` -/
def anteLoad (tbl : Lang.Table) (e : EngineInfo) (r : RuleObj) : Except (Py.Err × RuleObj) RuleObj :=
  match antecedentLoad tbl e (joinWords r.parsed.ante) with
  | .ok a => .ok { r with ante := some a }
  | .error k => .error (Py.errOfKind k, { r with ante := none })

/-- `rule.consequent.load(engine)`: the model of `Consequent.load` on the consequent text; a failing load leaves
    `conclusions = []` -/
def consLoad (e : EngineInfo) (r : RuleObj) : Except (Py.Err × RuleObj) RuleObj :=
  match consequentLoad e (joinWords r.parsed.cons) with
  | .ok cs => .ok { r with cons := cs }
  | .error k => .error (Py.errOfKind k, { r with cons := [] })

/-- a partial NumPy operation (`a.item()` of an array with more than one element is a `ValueError`) -/
def orValueError {β : Type} : Option β → Py.M β
  | some x => .ok x
  | none => .error .value

/-- `a.shape[1]` of an array with fewer than two dimensions is an `IndexError` -/
def orIndexError {β : Type} : Option β → Py.M β
  | some x => .ok x
  | none => .error .lookup

end Py.Sess
