import FlVerif.Op.Configure
import FlVerif.Op.PyExtFllImport
import FlVerif.Base.PyRaise

/-! # Externals of the translated `Engine.configure` (`engine.py`) and `FllImporter.component` (`importer.py`)

`configure`: an argument `TNorm | str | None` is an `Op.Engine.OpArg`; `isinstance(x, str)` is its case test,
`factory.<kind>.construct(x)` is the factory of the parameter `F` on the name (the local is rebound to the object), and
the value that is assigned to a block / an output variable is `OpArg.value`.

`component`: the class argument is seen through the four `issubclass` tests; the result is the sum of what the four
methods of the importer return. -/

namespace Op.Engine
open Op.FllIO

/-- `isinstance(x, str)` -/
def OpArg.isName {T : Type} : OpArg T → Bool
  | .name _ => true
  | _ => false

/-- `factory.construct(x)`: the object of the registered class.  The code calls it on a `str` only; anything else is
    not a key of the factory (`ValueError`) -/
def OpArg.construct {T : Type} (f : String → Py.M T) : OpArg T → Py.M (OpArg T)
  | .name s => f s >>= fun o => .ok (.obj o)
  | _ => .error .value

/-- the value assigned by `block.conjunction = conjunction`.  When the assignments are reached a name has been
    replaced by the object constructed from it; the case `name` is never looked at (the tie holds for every argument) -/
def OpArg.value {T : Type} : OpArg T → Option T
  | .obj o => some o
  | _ => Option.none

end Op.Engine

namespace Py.W5
open Op.FllIO

/-- the class argument of `FllImporter.component`, as far as the four `issubclass` tests look at it -/
structure ClassOf where
  isActivation : Bool
  isDefuzzifier : Bool
  isSNorm : Bool
  isTNorm : Bool
deriving DecidableEq, Repr, Inhabited

/-- what `FllImporter.component` returns -/
inductive Component where
  | activation (a : Option Activ)
  | defuzzifier (d : Option Defuzz)
  | snorm (s : Option String)
  | tnorm (t : Option String)
deriving DecidableEq, Repr

instance : Inhabited Component := ⟨.tnorm none⟩

end Py.W5
