import FlVerif.Base.X

/-! # Code-shaped model of `OutputVariable.defuzzify` / `clear` (variable.py:496-545) and `Variable.value` setter

State of one output variable as far as the value cascade is concerned.  A scalar value is a batch of one
(`np.nditer` visits a 0-d array once; `np.take(value, -1)` reads it). -/

namespace Op
variable {α : Type} [Field α] [LinearOrder α] [IsStrictOrderedRing α]

structure CascadeCfg (α : Type) where
  enabled : Bool := true
  lockPrev : Bool
  lockRange : Bool
  dflt : X α          -- default value (NaN = not set)
  lo : X α
  hi : X α

/-- `value`: the committed batch (never empty in Python: a scalar is one row); `previous`: `previous_value` -/
structure OutState (α : Type) where
  value : List (X α)
  previous : X α

/-- `np.take(value, -1)`: last row (fallback for the impossible empty batch) -/
def lastOr (d : X α) : List (X α) → X α
  | [] => d
  | x :: xs => lastOr x xs

/-- the `np.nditer` fill-forward loop: NaN rows take the carried value, other rows become the carried value -/
def fill (p : X α) : List (X α) → List (X α)
  | [] => []
  | v :: vs => if X.isnan v then p :: fill p vs else v :: fill v vs

/-- the value carried after the loop -/
def carry (p : X α) : List (X α) → X α
  | [] => p
  | v :: vs => if X.isnan v then carry p vs else carry v vs

/-- default substitution (`value[isnan(value)] = default` when the default is not NaN) -/
def substDefault (c : CascadeCfg α) (v : X α) : X α :=
  if !X.isnan c.dflt && X.isnan v then c.dflt else v

/-- the `Variable.value` setter: clip when `lock_range` -/
def setter (c : CascadeCfg α) (v : X α) : X α :=
  if c.lockRange then X.clip v c.lo c.hi else v

/-- default substitution then the clipping setter, on one row -/
def post (c : CascadeCfg α) (v : X α) : X α := setter c (substDefault c v)

/-- body of `defuzzify` once the defuzzifier has returned the batch `raw` -/
def commit (c : CascadeCfg α) (raw : List (X α)) (s : OutState α) : OutState α :=
  let last := lastOr X.nan s.value
  let filled := if c.lockPrev then fill last raw else raw
  { value := filled.map (post c), previous := last }

/-- row-by-row processing: one `defuzzify` call per row, threading the state -/
def commitRows (c : CascadeCfg α) : List (X α) → OutState α → List (X α) × OutState α
  | [], s => ([], s)
  | x :: xs, s =>
    let r := commit c [x] s
    let rest := commitRows c xs r
    (r.value ++ rest.1, rest.2)

/-- `OutputVariable.defuzzify`: `raw = none` models a defuzzifier (or missing defuzzifier) that raises -/
def defuzzify (c : CascadeCfg α) (raw : Option (List (X α))) (s : OutState α) : OutState α × Bool :=
  if !c.enabled then (s, false)
  else match raw with
    | none => (s, true)            -- exception propagates, nothing was assigned
    | some r => (commit c r s, false)

/-- `OutputVariable.clear` (value goes through the clipping setter: `clip(nan) = nan`) -/
def clear (c : CascadeCfg α) (_s : OutState α) : OutState α :=
  { value := [setter c X.nan], previous := X.nan }

inductive CascadeOp (α : Type) where
  | defuzz (raw : Option (List (X α)))
  | clear
  | setEnabled (b : Bool)

def step (cs : CascadeCfg α × OutState α) : CascadeOp α → CascadeCfg α × OutState α
  | .defuzz raw => (cs.1, (defuzzify cs.1 raw cs.2).1)
  | .clear => (cs.1, clear cs.1 cs.2)
  | .setEnabled b => ({ cs.1 with enabled := b }, cs.2)

end Op

namespace Spec
variable {α : Type} [Field α] [LinearOrder α] [IsStrictOrderedRing α]

/-- the documented cascade for one row: defuzzified value; if NaN and lock-previous, the most recent value;
    if still NaN and a default is set, the default; finally clipped when lock-range -/
def cascadeRow (c : Op.CascadeCfg α) (recent : X α) (raw : X α) : X α :=
  let v := if c.lockPrev && X.isnan raw then recent else raw
  let v := if X.isnan v && !X.isnan c.dflt then c.dflt else v
  if c.lockRange then X.clip v c.lo c.hi else v

end Spec
