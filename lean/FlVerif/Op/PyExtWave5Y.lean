import FlVerif.Base.Py
import FlVerif.Base.X
import FlVerif.Op.PyExt
import FlVerif.Op.PyExtTermParse
import FlVerif.Op.PyExtFllExport

/-! # Externals and models of the fifth wave (group Y): constructors, `parameters` / `configure` of the term classes and
of the activation methods (`fv/profiles/wave5y.py`)

* `Stored T`: what a constructor stores for a list argument – the items and whether the stored list is a **new** list
  object (`list(x or [])`, a list literal that is then extended) or the caller's own list.  The translated values are
  immutable, so "copied or shared" is not visible in the items; the flag makes it part of the record, and the profiles
  type the fields as `Stored T`, so that an assignment of the argument itself (an alias) does not type-check.
* `toInt rdi`: `int(text)` for a reader `rdi` (a parameter of the theorems, like `rd` for `to_float`).
* `CmpArg`: the argument `comparator: Comparator | str` of `Threshold.__init__`; a member of the enumeration is
  represented by its value (its symbol).  `Threshold.Comparator(text)` is the look-up by value in the regenerated
  enumeration table (`ValueError` for a text that is no symbol).
* `triangleVertices` / `trapezoidVertices`: the vertices `Triangle.__init__` / `Trapezoid.__init__` store (new models:
  the constructors *compute* the missing vertices when the last argument(s) are NaN).
* `activToks` / `thresholdToks`: the tokens of the parameter text of an activation method, with the readers as
  parameters (`Op.FllIO.activParamToks` is the instance with `parseInt` / `parseNum`).
* `ReadsBack` / `ReadsBackActiv`: the joint of the round trip – reading the printed parameters gives the tokens that were
  printed (`str.split` of the joined words, CPython's `float(text)` of a printed decimal: the trusted step of C14). -/

namespace Py.W5Y
open Op.FllIO Dec

/-! ## stored lists -/

structure Stored (T : Type) where
  items : List T := []
  /-- the stored object is a new list (not the list the caller passed) -/
  isNew : Bool := true
deriving DecidableEq, Repr

instance {T : Type} : Inhabited (Stored T) := ⟨{}⟩

/-- `list(x or [])`: a new list with the items of `x`; no items for `None` (and for an empty `x`) -/
def Stored.copyOf {T : Type} (x : Option (List T)) : Stored T := ⟨x.getD [], true⟩

/-- a list display `[a, b, …]` (a new list) -/
def Stored.fresh {T : Type} (l : List T) : Stored T := ⟨l, true⟩

/-- `l.extend(more)`: the same list object, longer -/
def Stored.extend {T : Type} (s : Stored T) (more : List T) : Stored T := { s with items := s.items ++ more }

/-- truth value of an argument `Iterable | None` that is a list: false for `None` and for an empty list -/
def truthyOptList {T : Type} : Option (List T) → Bool
  | some (_ :: _) => true
  | _ => false

/-! ## readers -/

/-- `int(text)` -/
def toInt (rdi : String → Option Int) (s : String) : Py.M Int :=
  match rdi s with
  | some z => .ok z
  | none => .error .value

/-! ## `Threshold.Comparator` -/

/-- the argument `comparator: Comparator | str`; a member is represented by its symbol -/
inductive CmpArg where
  | text (s : String)
  | member (symbol : String)
deriving DecidableEq, Repr, Inhabited

/-- `isinstance(comparator, str)` -/
def CmpArg.isStr : CmpArg → Bool
  | .text _ => true
  | .member _ => false

/-- the symbols of the enumeration (regenerated table) -/
def symbols : List String := Op.FllIO.comparatorSymbols

/-- `Threshold.Comparator(text)`: the member whose value is the text, as its symbol; `ValueError` otherwise -/
def comparatorOfText (s : String) : Py.M String :=
  if s ∈ symbols then .ok s else .error .value

/-- `Threshold.Comparator(x)` for `x : Comparator | str` (a member is returned as it is) -/
def comparatorOf : CmpArg → Py.M CmpArg
  | .text s => (comparatorOfText s).map .member
  | .member s => .ok (.member s)

/-! ## the vertices the constructors of `Triangle` / `Trapezoid` store -/

/-- `Triangle(name, left, top, right)`: with `right` NaN the two numbers given are the *ends* and the top is their
    midpoint `0.5 * (left + top)` -/
def triangleVertices (left top right : X Rat) : X Rat × X Rat × X Rat :=
  if X.isnan right then (left, X.mul (.fin (1 / 2)) (X.add left top), top) else (left, top, right)

/-- `Trapezoid(name, bottom_left, top_left, top_right, bottom_right)`: with `top_right` **and** `bottom_right` NaN the two
    numbers given are the ends, the top runs from 1/5 to 4/5 of the range (`bl + range * 1.0 / 5.0`, `bl + range * 4.0 / 5.0`) -/
def trapezoidVertices (bl tl tr br : X Rat) : X Rat × X Rat × X Rat × X Rat :=
  if X.isnan tr && X.isnan br then
    (bl, X.add bl (X.div (X.mul (X.sub tl bl) (.fin 1)) (.fin 5)), X.add bl (X.div (X.mul (X.sub tl bl) (.fin 4)) (.fin 5)), tl)
  else (bl, tl, tr, br)

/-! ## tokens of the parameter text of an activation method -/

/-- the first word is read with `int`, the others with `to_float` (`First`, `Last`, `Highest`, `Lowest`) -/
def activToks (rdi : String → Option Int) (rd : String → Option Num) : List String → List Tok
  | [] => []
  | x :: xs => (match rdi x with | some z => Tok.i z | none => Py.FllIn.tokOf rd x) :: xs.map (Py.FllIn.tokOf rd)

/-- the first word is the comparator symbol, the others are read with `to_float` (`Threshold`) -/
def thresholdToks (rd : String → Option Num) : List String → List Tok
  | [] => []
  | x :: xs => Tok.w x :: xs.map (Py.FllIn.tokOf rd)

/-! ## the joint of the round trip -/

/-- reading the printed parameters of a term gives the tokens that were printed -/
def ReadsBack (rd : String → Option Num) (c : Cfg) (b : TermBody) : Prop :=
  Py.FllIn.toks rd (Py.Fll.termParameters c b) = termParams (keepHeight c) c b

/-- reading the printed parameters of an activation method (`int` / `to_float` readers) gives the tokens printed -/
def ReadsBackActiv (rdi : String → Option Int) (rd : String → Option Num) (c : Cfg) (a : Activ) : Prop :=
  Py.Fll.activParameters c a ≠ "" ∧
  activToks rdi rd (Py.split (Py.Fll.activParameters c a)) = Py.Fll.activParamToks c a

/-- the same for `Threshold` (the comparator symbol stays a word) -/
def ReadsBackThreshold (rd : String → Option Num) (c : Cfg) (a : Activ) : Prop :=
  Py.Fll.activParameters c a ≠ "" ∧
  thresholdToks rd (Py.split (Py.Fll.activParameters c a)) = Py.Fll.activParamToks c a

end Py.W5Y
