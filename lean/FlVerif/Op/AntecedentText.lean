import FlVerif.Op.PyExtLoad
import FlVerif.Spec.Expr

/-! # The texts of a loaded antecedent (rule.py): `Proposition.__str__`, `Antecedent.prefix / infix / postfix`

On the tree `Py.Load.Expression` that `Antecedent.load` builds.  A child that is `None` contributes nothing; the method
called without a node renders `self.expression` and raises `RuntimeError` when the antecedent is not loaded. -/

namespace Op.AntecedentText
open Py.Load Lang

/-- `str(proposition)`: `variable is hedge* term` (the parts that are set) -/
def propText (p : Proposition) : String :=
  Py.joinSp ([p.variable_.name, "is"] ++ p.hedges ++ p.term_.toList)

/-- `Antecedent.prefix(node)` for a node that is not `None` -/
def pfxText : Expression → String
  | .none => ""
  | .prop p => propText p
  | .op name l r =>
    Py.joinSp ([name] ++ (match l with | .none => [] | _ => [pfxText l]) ++ (match r with | .none => [] | _ => [pfxText r]))

/-- `Antecedent.infix(node)` -/
def infText : Expression → String
  | .none => ""
  | .prop p => propText p
  | .op name l r =>
    Py.joinSp ((match l with | .none => [] | _ => [infText l]) ++ [name] ++ (match r with | .none => [] | _ => [infText r]))

/-- `Antecedent.postfix(node)` -/
def postText : Expression → String
  | .none => ""
  | .prop p => propText p
  | .op name l r =>
    Py.joinSp ((match l with | .none => [] | _ => [postText l]) ++ (match r with | .none => [] | _ => [postText r]) ++ [name])

/-- the method as it is called: `node = None` stands for `self.expression`; nothing loaded is a `RuntimeError` -/
def render (text : Expression → String) (expression node : Expression) : Except ErrKind String :=
  let n := if node = .none then expression else node
  if n = .none then .error .runtime else .ok (text n)

end Op.AntecedentText
