import FlVerif.Op.PyExt
import FlVerif.Op.Engine

/-! # Externals of the translated `Engine.process` (`engine.py`)

The generated code works on the data of `Op.Engine` (one input row).  The three calls in the loops of `process` are
methods of other classes: `Aggregated.clear`, `RuleBlock.activate` (`Op.Engine.activateBlock`) and
`OutputVariable.defuzzify` (the raw defuzzified value `Op.Engine.defuzzRaw`; the value cascade that follows it is tied
separately, `C12.code_defuzzify`).  The models of these methods return `none` when the method raises; the exception
class is not part of them. -/

namespace Py.Eng
open Op.Engine

instance : Inhabited (OutVar Rat) := ⟨⟨"", false, .nan, .nan, false, false, .nan, none, .missing, []⟩⟩
instance : Inhabited (Block Rat) := ⟨⟨false, none, none, none, .missing, []⟩⟩

/-- a method whose model returns `none` raises (the models do not say which exception) -/
def ofOption {β : Type} : Option β → Py.M β
  | some x => .ok x
  | none => .error .value

/-- `variable.defuzzify()` as far as `Op.Engine.processRow` records it: the raw defuzzified value of an enabled
    variable on its fuzzy output (`none` for a disabled one, which returns at once) -/
def defuzzifyVar (F : Fn Rat) (e : EngineD Rat) (fz : Fuzzy Rat) (p : Nat × OutVar Rat) : Py.M (Option (X Rat)) :=
  if p.2.enabled then
    ofOption (defuzzRaw F (e.inputs.map (·.value)) p.2 (fz.getD p.1 [])) >>= fun r => .ok (some r)
  else .ok none

end Py.Eng
