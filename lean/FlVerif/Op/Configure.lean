import FlVerif.Base.Py
import FlVerif.Op.FllIO

/-! # `Engine.configure`  (engine.py:144; code-shaped)

`configure(conjunction, disjunction, implication, aggregation, defuzzifier, activation)` takes, for each of the six
operators, an object, the name of a class registered in the matching factory, or `None` (the default of every
parameter).  Names are turned into objects first - all six, in the order of the parameters, each through
`factory.construct`, which raises `ValueError` for a name that is not registered -, and only then the six values are
*assigned* to every rule block (`conjunction`, `disjunction`, `implication`, `activation`) and every output variable
(`aggregation`, `defuzzifier`).  Two consequences the laws of `Props/C14.lean` state:

* `None` is assigned like any other value: `engine.configure(conjunction="Minimum")` CLEARS the five other operators
  of every block and output variable (it does not leave them as they were);
* the factories are consulted before any assignment, so a call that raises has changed nothing.

The engine is the record of the FLL model (`Op/FllIO.lean`: a norm is its class name, a defuzzifier / an activation
method is its class name with its parameters); the factories are parameters (`Factories`). -/

namespace Op.Engine
open Op.FllIO

/-- an argument of `configure`: `None`, the name of a registered class, or an object -/
inductive OpArg (T : Type) where
  | none
  | name (s : String)
  | obj (o : T)
deriving DecidableEq, Repr

instance {T : Type} : Inhabited (OpArg T) := ⟨.none⟩

structure ConfigArgs where
  conjunction : OpArg String := .none
  disjunction : OpArg String := .none
  implication : OpArg String := .none
  aggregation : OpArg String := .none
  defuzzifier : OpArg Defuzz := .none
  activation : OpArg Activ := .none
deriving DecidableEq, Repr, Inhabited

/-- `factory.<kind>.construct(name)` of the four factories `configure` uses -/
structure Factories where
  tnorm : String → Py.M String
  snorm : String → Py.M String
  defuzzifier : String → Py.M Defuzz
  activation : String → Py.M Activ

/-- `if isinstance(x, str): x = factory.construct(x)`: what is assigned afterwards -/
def OpArg.resolve {T : Type} (construct : String → Py.M T) : OpArg T → Py.M (Option T)
  | .none => .ok Option.none
  | .obj o => .ok (some o)
  | .name s => construct s >>= fun o => .ok (some o)

/-- the six values after the factories have been consulted -/
structure Resolved where
  conjunction : Option String
  disjunction : Option String
  implication : Option String
  aggregation : Option String
  defuzzifier : Option Defuzz
  activation : Option Activ
deriving DecidableEq, Repr

/-- the six `if isinstance(…, str)` statements, in order: the first name that is not registered raises -/
def resolveAll (F : Factories) (a : ConfigArgs) : Py.M Resolved :=
  a.conjunction.resolve F.tnorm >>= fun c =>
  a.disjunction.resolve F.snorm >>= fun d =>
  a.implication.resolve F.tnorm >>= fun i =>
  a.aggregation.resolve F.snorm >>= fun g =>
  a.defuzzifier.resolve F.defuzzifier >>= fun z =>
  a.activation.resolve F.activation >>= fun t =>
  .ok ⟨c, d, i, g, z, t⟩

/-- the four assignments to a rule block -/
def Resolved.setBlock (r : Resolved) (b : Block) : Block :=
  { b with conjunction := r.conjunction, disjunction := r.disjunction, implication := r.implication,
           activation := r.activation }

/-- the two assignments to an output variable -/
def Resolved.setOutput (r : Resolved) (v : OutVar) : OutVar :=
  { v with aggregation := r.aggregation, defuzzifier := r.defuzzifier }

/-- **`Engine.configure`** -/
def configure (F : Factories) (a : ConfigArgs) (e : Engine) : Py.M Engine :=
  resolveAll F a >>= fun r =>
  .ok { e with blocks := e.blocks.map r.setBlock, outputs := e.outputs.map r.setOutput }

end Op.Engine
