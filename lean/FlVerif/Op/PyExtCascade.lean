import FlVerif.Op.PyExt
import FlVerif.Op.Cascade

/-! # Externals of the translated `OutputVariable.defuzzify` (`variable.py`)

The NumPy array `value` is the list of its rows (`List (X Rat)`; a scalar is one row).  The two NumPy statements the
translator does not look into are the masked assignment and the clipping setter of `Variable.value`; the defuzzifier
itself is a parameter of the generated code (its result, or the exception it raises). -/

namespace Py.Cascade

/-- `value[np.isnan(value)] = d`: every NaN row becomes `d` -/
def maskNan (value : List (X Rat)) (d : X Rat) : List (X Rat) :=
  value.map (fun v => if X.isnan v then d else v)

/-- `self.value = value` – the setter of `Variable.value` (`np.clip(value, minimum, maximum) if lock_range else value`),
    row by row: `Op.setter` -/
def setValue (c : Op.CascadeCfg Rat) (value : List (X Rat)) : List (X Rat) := value.map (Op.setter c)

end Py.Cascade
