import FlVerif.Base.Py
import FlVerif.Op.Settings

/-! # Externals of the translated `Settings.context` (`library.py`)

The settings object is a map from attribute index to value; a value of Python is `None` or an abstract identifier. -/

namespace Py.Settings

/-- `setattr(self, key, value)` -/
def setattr (s : Nat → Option Nat) (k : Nat) (v : Option Nat) : Nat → Option Nat := fun k' => if k' = k then v else s k'

end Py.Settings
