import FlVerif.Spec.Activation

/-! # `Activation.activate` of the seven methods  (C08, code-shaped)

Each loop of `fuzzylite/activation.py` as a recursion over the enumerated rule list (First / General /
Threshold / Highest / Lowest / Proportional visit `rule_block.rules`, Last visits `reversed(rule_block.rules)`),
mutation as returned state, `assert_is_not_vector` as `Except.error`.  `heapq` is modelled by its contract: the
heap is a list kept ordered by `heappush` (ordered insertion under Python's tuple `<`), `heappop` takes its head. -/

namespace Op.Activation
open Spec.Activation
variable {α : Type} [Field α] [LinearOrder α] [IsStrictOrderedRing α]

/-- `ValueError` of `assert_is_not_vector` -/
inductive Err | value
deriving DecidableEq, Repr

abbrev Fire (α : Type) := Nat × X α
abbrev Visit (α : Type) := Nat × Rule α

/-- `Rule.deactivate` -/
def deactivate (r : Rule α) : Rule α := { r with actDegree := .fin 0, triggered := false }
/-- `Rule.activate_with`: stores (and returns) `weight * antecedent degree` -/
def activateWith (r : Rule α) : Rule α := { r with actDegree := r.degree }
/-- `Rule.trigger` of a loaded rule: `triggered = False; if enabled: consequent.modify(degree, implication);
    triggered = degree > 0` -/
def trigger (i : Nat) (r : Rule α) : Rule α × List (Fire α) :=
  if r.enabled then ({ r with triggered := X.lt (.fin 0) r.actDegree }, [(i, r.actDegree)])
  else ({ r with triggered := false }, [])

/-! ## General -/

def generalLoop : List (Visit α) → List (Visit α) × List (Fire α)
  | [] => ([], [])
  | (i, r) :: rest =>
    let r₀ := deactivate r
    let p := if r₀.loaded then trigger i (activateWith r₀) else (r₀, [])
    let q := generalLoop rest
    ((i, p.1) :: q.1, p.2 ++ q.2)

/-! ## First / Last: the loop with the `activated` counter -/

def countLoop (n : Nat) (t : X α) : Nat → List (Visit α) → Except Err (List (Visit α) × List (Fire α))
  | _, [] => .ok ([], [])
  | k, (i, r) :: rest =>
    let r₀ := deactivate r
    if r₀.loaded then
      let r₁ := activateWith r₀
      if r₁.vector then .error .value                                         -- assert_is_not_vector
      else if decide (k < n) && X.lt (.fin 0) r₁.actDegree && X.le t r₁.actDegree then
        let p := trigger i r₁
        (countLoop n t (k + 1) rest).map (fun q => ((i, p.1) :: q.1, p.2 ++ q.2))
      else (countLoop n t k rest).map (fun q => ((i, r₁) :: q.1, q.2))
    else (countLoop n t k rest).map (fun q => ((i, r₀) :: q.1, q.2))

/-! ## Threshold -/

def thresholdLoop (c : Comparator) (t : X α) : List (Visit α) → Except Err (List (Visit α) × List (Fire α))
  | [] => .ok ([], [])
  | (i, r) :: rest =>
    let r₀ := deactivate r
    if r₀.loaded then
      let r₁ := activateWith r₀
      if r₁.vector then .error .value
      else
        let p := if c.eval r₁.actDegree t then trigger i r₁ else (r₁, [])
        (thresholdLoop c t rest).map (fun q => ((i, p.1) :: q.1, p.2 ++ q.2))
    else (thresholdLoop c t rest).map (fun q => ((i, r₀) :: q.1, q.2))

/-! ## Highest / Lowest: heap of `(∓degree, index)` -/

/-- Python's `<` on the tuples `(key, index)`: compare the first components unless they are `==` -/
def keyLt (a b : X α × Nat) : Bool := if X.eq a.1 b.1 then decide (a.2 < b.2) else X.lt a.1 b.1

/-- `heapq.heappush` (contract: the heap is kept in pop order) -/
def heappush (heap : List (X α × Nat)) (x : X α × Nat) : List (X α × Nat) := insertBy keyLt x heap

/-- first loop of Highest (`key = neg`) / Lowest (`key = id`): degrees computed, positive ones pushed -/
def pushLoop (key : X α → X α) : List (X α × Nat) → List (Visit α) → Except Err (List (Visit α) × List (X α × Nat))
  | heap, [] => .ok ([], heap)
  | heap, (i, r) :: rest =>
    let r₀ := deactivate r
    if r₀.loaded then
      let r₁ := activateWith r₀
      if r₁.vector then .error .value
      else if X.lt (.fin 0) r₁.actDegree then
        (pushLoop key (heappush heap (key r₁.actDegree, i)) rest).map (fun q => ((i, r₁) :: q.1, q.2))
      else (pushLoop key heap rest).map (fun q => ((i, r₁) :: q.1, q.2))
    else (pushLoop key heap rest).map (fun q => ((i, r₀) :: q.1, q.2))

/-- `rule_block.rules[index]`: apply `g` to the degree, then trigger (identity for Highest / Lowest) -/
def triggerAt (g : X α → X α) (idx : Nat) (rules : List (Rule α)) : List (Rule α) × List (Fire α) :=
  match rules[idx]? with
  | some r =>
    let p := trigger idx { r with actDegree := g r.actDegree }
    (rules.set idx p.1, p.2)
  | none => (rules, [])

/-- `while activate and activated < self.rules: index = heappop(activate)[1]; rules[index].trigger(...)` -/
def popLoop (n : Nat) : Nat → List (X α × Nat) → List (Rule α) → List (Rule α) × List (Fire α)
  | _, [], rules => (rules, [])
  | k, x :: heap, rules =>
    if k < n then
      let p := triggerAt id x.2 rules
      let q := popLoop n (k + 1) heap p.1
      (q.1, p.2 ++ q.2)
    else (rules, [])

/-! ## Proportional: two passes -/

/-- first pass: degrees computed, positive rules collected (by index) and summed -/
def sumLoop : X α → List (Visit α) → Except Err (List (Visit α) × List Nat × X α)
  | s, [] => .ok ([], [], s)
  | s, (i, r) :: rest =>
    let r₀ := deactivate r
    if r₀.loaded then
      let r₁ := activateWith r₀
      if r₁.vector then .error .value
      else if X.lt (.fin 0) r₁.actDegree then
        (sumLoop (X.add s r₁.actDegree) rest).map (fun q => ((i, r₁) :: q.1, i :: q.2.1, q.2.2))
      else (sumLoop s rest).map (fun q => ((i, r₁) :: q.1, q.2.1, q.2.2))
    else (sumLoop s rest).map (fun q => ((i, r₀) :: q.1, q.2.1, q.2.2))

/-- second pass: `rule.activation_degree /= sum_degrees; rule.trigger(implication)` -/
def divLoop (s : X α) : List Nat → List (Rule α) → List (Rule α) × List (Fire α)
  | [], rules => (rules, [])
  | idx :: rest, rules =>
    let p := triggerAt (fun d => X.div d s) idx rules
    let q := divLoop s rest p.1
    (q.1, p.2 ++ q.2)

/-! ## `RuleBlock.activate` -/

def snds (l : List (Visit α)) : List (Rule α) := l.map (·.2)

def activate (m : Method α) (rs : List (Rule α)) : Except Err (Outcome α) :=
  match m with
  | .general => let q := generalLoop (enum 0 rs); .ok ⟨snds q.1, q.2⟩
  | .first n t => (countLoop n t 0 (enum 0 rs)).map (fun q => ⟨snds q.1, q.2⟩)
  | .last n t => (countLoop n t 0 (enum 0 rs).reverse).map (fun q => ⟨snds q.1.reverse, q.2⟩)
  | .highest n =>
    (pushLoop X.neg [] (enum 0 rs)).map (fun q => let z := popLoop n 0 q.2 (snds q.1); ⟨z.1, z.2⟩)
  | .lowest n =>
    (pushLoop id [] (enum 0 rs)).map (fun q => let z := popLoop n 0 q.2 (snds q.1); ⟨z.1, z.2⟩)
  | .proportional =>
    (sumLoop (.fin 0) (enum 0 rs)).map (fun q => let z := divLoop q.2.2 q.2.1 (snds q.1); ⟨z.1, z.2⟩)
  | .threshold c t => (thresholdLoop c t (enum 0 rs)).map (fun q => ⟨snds q.1, q.2⟩)

end Op.Activation
