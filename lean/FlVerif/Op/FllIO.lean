import FlVerif.Base.Dec
import FlVerif.Gen.Tables
import FlVerif.Gen.ExportTables

/-! Token-level model of the FuzzyLite Language exporter and importer (C14).

Follows `FllExporter` (exporter.py), `FllImporter` (importer.py), `Term._parameters/_parse`, the
`parameters()/configure()` pairs of terms, defuzzifiers and activation methods, and `Rule.text/parse`.
A *line* is a key and the whitespace-separated tokens of its value; a number token carries the exact value
that `to_float` reads; text-valued lines (names, descriptions, formulas) carry their text as one token.
Which classes exist, how many parameters a term takes and whether it has an optional height, and the
parameter lists of defuzzifiers / activation methods come from the regenerated tables.

The rule "print the height / weight" is a parameter (`keep`) so that both the current printer
(`keepHeight`: neither the value nor its printed form is within the tolerance of 1) and the pinned one
(`keepHeightPinned`: the exact value is not within the tolerance – defect F11) are available. -/

namespace Op.FllIO
open Dec

structure Cfg where
  d : ℕ          -- settings.decimals
  tol : ℚ        -- settings.atol + settings.rtol · 1
deriving Repr

/-- `not (Op.is_close(h, 1.0) or Op.is_close(to_float(Op.str(h)), 1.0))` -/
def keepHeight (c : Cfg) (h : Num) : Bool := !(isClose1 c.tol h || isClose1 c.tol (rnd c.d h))

/-- the pinned tree: `not Op.is_close(h, 1.0)` -/
def keepHeightPinned (c : Cfg) (h : Num) : Bool := !(isClose1 c.tol h)

/-! ### tokens and lines -/

inductive Tok where
  | w (s : String)      -- a word / a whole text
  | n (x : Num)         -- a floating-point literal
  | i (z : Int)         -- an integer literal (where the importer calls `int(...)`)
deriving DecidableEq, Repr, Inhabited

inductive Key where
  | engine | inputVariable | outputVariable | ruleBlock
  | description | enabled | range | lockRange | term
  | aggregation | defuzzifier | default | lockPrevious
  | conjunction | disjunction | implication | activation | rule
  | other (s : String)
deriving DecidableEq, Repr, Inhabited

structure Line where
  key : Key
  toks : List Tok
deriving DecidableEq, Repr, Inhabited

inductive Err where
  | syntax     -- SyntaxError
  | value      -- ValueError
  | key        -- KeyError
deriving DecidableEq, Repr, Inhabited

/-! ### the engine -/

inductive TermBody where
  | shape (ps : List Num) (height : Option Num)   -- classes configured through `Term._parse`
  | discrete (xy : List Num) (height : Num)
  | linear (cs : List Num)
  | function (formula : String)
deriving DecidableEq, Repr, Inhabited

structure Term where
  name : String
  cls : String
  body : TermBody
deriving DecidableEq, Repr, Inhabited

inductive Defuzz where
  | integral (cls : String) (resolution : Int)
  | weighted (cls : String) (type : String)
deriving DecidableEq, Repr, Inhabited

inductive Activ where
  | plain (cls : String)
  | nth (cls : String) (rules : Int) (threshold : Num)      -- First, Last
  | best (cls : String) (rules : Int)                        -- Highest, Lowest
  | threshold (cls : String) (cmp : String) (threshold : Num)
deriving DecidableEq, Repr, Inhabited

structure Rule where
  antecedent : List String
  consequent : List String
  weight : Num
deriving DecidableEq, Repr, Inhabited

structure Var where
  name : String := ""
  description : String := ""
  enabled : Bool := true
  lo : Num := .ninf
  hi : Num := .pinf
  lockRange : Bool := false
  terms : List Term := []
deriving DecidableEq, Repr, Inhabited

structure OutVar where
  base : Var := {}
  aggregation : Option String := none
  defuzzifier : Option Defuzz := none
  default : Num := .nan
  lockPrevious : Bool := false
deriving DecidableEq, Repr, Inhabited

structure Block where
  name : String := ""
  description : String := ""
  enabled : Bool := true
  conjunction : Option String := none
  disjunction : Option String := none
  implication : Option String := none
  activation : Option Activ := none
  rules : List Rule := []
deriving DecidableEq, Repr, Inhabited

structure Engine where
  name : String := ""
  description : String := ""
  inputs : List Var := []
  outputs : List OutVar := []
  blocks : List Block := []
deriving DecidableEq, Repr, Inhabited

/-! ### helpers shared by both directions -/

/-- `Op.as_identifier` (ASCII reading of `isalnum` / `isnumeric`) -/
def identChar (c : Char) : Bool := c.isAlphanum || c == '_'

def asIdentChars (cs : List Char) : List Char :=
  let f := cs.filter identChar
  match f with
  | [] => ['_']
  | c :: r => if c.isDigit then '_' :: c :: r else c :: r

def asIdent (s : String) : String := String.ofList (asIdentChars s.toList)

/-- kinds of parameter lists, read off the regenerated constructor table -/
def paramNames (cls : String) : Option (List String) :=
  (Gen.ExportTables.ctorParams.lookup cls).map (fun ps => ps.map (·.1))

inductive DefuzzKind where | integral | weighted
deriving DecidableEq, Repr

def defuzzKind (cls : String) : Option DefuzzKind :=
  if cls ∈ Gen.Tables.defuzzifierKeys then
    match paramNames cls with
    | some ["resolution"] => some .integral
    | some ["type"] => some .weighted
    | _ => none
  else none

inductive ActivKind where | plain | nth | best | threshold
deriving DecidableEq, Repr

def activKind (cls : String) : Option ActivKind :=
  if cls ∈ Gen.Tables.activationKeys then
    match paramNames cls with
    | some [] => some .plain
    | some ["rules", "threshold"] => some .nth
    | some ["rules"] => some .best
    | some ["comparator", "threshold"] => some .threshold
    | _ => none
  else none

/-- (required parameters, optional height) of the classes configured through `Term._parse` -/
def termArity (cls : String) : Option (ℕ × Bool) := Gen.Tables.termParse.lookup cls

def isSpecialTerm (cls : String) : Bool := cls = "Function" || cls = "Linear" || cls = "Discrete"

/-! ### export (exporter.py) -/

section Exporter
variable (keep : Num → Bool) (c : Cfg)

def numTok (x : Num) : Tok := .n (rnd c.d x)

/-- `Term._parameters`: the height is appended when `keep` says so -/
def heightToks (h : Num) : List Tok := if keep h then [numTok c h] else []

/-- `term.parameters()` -/
def termParams : TermBody → List Tok
  | .shape ps none => ps.map (numTok c)
  | .shape ps (some h) => ps.map (numTok c) ++ heightToks keep c h
  | .discrete xy h => xy.map (numTok c) ++ heightToks keep c h
  | .linear cs => cs.map (numTok c)
  | .function f => if f = "" then [] else [.w f]

/-- `FllExporter.term` -/
def termLine (t : Term) : Line := ⟨.term, .w (asIdent t.name) :: .w t.cls :: termParams keep c t.body⟩

def boolTok (b : Bool) : Tok := .w (if b then "true" else "false")
/-- `format(key, text)`: an empty text prints nothing after the key -/
def textToks (s : String) : List Tok := if s = "" then [] else [.w s]
def normTok (o : Option String) : Tok := .w (o.getD "none")

/-- `FllExporter.defuzzifier` with `IntegralDefuzzifier.parameters` / `WeightedDefuzzifier.parameters` -/
def defuzzToks : Option Defuzz → List Tok
  | none => [.w "none"]
  | some (.integral cls r) => .w cls :: (if r = (Gen.ExportTables.defaultResolution : Int) then [] else [.i r])
  | some (.weighted cls ty) => .w cls :: (if ty = "Automatic" then [] else [.w ty])

/-- `FllExporter.activation` with the `parameters()` of the activation methods -/
def activToks : Option Activ → List Tok
  | none => [.w "none"]
  | some (.plain cls) => [.w cls]
  | some (.nth cls r t) => [.w cls, .i r, numTok c t]
  | some (.best cls r) => [.w cls, .i r]
  | some (.threshold cls cmp t) => [.w cls, .w cmp, numTok c t]

/-- `Rule.text` -/
def ruleToks (r : Rule) : List Tok :=
  .w "if" :: r.antecedent.map .w ++ .w "then" :: r.consequent.map .w ++
    (if keep r.weight then [.w "with", numTok c r.weight] else [])

def ruleLine (r : Rule) : Line := ⟨.rule, ruleToks keep c r⟩

/-- head of `FllExporter.variable`: header, optional description, enabled, range, lock-range -/
def varHead (hdr : Key) (v : Var) : List Line :=
  ⟨hdr, textToks v.name⟩ ::
    (if v.description = "" then [] else [⟨.description, [.w v.description]⟩]) ++
    [⟨.enabled, [boolTok v.enabled]⟩, ⟨.range, [numTok c v.lo, numTok c v.hi]⟩, ⟨.lockRange, [boolTok v.lockRange]⟩]

/-- `FllExporter.input_variable` -/
def inputLines (v : Var) : List Line := varHead c .inputVariable v ++ v.terms.map (termLine keep c)

/-- `FllExporter.output_variable` -/
def outputLines (o : OutVar) : List Line :=
  varHead c .outputVariable o.base ++
    [⟨.aggregation, [normTok o.aggregation]⟩, ⟨.defuzzifier, defuzzToks o.defuzzifier⟩,
     ⟨.default, [numTok c o.default]⟩, ⟨.lockPrevious, [boolTok o.lockPrevious]⟩] ++
    o.base.terms.map (termLine keep c)

/-- `FllExporter.rule_block` -/
def blockLines (b : Block) : List Line :=
  ⟨.ruleBlock, textToks b.name⟩ ::
    (if b.description = "" then [] else [⟨.description, [.w b.description]⟩]) ++
    [⟨.enabled, [boolTok b.enabled]⟩, ⟨.conjunction, [normTok b.conjunction]⟩,
     ⟨.disjunction, [normTok b.disjunction]⟩, ⟨.implication, [normTok b.implication]⟩,
     ⟨.activation, activToks c b.activation⟩] ++
    b.rules.map (ruleLine keep c)

def engineHead (e : Engine) : List Line :=
  ⟨.engine, textToks e.name⟩ :: (if e.description = "" then [] else [⟨.description, [.w e.description]⟩])

/-- `FllExporter.engine` (the trailing empty line is layout) -/
def exportWith (e : Engine) : List Line :=
  engineHead e ++ (e.inputs.map (inputLines keep c)).flatten ++ (e.outputs.map (outputLines keep c)).flatten ++
    (e.blocks.map (blockLines keep c)).flatten

end Exporter

/-- the exporter of the current tree -/
def fllExport (c : Cfg) (e : Engine) : List Line := exportWith (keepHeight c) c e
/-- the exporter of the pinned tree (F11) -/
def fllExportPinned (c : Cfg) (e : Engine) : List Line := exportWith (keepHeightPinned c) c e

/-! ### import (importer.py) -/

/-- the value of a text-valued line -/
def textOf : List Tok → Except Err String
  | [] => .ok ""
  | [.w s] => .ok s
  | _ => .error .syntax

/-- `FllImporter.boolean` -/
def boolOf : List Tok → Except Err Bool
  | [.w "true"] => .ok true
  | [.w "false"] => .ok false
  | _ => .error .syntax

/-- `[to_float(x) for x in parameters.split()]` -/
def numsOf : List Tok → Except Err (List Num)
  | [] => .ok []
  | .n x :: r => (numsOf r).map (x :: ·)
  | _ :: _ => .error .value

/-- `FllImporter.range` -/
def rangeOf : List Tok → Except Err (Num × Num)
  | [a, b] => match a, b with
    | .n x, .n y => .ok (x, y)
    | _, _ => .error .value
  | _ => .error .syntax

/-- `FllImporter.tnorm / snorm` -/
def normOf (keys : List String) : List Tok → Except Err (Option String)
  | [] => .ok none
  | [.w s] => if s = "none" then .ok none else if s ∈ keys then .ok (some s) else .error .value
  | _ => .error .value

def lastOr (d : Num) : List Num → Num
  | [] => d
  | [x] => x
  | _ :: r => lastOr d r

/-- `Term._parse(required, parameters, height=…)` -/
def parseShape (req : ℕ) (hasH : Bool) (xs : List Num) : Except Err TermBody :=
  if hasH then
    if xs.length = req then .ok (.shape xs (some one))
    else if xs.length = req + 1 then .ok (.shape xs.dropLast (some (lastOr one xs)))
    else .error .value
  else if xs.length = req then .ok (.shape xs none) else .error .value

/-- factory construction followed by `configure(parameters)` (skipped when there are no parameters) -/
def configure (cls : String) (ps : List Tok) : Except Err TermBody :=
  if cls ∉ Gen.Tables.termKeys then .error .value
  else if cls = "Function" then
    match ps with
    | [] => .ok (.function "")
    | [.w f] => .ok (.function f)
    | _ => .error .syntax
  else if cls = "Linear" then (numsOf ps).map .linear
  else if cls = "Discrete" then
    (numsOf ps).map (fun xs => if xs.length % 2 = 0 then .discrete xs one else .discrete xs.dropLast (lastOr one xs))
  else match termArity cls with
    | none => .error .value
    | some (req, hasH) =>
      if ps = [] then .ok (.shape (List.replicate req .nan) (if hasH then some one else none))
      else (numsOf ps) >>= parseShape req hasH

/-- `FllImporter.term` -/
def importTerm : List Tok → Except Err Term
  | .w name :: .w cls :: ps => (configure cls ps).map (fun b => ⟨asIdent name, cls, b⟩)
  | _ => .error .syntax

/-- `configure(parameters)` of the defuzzifiers (skipped when there are no parameters) -/
def defuzzParams (cls : String) : DefuzzKind → List Tok → Except Err Defuzz
  | .integral, [] => .ok (.integral cls Gen.ExportTables.defaultResolution)
  | .integral, [.i r] => .ok (.integral cls r)
  | .integral, _ => .error .value
  | .weighted, [] => .ok (.weighted cls "Automatic")
  | .weighted, [.w ty] => if ty ∈ Gen.ExportTables.defuzzifierTypes then .ok (.weighted cls ty) else .error .key
  | .weighted, _ => .error .key

/-- `FllImporter.defuzzifier` -/
def importDefuzz : List Tok → Except Err (Option Defuzz)
  | [] => .ok none
  | .w cls :: ps =>
    if cls = "none" ∧ ps = [] then .ok none
    else match defuzzKind cls with
      | none => .error .value
      | some k => (defuzzParams cls k ps).map some
  | _ => .error .value

def comparatorSymbols : List String := Gen.Tables.comparators.map (·.2)

/-- `configure(parameters)` of the activation methods (skipped when there are no parameters) -/
def activParams (cls : String) : ActivKind → List Tok → Except Err Activ
  | .plain, _ => .ok (.plain cls)
  | .nth, [] => .ok (.nth cls 1 (.fin 0))
  | .nth, [.i r, .n t] => .ok (.nth cls r t)
  | .nth, _ => .error .value
  | .best, [] => .ok (.best cls 1)
  | .best, [.i r] => .ok (.best cls r)
  | .best, _ => .error .value
  | .threshold, [] => .ok (.threshold cls ">" (.fin 0))
  | .threshold, [.w cmp, .n t] => if cmp ∈ comparatorSymbols then .ok (.threshold cls cmp t) else .error .value
  | .threshold, _ => .error .value

/-- `FllImporter.activation` -/
def importActiv : List Tok → Except Err (Option Activ)
  | [] => .ok none
  | .w cls :: ps =>
    if cls = "none" ∧ ps = [] then .ok none
    else match activKind cls with
      | none => .error .value
      | some k => (activParams cls k ps).map some
  | _ => .error .value

/-- states of `Rule.parse` -/
inductive RState where | sBegin | sIf | sThen | sWith | sEnd
deriving DecidableEq, Repr

/-- the loop of `Rule.parse` -/
def ruleLoop : List Tok → RState → List String → List String → Num → Except Err (RState × List String × List String × Num)
  | [], st, a, q, w => .ok (st, a, q, w)
  | t :: ts, .sBegin, a, q, w => if t = .w "if" then ruleLoop ts .sIf a q w else .error .syntax
  | t :: ts, .sIf, a, q, w =>
    match t with
    | .w s => if s = "then" then ruleLoop ts .sThen a q w else ruleLoop ts .sIf (a ++ [s]) q w
    | _ => .error .syntax
  | t :: ts, .sThen, a, q, w =>
    match t with
    | .w s => if s = "with" then ruleLoop ts .sWith a q w else ruleLoop ts .sThen a (q ++ [s]) w
    | _ => .error .syntax
  | t :: ts, .sWith, a, q, _ =>
    match t with
    | .n x => ruleLoop ts .sEnd a q x
    | _ => .error .value
  | _ :: _, .sEnd, _, _, _ => .error .syntax

/-- `Rule.parse` (loading against the engine is outside this model) -/
def importRule (ts : List Tok) : Except Err Rule :=
  match ruleLoop ts .sBegin [] [] one with
  | .error e => .error e
  | .ok (st, a, q, w) =>
    if st = .sBegin ∨ st = .sIf ∨ st = .sWith then .error .syntax
    else if a = [] ∨ q = [] then .error .syntax
    else .ok ⟨a, q, w⟩

/-- one line of the loop shared by `FllImporter.input_variable / output_variable` -/
def importVarLine (hdr : Key) (v : Var) (l : Line) : Except Err Var :=
  if l.key = hdr then (textOf l.toks).map (fun s => { v with name := s })
  else match l.key with
    | .description => (textOf l.toks).map (fun s => { v with description := s })
    | .enabled => (boolOf l.toks).map (fun b => { v with enabled := b })
    | .range => (rangeOf l.toks).map (fun r => { v with lo := r.1, hi := r.2 })
    | .lockRange => (boolOf l.toks).map (fun b => { v with lockRange := b })
    | .term => (importTerm l.toks).map (fun t => { v with terms := v.terms ++ [t] })
    | _ => .error .syntax

def finishVar (v : Var) : Var := { v with name := asIdent v.name }

/-- `FllImporter.input_variable` -/
def importInput (ls : List Line) : Except Err Var :=
  (ls.foldlM (importVarLine .inputVariable) {}).map finishVar

def numOf : List Tok → Except Err Num
  | [.n x] => .ok x
  | _ => .error .value

def importOutLine (o : OutVar) (l : Line) : Except Err OutVar :=
  match l.key with
  | .default => (numOf l.toks).map (fun x => { o with default := x })
  | .lockPrevious => (boolOf l.toks).map (fun b => { o with lockPrevious := b })
  | .defuzzifier => (importDefuzz l.toks).map (fun d => { o with defuzzifier := d })
  | .aggregation => (normOf Gen.Tables.snormKeys l.toks).map (fun a => { o with aggregation := a })
  | _ => (importVarLine .outputVariable o.base l).map (fun b => { o with base := b })

/-- `FllImporter.output_variable` -/
def importOutput (ls : List Line) : Except Err OutVar :=
  (ls.foldlM importOutLine {}).map (fun o => { o with base := finishVar o.base })

def importBlockLine (b : Block) (l : Line) : Except Err Block :=
  match l.key with
  | .ruleBlock => (textOf l.toks).map (fun s => { b with name := s })
  | .description => (textOf l.toks).map (fun s => { b with description := s })
  | .enabled => (boolOf l.toks).map (fun x => { b with enabled := x })
  | .conjunction => (normOf Gen.Tables.tnormKeys l.toks).map (fun x => { b with conjunction := x })
  | .disjunction => (normOf Gen.Tables.snormKeys l.toks).map (fun x => { b with disjunction := x })
  | .implication => (normOf Gen.Tables.tnormKeys l.toks).map (fun x => { b with implication := x })
  | .activation => (importActiv l.toks).map (fun x => { b with activation := x })
  | .rule => (importRule l.toks).map (fun r => { b with rules := b.rules ++ [r] })
  | _ => .error .syntax

/-- `FllImporter.rule_block` -/
def importBlock (ls : List Line) : Except Err Block := ls.foldlM importBlockLine {}

def importEngineLine (e : Engine) (l : Line) : Except Err Engine :=
  match l.key with
  | .engine => (textOf l.toks).map (fun s => { e with name := s })
  | .description => (textOf l.toks).map (fun s => { e with description := s })
  | _ => .error .syntax

/-- `FllImporter._process` -/
def processBlock (comp : Key) (block : List Line) (e : Engine) : Except Err Engine :=
  match comp with
  | .engine => block.foldlM importEngineLine e
  | .inputVariable => (importInput block).map (fun v => { e with inputs := e.inputs ++ [v] })
  | .outputVariable => (importOutput block).map (fun v => { e with outputs := e.outputs ++ [v] })
  | .ruleBlock => (importBlock block).map (fun b => { e with blocks := e.blocks ++ [b] })
  | _ => .ok e

def isHeader : Key → Bool
  | .engine | .inputVariable | .outputVariable | .ruleBlock => true
  | _ => false

/-- the loop of `FllImporter.engine`: `comp = none` is the initial `component = ""` (lines before the first
    header are collected and then discarded) -/
def engineLoop : List Line → Option Key → List Line → Engine → Except Err Engine
  | [], comp, block, e =>
    match comp with
    | some k => if block = [] then .ok e else processBlock k block e
    | none => .ok e
  | l :: ls, comp, block, e =>
    if isHeader l.key then
      match comp with
      | some k => (processBlock k block e) >>= engineLoop ls (some l.key) [l]
      | none => engineLoop ls (some l.key) [l] e
    else engineLoop ls comp (block ++ [l]) e

/-- `FllImporter.from_string` on a tokenised text -/
def fllImport (ls : List Line) : Except Err Engine := engineLoop ls none [] {}

/-! ### what one export / import cycle makes of an engine -/

section Canon
variable (keep : Num → Bool) (c : Cfg)

def canonH (h : Num) : Num := if keep h then rnd c.d h else one

def canonBody : TermBody → TermBody
  | .shape ps h => .shape (ps.map (rnd c.d)) (h.map (canonH keep c))
  | .discrete xy h => .discrete (xy.map (rnd c.d)) (canonH keep c h)
  | .linear cs => .linear (cs.map (rnd c.d))
  | .function f => .function f

def canonTerm (t : Term) : Term := ⟨asIdent t.name, t.cls, canonBody keep c t.body⟩

def canonVar (v : Var) : Var :=
  { v with name := asIdent v.name, lo := rnd c.d v.lo, hi := rnd c.d v.hi, terms := v.terms.map (canonTerm keep c) }

def canonOut (o : OutVar) : OutVar := { o with base := canonVar keep c o.base, default := rnd c.d o.default }

def canonActiv : Activ → Activ
  | .nth cls r t => .nth cls r (rnd c.d t)
  | .threshold cls cmp t => .threshold cls cmp (rnd c.d t)
  | a => a

def canonRule (r : Rule) : Rule := { r with weight := canonH keep c r.weight }

def canonBlock (b : Block) : Block :=
  { b with activation := b.activation.map (canonActiv c), rules := b.rules.map (canonRule keep c) }

def canonWith (e : Engine) : Engine :=
  { e with inputs := e.inputs.map (canonVar keep c), outputs := e.outputs.map (canonOut keep c),
           blocks := e.blocks.map (canonBlock keep c) }

end Canon

def canon (c : Cfg) (e : Engine) : Engine := canonWith (keepHeight c) c e

end Op.FllIO
