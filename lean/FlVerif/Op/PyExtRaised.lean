import FlVerif.Op.PyExtFllExport

/-! # Externals and models of `Operation.str` and `FllExporter.to_string` (profiles `fv/profiles/raised.py`)

Both functions dispatch on the *type* of their argument, so the argument is a sum type here and every `isinstance`
test of the source is the corresponding test on the sum type - with the class hierarchy of the library (an
`InputVariable` *is* a `Variable`; the order of the tests in the source matters for exactly these cases).

* `SVal`: what `Op.str` is called with - a string, a float, a sequence (tuple / list) of such values, a NumPy array of
  0, 1, 2 or more dimensions, any other object (by its `str`).  `f"{x:.{d}f}"` is the printed number
  `Dec.render d (Dec.fmt d x)` (`Py.Fll.numText`, the same external as in the exporter ties).
* `FlObj`: what `FllExporter.to_string` is called with - the records of the token model `Op.FllIO`.  The methods it
  dispatches to are the renderings of `Op/PyExtFllExport.lean`, i.e. what the ties `C14.code_fllExport*` prove these
  methods return. -/

namespace Py.Raised
open Op.FllIO Py.Fll

/-! ## `Operation.str` -/

inductive SVal where
  | str (s : String)
  | num (x : Num)                       -- `float` / `np.floating`
  | seq (l : List SVal)                 -- a `Sequence` that is not a string
  | arr0 (x : Num)                      -- `np.ndarray`, `ndim == 0`
  | arr1 (l : List Num)                 -- `ndim == 1`
  | arr2 (rows : List (List Num))       -- `ndim == 2`
  | arrN (text : String)                -- `ndim > 2`: `np.array2string(x, precision=d, floatmode="fixed")`
  | other (text : String)               -- any other object: `builtins.str(x)`

instance : Inhabited SVal := ⟨.other ""⟩

def SVal.isStr : SVal → Bool | .str _ => true | _ => false                 -- `isinstance(x, str)`
def SVal.isNum : SVal → Bool | .num _ => true | _ => false                 -- `isinstance(x, (float, np.floating))`
/-- `isinstance(x, Sequence)`: a string is a sequence too (the source tests `str` first) -/
def SVal.isSeq : SVal → Bool | .seq _ => true | .str _ => true | _ => false
def SVal.isArray : SVal → Bool | .arr0 _ | .arr1 _ | .arr2 _ | .arrN _ => true | _ => false   -- `isinstance(x, np.ndarray)`
def SVal.asStr : SVal → String | .str s => s | _ => ""                     -- the string a `str` object is
def SVal.asNum : SVal → Num | .num x => x | _ => default                   -- the number a float is
def SVal.item : SVal → Num | .arr0 x => x | _ => default                   -- `x.item()` of a 0-d array
def SVal.ndim : SVal → ℕ | .arr0 _ => 0 | .arr1 _ => 1 | .arr2 _ => 2 | _ => 3   -- `x.ndim`
/-- `for x_i in x` over a sequence (the characters of a string are not reached: `str` returns first) -/
def SVal.items : SVal → List SVal | .seq l => l | _ => []
/-- `np.atleast_1d(x)` of a 1-d array: its elements, each a `np.floating` -/
def SVal.elems : SVal → List SVal | .arr1 l => l.map .num | _ => []
def SVal.len : SVal → ℕ | .arr2 rows => rows.length | .arr1 l => l.length | .seq l => l.length | _ => 0   -- `len(x)`
/-- `x[i, :]` of a 2-d array: row `i`, a 1-d array -/
def SVal.row : SVal → ℕ → SVal | .arr2 rows, i => .arr1 (rows.getD i []) | _, _ => .arr1 []
def SVal.array2string : SVal → String | .arrN t => t | _ => ""
def SVal.strOf : SVal → String | .other t => t | _ => ""                   -- `builtins.str(x)`

mutual
/-- nesting depth (bounds the recursion of `Op.str`) -/
def SVal.depth : SVal → ℕ
  | .seq l => SVal.depthL l + 1
  | .arr1 _ => 1
  | .arr2 _ => 2
  | _ => 0
def SVal.depthL : List SVal → ℕ
  | [] => 0
  | v :: r => max (SVal.depth v) (SVal.depthL r)
end

mutual
/-- **model of `Op.str(x, delimiter)`**: the elements of a sequence / array are printed with the *default* delimiter
    (the recursive calls of the source do not pass it on) and joined by `delimiter`; the rows of a matrix are joined by
    line feeds -/
def opStr (d : ℕ) (delimiter : String) : SVal → String
  | .str s => s
  | .num x => numText d x
  | .seq l => join delimiter (opStrL d l)
  | .arr0 x => numText d x
  | .arr1 l => join delimiter (l.map (numText d))
  | .arr2 rows => join "\n" (rows.map fun r => join " " (r.map (numText d)))
  | .arrN t => t
  | .other t => t
def opStrL (d : ℕ) : List SVal → List String
  | [] => []
  | v :: r => opStr d " " v :: opStrL d r
end

/-! ## `FllExporter.to_string` -/

inductive FlObj where
  | engine (e : Engine)
  | inputVariable (v : Var)
  | outputVariable (o : OutVar)
  | variable (v : Var)                  -- a plain `Variable`
  | term (t : Term)
  | activation (a : Activ)
  | defuzzifier (x : Defuzz)
  | norm (n : String)
  | ruleBlock (b : Block)
  | rule (r : Rule)
  | other                               -- not a fuzzylite object

instance : Inhabited FlObj := ⟨.other⟩
instance : Inhabited Engine := ⟨{}⟩
instance : Inhabited Var := ⟨{}⟩
instance : Inhabited OutVar := ⟨{}⟩
instance : Inhabited Block := ⟨{}⟩

/-! the `isinstance` tests, with the class hierarchy: `InputVariable` and `OutputVariable` are subclasses of `Variable` -/
def FlObj.isEngine : FlObj → Bool | .engine _ => true | _ => false
def FlObj.isInputVariable : FlObj → Bool | .inputVariable _ => true | _ => false
def FlObj.isOutputVariable : FlObj → Bool | .outputVariable _ => true | _ => false
def FlObj.isVariable : FlObj → Bool | .inputVariable _ | .outputVariable _ | .variable _ => true | _ => false
def FlObj.isTerm : FlObj → Bool | .term _ => true | _ => false
def FlObj.isActivation : FlObj → Bool | .activation _ => true | _ => false
def FlObj.isDefuzzifier : FlObj → Bool | .defuzzifier _ => true | _ => false
def FlObj.isNorm : FlObj → Bool | .norm _ => true | _ => false
def FlObj.isRuleBlock : FlObj → Bool | .ruleBlock _ => true | _ => false
def FlObj.isRule : FlObj → Bool | .rule _ => true | _ => false

/-! the object as an instance of the class a test has established -/
def FlObj.asEngine : FlObj → Engine | .engine e => e | _ => default
def FlObj.asVar : FlObj → Var | .inputVariable v | .variable v => v | .outputVariable o => o.base | _ => default
def FlObj.asOutVar : FlObj → OutVar | .outputVariable o => o | _ => default
def FlObj.asTerm : FlObj → Term | .term t => t | _ => default
def FlObj.asActiv : FlObj → Option Activ | .activation a => some a | _ => none
def FlObj.asDefuzz : FlObj → Option Defuzz | .defuzzifier x => some x | _ => none
def FlObj.asNorm : FlObj → Option String | .norm n => some n | _ => none
def FlObj.asBlock : FlObj → Block | .ruleBlock b => b | _ => default
def FlObj.asRule : FlObj → Rule | .rule r => r | _ => default

/-- `FllExporter.engine(engine)` (what `C14.code_fllExportEngine` proves the method returns) -/
def engineText (c : Cfg) (indent sep : String) (e : Engine) : String :=
  join sep ((fllExport c e).map (lineText indent c.d) ++ [""])

/-- `Op.class_name` of a plain `Variable` -/
def variableKey : Key := .other "Variable"

/-- **model of `FllExporter.to_string(instance)`**: the text of the method of the object's class; `none` = `TypeError` -/
def toString (c : Cfg) (indent sep : String) : FlObj → Option String
  | .engine e => some (engineText c indent sep e)
  | .inputVariable v => some (inputText c indent sep v)
  | .outputVariable o => some (outputText c indent sep o)
  | .variable v => some (variableText c indent sep variableKey v true)
  | .term t => some (termText c t)
  | .activation a => some (activText c (some a))
  | .defuzzifier x => some (defuzzText c.d (some x))
  | .norm n => some (normText (some n))
  | .ruleBlock b => some (blockText c indent sep b)
  | .rule r => some (ruleLineText c r)
  | .other => none

end Py.Raised
