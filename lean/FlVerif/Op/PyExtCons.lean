import FlVerif.Op.PyExt
import FlVerif.Op.Consequent

/-! # Externals of the translated `Consequent.modify` (`rule.py`)

What the method reads of the objects it is handed: a proposition `variable is [hedge]* term` whose variable and
term may be missing (`None`), and of the variable its name, its truth value (`Variable.__len__`: a variable without
terms is false), its `enabled` flag and whether it is an `OutputVariable`.  A hedge object is the function its
`hedge` method computes; an implication operator is identified by its name.  The fuzzy outputs of all variables are
one list of contributions labelled with the name of the variable (`Spec.Consequent.Act`). -/

namespace Py.Cons

/-- what `Consequent.modify` uses of `proposition.variable` -/
structure Var where
  name : String
  /-- `bool(variable)`, that is `len(variable.terms) != 0` -/
  truthy : Bool
  enabled : Bool
  /-- `isinstance(variable, OutputVariable)` -/
  isOutput : Bool
deriving Inhabited

/-- a `Proposition` object -/
structure Proposition where
  var : Option Var
  /-- in text order -/
  hedges : List (X Rat → X Rat)
  term : Option String

instance : Inhabited Proposition := ⟨⟨none, [], none⟩⟩

/-- an `Activated` object before it is appended to a fuzzy output -/
structure ATerm where
  term : String
  degree : X Rat
  impl : String
deriving Inhabited

/-- `bool(proposition.variable)`: `None` is false, a variable is its `__len__` -/
def varTruth (o : Option Var) : Bool :=
  match o with
  | some v => v.truthy
  | none => false

/-- `Activated(term, degree, implication)`: the `degree` setter applies the sanitiser -/
def mkActivated (san : X Rat → X Rat) (term : String) (d : X Rat) (impl : String) : ATerm :=
  { term := term, degree := san d, impl := impl }

/-- `variable.fuzzy.terms.append(activated)`: the contribution, labelled with the variable it goes to -/
def contributionOf (v : Var) (a : ATerm) : Spec.Consequent.Act (X Rat) String :=
  { var := v.name, term := a.term, degree := a.degree, impl := a.impl }

end Py.Cons
