import FlVerif.Op.PyExtFld

/-! # Externals of the translated reader loop and header of `FldExporter` (exporter.py) -/

namespace Py.Fld

/-- `line[0] == "#"`: `IndexError` for the empty string -/
def startsHash (s : String) : Py.M Bool :=
  if s.isEmpty then .error .lookup else .ok (s.front == '#')

end Py.Fld
