import FlVerif.Op.PyExt
import FlVerif.Op.Integral

/-! # Externals of the translated integral defuzzifiers (`Centroid / Bisector / SmallestOfMaximum / MeanOfMaximum /
LargestOfMaximum.defuzzify`, `defuzzifier.py`), of `Op.midpoints` (`operation.py`) and of `Activated.membership` /
`Aggregated.membership` (`term.py`): the NumPy vocabulary of straight-line array code

A 1-D array is the list of its entries (`Row`), a 2-D array the list of its rows (`Mat`, rows = batch); an array of
truth values is a `BMat`.  A value whose rank is not known statically (what `term.membership(x)` returns: a 0-d
scalar, a vector or a matrix) is an `Nd`.  Every definition is the elementwise / row-wise meaning of one NumPy call
over `X Rat` (exact arithmetic: `np.sum`'s pairwise order is not modelled).

*Broadcasting* (`zip1`, `zip2`, `zipNd`): an axis of length 1 is stretched to the length of the other operand
(`Op.Integral.bcastRow`), two axes of different lengths neither of which is 1 are a `ValueError`.  A matrix is a
list of rows, so a matrix without rows has no column count: the column check is made row by row (for a matrix
with rows - every array the translated functions build has rows - this is NumPy's shape check). -/

namespace Py.Np
open Op.Integral

abbrev Row := List (X Rat)
abbrev Mat := List (List (X Rat))
abbrev BMat := List (List Bool)

/-- a NumPy value of rank 0, 1 or 2 -/
inductive Nd where
  | scalar (v : X Rat)
  | vec (l : Row)
  | mat (m : Mat)

instance : Inhabited Nd := ⟨.scalar .nan⟩

/-- `np.atleast_2d(a)`: `()` ↦ `(1,1)`, `(n,)` ↦ `(1,n)`, a matrix is unchanged -/
def atleast2d : Nd → Mat
  | .scalar v => [[v]]
  | .vec l => [l]
  | .mat m => m

/-- `a.squeeze()` of a 1-D array: a single entry becomes a 0-d scalar -/
def squeeze1 : Row → Nd
  | [v] => .scalar v
  | l => .vec l

/-- `a.squeeze()` of a 2-D array: axes of length 1 are removed (`(1,1)` ↦ `()`, `(1,n)` ↦ `(n,)`, `(B,1)` ↦ `(B,)`) -/
def squeeze2 : Mat → Nd
  | [[v]] => .scalar v
  | [r] => .vec r
  | m => if m.all (fun r => r.length == 1) then .vec (m.map (fun r => r.headD X.nan)) else .mat m

/-- `a.squeeze()` of a value of any rank -/
def squeezeNd : Nd → Nd
  | .scalar v => .scalar v
  | .vec l => squeeze1 l
  | .mat m => squeeze2 m

/-- `a.shape[0]`: the shape of a 0-d value is the empty tuple (`IndexError`) -/
def shape0 : Nd → Py.M Nat
  | .scalar _ => .error .lookup
  | .vec l => .ok l.length
  | .mat m => .ok m.length

/-- two axis lengths that NumPy broadcasts -/
def compat (m n : Nat) : Bool := m == n || m == 1 || n == 1

/-- elementwise binary operation on two 1-D arrays, with broadcasting -/
def zip1 {β γ δ : Type} (f : β → γ → δ) (a : List β) (b : List γ) : Py.M (List δ) :=
  if compat a.length b.length then .ok (List.zipWith f (bcastRow b.length a) (bcastRow a.length b))
  else .error .value

/-- two lists of rows of the same number, row by row (each pair of rows is broadcast) -/
def zipRows {β γ δ : Type} (f : β → γ → δ) (A : List (List β)) (B : List (List γ)) : Py.M (List (List δ)) :=
  let P := List.zip A B
  if P.all (fun p => compat p.1.length p.2.length) then
    .ok (P.map (fun p => List.zipWith f (bcastRow p.2.length p.1) (bcastRow p.1.length p.2)))
  else .error .value

/-- elementwise binary operation on two 2-D arrays, with broadcasting of rows and columns -/
def zip2 {β γ δ : Type} (f : β → γ → δ) (A : List (List β)) (B : List (List γ)) : Py.M (List (List δ)) :=
  if compat A.length B.length then zipRows f (bcastRow B.length A) (bcastRow A.length B) else .error .value

/-- elementwise unary operation / operation with a scalar on a 2-D array -/
def map2 {β γ : Type} (f : β → γ) (A : List (List β)) : List (List γ) := A.map (fun r => r.map f)

/-- elementwise binary operation on two NumPy values of any rank (the lower rank is prepended axes of length 1) -/
def zipNd (f : X Rat → X Rat → X Rat) : Nd → Nd → Py.M Nd
  | .scalar u, .scalar v => .ok (.scalar (f u v))
  | .scalar u, .vec l => .ok (.vec (l.map (f u)))
  | .scalar u, .mat m => .ok (.mat (map2 (f u) m))
  | .vec l, .scalar v => .ok (.vec (l.map (fun u => f u v)))
  | .mat m, .scalar v => .ok (.mat (map2 (fun u => f u v) m))
  | .vec a, .vec b => zip1 f a b >>= fun r => .ok (.vec r)
  | .vec a, .mat m => zip2 f [a] m >>= fun r => .ok (.mat r)
  | .mat m, .vec b => zip2 f m [b] >>= fun r => .ok (.mat r)
  | .mat a, .mat b => zip2 f a b >>= fun r => .ok (.mat r)

/-- `a.sum(axis=1)` -/
def sumAxis1 (A : Mat) : Row := A.map sum

/-- a row-wise reduction `g` with `axis=1, keepdims=True` (one column) that NumPy refuses on rows without entries
    (`err`: `ValueError` for `min` / `max`, `IndexError` for the index `-1`) -/
def reduceKeep (err : Py.Err) (g : Row → X Rat) (A : Mat) : Py.M Mat :=
  if A.all (fun r => !r.isEmpty) then .ok (A.map (fun r => [g r])) else .error err

/-- the same with `axis=1` only (a vector) -/
def reduce1 (err : Py.Err) (g : Row → X Rat) (A : Mat) : Py.M Row :=
  if A.all (fun r => !r.isEmpty) then .ok (A.map g) else .error err

/-- `a[:, [-1]]`: the last column, as a column -/
def lastCol (A : Mat) : Py.M Mat := reduceKeep .lookup (fun r => lastOr r X.nan) A

/-- `np.where(mask, a, np.nan)` -/
def whereNan (mask : BMat) (A : Mat) : Py.M Mat := zip2 (fun m v => X.sel m v X.nan) mask A

/-- Python's `float / int`: `ZeroDivisionError` for the integer 0 (an exception class outside the vocabulary of the
    properties: `internal`); NumPy's float types would give `±inf` / `nan` instead, the range of a variable is made
    of Python numbers -/
def divInt (a : X Rat) (n : Nat) : Py.M (X Rat) :=
  if n = 0 then .error .internal else .ok (X.div a (X.fin (n : Rat)))

/-- `np.array(range(n))` -/
def arange (n : Nat) : Row := (List.range n).map (fun (i : Nat) => X.fin (i : Rat))

/-- `Op.midpoints(start, end, resolution)` as a callee (tied by `C09.code_midpoints`) -/
def midpoints (lo hi : X Rat) (r : Nat) : Py.M Row :=
  if r = 0 then .error .internal else .ok (Op.Integral.midpoints lo hi r)

/-- the shape of `term.membership(x)` for `x` of shape `(1, n)`, after `np.atleast_2d`: one column per sample point,
    or a single column -/
def memShape (n : Nat) (Y : Mat) : Bool := Y.all (fun r => r.length == n) || Y.all (fun r => r.length == 1)

/-! ## activated terms (`Activated.membership` as a callee of `Aggregated.membership`) -/

/-- what `membership` uses of an `Activated` term: the model's record (membership function of the activated term,
    degrees as passed to the constructor, implication) with an optional implication operator -/
structure Act where
  mu : X Rat → X Rat
  degrees : List (X Rat)
  impl : Option (X Rat → X Rat → X Rat)

instance : Inhabited Act := ⟨⟨id, [], none⟩⟩

/-- the model's record of an activated term that has an implication operator (the default is never used) -/
def Act.model (a : Act) : Activated Rat := ⟨a.mu, a.degrees, a.impl.getD (fun _ _ => X.nan)⟩

/-- `np.atleast_2d(self.degree).T`: the column of the stored degrees; the setter of `Activated.degree` stores
    `np.nan_to_num(value, nan=0.0, neginf=0.0, posinf=1.0)` -/
def degreeColumn (degrees : List (X Rat)) : Mat := degrees.map (fun d => [X.nanToNum01 d])

/-- the value `Activated.membership(x)` returns for `x = [xr]` (shape `(1, n)`) in terms of the model
    `Op.Integral.activatedMat`: one row per degree for a batch of degrees, squeezed otherwise
    (tied by `C09.code_activatedMembership`) -/
def activatedValue (mu : X Rat → X Rat) (degrees : List (X Rat)) (f : X Rat → X Rat → X Rat) (xr : Row) : Nd :=
  let M := activatedMat ⟨mu, degrees, f⟩ degrees.length xr
  if 1 < degrees.length then .mat M else squeeze2 M

/-- `term.membership(x)` for an activated term: `ValueError` without implication operator -/
def activatedMembership (a : Act) (xr : Row) : Py.M Nd :=
  match a.impl with
  | none => .error .value
  | some f => .ok (activatedValue a.mu a.degrees f xr)

end Py.Np
