import FlVerif.Op.PyExtFunction

/-! # The renderings of a `Function.Node` tree (term.py): `value`, `prefix`, `infix`, `postfix`

Models on the node record `Py.Node` itself (any tree, also one that `Function.parse` cannot build).  `str` is the text of
a floating-point value, `Op.str(x)` (the number printed with `settings.decimals` digits: `C14.code_opStr`).

All three renderings look at a node in the same order: a constant that is not NaN is printed as a number *whatever else
the node contains*; then a variable name that is not empty; otherwise the node is rendered with its children (a missing
child contributes nothing) and its `value()` - the element's name, else the variable, else the number (so `nan` for a NaN
constant). -/

namespace Op.NodeText
open Lang

/-- `Node.value()` -/
def value (str : X Rat → String) (n : Py.Node) : String :=
  match n.element with
  | some e => e.name
  | none => if n.variable_ != "" then n.variable_ else str n.constant

/-- the text of an inner node of `Node.infix`: a function is written `name ( children )`, an operator with one child
    before it, with two children between them (with no child: the empty text) -/
def infixText (value : String) (isFunction : Bool) (children : List String) : String :=
  if isFunction then value ++ (" ( " ++ Py.joinSp children ++ " )")
  else match children with
    | [c] => value ++ " " ++ c
    | _ => (" " ++ value ++ " ").intercalate children

/-- `node.element and node.element.type == Function.Element.Type.Function` as a truth value -/
def isFunction (el : Option Elem) : Bool :=
  match el with
  | some e => !e.isOp
  | none => false

mutual
/-- `Node.prefix(node)` -/
def pfxText (str : X Rat → String) : Py.Node → String
  | ⟨el, v, c, l, r⟩ =>
    if !X.isnan c then str c else if v != "" then v
    else Py.joinSp ([value str ⟨el, v, c, l, r⟩] ++ pfxTextO str l ++ pfxTextO str r)
/-- a child that may be absent -/
def pfxTextO (str : X Rat → String) : Option Py.Node → List String
  | none => []
  | some n => [pfxText str n]
end

mutual
/-- `Node.postfix(node)` -/
def postText (str : X Rat → String) : Py.Node → String
  | ⟨el, v, c, l, r⟩ =>
    if !X.isnan c then str c else if v != "" then v
    else Py.joinSp (postTextO str l ++ postTextO str r ++ [value str ⟨el, v, c, l, r⟩])
def postTextO (str : X Rat → String) : Option Py.Node → List String
  | none => []
  | some n => [postText str n]
end

mutual
/-- `Node.infix(node)` -/
def infText (str : X Rat → String) : Py.Node → String
  | ⟨el, v, c, l, r⟩ =>
    if !X.isnan c then str c else if v != "" then v
    else infixText (value str ⟨el, v, c, l, r⟩) (isFunction el) (infTextO str l ++ infTextO str r)
def infTextO (str : X Rat → String) : Option Py.Node → List String
  | none => []
  | some n => [infText str n]
end

end Op.NodeText
