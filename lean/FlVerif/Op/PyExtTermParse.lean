import FlVerif.Base.Py
import FlVerif.Base.X
import FlVerif.Op.PyExt
import FlVerif.Op.FllText
import FlVerif.Op.PyExtFllImport

/-! # Externals of the translated import side of term parameters (`Term._parse`, `configure`, helpers of `Operation`)

The translated code works on *strings*, as the source does; the model `Op.FllIO` works on *tokens*.  The joint is

* `parameters.split()` = `Py.split` (the vocabulary of the other ties), and
* `to_float(x)` for a string `x`: a reader `rd : String → Option Num` that is a **parameter** of every translated function
  and of every tie theorem (`none` = `ValueError`).  `tokOf rd` classifies a word the way the text layer of the model does
  (`Op.FllIO.numTokOf` is `tokOf Op.FllIO.parseNum`, by `rfl`), so the theorems hold for CPython's `float(text)` whatever it accepts.

`Py.FllIn.parseVals` is what the tie theorem of `Term._parse` proves the method returns (the `configure` methods call it);
`toXY` is `Discrete.to_xy(l[0::2], l[1::2])` as the flat row-major list of the `n × 2` array (= the words of `l` in order).

For `Op.as_identifier` the character classes `str.isalnum` / `str.isnumeric` are parameters as well; the model's `asIdent`
is the instance with the ASCII classes (`asIdent_eq`).  `Op.strip_comments` gets the character-level model
`stripComments` built from the same pieces as the lexer of the text layer (`Op.FllIO.lexLine`). -/

namespace Op.FllIO

-- `Err.toPy` (the exception class of the translated code that corresponds to an error of the model) is defined in
-- `Op/PyExtFllImport.lean`

end Op.FllIO

namespace Py.FllIn
open Op.FllIO Dec

/-- the token of a word of a parameter text: a number where `to_float` reads one -/
def tokOf (rd : String → Option Num) (s : String) : Tok :=
  match rd s with
  | some x => .n x
  | none => .w s

/-- the tokens of a parameter text -/
def toks (rd : String → Option Num) (parameters : String) : List Tok := (Py.split parameters).map (tokOf rd)

/-- `to_float(x)` of a string -/
def toFloat (rd : String → Option Num) (s : String) : Py.M Num :=
  match rd s with
  | some x => .ok x
  | none => .error .value

/-- the list `Term._parse` returns for a body of the model: the parameters, then the height if the class has one -/
def shapeValues : TermBody → List Num
  | .shape ps h => ps ++ h.toList
  | _ => []

/-- `self._parse(required, parameters, height=hasH)` -/
def parseVals (rd : String → Option Num) (required : ℕ) (parameters : String) (hasH : Bool) : Py.M (List Num) :=
  match numsOf (toks rd parameters) >>= parseShape required hasH with
  | .error e => .error e.toPy
  | .ok b => .ok (shapeValues b)

/-- `Discrete.to_xy(l[0::2], l[1::2])`, flat: both halves are converted (`ValueError` for a word that is not a number),
    halves of different lengths are a `ValueError`, the rows `[x_i, y_i]` in order are the words of `l` in order -/
def toXY (rd : String → Option Num) (l : List String) : Py.M (List Num) :=
  match l.mapM (toFloat rd) with
  | .ok xs => if l.length % 2 = 0 then .ok xs else .error .value
  | .error e => .error e

/-! ### `Op.as_identifier` with the character classes as parameters -/

def asIdentCharsWith (alnum numeric : Char → Bool) (cs : List Char) : List Char :=
  match cs.filter (fun c => alnum c || c == '_') with
  | [] => ['_']
  | c :: r => if numeric c then '_' :: c :: r else c :: r

def asIdentWith (alnum numeric : Char → Bool) (s : String) : String := String.ofList (asIdentCharsWith alnum numeric s.toList)

/-- the model's `asIdent` reads `isalnum` / `isnumeric` as the ASCII classes -/
theorem asIdent_eq (s : String) : asIdent s = asIdentWith Char.isAlphanum Char.isDigit s := rfl

/-- `s[0]` of a string (`IndexError` when it is empty) -/
def first (s : String) : Py.M Char :=
  match s.toList with
  | c :: _ => .ok c
  | [] => .error .lookup

/-! ### `Op.strip_comments` -/

/-- `fll.split("\n")` -/
def splitNl (s : String) : List String := s.splitOn "\n"

/-- `line.strip()` (the white space of the lexer of the text layer) -/
def strip (s : String) : String := String.ofList (trimChars s.toList)

/-- one line without its comment and the surrounding white space -/
def stripLine (delim : Char) (cs : List Char) : List Char := trimChars (cs.takeWhile (· ≠ delim))

/-- `Op.strip_comments(fll, delimiter)` for a one-character delimiter: the non-empty stripped lines -/
def stripComments (delim : Char) (fll : String) : String :=
  "\n".intercalate (((splitNl fll).map (fun l => String.ofList (stripLine delim l.toList))).filter (· ≠ ""))

/-- the lexer of the text layer cuts a physical line with `stripLine '#'` -/
theorem lexLine_stripLine (s : List Char) :
    lexLine s =
      if (stripLine '#' s).isEmpty then .ok none
      else match (stripLine '#' s).span (· ≠ ':') with
        | (_, []) => .error .syntax
        | (k, _ :: v) =>
          if (Key.ofText (String.ofList (trimChars k)) = .term ∨ Key.ofText (String.ofList (trimChars k)) = .rule) ∧ k ≠ trimChars k
          then .ok (some ⟨.other (String.ofList k), textTok (trimChars v)⟩)
          else .ok (some ⟨Key.ofText (String.ofList (trimChars k)), lexValue (Key.ofText (String.ofList (trimChars k))) (trimChars v)⟩) := rfl

/-! ### `Op.scale`, `Op.bound` -/

/-- `(y_max - y_min) / (x_max - x_min) * (x - x_min) + y_min` -/
def scale (x xmin xmax ymin ymax : X Rat) : X Rat :=
  X.add (X.mul (X.div (X.sub ymax ymin) (X.sub xmax xmin)) (X.sub x xmin)) ymin

end Py.FllIn
