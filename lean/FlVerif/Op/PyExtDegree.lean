import FlVerif.Op.PyExt
import FlVerif.Op.Degree
import FlVerif.Op.PyExtWeighted
import FlVerif.Op.PyExtCons
import FlVerif.Op.Activation

/-! # Externals of the translated `Antecedent.activation_degree`, `Rule.deactivate / activate_with / trigger /
is_loaded` (`rule.py`) and `Aggregated.activation_degree` (`term.py`)

The expression tree of a loaded antecedent as the evaluator sees it.  A *variable object* is a reference: its name;
what the evaluator reads of it comes from the evaluation context `Lang.DegCtx` of the model (`enabled`, input /
output variable, the membership of the current value in a term, the aggregated activation degree of a term, and
`hasTerms`: Python's truth value of a variable object is `Variable.__len__`, the number of its terms).  A hedge or
term object is its name; a norm object is the function it computes.  `Proposition`, `Operator`, `Term`, `Hedge`
and `Norm` objects have neither `__len__` nor `__bool__`: they are true, only `None` is false. -/

namespace Py.Deg
open Lang Op

/-- a reference to a variable object -/
structure Var where
  name : String
deriving DecidableEq, Repr, Inhabited

/-- a `Proposition` object: `variable`, `hedges`, `term` (`None` when not set) -/
structure Proposition where
  variable_ : Option Var
  hedges : List String
  term_ : Option String
deriving DecidableEq, Repr, Inhabited

/-- an `Expression` object, or `None` -/
inductive Expression where
  | none
  | prop (p : Proposition)
  | op (name : String) (left right : Expression)
deriving DecidableEq, Repr, Inhabited

/-- truth value of an expression object: only `None` is false -/
def Expression.truthy : Expression → Bool
  | .none => false
  | _ => true

/-- `isinstance(node, Proposition)` -/
def Expression.isProp : Expression → Bool
  | .prop _ => true
  | _ => false

/-- `isinstance(node, Operator)` -/
def Expression.isOp : Expression → Bool
  | .op _ _ _ => true
  | _ => false

/-- `node.variable` (an `Operator` / `None` has no such attribute: `AttributeError`) -/
def variableOf : Expression → Py.M (Option Var)
  | .prop p => .ok p.variable_
  | _ => .error .internal

/-- `node.hedges` -/
def hedgesOf : Expression → Py.M (List String)
  | .prop p => .ok p.hedges
  | _ => .error .internal

/-- `node.term` -/
def termOf : Expression → Py.M (Option String)
  | .prop p => .ok p.term_
  | _ => .error .internal

/-- `node.left` (a `Proposition` / `None` has no such attribute) -/
def leftOf : Expression → Py.M Expression
  | .op _ l _ => .ok l
  | _ => .error .internal

/-- `node.right` -/
def rightOf : Expression → Py.M Expression
  | .op _ _ r => .ok r
  | _ => .error .internal

/-- `node.name` -/
def nameOf : Expression → Py.M String
  | .op n _ _ => .ok n
  | _ => .error .internal

/-- truth value of `node.variable`: `None` is false, a variable object is `len(variable.terms) != 0` -/
def varTruthy (hasTerms : String → Bool) (o : Option Var) : Bool :=
  match o with
  | some v => hasTerms v.name
  | none => false

/-- height of the tree (`None` = 0): the bound on the depth of the recursion -/
def depth : Expression → Nat
  | .none => 0
  | .prop _ => 1
  | .op _ l r => max (depth l) (depth r) + 1

/-- the object tree of a loaded antecedent -/
def ofANode : ANode → Expression
  | .prop v hs t => .prop ⟨some ⟨v⟩, hs, t⟩
  | .op n l r => .op n (ofANode l) (ofANode r)

/-- the names of the variables of a loaded antecedent, left to right -/
def varsOf : ANode → List String
  | .prop v _ _ => [v]
  | .op _ l r => varsOf l ++ varsOf r

end Py.Deg

namespace Py.W

/-- `d.get(k)` of a dictionary: the value, or `None` -/
def dictGet {β : Type} (d : List (String × β)) (k : String) : Option β := (d.find? (fun p => p.1 == k)).map (·.2)

end Py.W
