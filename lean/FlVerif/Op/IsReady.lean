/-! # `Engine.is_ready` and the configuration errors of `Engine.process`  (C19)

Abstract configuration of an engine: exactly the facts the readiness check (`engine.py`, `Engine.is_ready`) and
the missing-operator checks on the processing path look at.

* `Antecedent.activation_degree` raises `ValueError` at an `and` (`or`) node when the block has no conjunction
  (disjunction) operator – it walks the *expression tree* of a loaded rule;
* `Engine.is_ready` decides "needed" with the substring tests `" and " in rule.antecedent.text`,
  `" or " in rule.antecedent.text` – it looks at the *text*, loaded or not.
  The two views are kept apart (`treeAnd/treeOr` vs `textAnd/textOr`); the hypothesis "tokens separated by
  single blanks" of the property is `Spaced` below;
* `RuleBlock.activate` raises `ValueError` without an activation method (not looked at by `is_ready`);
* `OutputVariable.defuzzify` raises `ValueError` without a defuzzifier; an integral defuzzifier evaluates
  `Aggregated.membership` (raises `ValueError` when it holds activated terms and has no aggregation operator)
  and through it `Activated.membership` of every activated term (raises `ValueError` when the term carries no
  implication operator – the one of the rule block that activated it).  Weighted defuzzifiers use neither.

Everything here is core Lean (no numbers are involved). -/

namespace Op.Ready

inductive DefuzzKind | none | integral | weighted
deriving DecidableEq, Repr

/-- a rule as the two procedures see it -/
structure Rule where
  loaded  : Bool        -- `rule.is_loaded()`
  enabled : Bool        -- `rule.enabled`
  textAnd : Bool        -- `" and " in rule.antecedent.text`
  textOr  : Bool        -- `" or " in rule.antecedent.text`
  treeAnd : Bool        -- the loaded expression tree contains an `and` operator node
  treeOr  : Bool        -- … an `or` operator node
  concls  : List Nat    -- conclusions of the loaded consequent: index of the output variable each one refers to
deriving DecidableEq, Repr

structure Block where
  enabled : Bool
  conj : Bool           -- `rule_block.conjunction` is set
  disj : Bool
  impl : Bool
  act  : Bool           -- `rule_block.activation` is set
  rules : List Rule
deriving DecidableEq, Repr

structure Output where
  enabled  : Bool
  hasTerms : Bool
  defuzz   : DefuzzKind
  aggr     : Bool       -- `variable.aggregation` is set
deriving DecidableEq, Repr

structure Engine where
  inputs  : Nat         -- number of input variables
  outputs : List Output
  blocks  : List Block
deriving DecidableEq, Repr

/-- one entry of the `errors` list of `is_ready`: component (by position) and what is missing -/
inductive Err
  | noInputs | noOutputs | noBlocks
  | noTerms (o : Nat) | noDefuzzifier (o : Nat) | noAggregation (o : Nat)
  | noRules (b : Nat) | noConjunction (b : Nat) | noDisjunction (b : Nat) | noImplication (b : Nat)
deriving DecidableEq, Repr

def isIntegral (outs : List Output) (i : Nat) : Bool :=
  match outs[i]? with
  | some o => o.defuzz == .integral
  | none => false

/-- `mamdani_consequents > 0`: a conclusion on an output variable with an integral defuzzifier -/
def mamdani (outs : List Output) (r : Rule) : Bool := r.concls.any (isIntegral outs)

/-- the three `…_needed` counters of `is_ready` (only `> 0` matters) -/
def conjNeeded (b : Block) : Bool := b.rules.any (·.textAnd)
def disjNeeded (b : Block) : Bool := b.rules.any (·.textOr)
def implNeeded (outs : List Output) (b : Block) : Bool := b.rules.any (fun r => r.loaded && mamdani outs r)

def outputErrors (i : Nat) (o : Output) : List Err :=
  (if !o.hasTerms then [Err.noTerms i] else [])
  ++ (if o.defuzz == .none then [Err.noDefuzzifier i] else [])
  ++ (if !o.aggr && o.defuzz == .integral then [Err.noAggregation i] else [])

/-- errors of one rule block – the three operator tests are independent `if` statements.
    This is the check after the repair of F9 (the disjunction test dedented). -/
def blockErrors (outs : List Output) (i : Nat) (b : Block) : List Err :=
  (if b.rules.isEmpty then [Err.noRules i] else [])
  ++ (if conjNeeded b && !b.conj then [Err.noConjunction i] else [])
  ++ (if disjNeeded b && !b.disj then [Err.noDisjunction i] else [])
  ++ (if implNeeded outs b && !b.impl then [Err.noImplication i] else [])

/-- the pinned code (before the `fix:` commit): the disjunction test is nested in the body of the conjunction
    test, so it runs only when a conjunction is needed and missing.  Kept for the record (F9). -/
def blockErrorsPinned (outs : List Output) (i : Nat) (b : Block) : List Err :=
  (if b.rules.isEmpty then [Err.noRules i] else [])
  ++ (if conjNeeded b && !b.conj then
        [Err.noConjunction i] ++ (if disjNeeded b && !b.disj then [Err.noDisjunction i] else [])
      else [])
  ++ (if implNeeded outs b && !b.impl then [Err.noImplication i] else [])

def enumFrom {β : Type} : Nat → List β → List (Nat × β)
  | _, [] => []
  | i, x :: xs => (i, x) :: enumFrom (i + 1) xs

def isReadyWith (blk : List Output → Nat → Block → List Err) (e : Engine) : List Err :=
  (if e.inputs == 0 then [Err.noInputs] else [])
  ++ (if e.outputs.isEmpty then [Err.noOutputs] else [])
  ++ (enumFrom 0 e.outputs).flatMap (fun p => outputErrors p.1 p.2)
  ++ (if e.blocks.isEmpty then [Err.noBlocks] else [])
  ++ (enumFrom 0 e.blocks).flatMap (fun p => blk e.outputs p.1 p.2)

/-- `Engine.is_ready(errors)`: the error list in the order the code appends it (empty = ready) -/
def isReady (e : Engine) : List Err := isReadyWith blockErrors e
/-- the pinned nesting (F9) -/
def isReadyPinned (e : Engine) : List Err := isReadyWith blockErrorsPinned e

/-! ## the configuration errors `process()` can raise -/

inductive ProcErr
  | activation (b : Nat) | conjunction (b : Nat) | disjunction (b : Nat)
  | defuzzifier (o : Nat) | aggregation (o : Nat) | implication (o : Nat)
deriving DecidableEq, Repr

/-- evaluating the antecedent of a loaded rule: which operator is found missing (the tree is walked from the
    root, so with both missing either can come first; the model reports the conjunction – the exception class
    is the same) -/
def ruleError (i : Nat) (b : Block) (r : Rule) : Option ProcErr :=
  if r.loaded then
    if r.treeAnd && !b.conj then some (.conjunction i)
    else if r.treeOr && !b.disj then some (.disjunction i)
    else none
  else none

/-- `RuleBlock.activate` of an enabled block -/
def blockError (i : Nat) (b : Block) : Option ProcErr :=
  if !b.enabled then none
  else if !b.act then some (.activation i)
  else b.rules.findSome? (ruleError i b)

/-- does this block put an activated term on output `o` (General activation: every loaded, enabled rule of an
    enabled block adds one activation per conclusion on an enabled variable)? -/
def contributes (o : Nat) (b : Block) (r : Rule) : Bool :=
  b.enabled && r.loaded && r.enabled && r.concls.contains o

def hasTermsOn (e : Engine) (o : Nat) : Bool := e.blocks.any (fun b => b.rules.any (contributes o b))
def termWithoutImplication (e : Engine) (o : Nat) : Bool :=
  e.blocks.any (fun b => !b.impl && b.rules.any (contributes o b))

/-- `OutputVariable.defuzzify` -/
def outputError (e : Engine) (i : Nat) (o : Output) : Option ProcErr :=
  if !o.enabled then none
  else match o.defuzz with
    | .none => some (.defuzzifier i)
    | .weighted => none
    | .integral =>
      if hasTermsOn e i && !o.aggr then some (.aggregation i)
      else if termWithoutImplication e i then some (.implication i)
      else none

/-- the first configuration error raised by `Engine.process()` (all are `ValueError`), `none` = it completes -/
def processError (e : Engine) : Option ProcErr :=
  match (enumFrom 0 e.blocks).findSome? (fun p => blockError p.1 p.2) with
  | some err => some err
  | none => (enumFrom 0 e.outputs).findSome? (fun p => outputError e p.1 p.2)

/-- hypothesis of the property: "rules are written with whitespace-separated tokens" – every operator of a
    loaded tree is visible to the substring test -/
def Spaced (e : Engine) : Prop :=
  ∀ b ∈ e.blocks, ∀ r ∈ b.rules, r.loaded = true → (r.treeAnd = true → r.textAnd = true) ∧ (r.treeOr = true → r.textOr = true)

/-- hypothesis of the property: "its rule blocks have an activation method" -/
def HasActivation (e : Engine) : Prop := ∀ b ∈ e.blocks, b.act = true

end Op.Ready
