import FlVerif.Op.AntecedentLoad

/-! # `Consequent.load` (rule.py): six flags over the white-space separated tokens of the consequent

`s_variable, s_is, s_hedge, s_term, s_and, s_with`; `with` never reaches the consequent (`Rule.parse` cuts it off),
so `s_with` only marks the accepting state together with `s_and`. -/

namespace Op
open Lang

structure CFlags where
  var_ : Bool
  is_ : Bool
  hedge : Bool
  term : Bool
  and_ : Bool
  with_ : Bool
deriving DecidableEq, Repr

def cVariable : CFlags := ⟨true, false, false, false, false, false⟩
def cIs : CFlags := ⟨false, true, false, false, false, false⟩
def cHedgeTerm : CFlags := ⟨false, false, true, true, false, false⟩
def cAndWith : CFlags := ⟨false, false, false, false, true, true⟩

/-- a conclusion `Proposition(variable, hedges, term)` -/
structure Conclusion where
  v : String
  hs : List String
  t : Option String
deriving DecidableEq, Repr

/-- terms of the variable of the conclusion under construction (`proposition.variable.terms`) -/
def lastTerms (e : EngineInfo) : List Conclusion → List String
  | [] => []
  | [c] => ((e.findOut c.v).map (·.terms)).getD []
  | _ :: cs => lastTerms e cs

/-- update the conclusion under construction (the last one) -/
def updLast (f : Conclusion → Conclusion) : List Conclusion → List Conclusion
  | [] => []
  | [c] => [f c]
  | c :: cs => c :: updLast f cs

def cStep (e : EngineInfo) (st : CFlags) (cs : List Conclusion) (token : String) :
    Except ErrKind (CFlags × List Conclusion) :=
  if st.var_ && (e.findOut token).isSome then .ok (cIs, cs ++ [⟨token, [], none⟩])
  else if st.is_ && token == "is" then .ok (cHedgeTerm, cs)
  else if st.hedge && e.hedges.contains token then
    .ok (cHedgeTerm, updLast (fun c => { c with hs := c.hs ++ [token] }) cs)
  else if st.term && (lastTerms e cs).contains token then
    .ok (cAndWith, updLast (fun c => { c with t := some token }) cs)
  else if st.and_ && token == "and" then .ok (cVariable, cs)
  else .error .syntax

def cLoop (e : EngineInfo) : List String → CFlags → List Conclusion → Except ErrKind (CFlags × List Conclusion)
  | [], st, cs => .ok (st, cs)
  | t :: ts, st, cs =>
    match cStep e st cs t with
    | .error k => .error k
    | .ok (st', cs') => cLoop e ts st' cs'

/-- `Consequent.load(engine)` on `text.split()` (`text` empty: `SyntaxError`) -/
def consequentLoadTokens (e : EngineInfo) (tokens : List String) : Except ErrKind (List Conclusion) :=
  match cLoop e tokens cVariable [] with
  | .error k => .error k
  | .ok (st, cs) => if st.and_ || st.with_ then .ok cs else .error .syntax

def consequentLoad (e : EngineInfo) (text : String) : Except ErrKind (List Conclusion) :=
  if text.isEmpty then .error .syntax else consequentLoadTokens e (splitWords text)

end Op
