import FlVerif.Op.PyExtFunction
import FlVerif.Op.FunctionTerm

/-! # Externals of the translated `Function.Node.evaluate`, `Function.evaluate`, `Function.membership` (term.py)

Values (`Scalar`: floats or NumPy arrays) are an arbitrary type `V`; `const : X Rat → V` is the scalar of a float
(`scalar(nan)`, the constant of a node).  A Python `dict` that is built by item assignments and `update` is kept as
the list of its assignments in order; a look-up takes the *last* binding of the key (`Op.lookupLast`). -/

namespace Py.FunEval

mutual
/-- nesting depth of a `Function.Node` tree (the bound for the recursion of `Node.evaluate`) -/
def height : Py.Node → Nat
  | ⟨_, _, _, l, r⟩ => max (heightO l) (heightO r) + 1
/-- the same for a child that may be absent -/
def heightO : Option Py.Node → Nat
  | none => 0
  | some n => height n
end

/-- truth value of `local_variables : dict | None` (`None` and the empty dictionary are false) -/
def dictTruthy {β : Type} (d : Option (List (String × β))) : Bool :=
  match d with
  | none => false
  | some l => !l.isEmpty

/-- `k in d` -/
def dictHas {β : Type} (d : List (String × β)) (k : String) : Bool := d.any (·.1 == k)

/-- `d[k]`: `KeyError` when the key is absent -/
def dictGet {β : Type} (d : List (String × β)) (k : String) : Py.M β :=
  match Op.lookupLast d k with
  | some v => .ok v
  | none => .error .lookup

/-- `d[k] = v` -/
def dictSet {β : Type} (d : List (String × β)) (k : String) (v : β) : List (String × β) := d ++ [(k, v)]

/-- `a.keys() & b.keys()`: the keys of `a` that are keys of `b` -/
def keysInter {β : Type} (a b : List (String × β)) : List String :=
  (a.filter (fun kv => dictHas b kv.1)).map (·.1)

end Py.FunEval
