import FlVerif.Op.PyExtSession
import FlVerif.Op.EngineIO
import FlVerif.Base.PyList

/-! # Externals of the translated getters and look-ups of `Engine`, of `Engine.copy` and of the accessors of `Variable`

The NumPy functions the getters call, on the values a variable can hold (`Op.Engine.VarValue`: a float / 0-d array or a
1-D array) and on `Op.Engine.NdArr`.  Each definition says what the NumPy function does on these arguments, including
the `ValueError` it raises; nothing here knows about engines.  `copy.deepcopy` is the identity on the immutable values
of the translation. -/

instance : Inhabited (Op.Engine.EngineD Rat) := ⟨⟨[], [], []⟩⟩
instance : Inhabited (Op.Session.Sess Rat) := ⟨⟨default, []⟩⟩
instance : Inhabited (Op.Engine.Comp Rat) := ⟨.input default⟩

namespace Op.Engine

/-- `isinstance(key, int)` -/
def Key.isInt : Key → Bool
  | .index _ => true
  | .name _ => false

/-- `name == key` for a string `name`: a string never equals an `int` -/
def Key.isName : Key → String → Bool
  | .name s, t => t == s
  | .index _, _ => false

end Op.Engine

namespace Py.EIO
open Op.Engine

/-- `l[key]` of a Python list: an `int` indexes it (`IndexError` out of range), a string is a `TypeError` -/
def atKey {β : Type} (l : List β) : Key → Py.M β
  | .index i => Py.nthInt l i
  | .name _ => .error .internal

/-- a `Variable` of either kind: `InputVariable` and `OutputVariable` are subclasses of `Variable`, and a list may hold
    objects of both -/
abbrev Variable := InVar Rat ⊕ OutVar Rat

/-- an input variable (with the value it holds) seen as a `Variable` -/
def inVariable (p : InVar Rat × VarValue Rat) : Variable × VarValue Rat := (.inl p.1, p.2)

/-- an output variable (with the value it holds) seen as a `Variable` -/
def outVariable (p : OutVar Rat × VarValue Rat) : Variable × VarValue Rat := (.inr p.1, p.2)

/-- `np.atleast_1d(v)`: a 0-d value becomes a 1-D array of one element -/
def atleast1d : VarValue Rat → VarValue Rat
  | .scalar x => .vector [x]
  | v => v

/-- the number of rows of the 2-D column `np.column_stack` makes of a 0-d / 1-D value -/
def nrows (v : VarValue Rat) : Nat := v.rows.length

/-- `np.column_stack(values)` of 0-d / 1-D values: every value becomes a column; `ValueError` for no value at all
    ("need at least one array to concatenate") and for columns of different lengths -/
def columnStack (vals : List (VarValue Rat)) : Py.M (NdArr Rat) :=
  match vals with
  | [] => .error .value
  | v :: vs =>
    if vs.all (fun w => nrows w == nrows v) then
      .ok (.matrix vals.length ((List.range (nrows v)).map (fun i => vals.map (fun w => w.rows.getD i .nan))))
    else .error .value

/-- all values are 0-d -/
def allScalar (vals : List (VarValue Rat)) : Option (List (X Rat)) :=
  vals.mapM (fun v => match v with | .scalar x => some x | .vector _ => none)

/-- all values are 1-D of the same length `n`: their entries -/
def allVector (n : Nat) (vals : List (VarValue Rat)) : Option (List (List (X Rat))) :=
  vals.mapM (fun v => match v with | .vector r => (if r.length = n then some r else none) | .scalar _ => none)

/-- `np.array(values)` of a tuple of 0-d / 1-D values: the empty 1-D array for the empty tuple, a 1-D array of 0-d
    values, a 2-D array (one ROW per value) of 1-D values of the same length, `ValueError` (inhomogeneous shape)
    otherwise -/
def npArray (vals : List (VarValue Rat)) : Py.M (NdArr Rat) :=
  match allScalar vals with
  | some xs => .ok (.vector xs)
  | none =>
    match vals with
    | .vector r :: _ =>
      (match allVector r.length vals with
       | some rows => .ok (.matrix r.length rows)
       | none => .error .value)
    | _ => .error .value

/-- the length two axes broadcast to: equal, or one of them is 1 -/
def bcAxis (n m : Nat) : Option Nat :=
  if n = m then some m else if n = 1 then some m else if m = 1 then some n else none

/-- the length the 1-D arrays of these lengths broadcast to -/
def bcLen : List Nat → Option Nat
  | [] => some 1
  | n :: ns =>
    match bcLen ns with
    | some m => bcAxis n m
    | none => none

/-- the length of a 1-D value (`none`: 0-d) -/
def len1d : VarValue Rat → Option Nat
  | .vector r => some r.length
  | .scalar _ => none

/-- a value broadcast to the 1-D shape `(n,)`: a 0-d value and an axis of length 1 are stretched -/
def stretchTo (n : Nat) : VarValue Rat → VarValue Rat
  | .scalar x => .vector (List.replicate n x)
  | .vector [x] => .vector (List.replicate n x)
  | .vector r => .vector r

/-- `np.broadcast_arrays(*values)` of 0-d / 1-D values: when all are 0-d they stay as they are; otherwise all become
    1-D arrays of the common length (an axis of length 1, and a 0-d value, is stretched); `ValueError` when the lengths
    do not broadcast -/
def broadcastArrays (vals : List (VarValue Rat)) : Py.M (List (VarValue Rat)) :=
  if (allScalar vals).isSome then .ok vals
  else
    match bcLen (vals.filterMap len1d) with
    | none => .error .value
    | some n => .ok (vals.map (stretchTo n))

/-- `np.hstack((a, b))`: both arrays are made at least 1-D; 1-D arrays are concatenated, arrays of two or more
    dimensions are put side by side along axis 1 (the other axes must agree); `ValueError` when the numbers of
    dimensions differ or the shapes do not fit -/
def hstack (a b : NdArr Rat) : Py.M (NdArr Rat) :=
  let up : NdArr Rat → NdArr Rat := fun a => match a with | .scalar x => .vector [x] | a => a
  match up a, up b with
  | .vector u, .vector v => .ok (.vector (u ++ v))
  | .matrix c r, .matrix c' r' =>
    if r.length = r'.length then .ok (.matrix (c + c') (List.zipWith (· ++ ·) r r')) else .error .value
  | .higher s h, .higher s' _ =>
    if s.length = s'.length ∧ s.set 1 0 = s'.set 1 0 then
      .ok (.higher (s.set 1 (s.getD 1 0 + s'.getD 1 0)) (by simpa using h))
    else .error .value
  | _, _ => .error .value

/-- `copy.deepcopy(x)`: an equal value that shares nothing with `x`.  The values of the translation are immutable, so
    an equal value is such a copy; that the Python objects are independent is what the correspondence run observes -/
def deepcopy {β : Type} (x : β) : β := x

end Py.EIO
