import FlVerif.Base.Py
import FlVerif.Op.FllText

/-! # Externals of the translated FuzzyLite Language importer (`importer.py`, class `FllImporter`)

The translated methods work on *strings* (a line of text, the value after the colon).  The string primitives they call
are given their meaning here, from the text model of `Op/FllText.lean` (`trimChars`, `words`, `splitFirst`, `splitNl`,
`Dec.parse`): `Op.strip_comments`, `str.strip()`, `str.split(":", maxsplit=1)`, `str.split()`, `str.split(maxsplit=k)`,
`str.split(separator)` / `separator.join(...)` for the default separator `"\n"`, `to_float`.

The methods of *other* classes the importer calls are the corresponding definitions of the token-level model
`Op/FllIO.lean` applied to the tokens of the text (`lexValue`): factory `construct` + `configure` of terms, defuzzifiers
and activation methods, `Rule.create`.  The four methods `term`, `defuzzifier`, `activation`, `rule` of the importer
itself are called from the line loops through their text-level models `termOf`, `defuzzOf`, `activOf`, `ruleOf` below
(each of them is in turn tied to its own translation by a theorem `code_fll*` of `Props/C14.lean`).

Not modelled (part of the trusted vocabulary): Python's `str.strip()` / `str.split()` also remove the Unicode white
space and the separators `\x1c`–`\x1f`, `\x85`; the model's white space is `isWs` (blank, `\t`, `\r`, `\x0b`, `\x0c`;
a line never contains `\n`).  `split(maxsplit=k)` is modelled for texts without trailing white space (the importer
calls it on stripped values only): the rest is returned without trailing white space. -/

namespace Op.FllIO

/-- the exception class of the translated code that corresponds to an error kind of the FLL model -/
def Err.toPy : Err → Py.Err
  | .syntax => .syntax | .value => .value | .key => .lookup

/-- the class name of an activation method -/
def Activ.cls : Activ → String
  | .plain c => c | .nth c _ _ => c | .best c _ => c | .threshold c _ _ => c

/-- the class name of a defuzzifier -/
def Defuzz.cls : Defuzz → String
  | .integral c _ => c | .weighted c _ => c

/-- tokens of the parameters of an activation method (the first is read with `int`, the others with `to_float`) -/
def activParamToks (r : List Char) : List Tok :=
  match words r with
  | [] => []
  | x :: xs => intTokOf x :: xs.map numTokOf

/-- tokens of the parameter of a defuzzifier (`int(parameters)` / `WeightedDefuzzifier.Type[parameters]`) -/
def defuzzParamToks (r : List Char) : List Tok :=
  match words r with
  | [] => []
  | [x] => (match parseInt x with | some z => [.i z] | none => [.w x])
  | _ => [.w (String.ofList r)]

/-- tokens of the parameters of a term (`Function`: the formula as one text; otherwise numbers) -/
def termParamToks (cls : String) (r : List Char) : List Tok :=
  if cls = "Function" then textTok r else (words r).map numTokOf

end Op.FllIO

namespace Py.Fll
open Op.FllIO Dec

/-- an error of the FLL model as an exception of the translated code -/
def lift {α : Type} : Except Op.FllIO.Err α → Py.M α
  | .ok a => .ok a
  | .error e => .error e.toPy

/-! ## strings -/

/-- `s.strip()` -/
def strip (s : String) : String := String.ofList (trimChars s.toList)

/-- `Op.strip_comments(s)` for a text without a line break: cut at the first `#`, strip -/
def stripComments (s : String) : String := String.ofList (trimChars (s.toList.takeWhile (· ≠ '#')))

/-- `s.split(":", maxsplit=1)`: the text itself when it has no colon, else the parts before / after the first colon -/
def splitColon (s : String) : List String :=
  match s.toList.span (· ≠ ':') with
  | (_, []) => [s]
  | (k, _ :: v) => [String.ofList k, String.ofList v]

/-- `s.split(separator)` for the default separator `"\n"` -/
def splitLines (s : String) : List String := (splitNl s.toList).map String.ofList

/-- `separator.join(l)` for the default separator `"\n"` -/
def joinLines (l : List String) : String := String.ofList (joinNl (l.map String.toList))

/-- `s.split()` -/
def words (s : String) : List String := Op.FllIO.words s.toList

/-- `s.split(maxsplit=1)` (text without trailing white space): first word and the rest -/
def split1 (s : String) : List String :=
  let p := splitFirst s.toList
  if p.1 = "" then [] else if p.2.isEmpty then [p.1] else [p.1, String.ofList p.2]

/-- `s.split(maxsplit=2)` (text without trailing white space): two words and the rest -/
def split2 (s : String) : List String :=
  let p := splitFirst s.toList
  if p.1 = "" then [] else
  let q := splitFirst p.2
  if q.1 = "" then [p.1] else if q.2.isEmpty then [p.1, q.1] else [p.1, q.1, String.ofList q.2]

/-- `to_float(s)` (= `float(s)`): the text is one number, possibly surrounded by white space; `ValueError` otherwise -/
def toFloat (s : String) : Py.M Num :=
  match Op.FllIO.words s.toList with
  | [w] => (match parseNum w with
    | some x => .ok x
    | none => .error .value)
  | _ => .error .value

/-- truth value of a `str | None` -/
def truthyOptStr : Option String → Bool
  | some s => s != ""
  | none => false

/-! ## the factories (methods of other classes: the token-level model) -/

/-- `factory.construct(name)` of the T-norm / S-norm factory: `ValueError` for an unregistered name (the operator is
    its class name) -/
def constructNorm (keys : List String) (s : String) : Py.M String :=
  if s ∈ keys then .ok s else .error .value

/-- `settings.factory_manager.term.construct(cls, name=name)`: the term with its default parameters -/
def constructTerm (cls name : String) : Py.M Term :=
  lift ((configure cls []).map (fun b => ⟨name, cls, b⟩))

/-- `term.configure(parameters)` -/
def configureTerm (t : Term) (parameters : String) : Py.M Term :=
  lift ((configure t.cls (termParamToks t.cls parameters.toList)).map (fun b => { t with body := b }))

/-- `settings.factory_manager.activation.construct(name)`: default parameters -/
def constructActiv (cls : String) : Py.M Activ :=
  match activKind cls with
  | none => .error .value
  | some k => lift (activParams cls k [])

/-- `activation.configure(parameters)` -/
def configureActiv (a : Activ) (parameters : String) : Py.M Activ :=
  match activKind a.cls with
  | none => .error .value
  | some k => lift (activParams a.cls k (activParamToks parameters.toList))

/-- `settings.factory_manager.defuzzifier.construct(name)`: default parameters -/
def constructDefuzz (cls : String) : Py.M Defuzz :=
  match defuzzKind cls with
  | none => .error .value
  | some k => lift (defuzzParams cls k [])

/-- `defuzzifier.configure(parameters)` -/
def configureDefuzz (d : Defuzz) (parameters : String) : Py.M Defuzz :=
  match defuzzKind d.cls with
  | none => .error .value
  | some k => lift (defuzzParams d.cls k (defuzzParamToks parameters.toList))

/-- `Rule.create(text, engine)` as far as the FLL model goes: `Rule.parse` (loading against the engine is outside) -/
def ruleCreate (text : String) : Py.M Rule := lift (importRule (lexValue .rule text.toList))

/-! ## text-level models of the importer's own methods `extract_key_value`, `term`, `rule`, `defuzzifier`, `activation`
(what the line loops call; each is tied to its translation by its own theorem) -/

/-- `FllImporter.extract_key_value(fll, component)` -/
def keyValue (fll : String) (component : Option String) : Py.M (String × String) :=
  match splitColon (stripComments fll) with
  | [k, v] => if truthyOptStr component && (some k != component) then .error .syntax else .ok (strip k, strip v)
  | _ => .error .syntax

/-- `FllImporter.term(line, engine)` (the reference to the engine is outside the model) -/
def termOf (line : String) : Py.M Term :=
  keyValue line (some "term") >>= fun kv => lift (importTerm (lexValue .term kv.2.toList))

/-- `FllImporter.rule(line, engine)` -/
def ruleOf (line : String) : Py.M Rule :=
  keyValue line (some "rule") >>= fun kv => lift (importRule (lexValue .rule kv.2.toList))

/-- `FllImporter.defuzzifier(value)` -/
def defuzzOf (value : String) : Py.M (Option Defuzz) := lift (importDefuzz (lexValue .defuzzifier value.toList))

/-- `FllImporter.activation(value)` -/
def activOf (value : String) : Py.M (Option Activ) := lift (importActiv (lexValue .activation value.toList))

end Py.Fll
