import FlVerif.Spec.Consequent

/-! # `Consequent.modify`, `Rule.trigger`, `Consequent.load`  (C07, code-shaped)

`modifyPinned` follows `fuzzylite/rule.py` **as written**: the hedge loop re-binds the parameter
`activation_degree`, so the hedged value is carried into the following conclusions (finding F3).
`modifyRepaired` is the same loop with a local variable per conclusion (the repair that the golden data set of
`sugeno_tip_calculator` does not allow).  `load` is the token state machine of `Consequent.load`. -/

namespace Op.Consequent
open Spec.Consequent

/-- `for hedge in reversed(proposition.hedges): degree = hedge.hedge(degree)` -/
def hedgeLoop {V : Type} (hs : List (V → V)) (d : V) : V := hs.reverse.foldl (fun acc h => h acc) d

/-- `Activated(term, degree, implication)`: the `degree` setter applies `san` (`np.nan_to_num(nan=0, neginf=0, posinf=1)`) -/
def activated {V I : Type} (san : V → V) (c : Concl V) (d : V) (impl : I) : Act V I :=
  { var := c.var, term := c.term, degree := san d, impl := impl }

/-- `Consequent.modify` as written (pinned): `activation_degree` is the loop-carried variable -/
def modifyPinned {V I : Type} (san : V → V) (impl : I) : V → List (Concl V) → List (Act V I)
  | _, [] => []
  | d, c :: cs =>
    if c.enabled then
      let d' := hedgeLoop c.hedges d          -- activation_degree = hedge.hedge(activation_degree) …
      activated san c d' impl :: modifyPinned san impl d' cs   -- … and the next iteration starts from d'
    else modifyPinned san impl d cs

/-- the repaired loop: the hedged degree is local to the conclusion -/
def modifyRepaired {V I : Type} (san : V → V) (impl : I) : V → List (Concl V) → List (Act V I)
  | _, [] => []
  | d, c :: cs =>
    if c.enabled then activated san c (hedgeLoop c.hedges d) impl :: modifyRepaired san impl d cs
    else modifyRepaired san impl d cs

/-- `Rule.trigger` (for a loaded rule): `triggered = False; if enabled: modify(...); triggered = degree > 0` -/
def trigger {V I : Type} (san : V → V) (pos : V → Bool) (ruleEnabled : Bool) (d : V) (impl : I)
    (cs : List (Concl V)) : Bool × List (Act V I) :=
  if ruleEnabled then (pos d, modifyPinned san impl d cs) else (false, [])

def triggerRepaired {V I : Type} (san : V → V) (pos : V → Bool) (ruleEnabled : Bool) (d : V) (impl : I)
    (cs : List (Concl V)) : Bool × List (Act V I) :=
  if ruleEnabled then (pos d, modifyRepaired san impl d cs) else (false, [])

/-! ## `Consequent.load` -/

/-- a parsed conclusion: names only (the driver resolves hedge names to functions) -/
structure PConcl where
  var : String
  hedges : List String
  term : Option String
deriving DecidableEq, Repr

/-- the states the bit mask takes: `s_variable`, `s_is`, `s_hedge | s_term`, `s_and | s_with` -/
inductive St | variable | is_ | hedgeTerm | andWith
deriving DecidableEq, Repr

/-- output variables of the engine: name and term names.  `if variable:` is false for a variable without
    terms (`Variable.__len__`), so such a variable is not found. -/
def lookupVar (outs : List (String × List String)) (tok : String) : Option (List String) :=
  match outs.find? (fun p => p.1 == tok) with
  | some p => if p.2.isEmpty then none else some p.2
  | none => none

/-- `conclusions.append(proposition)` seen from the end: the proposition under construction joins the finished ones -/
def flush (done : List PConcl) (cur : Option (PConcl × List String)) : List PConcl :=
  match cur with
  | some (p, _) => p :: done
  | none => done

/-- the loop body of `Consequent.load`: `done` holds the finished conclusions (reversed), `cur` the proposition
    under construction -/
def step (outs : List (String × List String)) (hedgeNames : List String)
    (st : St) (done : List PConcl) (cur : Option (PConcl × List String)) (tok : String) :
    Option (St × List PConcl × Option (PConcl × List String)) :=
  match st, cur with
  | .variable, _ =>
    match lookupVar outs tok with
    | some terms =>
      some (.is_, flush done cur, some ({ var := tok, hedges := [], term := none }, terms))
    | none => none                      -- SyntaxError: expected an output variable
  | .is_, _ => if tok == "is" then some (.hedgeTerm, done, cur) else none
  | .hedgeTerm, some (p, terms) =>
    if hedgeNames.contains tok then some (.hedgeTerm, done, some ({ p with hedges := p.hedges ++ [tok] }, terms))
    else if terms.contains tok then some (.andWith, done, some ({ p with term := some tok }, terms))
    else none                           -- SyntaxError: expected a hedge or term
  | .hedgeTerm, none => none
  | .andWith, _ => if tok == "and" then some (.variable, done, cur) else none   -- SyntaxError: unexpected token

def run (outs : List (String × List String)) (hedgeNames : List String) :
    St → List PConcl → Option (PConcl × List String) → List String → Option (St × List PConcl × Option (PConcl × List String))
  | st, done, cur, [] => some (st, done, cur)
  | st, done, cur, t :: ts =>
    match step outs hedgeNames st done cur t with
    | some (st', done', cur') => run outs hedgeNames st' done' cur' ts
    | none => none

/-- `Consequent.load` on `text.split()`: `none` = `SyntaxError` (empty text, unexpected token, or a final state
    other than `s_and | s_with`) -/
def load (outs : List (String × List String)) (hedgeNames : List String) (toks : List String) : Option (List PConcl) :=
  if toks.isEmpty then none
  else match run outs hedgeNames .variable [] none toks with
    | some (.andWith, done, some (p, _)) => some (p :: done).reverse
    | _ => none

/-- the text of a list of conclusions -/
def renderOne (c : PConcl) : List String := [c.var, "is"] ++ c.hedges ++ (match c.term with | some t => [t] | none => [])
def render : List PConcl → List String
  | [] => []
  | [c] => renderOne c
  | c :: cs => renderOne c ++ ["and"] ++ render cs

end Op.Consequent
