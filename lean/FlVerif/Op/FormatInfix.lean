import FlVerif.Spec.Expr
import FlVerif.Spec.FloatLit

/-! # `Function.format_infix` (term.py) followed by `.split()` — character level

```python
operators = set(factory.operators().keys()).union({"(", ")", ","}) - {Rule.AND, Rule.OR}
regex = "|".join(re.escape(o) for o in sorted(operators, reverse=True))   # multi-char operators first
spaced = re.sub(rf"({regex})", r" \1 ", formula)
result = re.sub(r"\s+", " ", spaced).strip()
```

A regular-expression alternation tries the alternatives in order at every position, scanning left to right and
continuing after a match; `scan` does exactly that and splits at white space in the same pass. -/

namespace Op
open Lang

/-- the alternation of the regular expression: symbolic operators and punctuation in reverse sorted order -/
def insertDesc (s : String) : List String → List String
  | [] => [s]
  | x :: xs => if x < s then s :: x :: xs else x :: insertDesc s xs

/-- `sorted(operators, reverse=True)` (insertion sort; strings compare by code points as in Python) -/
def sortDesc (l : List String) : List String := l.foldr insertDesc []

def symbolOps (tbl : Table) : List String :=
  sortDesc ((tbl.filter (fun r => r.2.1 && r.1 != "and" && r.1 != "or")).map (·.1) ++ ["(", ")", ","])

def isPrefix : List Char → List Char → Bool
  | [], _ => true
  | _ :: _, [] => false
  | a :: as, b :: bs => a == b && isPrefix as bs

/-- first alternative that matches at the current position -/
def firstMatch (ops : List (List Char)) (cs : List Char) : Option (List Char) :=
  ops.find? (fun o => !o.isEmpty && isPrefix o cs)

def flush (cur : List Char) : List String := if cur.isEmpty then [] else [String.ofList cur]

/-- `skip`: characters of an operator already emitted; `cur`: the word being read -/
def scan (ops : List (List Char)) : List Char → Nat → List Char → List String
  | [], _, cur => flush cur
  | _ :: cs, skip + 1, cur => scan ops cs skip cur
  | c :: cs, 0, cur =>
    match firstMatch ops (c :: cs) with
    | some o => flush cur ++ String.ofList o :: scan ops cs (o.length - 1) []
    | none => if isSpace c then flush cur ++ scan ops cs 0 [] else scan ops cs 0 (cur ++ [c])

/-- `format_infix(formula).split()` -/
def formatInfix (tbl : Table) (formula : String) : List String :=
  scan ((symbolOps tbl).map String.toList) formula.toList 0 []

/-- `text.split()` -/
def splitWords (text : String) : List String := scan [] text.toList 0 []

end Op
