import FlVerif.Op.FllIO

/-! Model of the Python representation of fuzzylite objects (C15).

`Representation.as_constructor / construction_arguments` (library.py) build the text `Class(arg, …, kw=arg, …)`
from a *fields* dictionary and the signature of the constructor; every `__repr__` override decides which fields it
passes on.  Here an object is a tree (`Val`): a class name with named fields, lists, arrays, dictionaries and
atoms; `asConstructor` produces the constructor-call tree (`Src`) that the library prints, `evalCall` is what the
Python interpreter does with such a call: bind positional and keyword arguments against the signature, take the
constructor defaults for the rest.

Regenerated from the code on every run (`Gen.ExportTables`): the constructor parameters of every class with the
value a default-constructed object stores under that name (`ctorParams`), what each `__repr__` passes to
`construction_arguments` (`reprProbe`: positional flag, fields never passed, fields dropped conditionally and the
probed condition), and the module of every class (`classModule`, for the alias prefix).

Leaf texts (`repr(float)`, `repr(str)`) are CPython's; the harness renders the leaves of the call tree. -/

namespace Op.PyRepr
open Dec Op.FllIO

/-- rose trees -/
inductive Rose (A K : Type) where
  | atom (a : A)
  | node (k : K) (kids : List (Rose A K))
deriving Repr, Inhabited

/-- leaves of an object -/
inductive Atom where
  | num (x : Num)
  | int (z : Int)
  | str (s : String)
  | bool (b : Bool)
  | none
  | enum (s : String)          -- printed as `'s'` by the enum's own `__repr__`
  | rule (r : Rule)            -- a rule: printed as `Rule.create('text')`
  | other (what : String)      -- a value without constructor-argument form (engine reference, run-time state)
deriving DecidableEq, Repr, Inhabited

inductive VKind where
  | list
  | array
  | dict (keys : List String)
  | obj (cls : String) (names : List String)
deriving DecidableEq, Repr, Inhabited

/-- an object tree: `node (obj cls names) kids` has the field `names[i] = kids[i]` -/
abbrev Val := Rose Atom VKind

/-- leaves of the source: an atom with the prefix used for `nan` / `inf`, a rule creation, or an invalid call -/
inductive SAtom where
  | lit (pfx : String) (a : Atom)
  | rule (pfx : String) (toks : List Tok)
  | invalid                                    -- `construction_arguments` raised
deriving DecidableEq, Repr, Inhabited

inductive SKind where
  | list
  | array (pfx : String)
  | dict (keys : List String)
  | call (pfx cls : String) (kws : List (Option String))      -- `none` = positional argument
deriving DecidableEq, Repr, Inhabited

abbrev Src := Rose SAtom SKind

structure Env where
  aliasName : String
  cfg : Cfg
deriving Repr

/-! ### tables -/

structure Param where
  name : String
  hasDefault : Bool
  stored : Option Val       -- what `Class()` stores under this name; `none` = not stored (or `*args`)

def payloadVal : Gen.ExportTables.PyDefault → Option Val
  | .none => some (.atom .none)
  | .bool b => some (.atom (.bool b))
  | .int z => some (.atom (.int z))
  | .float n d => some (.atom (.num (.fin (mkRat n d))))
  | .nan => some (.atom (.num .nan))
  | .inf neg => some (.atom (.num (if neg then .ninf else .pinf)))
  | .str s => some (.atom (.str s))
  | .enum s => some (.atom (.enum s))
  | .emptyList => some (.node .list [])
  | .emptyDict => some (.node (.dict []) [])
  | .emptyArray => some (.node .array [])
  | .obj c => some (.atom (.other c))
  | .absent => none
  | .varargs => none

def paramsOf (cls : String) : Option (List Param) :=
  (Gen.ExportTables.ctorParams.lookup cls).map
    (fun ps => ps.map (fun (n, hd, dv) => ⟨n, hd, payloadVal dv⟩))

inductive DropKind where
  | eqDefault | close1 | unknown
deriving DecidableEq, Repr

def dropKindOf (s : String) : DropKind :=
  if s = "eqDefault" then .eqDefault else if s = "close1" then .close1 else .unknown

structure ReprInfo where
  positional : Bool
  always : List String
  cond : List (String × DropKind)
  added : List String

def reprInfoOf (cls : String) : Option ReprInfo :=
  (Gen.ExportTables.reprProbe.lookup cls).map
    (fun (p, al, cd, ad) => ⟨p, al, cd.map (fun (n, k) => (n, dropKindOf k)), ad⟩)

/-- `s[n:]` -/
def strFrom (s : String) (n : Nat) : String := String.ofList (s.toList.drop n)

/-- `Representation.package_of` for an object whose module has the name `module` (any alias, any module name; tied to
    the code by `C15.code_packageOf`): the module path for the alias `''`, nothing for `'*'`, the alias for a module of the
    library, the module path otherwise; a module below `fuzzylite.examples` keeps its path below `fuzzylite` after a
    non-empty alias; a non-empty prefix ends in exactly one more `.` unless it ends in one already -/
def packageOf (al module : String) : String :=
  let base := if al = "" then module else if al = "*" then "" else if module.startsWith "fuzzylite." then al else module
  let pkg := if module.startsWith "fuzzylite.examples." && al != "" then base ++ strFrom module 9 else base
  if pkg != "" && !pkg.endsWith "." then pkg ++ "." else pkg

def classPrefix (env : Env) (cls : String) : String :=
  packageOf env.aliasName ((Gen.ExportTables.classModule.lookup cls).getD "fuzzylite")

def settingsPrefix (env : Env) : String := packageOf env.aliasName Gen.ExportTables.settingsModule

/-! ### `construction_arguments` -/

/-- the loop over the signature: emit present fields; after the first skipped (defaulted) parameter every
    argument is emitted by keyword; a missing parameter without default is an error -/
def emit {β : Type} (fields : String → Option β) : Bool → List Param → Option (List (Option String × β))
  | _, [] => some []
  | positional, p :: ps =>
    match fields p.name with
    | some v => (emit fields positional ps).map (fun as => ((if positional then none else some p.name), v) :: as)
    | none => if p.hasDefault then emit fields false ps else none

/-- labels of the empty containers that occur as constructor defaults -/
def emptyKind : VKind → Bool
  | .list => true
  | .array => true
  | .dict [] => true
  | _ => false

/-- equality with a constructor default: defaults are plain atoms or empty containers -/
def eqDefaultVal : Val → Val → Bool
  | .atom (.rule _), _ => false
  | .atom a, .atom b => a == b
  | .node k [], .node k' [] => emptyKind k && k == k'
  | _, _ => false

/-- the conditions under which the `__repr__` overrides drop a field: equal to the default (the overrides test
    `not description`, `enabled`, `resolution == default_resolution`, `type == Automatic`, `not variables`), or a
    height within the tolerance of 1 -/
def dropHolds (env : Env) (dflt : Option Val) : DropKind → Val → Bool
  | .eqDefault, v => match dflt with
    | some d => eqDefaultVal d v
    | none => false
  | .close1, .atom (.num x) => isClose1 env.cfg.tol x
  | .close1, _ => false
  | .unknown, _ => false

def defaultOf (ps : List Param) (n : String) : Option Val := (ps.find? (·.name = n)).bind (·.stored)

/-- does the `__repr__` override remove the field `n` (holding `v`) from the fields it passes on -/
def dropped (env : Env) (ps : List Param) (info : ReprInfo) (n : String) (v : Val) : Bool :=
  info.always.contains n ||
    (match info.cond.lookup n with
     | some k => dropHolds env (defaultOf ps n) k v
     | none => false)

/-- the `fields` dictionary given to `construction_arguments`, as a lookup -/
def passed (env : Env) (ps : List Param) (info : ReprInfo) (fields : List (String × Val)) (n : String) : Option Val :=
  (fields.lookup n).bind (fun v => if dropped env ps info n v then none else some v)

def litSrc (env : Env) : Atom → SAtom
  | .rule r => .rule (classPrefix env "Rule") (ruleToks (keepHeight env.cfg) env.cfg r)
  | .other _ => .invalid
  | a => .lit (settingsPrefix env) a

mutual
/-- `repr(x)` as a constructor-call tree -/
def asConstructor (env : Env) : Val → Src
  | .atom a => .atom (litSrc env a)
  | .node k kids =>
    let ks := asConstructorList env kids
    match k with
    | .list => .node .list ks
    | .array => .node (.array (settingsPrefix env)) ks
    | .dict keys => .node (.dict keys) ks
    | .obj cls names =>
      match paramsOf cls, reprInfoOf cls with
      | some ps, some info =>
        if info.cond.any (fun c => c.2 == .unknown) then .atom .invalid else
        match emit (fun n => if (passed env ps info (names.zip kids) n).isSome then (names.zip ks).lookup n else none)
            info.positional ps with
        | some args => .node (.call (classPrefix env cls) cls (args.map (·.1))) (args.map (·.2))
        | none => .atom .invalid
      | _, _ => .atom .invalid
def asConstructorList (env : Env) : List Val → List Src
  | [] => []
  | v :: vs => asConstructor env v :: asConstructorList env vs
end

/-! ### evaluating a call -/

def lookupKw {β : Type} (n : String) : List (Option String × β) → Option β
  | [] => none
  | (some m, v) :: as => if m = n then some v else lookupKw n as
  | (none, _) :: as => lookupKw n as

/-- keyword phase of Python's binding: by name, else the default (the value `Class()` stores), else an error;
    parameters that the constructor does not store under their name are skipped -/
def bindKw {β : Type} (dflt : Param → Option β) (args : List (Option String × β)) : List Param → Option (List (String × β))
  | [] => some []
  | p :: ps =>
    match lookupKw p.name args with
    | some v => (bindKw dflt args ps).map (fun env => (p.name, v) :: env)
    | none =>
      match dflt p with
      | some d => (bindKw dflt args ps).map (fun env => (p.name, d) :: env)
      | none => if p.hasDefault then bindKw dflt args ps else none

/-- positional phase, then the keyword phase -/
def bindArgs {β : Type} (dflt : Param → Option β) : List Param → List (Option String × β) → Option (List (String × β))
  | p :: ps, (none, v) :: as => (bindArgs dflt ps as).map (fun env => (p.name, v) :: env)
  | [], (none, _) :: _ => none
  | ps, as => bindKw dflt as ps

mutual
/-- what the interpreter builds from the source -/
def evalCall : Src → Option Val
  | .atom (.lit _ a) => some (.atom a)
  | .atom (.rule _ toks) =>
    match importRule toks with
    | .ok r => some (.atom (.rule r))
    | .error _ => none
  | .atom .invalid => none
  | .node k kids =>
    match evalList kids with
    | none => none
    | some vs =>
      match k with
      | .list => some (.node .list vs)
      | .array _ => some (.node .array vs)
      | .dict keys => some (.node (.dict keys) vs)
      | .call _ cls kws =>
        match paramsOf cls with
        | none => none
        | some ps =>
          match bindArgs (fun p => p.stored) ps (kws.zip vs) with
          | none => none
          | some bound => some (.node (.obj cls (bound.map (·.1))) (bound.map (·.2)))
def evalList : List Src → Option (List Val)
  | [] => some []
  | s :: ss =>
    match evalCall s, evalList ss with
    | some v, some vs => some (v :: vs)
    | _, _ => none
end

/-! ### the object the evaluation is expected to build -/

/-- for every parameter the constructor stores: the field that was passed on, else the constructor default -/
def expected {β : Type} (fields : String → Option β) (dflt : Param → Option β) : List Param → Option (List (String × β))
  | [] => some []
  | p :: ps =>
    match fields p.name with
    | some v => (expected fields dflt ps).map (fun env => (p.name, v) :: env)
    | none =>
      match dflt p with
      | some d => (expected fields dflt ps).map (fun env => (p.name, d) :: env)
      | none => if p.hasDefault then expected fields dflt ps else none

mutual
/-- fields the `__repr__` dropped are replaced by the constructor default; rules go through one FLL cycle -/
def view (env : Env) : Val → Val
  | .atom (.rule r) => .atom (.rule (canonRule (keepHeight env.cfg) env.cfg r))
  | .atom a => .atom a
  | .node k kids =>
    let vs := viewList env kids
    match k with
    | .obj cls names =>
      match paramsOf cls, reprInfoOf cls with
      | some ps, some info =>
        match expected (fun n => if (passed env ps info (names.zip kids) n).isSome then (names.zip vs).lookup n else none)
            (fun p => p.stored) ps with
        | some bound => .node (.obj cls (bound.map (·.1))) (bound.map (·.2))
        | none => .node k vs
      | _, _ => .node k vs
    | _ => .node k vs
def viewList (env : Env) : List Val → List Val
  | [] => []
  | v :: vs => view env v :: viewList env vs
end

end Op.PyRepr
