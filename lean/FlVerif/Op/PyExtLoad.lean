import FlVerif.Op.PyExt
import FlVerif.Op.ConsequentLoad

/-! # Externals of the translated `Consequent.load` / `Antecedent.load` (`rule.py`)

The objects the two loaders handle, as the translated code sees them: an engine is an `Op.EngineInfo`, a variable an
`Op.VarInfo` (terms by name), a hedge / term object is the name it was looked up by, a dictionary
`{o.name: o for o in l}` is kept as the list `l` it was built from (`get`: the last entry of that name). -/

deriving instance Inhabited for Op.VarInfo

namespace Py.Load
open Op

/-- `Proposition(variable)`: `variable`, `hedges = []`, `term = None` -/
structure Proposition where
  variable_ : VarInfo
  hedges : List String := []
  term_ : Option String := none
deriving DecidableEq, Repr, Inhabited

/-- a node of the tree `Antecedent.load` builds: a `Proposition`, an `Operator(name)` with its operands, or the
    value `None` of an operand that has not been set -/
inductive Expression where
  | none
  | prop (p : Proposition)
  | op (name : String) (left right : Expression)
deriving DecidableEq, Repr, Inhabited

/-- `Operator(name)`: `name`, `left = None`, `right = None` (a local that is filled before it is pushed) -/
structure Operator where
  name : String
  left : Expression := .none
  right : Expression := .none
deriving DecidableEq, Repr, Inhabited

/-- an operator object as an element of the stack -/
def Expression.ofOp (o : Operator) : Expression := .op o.name o.left o.right

/-- the proposition behind an element of the stack that was pushed as one (an `Operator` has no attributes `hedges`,
    `term`, `variable`: `AttributeError`) -/
def Expression.asProp : Expression → Py.M Proposition
  | .prop p => .ok p
  | _ => .error .internal

/-- `{v.name: v for v in l}.get(n)` for variables -/
def varGet (l : List VarInfo) (n : String) : Option VarInfo := l.reverse.find? (·.name == n)

/-- truth value of `variables.get(n)`: `None` is false, and so is a variable without terms (`Variable.__len__`) -/
def varTruthy (o : Option VarInfo) : Bool :=
  match o with
  | some v => !v.terms.isEmpty
  | none => false

/-- `{t.name: t for t in l}.get(n)` for terms (a term object is its name; terms have no `__len__` / `__bool__`) -/
def termGet (l : List String) (n : String) : Option String := if l.contains n then some n else none

/-- `engine.output_variables` -/
def outputs (e : EngineInfo) : List VarInfo := e.vars.filter (·.isOutput)

end Py.Load
