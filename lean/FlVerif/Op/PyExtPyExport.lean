import FlVerif.Op.PyExt
import FlVerif.Op.PyExport

/-! # Externals of the translated Python representation / `PythonExporter` code (profiles `fv/profiles/pyexport.py`)

Values are the trees `Op.PyRepr.Val` of the C15 model; a dictionary that the code copies, pops from and hands on
(`fields = vars(self).copy()`) is the list of its items (keys pairwise distinct, as in a dictionary). -/

namespace Py.PyExport
open Op.PyRepr

/-- `s[n:]` -/
def strFrom (s : String) (n : Nat) : String := String.ofList (s.toList.drop n)

/-- `' ' in s` -/
def hasSpace (s : String) : Bool := s.toList.contains ' '

/-- `d.pop(k)`: `KeyError` when `k` is not a key -/
def dictPop {β : Type} (d : List (String × β)) (k : String) : Py.M (List (String × β)) :=
  match d.lookup k with
  | some _ => .ok (d.filter (fun p => p.1 != k))
  | none => .error .lookup

/-- `d[k] = v` (only look-ups follow, so a replaced entry may move to the front) -/
def dictSet {β : Type} (d : List (String × β)) (k : String) (v : β) : List (String × β) :=
  (k, v) :: d.filter (fun p => p.1 != k)

/-- `hasattr(self, name)` for the `repr_*` attributes of the class (`methods` = the regenerated list of
    (attribute, qualified name of the function it is bound to)) -/
def hasMethod (methods : List (String × String)) (name : String) : Bool := (methods.lookup name).isSome

/-- `getattr(self, name)(x, level)`: the function the attribute is bound to (`C` = functions by qualified name),
    `AttributeError` when there is no such attribute -/
def callMethod {α : Type} (methods : List (String × String)) (C : String → α → Int → Py.M String) (name : String)
    (x : α) (level : Int) : Py.M String :=
  match methods.lookup name with
  | some q => C q x level
  | none => .error .internal

def numIsInf : Num → Bool
  | .pinf => true | .ninf => true | _ => false

def numIsNan : Num → Bool
  | .nan => true | _ => false

/-- `x > 0` -/
def numPos : Num → Bool
  | .pinf => true
  | .fin q => decide (0 < q)
  | _ => false

/-- `np.abs(x)` -/
def numAbs : Num → Num
  | .nan => .nan | .pinf => .pinf | .ninf => .pinf | .nzero => .fin 0
  | .fin q => .fin |q|

/-- the rows of an array / the elements of a list: what `for y in x` visits -/
def kids : Val → List Val
  | .node _ ks => ks
  | .atom _ => []

/-- `self.construction_arguments(x, fields=…, positional=…)` as tied by `C15.code_constructionArguments`: the
    arguments of the model `emit` over the signature without `self`, `ValueError` when `emit` fails -/
def constructionArguments (noInit : Bool) (sig : List Param) (fields : String → Option String) (positional : Bool) :
    Py.M (List String) :=
  match emit fields positional (if noInit then [] else notSelf sig) with
  | none => .error .value
  | some args => .ok (args.map argText)

end Py.PyExport
