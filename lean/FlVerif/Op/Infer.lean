import FlVerif.Base.Py
import FlVerif.Op.Weighted

/-! # `Engine.infer_type`, `Variable.highest_membership`, `Variable.fuzzify`  (engine.py, variable.py; code-shaped)

`Engine.infer_type` is a decision table over the defuzzifiers of the output variables and the implication operators of
the rule blocks.  An output variable is seen through its defuzzifier: none, an `IntegralDefuzzifier`, or a
`WeightedDefuzzifier` together with what `defuzzifier.infer_type(variable)` returns for the variable - the common type of
its terms (`Automatic` for a variable without terms), or a `TypeError` when its terms have several types.  The
exception is part of the function's behaviour: the generators of `all(...)` stop at the first false element, so a
variable with terms of several types raises only if no earlier variable has decided the test.

`Variable.highest_membership` is a fold over the terms that keeps the first term with the largest positive degree (a
`ValueError` of a membership function counts as NaN, any other exception goes through); `Variable.fuzzify` concatenates
the texts of the activated terms, the first one without padding.  Both wrap a term and its degree in `Activated(term,
degree)`, whose constructor stores the degree through the setter of `Activated.degree`: `nan_to_num(degree, nan=0,
neginf=0, posinf=1)` (`X.nanToNum01`).  In `highest_membership` the stored degree is what later terms are compared
with and what the caller gets: a membership value of `+inf` (a `Constant` or `Linear` term) is kept as 1, so a later
term of degree 5 replaces it (found by the differential stream of C01; the model compared with `+inf` before). -/

namespace Op.Infer
open Op.Weighted

/-- `Engine.Type` -/
inductive EType | unknown | mamdani | larsen | takagiSugeno | tsukamoto | inverseTsukamoto | hybrid
deriving DecidableEq, Repr, Inhabited

/-- the defuzzifier of an output variable; for a weighted one, `wtype` is the result of
    `defuzzifier.infer_type(variable)`: `none` = `TypeError` (the terms of the variable have several types) -/
inductive Defuzz
  | none
  | integral
  | weighted (wtype : Option WType)
deriving DecidableEq, Repr, Inhabited

/-- a rule block: `isinstance(rule_block.implication, AlgebraicProduct)` -/
structure Block where
  product : Bool
deriving DecidableEq, Repr, Inhabited

structure Engine where
  outputs : List Defuzz
  blocks : List Block
deriving Repr, Inhabited

def Defuzz.isIntegral : Defuzz → Bool
  | .integral => true
  | _ => false

def Defuzz.isWeighted : Defuzz → Bool
  | .weighted _ => true
  | _ => false

/-- truth value of `variable.defuzzifier` (an object without `__bool__` / `__len__`, or `None`) -/
def Defuzz.present : Defuzz → Bool
  | .none => false
  | _ => true

/-- `variable.defuzzifier.infer_type(variable)`: `AttributeError` without a defuzzifier or for an integral one (the
    code never gets there: the `isinstance` test comes first), `TypeError` for terms of several types - both `internal` -/
def Defuzz.weightedType : Defuzz → Py.M WType
  | .weighted (some t) => .ok t
  | _ => .error .internal

/-- `all(isinstance(v.defuzzifier, WeightedDefuzzifier) and v.defuzzifier.infer_type(v) == t for v in outputs)`,
    elements evaluated in order up to the first false one -/
def allWeighted (t : WType) : List Defuzz → Py.M Bool
  | [] => .ok true
  | .weighted (some t') :: rest => if t' = t then allWeighted t rest else .ok false
  | .weighted none :: _ => .error .internal
  | _ :: _ => .ok false

/-- **`Engine.infer_type`** -/
def inferType (e : Engine) : Py.M EType :=
  if e.outputs.isEmpty then .ok .unknown
  else if e.outputs.all (·.isIntegral) then
    if !e.blocks.isEmpty && e.blocks.all (·.product) then .ok .larsen else .ok .mamdani
  else
    allWeighted .takagiSugeno e.outputs >>= fun ts =>
    if ts then .ok .takagiSugeno
    else
      allWeighted .tsukamoto e.outputs >>= fun tk =>
      if tk then .ok .tsukamoto
      else
        allWeighted .automatic e.outputs >>= fun au =>
        if au then .ok .inverseTsukamoto
        else if e.outputs.all (·.present) then .ok .hybrid
        else .ok .unknown

/-! ## `Variable.highest_membership` -/

/-- the degree the loop compares: `term.membership(x)`, NaN when it raises `ValueError` -/
def degreeOf {τ : Type} (mu : τ → Py.M (X Rat)) (t : τ) : Py.M (X Rat) :=
  match mu t with
  | .error .value => .ok .nan
  | r => r

/-- one step: the term replaces the current highest when there is none and its degree is positive, or when its degree
    is larger than the degree the current highest holds (`highest.degree`, as stored by the constructor) -/
def better (highest : Option (τ × X Rat)) (d : X Rat) : Bool :=
  match highest with
  | none => X.lt (.fin 0) d
  | some h => X.lt h.2 d

def highestLoop {τ : Type} (mu : τ → Py.M (X Rat)) : List τ → Option (τ × X Rat) → Py.M (Option (τ × X Rat))
  | [], h => .ok h
  | t :: rest, h => degreeOf mu t >>= fun d => highestLoop mu rest (if better h d then some (t, X.nanToNum01 d) else h)

/-- **`Variable.highest_membership`** -/
def highestMembership {τ : Type} (mu : τ → Py.M (X Rat)) (terms : List τ) : Py.M (Option (τ × X Rat)) :=
  highestLoop mu terms none

/-! ## `Variable.fuzzify` -/

/-- **`Variable.fuzzify`** (scalar `x`): `fv (term, degree) padding` is the text `Activated.fuzzy_value(padding)` of
    an activated term that holds `degree` (what the constructor stored) -/
def fuzzifyLoop {τ : Type} (mu : τ → Py.M (X Rat)) (fv : τ × X Rat → Bool → String) :
    List (Nat × τ) → String → Py.M String
  | [], s => .ok s
  | (i, t) :: rest, s => mu t >>= fun d => fuzzifyLoop mu fv rest (s ++ fv (t, X.nanToNum01 d) (decide (i > 0)))

def fuzzify {τ : Type} (mu : τ → Py.M (X Rat)) (fv : τ × X Rat → Bool → String) (terms : List τ) : Py.M String :=
  fuzzifyLoop mu fv (Py.enumerate terms) ""

end Op.Infer
