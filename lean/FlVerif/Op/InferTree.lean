import FlVerif.Op.PyExtWave5X

/-! # `WeightedDefuzzifier.infer_type` on every component  (defuzzifier.py:421; code-shaped)

`Op.Weighted.inferType` is `infer_type` on the fuzzy output of a weighted defuzzifier: a list of `Activated` terms over
plain terms.  The classmethod itself accepts any tree of components (`Py.W5.Comp`): an `Aggregated` term or a `Variable`
with its terms, an `Activated` term with the term it wraps - which can again be any of these -, or a plain term.
`inferComp` is the function on such a tree; `C10.code_inferType_tree` ties it to the translated source, and on the list of
the weighted model it is `inferType` (`inferComp_ofActs`). -/

namespace Op.Weighted
open Py.W5

mutual
/-- `infer_type` on every component: a plain term by its class, an `Activated` term by the term it wraps, an
    `Aggregated` term / a `Variable` by the set of the types of its terms -/
def inferComp : Comp → Except Err WType
  | .plain t => .ok (inferTerm t)
  | .activated c => inferComp c
  | .group ts =>
    inferList ts >>= fun l =>
    match Py.distinct l with
    | [t] => .ok t
    | [] => .ok .automatic
    | _ => .error .typeError
/-- the types of a list of components, left to right, up to the first one that raises -/
def inferList : List Comp → Except Err (List WType)
  | [] => .ok []
  | c :: cs => inferComp c >>= fun t => inferList cs >>= fun l => .ok (t :: l)
end

end Op.Weighted
