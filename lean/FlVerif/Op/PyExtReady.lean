import FlVerif.Base.Py
import FlVerif.Op.IsReady

/-! # Externals of the translated `Engine.is_ready` (`engine.py`)

The generated code works on the abstract configuration `Op.Ready.Engine`: an attribute the check reads is the field
of the same meaning (`rule_block.conjunction` ↦ `conj`, `" and " in rule.antecedent.text` ↦ `textAnd`, …), a
component is named in an error message by its position, and every `errors.append(f"…")` appends the constructor of
`Op.Ready.Err` for that message.  Only the default values of the record of locals are needed here. -/

namespace Op.Ready

instance : Inhabited Rule := ⟨⟨false, false, false, false, false, false, []⟩⟩
instance : Inhabited Block := ⟨⟨false, false, false, false, false, []⟩⟩
instance : Inhabited Output := ⟨⟨false, false, .none, false⟩⟩

end Op.Ready
