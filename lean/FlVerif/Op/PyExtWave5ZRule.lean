import FlVerif.Op.PyExtLoad

/-! # Externals of the translated `Proposition.__str__` and `Antecedent.prefix / infix / postfix` (rule.py)

The expression tree is `Py.Load.Expression`, what the translated `Antecedent.load` builds (`.none` is the value `None` of
an operand that was never set).  An attribute that the class of the object does not have is an `AttributeError`. -/

namespace Py.W5Z
open Py.Load

/-- `isinstance(node, Proposition)` -/
def isProp : Expression → Bool
  | .prop _ => true
  | _ => false

/-- `isinstance(node, Operator)` -/
def isOp : Expression → Bool
  | .op _ _ _ => true
  | _ => false

/-- `node.left` -/
def leftOf : Expression → Py.M Expression
  | .op _ l _ => .ok l
  | _ => .error .internal

/-- `node.right` -/
def rightOf : Expression → Py.M Expression
  | .op _ _ r => .ok r
  | _ => .error .internal

/-- `node.name` -/
def nameOf : Expression → Py.M String
  | .op n _ _ => .ok n
  | _ => .error .internal

/-- nesting depth (the bound for the recursion of the renderings) -/
def depth : Expression → Nat
  | .none => 0
  | .prop _ => 1
  | .op _ l r => max (depth l) (depth r) + 1

end Py.W5Z
