import FlVerif.Op.RuleParse
import FlVerif.Op.AntecedentLoad
import FlVerif.Op.ConsequentLoad

/-! # `Rule.load`, `Rule.create`, `Rule.is_loaded`, `Rule.text` (rule.py)

`load`: `deactivate(); antecedent.load(engine); consequent.load(engine)` – each part unloads itself first, so a part
that fails stays unloaded and a failure of the antecedent leaves the consequent as it was. -/

namespace Op
open Lang

/-- what `is_loaded` looks at: the antecedent's expression and the consequent's conclusions -/
structure RuleState where
  ante : Option ANode
  cons : List Conclusion
deriving DecidableEq, Repr

/-- `antecedent.is_loaded() and consequent.is_loaded()` -/
def RuleState.isLoaded (s : RuleState) : Bool := s.ante.isSome && !s.cons.isEmpty

def joinWords (ws : List String) : String := " ".intercalate ws

/-- `Rule.load(engine)` from any previous state: new state and the exception (if any) -/
def ruleLoad (tbl : Table) (e : EngineInfo) (p : ParsedRule) (s : RuleState) : RuleState × Option ErrKind :=
  match antecedentLoad tbl e (joinWords p.ante) with
  | .error k => (⟨none, s.cons⟩, some k)
  | .ok a =>
    match consequentLoad e (joinWords p.cons) with
    | .error k => (⟨some a, []⟩, some k)
    | .ok cs => (⟨some a, cs⟩, none)

/-- `Rule.unload()`: `antecedent.unload()` (`expression = None`) and `consequent.unload()` (`conclusions.clear()`) -/
def RuleState.unloaded : RuleState := ⟨none, []⟩

/-- `RuleBlock.load_rules(engine)` on rules with the given texts: every rule is unloaded and then loaded inside a
    `try`, whatever happened to the rules before it; the result is the state every rule ends in and the failures in
    order (the rule and the exception class of its load – the code collects one message per failing rule) -/
def loadRules (tbl : Table) (e : EngineInfo) (ps : List ParsedRule) : List RuleState × List (ParsedRule × ErrKind) :=
  (ps.map (fun p => (ruleLoad tbl e p .unloaded).1),
   ps.filterMap (fun p => (ruleLoad tbl e p .unloaded).2.map (fun k => (p, k))))

/-- `load_rules` raises `RuntimeError` – after the last rule – exactly when some load failed -/
def loadRulesRaises (tbl : Table) (e : EngineInfo) (ps : List ParsedRule) : Bool := !(loadRules tbl e ps).2.isEmpty

/-- stage at which `Rule.create(text, engine)` stops -/
inductive Stage where
  | parse | ante | cons
deriving DecidableEq, Repr

/-- `Rule.create(text, engine)` on a fresh rule -/
def ruleCreate (tbl : Table) (e : EngineInfo) (text : String) :
    Except (ErrKind × Stage) (ParsedRule × ANode × List Conclusion) :=
  match ruleParse text with
  | .error k => .error (k, .parse)
  | .ok p =>
    match antecedentLoad tbl e (joinWords p.ante) with
    | .error k => .error (k, .ante)
    | .ok a =>
      match consequentLoad e (joinWords p.cons) with
      | .error k => .error (k, .cons)
      | .ok cs => .ok (p, a, cs)

/-- `Rule.text` as tokens: `if <antecedent> then <consequent> [with <weight>]`; `wtext` is the printed weight, absent
    when the weight is (close to) 1 -/
def ruleTextTokens (ante cons : List String) (wtext : Option String) : List String :=
  "if" :: (ante ++ "then" :: (cons ++ (match wtext with | some s => ["with", s] | none => [])))

end Op
