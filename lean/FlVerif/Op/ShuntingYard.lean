import FlVerif.Spec.Expr

/-! # `Function.infix_to_postfix` (term.py) — the shunting-yard loop, token level

Code-shaped model, parametric in the element table.  Tokens are classified once (`Lang.classify`, the lookup
`factory.objects.get(token)` the loop performs at the top of every iteration and again on `stack[-1]`; both are the
same pure function of the string).  `queue` grows at the end, `stack` has its top at the head. -/

namespace Op
open Lang

/-- the condition of the operator branch:
    `(element.associativity < 0 and element.precedence <= top.precedence) or
     (element.associativity > 0 and element.precedence < top.precedence)` -/
def popCond (e top : Elem) : Bool :=
  (decide (e.assoc < 0) && decide (e.prec ≤ top.prec)) || (decide (e.assoc > 0) && decide (e.prec < top.prec))

/-- `while stack and stack[-1] in factory.objects: … queue.append(stack.pop()) … else break`
    returns (popped in pop order, remaining stack) -/
def popOps (e : Elem) : List Tok → List Tok × List Tok
  | [] => ([], [])
  | .el top :: st => if popCond e top then (.el top :: (popOps e st).1, (popOps e st).2) else ([], .el top :: st)
  | t :: st => ([], t :: st)

/-- `while stack and stack[-1] != "(": queue.append(stack.pop())` followed by
    `if not stack or stack[-1] != "(": raise SyntaxError`: `none` = the error, otherwise (popped, stack from "(" on) -/
def popToParen : List Tok → Option (List Tok × List Tok)
  | [] => none
  | .lp :: st => some ([], .lp :: st)
  | t :: st => (popToParen st).map (fun ar => (t :: ar.1, ar.2))

/-- the `for token in formula.split()` loop followed by the final drain -/
def sy : List Tok → List Tok → List Tok → Except ErrKind (List Tok)
  | [], q, st =>
      -- while stack: if stack[-1] in {"(", ")"}: raise SyntaxError; queue.append(stack.pop())
      if st.all (fun t => t != .lp && t != .rp) then .ok (q ++ st) else .error .syntax
  | .operand s :: ts, q, st => sy ts (q ++ [.operand s]) st
  | .el e :: ts, q, st =>
      if e.isOp then sy ts (q ++ (popOps e st).1) (.el e :: (popOps e st).2)
      else sy ts q (.el e :: st)                                   -- function: stack.append(token)
  | .comma :: ts, q, st =>
      match popToParen st with
      | none => .error .syntax
      | some (a, r) => sy ts (q ++ a) r
  | .lp :: ts, q, st => sy ts q (.lp :: st)
  | .rp :: ts, q, st =>
      match popToParen st with
      | some (a, .lp :: .el f :: r) =>
          -- stack.pop(); if stack and stack[-1] in objects and objects[stack[-1]].is_function(): queue.append(stack.pop())
          if f.isOp then sy ts (q ++ a) (.el f :: r) else sy ts (q ++ a ++ [.el f]) r
      | some (a, .lp :: r) => sy ts (q ++ a) r
      | _ => .error .syntax

/-- `infix_to_postfix` on the token list produced by `format_infix(...).split()` -/
def toPostfix (tbl : Table) (tokens : List String) : Except ErrKind (List String) :=
  (sy (tokens.map (classify tbl)) [] []).map (·.map Tok.str)

end Op
