import FlVerif.Op.PyExtIntegral
import FlVerif.Op.PyExtWeighted
import FlVerif.Op.Interp

/-! # Externals of the translated terms whose membership is not a traced formula (`term.py`): `Discrete.membership`,
`Discrete.x` / `y` / `to_xy` / `create`, `Term.discretize`, `Linear.membership`, `Constant.membership`,
`Term.update_reference` / `Linear.update_reference`, `Aggregated.range`, `Aggregated.highest_activated_term`

NumPy values of unknown rank are `Py.Np.Nd` (`Op/PyExtIntegral.lean`: a 0-d scalar, a vector, a matrix as the list of
its rows).  The array `Discrete.values` is a `Values`: like `Nd`, but a 2-D array knows its number of columns also
when it has no rows (`np.atleast_2d(scalar([]))` has shape `(1, 0)`, `scalar([[], []]).T` has shape `(0, 2)`; both
have size 0), and there is the 3-D array that `to_xy` builds from two arrays of shape `(1, n)`.  Arrays of higher
rank are outside the vocabulary. -/

namespace Py.Disc
open Py.Np

/-! ## the array `Discrete.values` -/

inductive Values where
  | scalar (v : X Rat)                        -- 0-d
  | vec (l : Row)                             -- 1-D
  | mat (cols : Nat) (rows : List Row)        -- 2-D of shape `(rows.length, cols)`: every row has `cols` entries
  | cube (l : List (List Row))                -- 3-D: entry `[i][j][k]` is `l[i][j][k]`

instance : Inhabited Values := ⟨.mat 0 [[]]⟩

/-- `a.ndim` -/
def Values.ndim : Values → Nat
  | .scalar _ => 0
  | .vec _ => 1
  | .mat _ _ => 2
  | .cube _ => 3

/-- `a.size` -/
def Values.size : Values → Nat
  | .scalar _ => 1
  | .vec l => l.length
  | .mat c rows => rows.length * c
  | .cube l => (l.map (fun m => (m.map List.length).sum)).sum

/-- `a[:, j]`: `IndexError` below two dimensions ("too many indices") and for `j` outside the second axis -/
def Values.column : Values → Nat → Py.M Nd
  | .mat c rows, j => if j < c then .ok (.vec (rows.map (fun r => r.getD j X.nan))) else .error .lookup
  | .cube l, j => if l.all (fun m => decide (j < m.length)) then .ok (.mat (l.map (fun m => m.getD j []))) else .error .lookup
  | _, _ => .error .lookup

/-- the array of the coordinate pairs `pts` (shape `(n, 2)`) -/
def Values.ofPts (pts : List (Rat × Rat)) : Values := .mat 2 (pts.map (fun p => [X.fin p.1, X.fin p.2]))

/-- the array of extended coordinate pairs -/
def Values.ofPairs (pts : List (X Rat × X Rat)) : Values := .mat 2 (pts.map (fun p => [p.1, p.2]))

/-! ## `numpy.interp` -/

/-- the finite sample points `zip xs ys`; `none` when a coordinate is NaN or infinite -/
def finitePts : List (X Rat) → List (X Rat) → Option (List (Rat × Rat))
  | [], _ => some []
  | _ :: _, [] => some []
  | x :: xs, y :: ys =>
    match x, y with
    | X.fin a, X.fin b => (finitePts xs ys).map ((a, b) :: ·)
    | _, _ => none

/-- `numpy.interp(x, xp, fp)` for a scalar `x` and non-decreasing finite `xp` (NumPy does not check the order): the
    interpolation model `Op.interpX` of C03, except that for a *single* sample point NumPy returns `fp[0]` for every
    `x`, NaN included (finding F13; `Discrete.membership` multiplies by `np.where(np.isnan(x), np.nan, 1.0)` for
    this reason).  `ValueError` when `xp` / `fp` are not vectors, have different lengths or are empty.  For sample
    points that are not finite the result is `nf x xp fp`, an arbitrary function (outside the model). -/
def npInterp (nf : X Rat → Row → Row → X Rat) (x : X Rat) : Nd → Nd → Py.M (X Rat)
  | .vec xs, .vec ys =>
    if xs.length ≠ ys.length then .error .value
    else if xs.isEmpty then .error .value
    else match finitePts xs ys with
      | none => .ok (nf x xs ys)
      | some [p] => .ok (X.fin p.2)
      | some pts => .ok (Op.interpX pts x)
  | _, _ => .error .value

/-! ## `Discrete.to_xy`, `Discrete.create` -/

/-- the coordinate arrays `to_xy` receives, after `array(x, dtype=float)`: a 0-d value, a vector, or the `(1, n)`
    array that `Discrete.create` builds (and overwrites) for a tuple of two sequences -/
inductive Coord where
  | scalar (v : X Rat)
  | vec (l : Row)
  | row2d (l : Row)

instance : Inhabited Coord := ⟨.scalar (.fin 0)⟩

/-- `a.shape` -/
def Coord.shape : Coord → List Nat
  | .scalar _ => []
  | .vec l => [l.length]
  | .row2d l => [1, l.length]

/-- `array([x, y]).T`: `ValueError` for different shapes (an inhomogeneous array) -/
def stackT : Coord → Coord → Py.M Values
  | .scalar a, .scalar b => .ok (.vec [a, b])
  | .vec a, .vec b => if a.length = b.length then .ok (.mat 2 (List.zipWith (fun u v => [u, v]) a b)) else .error .value
  | .row2d a, .row2d b =>
    if a.length = b.length then .ok (.cube (List.zipWith (fun u v => [[u, v]]) a b)) else .error .value
  | _, _ => .error .value

/-- a `Floatable`: a number, or a text that NumPy converts when it builds the float array -/
inductive Item where
  | num (v : X Rat)
  | str (s : String)

instance : Inhabited Item := ⟨.num (.fin 0)⟩

/-- the argument `xy` of `Discrete.create` -/
inductive XY where
  | str (s : String)                            -- "x1 y1 x2 y2 …"
  | seq (tuple : Bool) (items : List Item)      -- a flat list (or, `tuple = true`, a flat tuple) of Floatables
  | pair (xs ys : List Item)                    -- a tuple of two lists `(xs, ys)`
  | dict (items : List (Item × Item))           -- `{x: y}` in insertion order
  | other                                       -- anything else (`None`, a number, …)

instance : Inhabited XY := ⟨.other⟩

/-- what `scalar(...)` is applied to in `Discrete.create` -/
inductive Arg where
  | item (i : Item)                             -- one Floatable
  | items (l : List Item)                       -- a flat sequence
  | nested (l : List Item)                      -- `(xs,)`: a 1-tuple that holds a sequence

def XY.isStr : XY → Bool | .str _ => true | _ => false
/-- `isinstance(xy, Sequence)`: `str`, `list` and `tuple` are sequences -/
def XY.isSequence : XY → Bool | .str _ => true | .seq _ _ => true | .pair _ _ => true | _ => false
def XY.isTuple : XY → Bool | .seq t _ => t | .pair _ _ => true | _ => false
def XY.isDict : XY → Bool | .dict _ => true | _ => false

/-- `xy.split()` of a string: the list of its words (`AttributeError` otherwise) -/
def XY.split : XY → Py.M XY
  | .str s => .ok (.seq false ((Py.split s).map Item.str))
  | _ => .error .internal

/-- entries at the even positions -/
def evens {β : Type} : List β → List β
  | [] => []
  | [a] => [a]
  | a :: _ :: rest => a :: evens rest
/-- entries at the odd positions -/
def odds {β : Type} : List β → List β
  | [] => []
  | [_] => []
  | _ :: b :: rest => b :: odds rest

/-- `xy[0::2]` of a sequence: a string is a sequence of characters (the code has split it before), a dict has no slices -/
def XY.slice0 : XY → Py.M Arg
  | .str s => .ok (.items ((evens s.toList).map (fun c => Item.str (String.singleton c))))
  | .seq _ l => .ok (.items (evens l))
  | .pair xs _ => .ok (.nested xs)
  | _ => .error .internal
/-- `xy[1::2]` -/
def XY.slice1 : XY → Py.M Arg
  | .str s => .ok (.items ((odds s.toList).map (fun c => Item.str (String.singleton c))))
  | .seq _ l => .ok (.items (odds l))
  | .pair _ ys => .ok (.nested ys)
  | _ => .error .internal

/-- `xy[i]` of a tuple (only evaluated for tuples): `IndexError` past the end -/
def XY.index : XY → Nat → Py.M Arg
  | .seq _ l, i => match l[i]? with | some v => .ok (.item v) | none => .error .lookup
  | .pair xs ys, i => if i = 0 then .ok (.items xs) else if i = 1 then .ok (.items ys) else .error .lookup
  | _, _ => .error .internal

/-- `[xi for xi in xy.keys()]` / `[yi for yi in xy.values()]` -/
def XY.keys : XY → Py.M Arg
  | .dict l => .ok (.items (l.map (·.1)))
  | _ => .error .internal
def XY.vals : XY → Py.M Arg
  | .dict l => .ok (.items (l.map (·.2)))
  | _ => .error .internal

/-- the conversion of one Floatable; `parse` is NumPy's conversion of a text to a float (`ValueError` when the text is
    not a number) -/
def toX (parse : String → Py.M (X Rat)) : Item → Py.M (X Rat)
  | .num v => .ok v
  | .str s => parse s

/-- `scalar(a)` = `np.asarray(a, dtype=float)` -/
def scalarOf (parse : String → Py.M (X Rat)) : Arg → Py.M Coord
  | .item i => toX parse i >>= fun v => .ok (.scalar v)
  | .items l => l.mapM (toX parse) >>= fun r => .ok (.vec r)
  | .nested l => l.mapM (toX parse) >>= fun r => .ok (.row2d r)

/-- what the constructor `Discrete(name, values, height=height)` stores -/
structure Discrete where
  name : String
  values : Values
  height : X Rat

instance : Inhabited Discrete := ⟨⟨"", default, .fin 1⟩⟩

/-- `np.linspace(start, end, n + 1, endpoint=True)`: `start + i * (end - start) / n` for `i = 0 … n`
    (for `n = 0` the single point `start`) -/
def linspace (lo hi : X Rat) (n : Nat) : Row :=
  (List.range (n + 1)).map (fun (i : Nat) =>
    if n = 0 then lo else X.add lo (X.mul (X.fin (i : Rat)) (X.div (X.sub hi lo) (X.fin (n : Rat)))))

/-! ## code-shaped models of `Discrete.to_xy` and `Discrete.create` -/

/-- `Discrete.to_xy(x, y)`: `ValueError` for different shapes, else `array([x, y]).T` -/
def toXy (x y : Coord) : Py.M Values := if x.shape = y.shape then stackT x y else .error .value

/-- the two coordinate arrays `Discrete.create` passes to `to_xy`.  A string is split into words; a flat list gives
    its entries at the even / odd positions; a dictionary its keys / values; a tuple is *also* a sequence, so its
    slices are converted first (and may raise) and then replaced by `xy[0]`, `xy[1]` - for a flat tuple these are
    its first two entries, as 0-d values; anything else leaves the two 0-d zeros -/
def createCoords (parse : String → Py.M (X Rat)) : XY → Py.M (Coord × Coord)
  | .str s =>
    let l := (Py.split s).map Item.str
    scalarOf parse (.items (evens l)) >>= fun x => scalarOf parse (.items (odds l)) >>= fun y => .ok (x, y)
  | .seq false l =>
    scalarOf parse (.items (evens l)) >>= fun x => scalarOf parse (.items (odds l)) >>= fun y => .ok (x, y)
  | .seq true l =>
    scalarOf parse (.items (evens l)) >>= fun _ => scalarOf parse (.items (odds l)) >>= fun _ =>
    (XY.seq true l).index 0 >>= fun a => scalarOf parse a >>= fun x =>
    (XY.seq true l).index 1 >>= fun b => scalarOf parse b >>= fun y => .ok (x, y)
  | .pair xs ys =>
    scalarOf parse (.nested xs) >>= fun _ => scalarOf parse (.nested ys) >>= fun _ =>
    scalarOf parse (.items xs) >>= fun x => scalarOf parse (.items ys) >>= fun y => .ok (x, y)
  | .dict l =>
    scalarOf parse (.items (l.map (·.1))) >>= fun x => scalarOf parse (.items (l.map (·.2))) >>= fun y => .ok (x, y)
  | .other => .ok (.scalar (.fin 0), .scalar (.fin 0))

/-- `Discrete.create(name, xy, height)` -/
def create (parse : String → Py.M (X Rat)) (name : String) (xy : XY) (height : X Rat) : Py.M Discrete :=
  createCoords parse xy >>= fun c => toXy c.1 c.2 >>= fun v => .ok ⟨name, v, height⟩

/-- `Term.discretize(start, end, resolution, midpoints)` of a term with the (vector) membership function `mem` -/
def discretize (mem : Row → Py.M Coord) (name : String) (lo hi : X Rat) (resolution : Nat) (mid : Bool) : Py.M Discrete :=
  (if mid then Py.Np.midpoints lo hi resolution else .ok (linspace lo hi resolution)) >>= fun x =>
  mem x >>= fun y => toXy (.vec x) y >>= fun v => .ok ⟨name, v, .fin 1⟩

/-! ## `Constant.membership`, `Linear.membership` -/

/-- `np.full_like(x, fill_value=v)` for a float `x`: the shape of `x`, every entry `v` -/
def fullLike (x : Nd) (v : X Rat) : Nd :=
  match x with
  | .scalar _ => .scalar v
  | .vec l => .vec (l.map (fun _ => v))
  | .mat m => .mat (m.map (fun r => r.map (fun _ => v)))

/-- what `Linear.membership` uses of its engine: `len(engine.input_variables)` and `engine.input_values` -/
structure Engine where
  n : Nat
  inputValues : Nd

/-- `engine.input_values` of an engine with `n` input variables whose values are the columns of `rows` (every row has
    `n` entries): `np.column_stack(values)`, and the empty vector `np.array(())` for an engine without input variables -/
def Engine.ofRows (n : Nat) (rows : List Row) : Engine := ⟨n, if n = 0 then .vec [] else .mat rows⟩

/-- `a.sum(axis=1, keepdims=False)`: `AxisError` (a `ValueError`) below two dimensions -/
def sumAxis1 : Nd → Py.M Nd
  | .mat m => .ok (.vec (Py.Np.sumAxis1 m))
  | _ => .error .value

/-- `a + c` for a Python float `c` -/
def addScalar (a : Nd) (c : X Rat) : Nd :=
  match a with
  | .scalar v => .scalar (X.add v c)
  | .vec l => .vec (l.map (fun v => X.add v c))
  | .mat m => .mat (m.map (fun r => r.map (fun v => X.add v c)))

end Py.Disc

/-! ## model of `Aggregated.highest_activated_term` -/

namespace Op.Weighted
variable {α : Type} [Field α] [LinearOrder α] [IsStrictOrderedRing α] {ν : Type} [DecidableEq ν]

/-- one iteration of the loop: the first group with a positive degree becomes the highest; afterwards a group with
    a strictly larger degree replaces it (ties keep the earlier group; a NaN degree never wins) -/
def highestStep (h : Option (Act ν α)) (a : Act ν α) : Option (Act ν α) :=
  match h with
  | none => if X.lt (X.fin 0) a.2 then some a else none
  | some b => if X.lt b.2 a.2 then some a else some b

/-- `Aggregated.highest_activated_term()`: `none` = `ValueError` (the degree of some group is a vector: `size` of
    it exceeds one), otherwise the group with the highest aggregated degree, or Python's `None` when no group has a
    positive degree -/
def highestActivated (size : X α → Nat) (agg : Option (X α → X α → X α)) (acts : List (Act ν α)) :
    Option (Option (Act ν α)) :=
  let gs := groupedTerms agg acts
  if gs.any (fun g => decide (size g.2 > 1)) then none else some (gs.foldl highestStep none)

end Op.Weighted
