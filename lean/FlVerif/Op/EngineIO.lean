import FlVerif.Op.InputValues

/-! # Reading an engine: look-ups by name or index, `input_values` / `output_values` / `values` (engine.py:108-390)

*Look-ups.*  `Engine.input_variable`, `output_variable`, `rule_block` take a name or an index (`Key`): an `int` indexes
the list the way Python does (a negative index counts from the end, `IndexError` outside), a name finds the FIRST
component of that name (`ValueError` when there is none).  `Engine.variable` looks a name up in the input variables
followed by the output variables.  `engine[item]` tries the three look-ups in the order input variables, output
variables, rule blocks, takes the first that does not raise – whatever it raises – and raises `ValueError` when all do.

*Values.*  A variable holds a float / 0-d array or a 1-D array (`VarValue`; a scalar is a batch of one row, as in
`Op.Cascade`).  `input_values` puts the values side by side as the columns of a 2-D array: all of them must have the
same number of rows.  `output_values` (repaired, F12 and F17) first stretches every value that has a single row to the
number of rows of the others – an output variable without activations holds a single NaN regardless of the batch size –
where "the others" are the values of the input variables as well as those of the output variables: when no output
variable holds a value per row (all of them disabled, or no rule block enabled) the rows are those of the input values.
Only the output columns are kept.  An engine without output variables yields the empty 1-D array.  `values` puts the
two arrays side by side. -/

namespace Op.Engine
variable {α : Type}

/-! ## look-ups -/

/-- the argument `name_or_index: str | int` of the look-ups -/
inductive Key where
  | index (i : Int)
  | name (s : String)
deriving DecidableEq, Repr

instance : Inhabited Key := ⟨.index 0⟩

/-- `l[i]` of Python for an `int`: `none` is an `IndexError` -/
def atIndex {β : Type} (l : List β) (i : Int) : Option β :=
  if 0 ≤ i then l[i.toNat]?
  else if (-i).toNat ≤ l.length then l[l.length - (-i).toNat]?
  else none

/-- `Engine.input_variable(key)` / `output_variable(key)` / `rule_block(key)` on the list of its components -/
def lookup {β : Type} (nameOf : β → String) (l : List β) : Key → Except Lang.ErrKind β
  | .index i =>
    match atIndex l i with
    | some x => .ok x
    | none => .error .lookup                     -- IndexError
  | .name s =>
    match l.find? (fun x => nameOf x == s) with
    | some x => .ok x
    | none => .error .value                      -- ValueError

/-- `Engine.variable(name)`: the input variables come first -/
def lookupVariable {β : Type} (nameOf : β → String) (ins outs : List β) (name : String) : Except Lang.ErrKind β :=
  lookup nameOf (ins ++ outs) (.name name)

/-- what `engine[item]` returns (a rule block is kept with its name; `Block` itself has none) -/
inductive Comp (α : Type) where
  | input (v : InVar α)
  | output (v : OutVar α)
  | block (b : String × Block α)

/-- `engine[item]`: the first of the three look-ups that succeeds -/
def getItem (ins : List (InVar α)) (outs : List (OutVar α)) (bls : List (String × Block α)) (k : Key) :
    Except Lang.ErrKind (Comp α) :=
  match lookup (·.name) ins k with
  | .ok v => .ok (.input v)
  | .error _ =>
    match lookup (·.name) outs k with
    | .ok v => .ok (.output v)
    | .error _ =>
      match lookup (·.1) bls k with
      | .ok b => .ok (.block b)
      | .error _ => .error .value

/-! ## values -/

/-- the value a variable holds: a float / 0-d array or a 1-D array -/
inductive VarValue (α : Type) where
  | scalar (x : X α)
  | vector (v : List (X α))

instance : Inhabited (VarValue α) := ⟨.scalar .nan⟩

/-- the rows of a value: a scalar is a batch of one -/
def VarValue.rows : VarValue α → List (X α)
  | .scalar x => [x]
  | .vector v => v

/-- the 2-D array whose columns are `cols`, all of `n` rows -/
def ofColumns (n : Nat) (cols : List (List (X α))) : NdArr α :=
  .matrix cols.length ((List.range n).map (fun i => cols.map (fun c => c.getD i .nan)))

/-- `Engine.input_values`: the values side by side; `ValueError` when they do not have the same number of rows; the
    empty 1-D array for an engine without input variables -/
def inputValues (vals : List (VarValue α)) : Except Lang.ErrKind (NdArr α) :=
  match vals with
  | [] => .ok (.vector [])
  | v :: vs =>
    if vs.all (fun w => w.rows.length == v.rows.length) then .ok (ofColumns v.rows.length (vals.map (·.rows)))
    else .error .value

/-- the number of rows of a batch in which values of a single row are stretched: the first number of rows other
    than 1, if there is one -/
def batchLength (lens : List Nat) : Nat := (lens.find? (· ≠ 1)).getD 1

/-- a value of a single row stretched to `n` rows (other values are left as they are) -/
def stretch (n : Nat) (c : List (X α)) : List (X α) :=
  match c with
  | [x] => List.replicate n x
  | _ => c

/-- `Engine.output_values`: the values of the input variables and of the output variables are broadcast together –
    every one of them has the number of rows of the batch or a single row (stretched); otherwise `ValueError` – and the
    columns of the output variables are kept; the empty 1-D array for an engine without output variables -/
def outputValues (ins outs : List (VarValue α)) : Except Lang.ErrKind (NdArr α) :=
  let n := batchLength ((ins ++ outs).map (·.rows.length))
  if (ins ++ outs).all (fun v => v.rows.length == n || v.rows.length == 1) then
    (if outs.isEmpty then .ok (.vector []) else .ok (ofColumns n (outs.map (fun v => stretch n v.rows))))
  else .error .value

/-- two arrays side by side (`np.hstack`) as far as the getters produce them: two 1-D arrays are concatenated, two 2-D
    arrays of the same number of rows are joined row by row; a 1-D array next to a 2-D array is a `ValueError` -/
def sideBySide : NdArr α → NdArr α → Except Lang.ErrKind (NdArr α)
  | .vector u, .vector v => .ok (.vector (u ++ v))
  | .matrix c r, .matrix c' r' =>
    if r.length = r'.length then .ok (.matrix (c + c') (List.zipWith (· ++ ·) r r')) else .error .value
  | _, _ => .error .value

/-- `Engine.values`: input values and output values side by side.  Both getters run first (input values before output
    values).  The two arrays must have the same number of dimensions – an engine that has input variables but no output
    variables, or the other way round, raises `ValueError` – and, as 2-D arrays, the same number of rows -/
def allValues (ins outs : List (VarValue α)) : Except Lang.ErrKind (NdArr α) :=
  match inputValues ins with
  | .error k => .error k
  | .ok a =>
    match outputValues ins outs with
    | .error k => .error k
    | .ok b => sideBySide a b

end Op.Engine

/-! ## accessors of a `Variable` (variable.py:164-225): `drange`, `range` (the value setter is `Op.setter`) -/

namespace Op
variable {α : Type} [Field α] [LinearOrder α] [IsStrictOrderedRing α]

/-- `Variable.drange`: `maximum - minimum` (IEEE: `inf - inf` is NaN) -/
def drange (c : CascadeCfg α) : X α := X.sub c.hi c.lo

/-- `Variable.range` (getter): `(minimum, maximum)` -/
def range (c : CascadeCfg α) : X α × X α := (c.lo, c.hi)

/-- `Variable.range = (lo, hi)` (setter): the minimum, then the maximum; the value held is not clipped again -/
def setRange (c : CascadeCfg α) (p : X α × X α) : CascadeCfg α := { c with lo := p.1, hi := p.2 }

end Op
