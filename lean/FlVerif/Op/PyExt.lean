import FlVerif.Base.Py
import FlVerif.Op.FormatInfix
import FlVerif.Spec.FloatLit

/-! # Externals of the translated code: library / built-in calls that the translator does not look into

Each definition is the meaning the model gives to one Python expression pattern that a translation profile of
`fv/pylean.py` names (string methods, `float(...)`, look-ups in the factories).  They are the vocabulary the
generated definitions of `Gen/Code*.lean` are written in; that they describe CPython is validated by the
correspondence runs, not proved. -/

instance {α : Type} : Inhabited (X α) := ⟨.nan⟩
deriving instance Inhabited for Lang.Elem

namespace Py
open Lang

/-- `s.find(c)` for a one-character needle: index of the first occurrence, `-1` when there is none -/
def findCharAux (c : Char) : List Char → Nat → Int
  | [], _ => -1
  | d :: rest, i => if d = c then (i : Int) else findCharAux c rest (i + 1)

def findChar (s : String) (c : Char) : Int := findCharAux c s.toList 0

/-- `s[0:i]` for `i ≥ 0` (for a negative `i` Python counts from the end; the translated code never does) -/
def strPrefix (s : String) (i : Int) : String := String.ofList (s.toList.take i.toNat)

/-- `s.split()` -/
def split (s : String) : List String := Op.splitWords s

/-- `float(s)`: `ValueError` when `s` is not the text of a number -/
def float (s : String) : M (X Rat) :=
  match parseFloat s with
  | some v => .ok v
  | none => .error .value

/-- `factory.objects[name]`: `KeyError` when the name is not registered -/
def lookupElem (tbl : Table) (s : String) : M Elem :=
  match tbl.lookup s with
  | some e => .ok e
  | none => .error .lookup

/-- `" ".join(l)` -/
def joinSp (l : List String) : String := " ".intercalate l

end Py
