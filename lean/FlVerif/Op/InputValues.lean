import FlVerif.Op.Engine

/-! # `Engine.input_values = values` (engine.py:325): the shape dispatch of the setter

A NumPy array of floats as far as the setter looks at it: its number of dimensions, and its entries when it has at most
two.  The setter makes a 2-D array of it – a single value fills one row, a vector is one row (or, for an engine with a
single input variable, one column) – checks the number of columns against the number of input variables and gives
column `i` to the `i`-th input variable (through the clipping setter of `Variable.value`). -/

namespace Op.Engine
variable {α : Type}

inductive NdArr (α : Type) where
  | scalar (x : X α)                                   -- 0-d
  | vector (v : List (X α))                            -- 1-D
  | matrix (cols : Nat) (rows : List (List (X α)))     -- 2-D of shape (rows.length, cols): every row has `cols` entries
  | higher (shape : List Nat) (h : 3 ≤ shape.length)   -- three or more dimensions: only the shape matters

instance : Inhabited (NdArr α) := ⟨.scalar .nan⟩

def NdArr.ndim : NdArr α → Nat
  | .scalar _ => 0
  | .vector _ => 1
  | .matrix _ _ => 2
  | .higher s _ => s.length

/-- `a.shape[1]` (`IndexError` below two dimensions) -/
def NdArr.shape1 : NdArr α → Option Nat
  | .matrix c _ => some c
  | .higher s _ => s[1]?
  | _ => none

/-- `a.item()`: the value of an array with one element -/
def NdArr.item : NdArr α → Option (X α)
  | .scalar x => some x
  | .vector [x] => some x
  | .matrix _ [[x]] => some x
  | _ => none

/-- `np.full((1, n), fill_value=x)` -/
def NdArr.fullRow (n : Nat) (x : X α) : NdArr α := .matrix n [List.replicate n x]

/-- `np.atleast_2d(a)` -/
def NdArr.atleast2d : NdArr α → NdArr α
  | .scalar x => .matrix 1 [[x]]
  | .vector v => .matrix v.length [v]
  | a => a

/-- column `j` of the rows (`a[:, j]` of a 2-D array) -/
def column (rows : List (List (X α))) (j : Nat) : List (X α) := rows.map (fun r => r.getD j .nan)

/-- `a.T` (reverses the axes: nothing to do below two dimensions) -/
def NdArr.transpose : NdArr α → NdArr α
  | .matrix c rows => .matrix rows.length ((List.range c).map (column rows))
  | .higher s h => .higher s.reverse (by simpa using h)
  | a => a

/-- `a[:, j]` -/
def NdArr.col : NdArr α → Nat → List (X α)
  | .matrix _ rows, j => column rows j
  | _, _ => []

/-- the 2-D array (number of columns, rows) that the setter distributes over `n` input variables, before the check
    of the number of columns -/
def inputMatrix (n : Nat) : NdArr α → Except Lang.ErrKind (Nat × List (List (X α)))
  | .scalar x => .ok (n, [List.replicate n x])
  | .vector v => .ok (if n = 1 then (1, v.map (fun x => [x])) else (v.length, [v]))
  | .matrix c rows => .ok (c, rows)
  | .higher _ _ => .error .value

variable [Field α] [LinearOrder α] [IsStrictOrderedRing α]

/-- `engine.input_values = a`: `RuntimeError` without input variables, `ValueError` for three or more dimensions or
    a number of columns other than the number of input variables; otherwise the batch of values every input variable
    receives – its column, entry by entry through the clipping setter -/
def setInputValues (ins : List (InVar α)) (a : NdArr α) : Except Lang.ErrKind (List (List (X α))) :=
  if ins.isEmpty then .error .runtime
  else match inputMatrix ins.length a with
    | .error k => .error k
    | .ok (c, rows) =>
      if c ≠ ins.length then .error .value
      else .ok (ins.zipIdx.map (fun p => (column rows p.2).map (fun x => (p.1.setValue x).value)))

end Op.Engine
