import FlVerif.Base.Py
import FlVerif.Op.PyRepr

/-! # Externals of the translated `Representation.construction_arguments` (`library.py`)

A parameter of the constructor signature is an `Op.PyRepr.Param` (name, whether it has a default); the `fields`
dictionary is a look-up that gives, for a key, the text `self.repr` produces for the stored value. -/

instance : Inhabited Op.PyRepr.Param := ⟨⟨"", false, none⟩⟩

namespace Py.Repr

/-- `self.repr(fields[name])`: `KeyError` when the name is not a key -/
def field (fields : String → Option String) (name : String) : Py.M String :=
  match fields name with
  | some v => .ok v
  | none => .error .lookup

end Py.Repr
