import FlVerif.Base.X
import FlVerif.Gen.NormGen
import FlVerif.Gen.HedgeGen
import FlVerif.Gen.TermGen
import FlVerif.Op.Cascade
import FlVerif.Op.Integral
import FlVerif.Op.Weighted
import FlVerif.Op.Degree
import FlVerif.Op.Activation
import FlVerif.Op.Consequent
import FlVerif.Op.Interp

/-! # Code-shaped executable model of `Engine.process` for one input row (engine.py:409, rule.py, activation.py,
    term.py Activated/Aggregated, defuzzifier.py, variable.py)

Leaf formulas come from the regenerated `Gen.*` definitions; everything structural follows the Python control
flow.  A failing step (`none`) models a raised exception.  Batch mode is the row model applied to every row with
the value cascade (`Op.commit`) applied once to the batch of raw defuzzified values (theorem `C12.batch_eq_rows`
shows that this equals row-by-row processing). -/

namespace Op.Engine
variable {α : Type} [Field α] [LinearOrder α] [IsStrictOrderedRing α]

/-! ## data -/

inductive TermD (α : Type) where
  | shape (name cls : String) (params : List (X α)) (height : X α)
  | constant (name : String) (value : X α)
  | linear (name : String) (coeffs : List (X α))
  | discrete (name : String) (xs ys : List (X α)) (height : X α)

def TermD.name : TermD α → String
  | .shape n _ _ _ => n | .constant n _ => n | .linear n _ => n | .discrete n _ _ _ => n

structure InVar (α : Type) where
  name : String
  enabled : Bool
  value : X α
  terms : List (TermD α)
  lo : X α := .ninf
  hi : X α := .pinf
  lockRange : Bool := false

/-- the `Variable.value` setter: the value is clipped to the range when `lock_range` -/
def InVar.setValue [Field α] [LinearOrder α] [IsStrictOrderedRing α] (iv : InVar α) (v : X α) : InVar α :=
  { iv with value := if iv.lockRange then X.clip v iv.lo iv.hi else v }

inductive Defuzz where
  | integral (kind : String) (resolution : Nat)
  | weighted (kind : String) (type : String)     -- type ∈ Automatic | TakagiSugeno | Tsukamoto
  | missing

/-- one `Activated` in a fuzzy output -/
structure Act (α : Type) where
  term : TermD α
  degree : X α                      -- after `np.nan_to_num`
  implication : Option String

structure OutVar (α : Type) where
  name : String
  enabled : Bool
  lo : X α
  hi : X α
  lockRange : Bool
  lockPrev : Bool
  dflt : X α
  aggregation : Option String
  defuzz : Defuzz
  terms : List (TermD α)

inductive Ante where
  | prop (var : String) (hedges : List String) (term : Option String)   -- `term = none`: the proposition ends in `any`
  | and (l r : Ante)
  | or (l r : Ante)

structure Concl where
  var : String
  hedges : List String
  term : String

structure RuleD (α : Type) where
  enabled : Bool
  loaded : Bool
  weight : X α
  ante : Ante
  concls : List Concl

inductive Activation (α : Type) where
  | general
  | first (n : Nat) (threshold : X α)
  | last (n : Nat) (threshold : X α)
  | highest (n : Nat)
  | lowest (n : Nat)
  | proportional
  | threshold (cmp : String) (threshold : X α)
  | missing

structure Block (α : Type) where
  enabled : Bool
  conjunction : Option String
  disjunction : Option String
  implication : Option String
  activation : Activation α
  rules : List (RuleD α)

structure EngineD (α : Type) where
  inputs : List (InVar α)
  outputs : List (OutVar α)
  blocks : List (Block α)

/-- fuzzy outputs: per output variable (by position) the list of activated terms -/
abbrev Fuzzy (α : Type) := List (List (Act α))

/-- per-rule result of an activation: (activation_degree, triggered) -/
structure RuleObs (α : Type) where
  degree : X α
  triggered : Bool

/-! ## terms -/

def dot : List (X α) → List (X α) → X α
  | c :: cs, v :: vs => X.add (X.mul c v) (dot cs vs)
  | _, _ => .fin 0

/-- `Term.membership(x)`; `inputs` are the current input values (read by `Linear`) -/
def membership (F : Fn α) (inputs : List (X α)) : TermD α → X α → Option (X α)
  | .shape _ cls ps h, x => Gen.termMembership F cls ps h x
  | .constant _ v, _ => some v
  | .linear _ cs, _ =>
    let n := inputs.length
    if cs.length = n then some (X.add (dot cs inputs) (.fin 0))
    else if cs.length = n + 1 then some (X.add (dot (cs.take n) inputs) (cs.getD n (.fin 0)))
    else none
  | .discrete _ xs ys h, x => do
    -- `Discrete.membership`: the component model `Op.discrete` of C03 (numpy.interp on the finite coordinate pairs)
    let pts ← (xs.zip ys).mapM (fun (p : X α × X α) => do pure ((← p.1.toFin?), (← p.2.toFin?)))
    if pts.isEmpty then none else some (Op.discrete pts h x)

def tsukamoto (F : Fn α) : TermD α → X α → Option (X α)
  | .shape _ cls ps h, y => Gen.termTsukamoto F cls ps h y
  | _, _ => none

def isMonotonic : TermD α → Bool
  | .shape _ cls _ _ => (Gen.isMonotonicTable.find? (fun p => p.1 == cls)).map (·.2) |>.getD false
  | _ => false

/-! ## fuzzy outputs -/

/-- `Aggregated.activation_degree(term)`: the degree of the term's group in `Aggregated.grouped_terms()` – the
    grouping of `Op.Weighted.groupedTerms` (component model of C10: first-occurrence order, degrees combined with the
    aggregation operator or `UnboundedSum`, every assignment through the `nan_to_num` setter) – or 0 -/
def activationDegree (agg : Option String) (acts : List (Act α)) (termName : String) : Option (X α) := do
  let aggF ← match agg with
    | none => some none
    | some g => (Gen.normByName (α := α) g).map some
  let named : List (Op.Weighted.Act String α) :=
    acts.map (fun a => ({ name := a.term.name, kind := .other, mu := id, tsk := none }, a.degree))
  let gs := Op.Weighted.groupedTerms aggF named
  pure ((gs.find? (fun g => g.1.name == termName)).map (·.2) |>.getD (.fin 0))

/-! ## antecedents (rule.py:203) -/

def applyHedges (F : Fn α) : List String → X α → Option (X α)
  | [], v => some v
  | h :: hs, v => do
    -- `for hedge in reversed(hedges)`: the last hedge (nearest the term) first
    let inner ← applyHedges F hs v
    let f ← Gen.hedgeByName F h
    pure (f inner)

structure Env (α : Type) where
  inputs : List (InVar α)
  outputs : List (OutVar α)
  fuzzy : Fuzzy α

def Env.inputValues (e : Env α) : List (X α) := e.inputs.map (·.value)

/-- the loaded tree of an antecedent in the form of the component model of C06 (`Op.ANode`) -/
def toANode : Ante → Op.ANode
  | .prop v hs t => .prop v hs t
  | .and l r => .op "and" (toANode l) (toANode r)
  | .or l r => .op "or" (toANode l) (toANode r)

/-- does every name of the tree resolve (variables, terms, hedges, operators)?  `Rule.load` guarantees it for a loaded
    rule; the model raises otherwise -/
def resolves (F : Fn α) (e : Env α) (conj disj : Option String) : Ante → Bool
  | .prop var hedges term =>
    hedges.all (fun h => (Gen.hedgeByName F h).isSome) &&
    (match (e.outputs.find? (fun v => v.name == var)), e.inputs.find? (fun v => v.name == var) with
     | some ov, _ => (match term with
        | none => true
        | some t => (ov.terms.any (fun tt => tt.name == t)) &&
                    (ov.aggregation.all (fun g => (Gen.normByName (α := α) g).isSome)))
     | none, some iv => (match term with
        | none => true
        | some t => (match iv.terms.find? (fun tt => tt.name == t) with
            | some tt => (membership F e.inputValues tt iv.value).isSome || !iv.enabled
            | none => false))
     | none, none => false)
  | .and l r => (conj.all (fun c => (Gen.normByName (α := α) c).isSome)) && resolves F e conj disj l && resolves F e conj disj r
  | .or l r => (disj.all (fun c => (Gen.normByName (α := α) c).isSome)) && resolves F e conj disj l && resolves F e conj disj r

/-- what an antecedent is evaluated against, as the component model of C06 (`Lang.DegCtx`) expects it -/
def degCtx (F : Fn α) (e : Env α) (conj disj : Option String) : Lang.DegCtx α :=
  { hasTerms := fun v =>
      match e.outputs.find? (fun o => o.name == v), e.inputs.find? (fun i => i.name == v) with
      | some ov, _ => !ov.terms.isEmpty
      | none, some iv => !iv.terms.isEmpty
      | none, none => false
    enabled := fun v =>
      match e.outputs.find? (fun o => o.name == v), e.inputs.find? (fun i => i.name == v) with
      | some ov, _ => ov.enabled
      | none, some iv => iv.enabled
      | none, none => false
    -- `variables = {v.name: v for v in engine.variables}`: an output variable of the same name wins
    isOutput := fun v => (e.outputs.find? (fun o => o.name == v)).isSome
    membership := fun v t =>
      match e.inputs.find? (fun i => i.name == v) with
      | some iv => (match iv.terms.find? (fun tt => tt.name == t) with
          | some tt => (membership F e.inputValues tt iv.value).getD .nan
          | none => .nan)
      | none => .nan
    outDegree := fun v t =>
      match (e.outputs.zip e.fuzzy).find? (fun p => p.1.name == v) with
      | some (ov, acts) => (activationDegree ov.aggregation acts t).getD .nan
      | none => .nan
    hedge := fun h x => match Gen.hedgeByName F h with | some f => f x | none => .nan
    conj := conj.bind (fun c => Gen.normByName (α := α) c)
    disj := disj.bind (fun c => Gen.normByName (α := α) c) }

/-- `Antecedent.activation_degree`: the recursive evaluation `Op.degree` of the component model of C06 on the
    engine's environment (`none` = it raises: a missing operator, an unresolved name) -/
def degree (F : Fn α) (e : Env α) (conj disj : Option String) (a : Ante) : Option (X α) :=
  if resolves F e conj disj a then (Op.degree (degCtx F e conj disj) (toANode a)).toOption else none

/-! ## consequents (rule.py:542) -/

def updateAt {β : Type} (l : List β) (i : Nat) (f : β → β) : List β :=
  l.zipIdx.map (fun p => if p.2 == i then f p.1 else p.1)

/-- the conclusions of a rule in the form of the component model of C07 (`Spec.Consequent.Concl`): hedges as
    functions, the `enabled` flag of the concluded variable; `none` when a name does not resolve -/
def toConcls (F : Fn α) (outputs : List (OutVar α)) (cs : List Concl) : Option (List (Spec.Consequent.Concl (X α))) :=
  cs.mapM (fun c => do
    let ov ← outputs.find? (fun o => o.name == c.var)
    let hs ← c.hedges.mapM (fun h => Gen.hedgeByName F h)
    -- a conclusion on a disabled variable is skipped before its term is looked at
    if ov.enabled && !(ov.terms.any (fun tt => tt.name == c.term)) then none
    else pure { var := c.var, enabled := ov.enabled, hedges := hs, term := c.term })

/-- append one `Activated` of the component model to the fuzzy output of its variable -/
def appendAct (outputs : List (OutVar α)) (fz : Fuzzy α) (a : Spec.Consequent.Act (X α) (Option String)) :
    Option (Fuzzy α) := do
  let (ov, i) ← outputs.zipIdx.find? (fun p => p.1.name == a.var)
  let t ← ov.terms.find? (fun tt => tt.name == a.term)
  pure (updateAt fz i (fun l => l ++ [{ term := t, degree := a.degree, implication := a.impl }]))

/-- `Consequent.modify` as written – `Op.Consequent.modifyPinned`, the component model of C07 (the hedged degree is
    threaded through the conclusions: finding F3) – with the resulting activations appended to the fuzzy outputs -/
def modify (F : Fn α) (outputs : List (OutVar α)) (impl : Option String) (cs : List Concl) (d : X α)
    (fz : Fuzzy α) : Option (Fuzzy α) := do
  let concls ← toConcls F outputs cs
  (Op.Consequent.modifyPinned X.nanToNum01 impl d concls).foldlM (appendAct outputs) fz

/-- `Rule.trigger` -/
def trigger (F : Fn α) (outputs : List (OutVar α)) (impl : Option String) (r : RuleD α) (d : X α)
    (fz : Fuzzy α) : Option (Fuzzy α × Bool) :=
  if r.enabled then do
    let fz' ← modify F outputs impl r.concls d fz
    pure (fz', X.lt (.fin 0) d)
  else some (fz, false)

/-- `Rule.activate_with`: weight × antecedent -/
def activateWith (F : Fn α) (inputs : List (InVar α)) (outputs : List (OutVar α)) (b : Block α) (r : RuleD α)
    (fz : Fuzzy α) : Option (X α) := do
  let a ← degree F { inputs := inputs, outputs := outputs, fuzzy := fz } b.conjunction b.disjunction r.ante
  pure (X.mul r.weight a)

/-! ## activation methods (activation.py) -/

abbrev St (α : Type) := Fuzzy α × List (RuleObs α)

def setObs (obs : List (RuleObs α)) (i : Nat) (o : RuleObs α) : List (RuleObs α) := updateAt obs i (fun _ => o)

def compare (cmp : String) (a t : X α) : Option Bool :=
  match cmp with
  | "<" => some (X.lt a t) | "<=" => some (X.le a t) | "==" => some (X.eq a t) | "!=" => some (X.ne a t)
  | ">=" => some (X.le t a) | ">" => some (X.lt t a) | _ => none

/-- one pass of a counting loop (General / First / Last / Threshold): `eligible d count` decides whether to trigger -/
def loopPass (F : Fn α) (ins : List (InVar α)) (outs : List (OutVar α)) (b : Block α)
    (eligible : X α → Nat → Option Bool) :
    List (RuleD α × Nat) → Nat → St α → Option (St α)
  | [], _, st => some st
  | (r, i) :: rs, count, (fz, obs) =>
    -- `rule.deactivate()`
    let obs := setObs obs i { degree := .fin 0, triggered := false }
    if r.loaded then do
      let d ← activateWith F ins outs b r fz
      if (← eligible d count) then
        let (fz', trig) ← trigger F outs b.implication r d fz
        loopPass F ins outs b eligible rs (count + 1) (fz', setObs obs i { degree := d, triggered := trig })
      else loopPass F ins outs b eligible rs count (fz, setObs obs i { degree := d, triggered := false })
    else loopPass F ins outs b eligible rs count (fz, obs)

def toMethod : Activation α → Option (Spec.Activation.Method α)
  | .general => some .general
  | .first n t => some (.first n t)
  | .last n t => some (.last n t)
  | .highest n => some (.highest n)
  | .lowest n => some (.lowest n)
  | .proportional => some .proportional
  | .threshold c t => (Spec.Activation.Comparator.ofSymbol c).map (fun c => .threshold c t)
  | .missing => none

def usesOutput (outs : List (OutVar α)) : Ante → Bool
  | .prop v _ _ => outs.any (fun o => o.name == v)
  | .and l r => usesOutput outs l || usesOutput outs r
  | .or l r => usesOutput outs l || usesOutput outs r

/-- no antecedent of the block reads an output variable: the degrees do not depend on what the block itself adds -/
def feedbackFree (outs : List (OutVar α)) (b : Block α) : Bool := b.rules.all (fun r => !usesOutput outs r.ante)

/-- the activation through the component model of C08 (`Op.Activation.activate`): the degrees of all loaded rules
    are evaluated against the fuzzy outputs as they are when the block starts, the method selects, and the selected
    rules trigger in the order the component model reports (`fires`) -/
def activateViaComponent (F : Fn α) (ins : List (InVar α)) (outs : List (OutVar α)) (b : Block α) (fz : Fuzzy α) :
    Option (St α) := do
  let m ← toMethod b.activation
  let rs ← b.rules.mapM (fun r =>
    if r.loaded then do
      let d ← activateWith F ins outs b r fz
      pure ({ loaded := true, enabled := r.enabled, vector := false, degree := d, actDegree := .fin 0,
              triggered := false } : Spec.Activation.Rule α)
    else pure { loaded := false, enabled := r.enabled, vector := false, degree := .fin 0, actDegree := .fin 0,
                triggered := false })
  let out ← (Op.Activation.activate m rs).toOption
  let fz' ← out.fires.foldlM (fun fz (p : Nat × X α) => do
    let r ← b.rules[p.1]?
    let (fz', _) ← trigger F outs b.implication r p.2 fz
    pure fz') fz
  pure (fz', out.rules.map (fun r => { degree := r.actDegree, triggered := r.triggered }))

/-- `RuleBlock.activate`.  Highest / Lowest / Proportional evaluate every degree before any rule triggers, and so
    does every method on a block whose antecedents read no output variable: these go through the component model of
    C08.  General / First / Last / Threshold on a block with feedback interleave evaluation and triggering: the
    loops below follow the code. -/
def activateBlock (F : Fn α) (ins : List (InVar α)) (outs : List (OutVar α)) (b : Block α) (fz : Fuzzy α) :
    Option (St α) :=
  let idx := b.rules.zipIdx
  let obs0 : List (RuleObs α) := b.rules.map (fun _ => { degree := .fin 0, triggered := false })
  if feedbackFree outs b then activateViaComponent F ins outs b fz
  else match b.activation with
  | .missing => none
  | .general => loopPass F ins outs b (fun _ _ => some true) idx 0 (fz, obs0)
  | .first n t => loopPass F ins outs b (fun d c => some (decide (c < n) && X.lt (.fin 0) d && X.le t d)) idx 0 (fz, obs0)
  | .last n t => loopPass F ins outs b (fun d c => some (decide (c < n) && X.lt (.fin 0) d && X.le t d)) idx.reverse 0 (fz, obs0)
  | .threshold cmp t => loopPass F ins outs b (fun d _ => compare cmp d t) idx 0 (fz, obs0)
  | .highest _ | .lowest _ | .proportional => activateViaComponent F ins outs b fz

/-! ## aggregated membership and defuzzifiers (term.py:369/464, defuzzifier.py) -/

def actMembership (F : Fn α) (inputs : List (X α)) (a : Act α) (x : X α) : Option (X α) := do
  let impl ← a.implication
  let f ← Gen.normByName (α := α) impl
  pure (f a.degree (← membership F inputs a.term x))

def aggMembership (F : Fn α) (inputs : List (X α)) (agg : Option String) (acts : List (Act α)) (x : X α) :
    Option (X α) :=
  if acts.isEmpty then some (.fin 0)
  else do
    let g ← agg
    let f ← Gen.normByName (α := α) g
    acts.foldlM (fun y a => do pure (f y (← actMembership F inputs a x))) (.fin 0)

/-- the integral defuzzifiers of `Op.Integral` (the component model of C09) by class name; the sampled set is
    `xs = Op.Integral.midpoints lo hi r`, `ys = aggregated membership at xs` -/
def integral (kind : String) (xs ys : List (X α)) : Option (X α) :=
  match kind with
  | "Centroid" => some (Op.Integral.centroid xs ys)
  | "Bisector" => some (Op.Integral.bisector xs ys)
  | "SmallestOfMaximum" => some (Op.Integral.som xs ys)
  | "MeanOfMaximum" => some (Op.Integral.mom xs ys)
  | "LargestOfMaximum" => some (Op.Integral.lom xs ys)
  | _ => none

/-- a term as the weighted defuzzifiers of `Op.Weighted` (the component model of C10) see it: name, `infer_type`
    class, membership, Tsukamoto function (absent when the class does not override `Term.tsukamoto`).  A `Linear` term
    with a wrong number of coefficients makes the whole evaluation raise (`wellFormedTerm`). -/
def toWTerm (F : Fn α) (inputs : List (X α)) (t : TermD α) : Op.Weighted.WTerm String α :=
  { name := t.name
    kind := match t with
      | .constant .. | .linear .. => .sugeno
      | t => if isMonotonic t then .monotonic else .other
    mu := fun w => (membership F inputs t w).getD .nan
    tsk := match t with
      | .shape _ cls ps h => if (Gen.termTsukamoto F cls ps h (.fin 0)).isSome then some (fun w => (tsukamoto F t w).getD .nan) else none
      | _ => none }

def wellFormedTerm (F : Fn α) (inputs : List (X α)) (t : TermD α) : Bool := (membership F inputs t (.fin 0)).isSome

def wtypeOf : String → Option Op.Weighted.WType
  | "Automatic" => some .automatic | "TakagiSugeno" => some .takagiSugeno | "Tsukamoto" => some .tsukamoto | _ => none

/-- `WeightedAverage / WeightedSum.defuzzify` through `Op.Weighted` -/
def weighted (F : Fn α) (inputs : List (X α)) (kind type : String) (agg : Option String) (acts : List (Act α)) :
    Option (X α) := do
  let ty ← wtypeOf type
  let aggF ← match agg with
    | none => some none
    | some g => (Gen.normByName (α := α) g).map some
  let wacts : List (Op.Weighted.Act String α) := acts.map (fun a => (toWTerm F inputs a.term, a.degree))
  -- a term whose membership raises (Linear with a wrong number of coefficients) raises when it is evaluated
  let ty' ← (Op.Weighted.resolveType ty wacts).toOption
  if ty' != .tsukamoto && !(acts.all (fun a => wellFormedTerm F inputs a.term)) then none
  else match kind with
    | "WeightedAverage" => (Op.Weighted.weightedAverage ty aggF wacts).toOption
    | "WeightedSum" => (Op.Weighted.weightedSum ty aggF wacts).toOption
    | _ => none

/-- the raw defuzzified value of one output variable for the current row -/
def defuzzRaw (F : Fn α) (inputs : List (X α)) (ov : OutVar α) (acts : List (Act α)) : Option (X α) :=
  match ov.defuzz with
  | .missing => none
  | .integral kind r => do
    let xs := Op.Integral.midpoints ov.lo ov.hi r
    let ys ← xs.mapM (aggMembership F inputs ov.aggregation acts)
    integral kind xs ys
  | .weighted kind ty => weighted F inputs kind ty ov.aggregation acts

/-! ## Engine.process for one row -/

structure RowResult (α : Type) where
  fuzzy : Fuzzy α
  rules : List (List (RuleObs α))          -- per block (empty for a disabled block: its rules are not touched)
  raw : List (Option (X α))                -- per output: raw defuzzified value (`none` for a disabled variable)

def cascadeCfg (ov : OutVar α) : CascadeCfg α :=
  { enabled := ov.enabled, lockPrev := ov.lockPrev, lockRange := ov.lockRange, dflt := ov.dflt, lo := ov.lo, hi := ov.hi }

/-- clear the fuzzy outputs, activate the enabled blocks in order, defuzzify the enabled outputs -/
def processRow (F : Fn α) (e : EngineD α) : Option (RowResult α) := do
  let fz0 : Fuzzy α := e.outputs.map (fun _ => [])
  let (fz, obs) ← e.blocks.foldlM (fun (acc : Fuzzy α × List (List (RuleObs α))) b =>
    if b.enabled then do
      let (fz', o) ← activateBlock F e.inputs e.outputs b acc.1
      pure (fz', acc.2 ++ [o])
    else pure (acc.1, acc.2 ++ [[]])) (fz0, [])
  let inputs := e.inputs.map (·.value)
  let raw ← e.outputs.zipIdx.mapM (fun (ov, i) =>
    if ov.enabled then do pure (some (← defuzzRaw F inputs ov (fz.getD i []))) else pure none)
  pure { fuzzy := fz, rules := obs, raw := raw }

/-! ## batch mode -/

def setInputs (e : EngineD α) (row : List (X α)) : EngineD α :=
  { e with inputs := (e.inputs.zip row).map (fun (iv, v) => iv.setValue v) }

/-- the vectorised code evaluates every NumPy expression elementwise: row `i` of every intermediate array is the
    scalar computation on row `i` of the inputs -/
def batchRows (F : Fn α) (e : EngineD α) (rows : List (List (X α))) : List (Option (RowResult α)) :=
  rows.map (fun row => processRow F (setInputs e row))

/-- raw defuzzified column of output `i` over a batch whose rows all succeeded -/
def rawColumn (results : List (RowResult α)) (i : Nat) : List (X α) :=
  results.filterMap (fun rr => rr.raw.getD i none)

/-- batch mode: ONE `defuzzify` per output on the whole column (the fill-forward loop runs over the batch) -/
def batchValues (ov : OutVar α) (col : List (X α)) (s : OutState α) : List (X α) :=
  (commit (cascadeCfg ov) col s).value

/-- float mode: one `defuzzify` per row -/
def rowsValues (ov : OutVar α) (col : List (X α)) (s : OutState α) : List (X α) :=
  (commitRows (cascadeCfg ov) col s).1

end Op.Engine
