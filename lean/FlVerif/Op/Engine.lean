import FlVerif.Base.X
import FlVerif.Gen.NormGen
import FlVerif.Gen.HedgeGen
import FlVerif.Gen.TermGen
import FlVerif.Op.Cascade
import FlVerif.Op.Integral
import FlVerif.Op.Weighted

/-! # Code-shaped executable model of `Engine.process` for one input row (engine.py:409, rule.py, activation.py,
    term.py Activated/Aggregated, defuzzifier.py, variable.py)

Leaf formulas come from the regenerated `Gen.*` definitions; everything structural follows the Python control
flow.  A failing step (`none`) models a raised exception.  Batch mode is the row model applied to every row with
the value cascade (`Op.commit`) applied once to the batch of raw defuzzified values (theorem `C12.batch_eq_rows`
shows that this equals row-by-row processing). -/

namespace Op.Engine
variable {α : Type} [Field α] [LinearOrder α] [IsStrictOrderedRing α]

/-! ## data -/

inductive TermD (α : Type) where
  | shape (name cls : String) (params : List (X α)) (height : X α)
  | constant (name : String) (value : X α)
  | linear (name : String) (coeffs : List (X α))
  | discrete (name : String) (xs ys : List (X α)) (height : X α)

def TermD.name : TermD α → String
  | .shape n _ _ _ => n | .constant n _ => n | .linear n _ => n | .discrete n _ _ _ => n

structure InVar (α : Type) where
  name : String
  enabled : Bool
  value : X α
  terms : List (TermD α)
  lo : X α := .ninf
  hi : X α := .pinf
  lockRange : Bool := false

/-- the `Variable.value` setter: the value is clipped to the range when `lock_range` -/
def InVar.setValue [Field α] [LinearOrder α] [IsStrictOrderedRing α] (iv : InVar α) (v : X α) : InVar α :=
  { iv with value := if iv.lockRange then X.clip v iv.lo iv.hi else v }

inductive Defuzz where
  | integral (kind : String) (resolution : Nat)
  | weighted (kind : String) (type : String)     -- type ∈ Automatic | TakagiSugeno | Tsukamoto
  | missing

/-- one `Activated` in a fuzzy output -/
structure Act (α : Type) where
  term : TermD α
  degree : X α                      -- after `np.nan_to_num`
  implication : Option String

structure OutVar (α : Type) where
  name : String
  enabled : Bool
  lo : X α
  hi : X α
  lockRange : Bool
  lockPrev : Bool
  dflt : X α
  aggregation : Option String
  defuzz : Defuzz
  terms : List (TermD α)

inductive Ante where
  | prop (var : String) (hedges : List String) (term : Option String)   -- `term = none`: the proposition ends in `any`
  | and (l r : Ante)
  | or (l r : Ante)

structure Concl where
  var : String
  hedges : List String
  term : String

structure RuleD (α : Type) where
  enabled : Bool
  loaded : Bool
  weight : X α
  ante : Ante
  concls : List Concl

inductive Activation (α : Type) where
  | general
  | first (n : Nat) (threshold : X α)
  | last (n : Nat) (threshold : X α)
  | highest (n : Nat)
  | lowest (n : Nat)
  | proportional
  | threshold (cmp : String) (threshold : X α)
  | missing

structure Block (α : Type) where
  enabled : Bool
  conjunction : Option String
  disjunction : Option String
  implication : Option String
  activation : Activation α
  rules : List (RuleD α)

structure EngineD (α : Type) where
  inputs : List (InVar α)
  outputs : List (OutVar α)
  blocks : List (Block α)

/-- fuzzy outputs: per output variable (by position) the list of activated terms -/
abbrev Fuzzy (α : Type) := List (List (Act α))

/-- per-rule result of an activation: (activation_degree, triggered) -/
structure RuleObs (α : Type) where
  degree : X α
  triggered : Bool

/-! ## terms -/

/-- `np.interp(x, xs, ys)` for increasing `xs`: clamped at both ends, linear in between; NaN propagates -/
def interp : List (X α) → List (X α) → X α → X α
  | [], _, _ => .nan
  | _, [], _ => .nan
  | [_], [y0], x => if X.isnan x then .nan else y0
  | x0 :: x1 :: xs, y0 :: y1 :: ys, x =>
    if X.isnan x then .nan
    else if X.le x x0 then y0
    else if X.lt x x1 then
      X.add y0 (X.mul (X.sub x x0) (X.div (X.sub y1 y0) (X.sub x1 x0)))
    else interp (x1 :: xs) (y1 :: ys) x
  | _, _, _ => .nan

def dot : List (X α) → List (X α) → X α
  | c :: cs, v :: vs => X.add (X.mul c v) (dot cs vs)
  | _, _ => .fin 0

/-- `Term.membership(x)`; `inputs` are the current input values (read by `Linear`) -/
def membership (F : Fn α) (inputs : List (X α)) : TermD α → X α → Option (X α)
  | .shape _ cls ps h, x => Gen.termMembership F cls ps h x
  | .constant _ v, _ => some v
  | .linear _ cs, _ =>
    let n := inputs.length
    if cs.length = n then some (X.add (dot cs inputs) (.fin 0))
    else if cs.length = n + 1 then some (X.add (dot (cs.take n) inputs) (cs.getD n (.fin 0)))
    else none
  | .discrete _ xs ys h, x => if xs.isEmpty then none else some (X.mul h (interp xs ys x))

def tsukamoto (F : Fn α) : TermD α → X α → Option (X α)
  | .shape _ cls ps h, y => Gen.termTsukamoto F cls ps h y
  | _, _ => none

def isMonotonic : TermD α → Bool
  | .shape _ cls _ _ => (Gen.isMonotonicTable.find? (fun p => p.1 == cls)).map (·.2) |>.getD false
  | _ => false

/-! ## fuzzy outputs -/

/-- `Aggregated.activation_degree(term)`: the degree of the term's group in `Aggregated.grouped_terms()` – the
    grouping of `Op.Weighted.groupedTerms` (component model of C10: first-occurrence order, degrees combined with the
    aggregation operator or `UnboundedSum`, every assignment through the `nan_to_num` setter) – or 0 -/
def activationDegree (agg : Option String) (acts : List (Act α)) (termName : String) : Option (X α) := do
  let aggF ← match agg with
    | none => some none
    | some g => (Gen.normByName (α := α) g).map some
  let named : List (Op.Weighted.Act String α) :=
    acts.map (fun a => ({ name := a.term.name, kind := .other, mu := id, tsk := none }, a.degree))
  let gs := Op.Weighted.groupedTerms aggF named
  pure ((gs.find? (fun g => g.1.name == termName)).map (·.2) |>.getD (.fin 0))

/-! ## antecedents (rule.py:203) -/

def applyHedges (F : Fn α) : List String → X α → Option (X α)
  | [], v => some v
  | h :: hs, v => do
    -- `for hedge in reversed(hedges)`: the last hedge (nearest the term) first
    let inner ← applyHedges F hs v
    let f ← Gen.hedgeByName F h
    pure (f inner)

structure Env (α : Type) where
  inputs : List (InVar α)
  outputs : List (OutVar α)
  fuzzy : Fuzzy α

def Env.inputValues (e : Env α) : List (X α) := e.inputs.map (·.value)

def degree (F : Fn α) (e : Env α) (conj disj : Option String) : Ante → Option (X α)
  | .prop var hedges term =>
    -- `variables = {v.name: v for v in engine.variables}`: inputs first, then outputs (a later one wins)
    match (e.outputs.zip e.fuzzy).find? (fun p => p.1.name == var), e.inputs.find? (fun v => v.name == var) with
    | some (ov, acts), _ =>
      if !ov.enabled then some (.fin 0)
      else match term with
        | none => applyHedges F hedges .nan
        | some t => do
          let _ ← ov.terms.find? (fun tt => tt.name == t)
          let d ← activationDegree ov.aggregation acts t
          applyHedges F hedges d
    | none, some iv =>
      if !iv.enabled then some (.fin 0)
      else match term with
        | none => applyHedges F hedges .nan
        | some t => do
          let tt ← iv.terms.find? (fun tt => tt.name == t)
          let m ← membership F e.inputValues tt iv.value
          applyHedges F hedges m
    | none, none => none
  | .and l r => do
    let c ← conj
    let f ← Gen.normByName (α := α) c
    pure (f (← degree F e conj disj l) (← degree F e conj disj r))
  | .or l r => do
    let d ← disj
    let f ← Gen.normByName (α := α) d
    pure (f (← degree F e conj disj l) (← degree F e conj disj r))

/-! ## consequents (rule.py:542) -/

def updateAt {β : Type} (l : List β) (i : Nat) (f : β → β) : List β :=
  l.zipIdx.map (fun p => if p.2 == i then f p.1 else p.1)

/-- `Consequent.modify` as written: the hedged degree is threaded through the conclusions (the variable
    `activation_degree` is reassigned inside the loop) -/
def modify (F : Fn α) (outputs : List (OutVar α)) (impl : Option String) :
    List Concl → X α → Fuzzy α → Option (Fuzzy α)
  | [], _, fz => some fz
  | c :: cs, d, fz =>
    match outputs.zipIdx.find? (fun p => p.1.name == c.var) with
    | none => none
    | some (ov, i) =>
      if ov.enabled then do
        let d' ← applyHedges F c.hedges d
        let t ← ov.terms.find? (fun tt => tt.name == c.term)
        let act : Act α := { term := t, degree := X.nanToNum01 d', implication := impl }
        modify F outputs impl cs d' (updateAt fz i (fun l => l ++ [act]))
      else modify F outputs impl cs d fz

/-- `Rule.trigger` -/
def trigger (F : Fn α) (outputs : List (OutVar α)) (impl : Option String) (r : RuleD α) (d : X α)
    (fz : Fuzzy α) : Option (Fuzzy α × Bool) :=
  if r.enabled then do
    let fz' ← modify F outputs impl r.concls d fz
    pure (fz', X.lt (.fin 0) d)
  else some (fz, false)

/-- `Rule.activate_with`: weight × antecedent -/
def activateWith (F : Fn α) (inputs : List (InVar α)) (outputs : List (OutVar α)) (b : Block α) (r : RuleD α)
    (fz : Fuzzy α) : Option (X α) := do
  let a ← degree F { inputs := inputs, outputs := outputs, fuzzy := fz } b.conjunction b.disjunction r.ante
  pure (X.mul r.weight a)

/-! ## activation methods (activation.py) -/

abbrev St (α : Type) := Fuzzy α × List (RuleObs α)

def setObs (obs : List (RuleObs α)) (i : Nat) (o : RuleObs α) : List (RuleObs α) := updateAt obs i (fun _ => o)

def compare (cmp : String) (a t : X α) : Option Bool :=
  match cmp with
  | "<" => some (X.lt a t) | "<=" => some (X.le a t) | "==" => some (X.eq a t) | "!=" => some (X.ne a t)
  | ">=" => some (X.le t a) | ">" => some (X.lt t a) | _ => none

/-- insertion into the heap order `(key, index)` ascending – `heapq`'s contract -/
def heapInsert (k : X α) (i : Nat) : List (X α × Nat) → List (X α × Nat)
  | [] => [(k, i)]
  | (k', i') :: rest =>
    if X.lt k k' || (X.eq k k' && i < i') then (k, i) :: (k', i') :: rest
    else (k', i') :: heapInsert k i rest

/-- one pass of a counting loop (General / First / Last / Threshold): `eligible d count` decides whether to trigger -/
def loopPass (F : Fn α) (ins : List (InVar α)) (outs : List (OutVar α)) (b : Block α)
    (eligible : X α → Nat → Option Bool) :
    List (RuleD α × Nat) → Nat → St α → Option (St α)
  | [], _, st => some st
  | (r, i) :: rs, count, (fz, obs) =>
    -- `rule.deactivate()`
    let obs := setObs obs i { degree := .fin 0, triggered := false }
    if r.loaded then do
      let d ← activateWith F ins outs b r fz
      if (← eligible d count) then
        let (fz', trig) ← trigger F outs b.implication r d fz
        loopPass F ins outs b eligible rs (count + 1) (fz', setObs obs i { degree := d, triggered := trig })
      else loopPass F ins outs b eligible rs count (fz, setObs obs i { degree := d, triggered := false })
    else loopPass F ins outs b eligible rs count (fz, obs)

/-- first pass of Highest / Lowest / Proportional: degrees of all loaded rules, candidates with positive degree -/
def degreesPass (F : Fn α) (ins : List (InVar α)) (outs : List (OutVar α)) (b : Block α) (fz : Fuzzy α) :
    List (RuleD α × Nat) → List (RuleObs α) → List (Nat × X α) → Option (List (RuleObs α) × List (Nat × X α))
  | [], obs, cands => some (obs, cands)
  | (r, i) :: rs, obs, cands =>
    let obs := setObs obs i { degree := .fin 0, triggered := false }
    if r.loaded then do
      let d ← activateWith F ins outs b r fz
      let obs := setObs obs i { degree := d, triggered := false }
      degreesPass F ins outs b fz rs obs (if X.lt (.fin 0) d then cands ++ [(i, d)] else cands)
    else degreesPass F ins outs b fz rs obs cands

def triggerList (F : Fn α) (outs : List (OutVar α)) (b : Block α) :
    List (Nat × X α) → St α → Option (St α)
  | [], st => some st
  | (i, d) :: rest, (fz, obs) => do
    let r ← b.rules[i]?
    let (fz', trig) ← trigger F outs b.implication r d fz
    triggerList F outs b rest (fz', setObs obs i { degree := d, triggered := trig })

/-- `RuleBlock.activate` -/
def activateBlock (F : Fn α) (ins : List (InVar α)) (outs : List (OutVar α)) (b : Block α) (fz : Fuzzy α) :
    Option (St α) :=
  let idx := b.rules.zipIdx
  let obs0 : List (RuleObs α) := b.rules.map (fun _ => { degree := .fin 0, triggered := false })
  match b.activation with
  | .missing => none
  | .general => loopPass F ins outs b (fun _ _ => some true) idx 0 (fz, obs0)
  | .first n t => loopPass F ins outs b (fun d c => some (decide (c < n) && X.lt (.fin 0) d && X.le t d)) idx 0 (fz, obs0)
  | .last n t => loopPass F ins outs b (fun d c => some (decide (c < n) && X.lt (.fin 0) d && X.le t d)) idx.reverse 0 (fz, obs0)
  | .threshold cmp t => loopPass F ins outs b (fun d _ => compare cmp d t) idx 0 (fz, obs0)
  | .highest n => do
    let (obs, cands) ← degreesPass F ins outs b fz idx obs0 []
    let heap := cands.foldl (fun h (i, d) => heapInsert (X.neg d) i h) []
    triggerList F outs b ((heap.take n).map (fun (k, i) => (i, X.neg k))) (fz, obs)
  | .lowest n => do
    let (obs, cands) ← degreesPass F ins outs b fz idx obs0 []
    let heap := cands.foldl (fun h (i, d) => heapInsert d i h) []
    triggerList F outs b ((heap.take n).map (fun (k, i) => (i, k))) (fz, obs)
  | .proportional => do
    let (obs, cands) ← degreesPass F ins outs b fz idx obs0 []
    let total := cands.foldl (fun s (_, d) => X.add s d) (.fin 0)
    triggerList F outs b (cands.map (fun (i, d) => (i, X.div d total))) (fz, obs)

/-! ## aggregated membership and defuzzifiers (term.py:369/464, defuzzifier.py) -/

def actMembership (F : Fn α) (inputs : List (X α)) (a : Act α) (x : X α) : Option (X α) := do
  let impl ← a.implication
  let f ← Gen.normByName (α := α) impl
  pure (f a.degree (← membership F inputs a.term x))

def aggMembership (F : Fn α) (inputs : List (X α)) (agg : Option String) (acts : List (Act α)) (x : X α) :
    Option (X α) :=
  if acts.isEmpty then some (.fin 0)
  else do
    let g ← agg
    let f ← Gen.normByName (α := α) g
    acts.foldlM (fun y a => do pure (f y (← actMembership F inputs a x))) (.fin 0)

/-- the integral defuzzifiers of `Op.Integral` (the component model of C09) by class name; the sampled set is
    `xs = Op.Integral.midpoints lo hi r`, `ys = aggregated membership at xs` -/
def integral (kind : String) (xs ys : List (X α)) : Option (X α) :=
  match kind with
  | "Centroid" => some (Op.Integral.centroid xs ys)
  | "Bisector" => some (Op.Integral.bisector xs ys)
  | "SmallestOfMaximum" => some (Op.Integral.som xs ys)
  | "MeanOfMaximum" => some (Op.Integral.mom xs ys)
  | "LargestOfMaximum" => some (Op.Integral.lom xs ys)
  | _ => none

/-- a term as the weighted defuzzifiers of `Op.Weighted` (the component model of C10) see it: name, `infer_type`
    class, membership, Tsukamoto function (absent when the class does not override `Term.tsukamoto`).  A `Linear` term
    with a wrong number of coefficients makes the whole evaluation raise (`wellFormedTerm`). -/
def toWTerm (F : Fn α) (inputs : List (X α)) (t : TermD α) : Op.Weighted.WTerm String α :=
  { name := t.name
    kind := match t with
      | .constant .. | .linear .. => .sugeno
      | t => if isMonotonic t then .monotonic else .other
    mu := fun w => (membership F inputs t w).getD .nan
    tsk := match t with
      | .shape _ cls ps h => if (Gen.termTsukamoto F cls ps h (.fin 0)).isSome then some (fun w => (tsukamoto F t w).getD .nan) else none
      | _ => none }

def wellFormedTerm (F : Fn α) (inputs : List (X α)) (t : TermD α) : Bool := (membership F inputs t (.fin 0)).isSome

def wtypeOf : String → Option Op.Weighted.WType
  | "Automatic" => some .automatic | "TakagiSugeno" => some .takagiSugeno | "Tsukamoto" => some .tsukamoto | _ => none

/-- `WeightedAverage / WeightedSum.defuzzify` through `Op.Weighted` -/
def weighted (F : Fn α) (inputs : List (X α)) (kind type : String) (agg : Option String) (acts : List (Act α)) :
    Option (X α) := do
  let ty ← wtypeOf type
  let aggF ← match agg with
    | none => some none
    | some g => (Gen.normByName (α := α) g).map some
  let wacts : List (Op.Weighted.Act String α) := acts.map (fun a => (toWTerm F inputs a.term, a.degree))
  -- a term whose membership raises (Linear with a wrong number of coefficients) raises when it is evaluated
  let ty' ← (Op.Weighted.resolveType ty wacts).toOption
  if ty' != .tsukamoto && !(acts.all (fun a => wellFormedTerm F inputs a.term)) then none
  else match kind with
    | "WeightedAverage" => (Op.Weighted.weightedAverage ty aggF wacts).toOption
    | "WeightedSum" => (Op.Weighted.weightedSum ty aggF wacts).toOption
    | _ => none

/-- the raw defuzzified value of one output variable for the current row -/
def defuzzRaw (F : Fn α) (inputs : List (X α)) (ov : OutVar α) (acts : List (Act α)) : Option (X α) :=
  match ov.defuzz with
  | .missing => none
  | .integral kind r => do
    let xs := Op.Integral.midpoints ov.lo ov.hi r
    let ys ← xs.mapM (aggMembership F inputs ov.aggregation acts)
    integral kind xs ys
  | .weighted kind ty => weighted F inputs kind ty ov.aggregation acts

/-! ## Engine.process for one row -/

structure RowResult (α : Type) where
  fuzzy : Fuzzy α
  rules : List (List (RuleObs α))          -- per block (empty for a disabled block: its rules are not touched)
  raw : List (Option (X α))                -- per output: raw defuzzified value (`none` for a disabled variable)

def cascadeCfg (ov : OutVar α) : CascadeCfg α :=
  { enabled := ov.enabled, lockPrev := ov.lockPrev, lockRange := ov.lockRange, dflt := ov.dflt, lo := ov.lo, hi := ov.hi }

/-- clear the fuzzy outputs, activate the enabled blocks in order, defuzzify the enabled outputs -/
def processRow (F : Fn α) (e : EngineD α) : Option (RowResult α) := do
  let fz0 : Fuzzy α := e.outputs.map (fun _ => [])
  let (fz, obs) ← e.blocks.foldlM (fun (acc : Fuzzy α × List (List (RuleObs α))) b =>
    if b.enabled then do
      let (fz', o) ← activateBlock F e.inputs e.outputs b acc.1
      pure (fz', acc.2 ++ [o])
    else pure (acc.1, acc.2 ++ [[]])) (fz0, [])
  let inputs := e.inputs.map (·.value)
  let raw ← e.outputs.zipIdx.mapM (fun (ov, i) =>
    if ov.enabled then do pure (some (← defuzzRaw F inputs ov (fz.getD i []))) else pure none)
  pure { fuzzy := fz, rules := obs, raw := raw }

/-! ## batch mode -/

def setInputs (e : EngineD α) (row : List (X α)) : EngineD α :=
  { e with inputs := (e.inputs.zip row).map (fun (iv, v) => iv.setValue v) }

/-- the vectorised code evaluates every NumPy expression elementwise: row `i` of every intermediate array is the
    scalar computation on row `i` of the inputs -/
def batchRows (F : Fn α) (e : EngineD α) (rows : List (List (X α))) : List (Option (RowResult α)) :=
  rows.map (fun row => processRow F (setInputs e row))

/-- raw defuzzified column of output `i` over a batch whose rows all succeeded -/
def rawColumn (results : List (RowResult α)) (i : Nat) : List (X α) :=
  results.filterMap (fun rr => rr.raw.getD i none)

/-- batch mode: ONE `defuzzify` per output on the whole column (the fill-forward loop runs over the batch) -/
def batchValues (ov : OutVar α) (col : List (X α)) (s : OutState α) : List (X α) :=
  (commit (cascadeCfg ov) col s).value

/-- float mode: one `defuzzify` per row -/
def rowsValues (ov : OutVar α) (col : List (X α)) (s : OutState α) : List (X α) :=
  (commitRows (cascadeCfg ov) col s).1

end Op.Engine
