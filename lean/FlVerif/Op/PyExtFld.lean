import FlVerif.Base.PyList
import FlVerif.Op.PyExt
import FlVerif.Op.Fld

/-! # Externals of the translated FLD grid code (`Op.increment`, `FldExporter.write_from_scope`)

What the grid loop reads of an input variable: whether it belongs to `active_variables`, its `minimum`, its `drange`
and the last element of its `value` (`np.take(variable.value, -1)`). -/

namespace Py.Fld

structure Var where
  active : Bool
  minimum : X Rat
  drange : X Rat
  value : X Rat
deriving Inhabited

end Py.Fld
