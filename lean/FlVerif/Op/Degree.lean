import FlVerif.Op.AntecedentLoad
import FlVerif.Spec.Antecedent

/-! # `Antecedent.activation_degree` and `Rule.activate_with` (rule.py), `Aggregated.activation_degree` (term.py)

Recursive evaluation of the loaded tree, statement by statement: a variable object that is false (it has lost its terms since
the rule was loaded: `Variable.__len__`) raises `ValueError` before anything else; a disabled variable returns 0;
a proposition whose last hedge is `any` starts from NaN and applies the hedges in reverse; otherwise the term's
membership of the input value / the aggregated activation degree of the term for an output variable, then the hedges
in reverse (from the one nearest the term outwards); `and` / `or` use the rule block's operators and raise
`ValueError` when the operator is missing. -/

namespace Op
open Lang

variable {α : Type} [Field α] [LinearOrder α] [IsStrictOrderedRing α]

/-- `for hedge in reversed(node.hedges): result = hedge.hedge(result)` -/
def hedgesReversed (c : DegCtx α) (hs : List String) (x : X α) : X α :=
  hs.reverse.foldl (fun acc h => c.hedge h acc) x

def degree (c : DegCtx α) : ANode → Except ErrKind (X α)
  | .prop v hs t =>
    if !c.hasTerms v then .error .value                        -- `if not node.variable`: `Variable.__len__` is 0
    else if !c.enabled v then .ok (.fin 0)
    else if hs.getLast? = some "any" then .ok (hedgesReversed c hs .nan)
    else match t with
      | none => .error .value                                  -- expected a term in proposition
      | some t =>
        let result := if c.isOutput v then c.outDegree v t else c.membership v t
        .ok (hedgesReversed c hs result)
  | .op name l r =>
    if name = "and" then
      match c.conj with
      | none => .error .value                                  -- expected a conjunction operator
      | some f => match degree c l, degree c r with
        | .ok a, .ok b => .ok (f a b)
        | .error k, _ => .error k
        | _, .error k => .error k
    else if name = "or" then
      match c.disj with
      | none => .error .value
      | some f => match degree c l, degree c r with
        | .ok a, .ok b => .ok (f a b)
        | .error k, _ => .error k
        | _, .error k => .error k
    else .error .value                                         -- operator not recognized

/-- `Rule.activate_with`: `self.weight * self.antecedent.activation_degree(conjunction, disjunction)` -/
def activateWith (c : DegCtx α) (weight : X α) (a : ANode) : Except ErrKind (X α) :=
  match degree c a with
  | .ok d => .ok (X.mul weight d)
  | .error k => .error k

/-- `Aggregated.activation_degree(term)`: group the activated terms of that name in order, first degree as it is,
    the following ones combined with the aggregation operator (`UnboundedSum` when none is set); every stored degree
    passes the `Activated.degree` setter (`nan, -inf ↦ 0; +inf ↦ 1`); 0 when the term was never activated -/
def aggregatedDegree (agg : X α → X α → X α) (acts : List (String × X α)) (term : String) : X α :=
  match acts.filter (·.1 == term) with
  | [] => .fin 0
  | (_, d) :: rest => rest.foldl (fun acc kv => X.nanToNum01 (agg acc (X.nanToNum01 kv.2))) (X.nanToNum01 d)

/-- the loaded tree of a documented antecedent -/
def ofAnte : Ante → ANode
  | .prop v hs t => .prop v hs (some t)
  | .anyP v hs => .prop v (hs ++ ["any"]) none
  | .conj l r => .op "and" (ofAnte l) (ofAnte r)
  | .disj l r => .op "or" (ofAnte l) (ofAnte r)

end Op
