import FlVerif.Op.FllIO

/-! Text layer of the FLL model (driver only, outside the theorems): rendering token lines as the text
`FllExporter` writes, and cutting a text into token lines the way `FllImporter` does (`strip_comments`,
`split(":", maxsplit=1)`, `split()`, `split(maxsplit=…)`), classifying a token as a number exactly where
the importer calls `to_float` / `int` / `float`. -/

namespace Op.FllIO
open Dec

def Key.text : Key → String
  | .engine => "Engine" | .inputVariable => "InputVariable" | .outputVariable => "OutputVariable"
  | .ruleBlock => "RuleBlock" | .description => "description" | .enabled => "enabled" | .range => "range"
  | .lockRange => "lock-range" | .term => "term" | .aggregation => "aggregation" | .defuzzifier => "defuzzifier"
  | .default => "default" | .lockPrevious => "lock-previous" | .conjunction => "conjunction"
  | .disjunction => "disjunction" | .implication => "implication" | .activation => "activation"
  | .rule => "rule" | .other s => s

def Key.ofText (s : String) : Key :=
  match s with
  | "Engine" => .engine | "InputVariable" => .inputVariable | "OutputVariable" => .outputVariable
  | "RuleBlock" => .ruleBlock | "description" => .description | "enabled" => .enabled | "range" => .range
  | "lock-range" => .lockRange | "term" => .term | "aggregation" => .aggregation | "defuzzifier" => .defuzzifier
  | "default" => .default | "lock-previous" => .lockPrevious | "conjunction" => .conjunction
  | "disjunction" => .disjunction | "implication" => .implication | "activation" => .activation
  | "rule" => .rule | s => .other s

def Tok.render (d : ℕ) : Tok → String
  | .w s => s
  | .n x => Dec.render d (fmt d x)
  | .i z => toString z

def Line.render (d : ℕ) (l : Line) : String :=
  (if isHeader l.key then "" else "  ") ++ l.key.text ++ ":" ++
    (if l.toks = [] then "" else " " ++ " ".intercalate (l.toks.map (Tok.render d)))

/-- `FllExporter.engine(...)`: lines joined by the separator, with the trailing empty line -/
def renderLines (d : ℕ) (ls : List Line) : String := "\n".intercalate (ls.map (Line.render d) ++ [""])

/-! lexer -/

/-- white space inside a line: the characters of `str.isspace` (what `str.split()` / `str.strip()` cut at) except the
    new line, which separates the lines -/
def isWs (c : Char) : Bool :=
  c == ' ' || c == '\t' || c == '\r' || c == '\x0b' || c == '\x0c' ||
  (0x1c ≤ c.toNat && c.toNat ≤ 0x1f) || c.toNat == 0x85 || c.toNat == 0xa0 || c.toNat == 0x1680 ||
  (0x2000 ≤ c.toNat && c.toNat ≤ 0x200a) || c.toNat == 0x2028 || c.toNat == 0x2029 || c.toNat == 0x202f ||
  c.toNat == 0x205f || c.toNat == 0x3000

def trimChars (cs : List Char) : List Char := ((cs.dropWhile isWs).reverse.dropWhile isWs).reverse

/-- `str.split()` -/
def wordsAux : List Char → List Char → List (List Char) → List (List Char)
  | [], cur, acc => (if cur.isEmpty then acc else cur.reverse :: acc).reverse
  | c :: r, cur, acc =>
    if isWs c then wordsAux r [] (if cur.isEmpty then acc else cur.reverse :: acc) else wordsAux r (c :: cur) acc

def words (cs : List Char) : List String := (wordsAux cs [] []).map String.ofList

/-- `str.split(maxsplit=1)` on a stripped text: first word and the stripped rest -/
def splitFirst (cs : List Char) : String × List Char :=
  let cs := cs.dropWhile isWs
  let (a, r) := cs.span (fun c => !isWs c)
  (String.ofList a, trimChars r)

/-- `float(text)` / `int(text)` accept single underscores between two digits (`1_000`); anywhere else an underscore
    makes the text not a number -/
def dropUnderscores : List Char → Option (List Char)
  | [] => some []
  | [c] => if c == '_' then none else some [c]
  | a :: '_' :: b :: r =>
    if a.isDigit && b.isDigit then (dropUnderscores (b :: r)).map (a :: ·) else none
  | a :: b :: r => if a == '_' then none else (dropUnderscores (b :: r)).map (a :: ·)

def parseNum (s : String) : Option Num := (dropUnderscores s.toList).bind (fun cs => Dec.parse (String.ofList cs))

def parseInt (s : String) : Option Int :=
  (dropUnderscores s.toList).bind fun cs =>
  match cs with
  | '-' :: r => (digitsVal r).bind (fun n => if r.isEmpty then none else some (-(n : Int)))
  | '+' :: r => (digitsVal r).bind (fun n => if r.isEmpty then none else some (n : Int))
  | r => (digitsVal r).bind (fun n => if r.isEmpty then none else some (n : Int))

def numTokOf (s : String) : Tok := match parseNum s with
  | some x => .n x
  | none => .w s

def intTokOf (s : String) : Tok := match parseInt s with
  | some z => .i z
  | none => numTokOf s

def textTok (cs : List Char) : List Tok := if cs.isEmpty then [] else [.w (String.ofList cs)]

/-- tokens of a rule: the token after the first `with` that follows `then` is read with `float` -/
def lexRule : List String → RState → List Tok
  | [], _ => []
  | t :: ts, .sBegin => .w t :: lexRule ts (if t = "if" then .sIf else .sBegin)
  | t :: ts, .sIf => .w t :: lexRule ts (if t = "then" then .sThen else .sIf)
  | t :: ts, .sThen => .w t :: lexRule ts (if t = "with" then .sWith else .sThen)
  | t :: ts, .sWith => numTokOf t :: lexRule ts .sEnd
  | t :: ts, .sEnd => .w t :: lexRule ts .sEnd

def lexValue (k : Key) (v : List Char) : List Tok :=
  match k with
  | .range | .default => (words v).map numTokOf
  | .term =>
    let (name, r1) := splitFirst v
    if name = "" then [] else
    let (cls, r2) := splitFirst r1
    if cls = "" then [.w name] else
    .w name :: .w cls :: (if cls = "Function" then textTok r2 else (words r2).map numTokOf)
  | .defuzzifier =>
    let (cls, r) := splitFirst v
    if cls = "" then [] else
    .w cls :: (match words r with
      | [] => []
      | [x] => (match parseInt x with | some z => [.i z] | none => [.w x])
      | _ => [.w (String.ofList r)])
  | .activation =>
    let (cls, r) := splitFirst v
    if cls = "" then [] else
    .w cls :: (match words r with
      | [] => []
      | x :: xs => intTokOf x :: xs.map numTokOf)
  | .rule => lexRule (words v) .sBegin
  | _ => textTok v

/-- one physical line: `none` = empty after `strip_comments`.  A `term` / `rule` line is read a second time by
    `FllImporter.term / rule` through `extract_value(line, "term")`, which compares the text before the colon with the
    key *without stripping it*: `term : …` (white space before the colon) is a `SyntaxError` there - when the component
    is processed, not when the line is met.  Such a line is therefore a line of the unknown key `term ` (with the
    white space), which every component rejects with a `SyntaxError`. -/
def lexLine (s : List Char) : Except Err (Option Line) :=
  let body := trimChars (s.takeWhile (· ≠ '#'))
  if body.isEmpty then .ok none
  else match body.span (· ≠ ':') with
    | (_, []) => .error .syntax
    | (k, _ :: v) =>
      let key := Key.ofText (String.ofList (trimChars k))
      if (key = .term ∨ key = .rule) ∧ k ≠ trimChars k then .ok (some ⟨.other (String.ofList k), textTok (trimChars v)⟩)
      else .ok (some ⟨key, lexValue key (trimChars v)⟩)

/-- `str.split("\n")` -/
def splitNl : List Char → List (List Char)
  | [] => [[]]
  | c :: r =>
    if c = '\n' then [] :: splitNl r
    else match splitNl r with
      | [] => [[c]]
      | h :: t => (c :: h) :: t

/-- `"\n".join(...)` -/
def joinNl : List (List Char) → List Char
  | [] => []
  | [a] => a
  | a :: b :: r => a ++ '\n' :: joinNl (b :: r)

def lexText (s : String) : Except Err (List Line) :=
  (splitNl s.toList).foldr (fun raw acc => do
      let rest ← acc
      match ← lexLine raw with
      | none => pure rest
      | some l => pure (l :: rest)) (.ok [])

/-- the loop of `FllImporter.engine` on raw lines: the loop of the token-level model (`engineLoop`) with the lexer
    applied to each line when the loop reaches it (a line without a colon is a `SyntaxError` at that line, after the
    errors of the components completed before it) -/
def engineLoopText : List String → Option Key → List Line → Engine → Except Err Engine
  | [], comp, block, e => engineLoop [] comp block e
  | raw :: rs, comp, block, e =>
    match lexLine raw.toList with
    | .error err => .error err
    | .ok none => engineLoopText rs comp block e
    | .ok (some l) =>
      if isHeader l.key then
        match comp with
        | some k => (processBlock k block e) >>= engineLoopText rs (some l.key) [l]
        | none => engineLoopText rs (some l.key) [l] e
      else engineLoopText rs comp (block ++ [l]) e

/-- `FllImporter.from_string` on a text (equal to `lexText` followed by `fllImport` whenever every line lexes:
    `Lemmas/CodeFllImportEngine.lean`) -/
def importTextLazy (fll : String) : Except Err Engine :=
  engineLoopText ((splitNl fll.toList).map String.ofList) none [] {}

end Op.FllIO
