import FlVerif.Op.PyRepr
import FlVerif.Lemmas.CodeRepr

/-! # The text of a Python representation (C15): rendering of constructor-call trees, import statement, wrapper

`Op.PyRepr.asConstructor` gives the representation of an object as a tree (`Src`); this file is the text the library
prints for such a tree – the Lean counterpart of `render` in `fv/props/c15.py` – and the model of the text-level
functions around it: `Representation.import_statement`, `PythonExporter.encapsulate / to_string`.

CPython's own leaf texts are not modelled: `Leaf` bundles `repr(float)`, `repr(int)`, `repr(str)` and the text of a
rule as arbitrary functions, with the two facts about `repr(float)` that `Representation.repr_float` relies on.
(`argText`, the text of one argument, and `notSelf` come with the tie of `construction_arguments`: `Lemmas/CodeRepr`.) -/

namespace Op.PyRepr
open Dec Op.FllIO

/-- the module name of `inspect.getmodule(x)`, `none` when the object has no module -/
def packageOfOpt (al : String) : Option String → String
  | none => ""
  | some m => packageOf al m

/-- `Representation.import_statement` -/
def importStatement (al : String) : String :=
  if al = "" then "import fuzzylite"
  else if al = "*" then "from fuzzylite import *"
  else "import fuzzylite as " ++ al

/-- leaf texts of CPython -/
structure Leaf where
  num : Num → String                  -- `repr(x)` of a float
  int : Int → String                  -- `repr(z)` of an int
  str : String → String               -- `repr(s)` of a string
  rule : List Tok → String            -- `Rule.text`: the tokens of the rule joined (tied in `CodeFllExport`)
  num_inf : num .pinf = "inf"
  num_nan : num .nan = "nan"

def renderAtom (L : Leaf) : SAtom → String
  | .lit pfx (.num .nan) => pfx ++ "nan"
  | .lit pfx (.num .pinf) => pfx ++ "inf"
  | .lit pfx (.num .ninf) => "-" ++ (pfx ++ "inf")
  | .lit _ (.num x) => L.num x
  | .lit _ (.int z) => L.int z
  | .lit _ (.str s) => L.str s
  | .lit _ (.bool b) => if b then "True" else "False"
  | .lit _ .none => "None"
  | .lit _ (.enum s) => "'" ++ s ++ "'"
  | .lit _ (.rule _) => "<invalid>"           -- not produced by `litSrc`
  | .lit _ (.other _) => "<invalid>"          -- not produced by `litSrc`
  | .rule pfx toks => pfx ++ "Rule" ++ "." ++ "create" ++ "('" ++ L.rule toks ++ "')"
  | .invalid => "<invalid>"

mutual
/-- the text of a constructor-call tree -/
def render (L : Leaf) : Src → String
  | .atom a => renderAtom L a
  | .node k kids =>
    let ts := renderList L kids
    match k with
    | .list => "[" ++ ", ".intercalate ts ++ "]"
    | .array pfx => pfx ++ "array" ++ "([" ++ ", ".intercalate ts ++ "])"
    | .dict keys => "{" ++ ", ".intercalate (List.zipWith (fun k t => L.str k ++ ": " ++ t) keys ts) ++ "}"
    | .call pfx cls kws => pfx ++ cls ++ "(" ++ ", ".intercalate ((kws.zip ts).map argText) ++ ")"
def renderList (L : Leaf) : List Src → List String
  | [] => []
  | s :: ss => render L s :: renderList L ss
end

/-- `repr(x)` as text -/
def reprText (L : Leaf) (env : Env) (v : Val) : String := render L (asConstructor env v)

/-- `PythonExporter.encapsulate`: the import statement, then a class that builds the engine in its constructor
    (`ident` = the engine's name as a Pascal-case identifier) or a function `create()` that returns the object
    (`qual` = its qualified class name); `text` = `repr(instance)` -/
def encapsulate (al : String) (isEngine : Bool) (ident qual text : String) : String :=
  importStatement al ++ "\n\n" ++
    (if isEngine then "class " ++ ident ++ ":\n    def __init__(self) -> None:\n        self.engine = " ++ text ++ "\n"
     else "def create() -> " ++ qual ++ ":\n    return " ++ text ++ "\n")

/-- `PythonExporter.to_string`: the wrapped or the plain representation, through `black` when `formatted` -/
def exportText (encapsulated formatted : Bool) (fmt : String → Py.M String) (wrapped text : String) : Py.M String :=
  let code := if encapsulated then wrapped else text
  if formatted then fmt code else .ok code

end Op.PyRepr
