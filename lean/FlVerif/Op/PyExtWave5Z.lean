import FlVerif.Base.PySet
import FlVerif.Spec.FloatLit
import FlVerif.Op.PyExtFunction

/-! # Externals of the translated `Function.format_infix` and of the renderings of `Function.Node` (term.py)

`format_infix` has exactly two externals, both calls of `re.sub`; what they mean is written here as list functions on
the characters of the text, independently of the hand-written model `Op.formatInfix` (the tie theorem
`C17.code_formatInfix` proves that the translated function with these two meanings *is* that model).

(a) `regex = "|".join(re.escape(o) for o in L)` followed by `re.sub(rf"({regex})", r" \1 ", text)`.  The pattern is an
    alternation of escaped literals in the order of the list `L` (kept as that list: the local `regex`).  `re.sub` scans
    the text from left to right; at a position it tries the alternatives *in the order in which they are written* and takes
    the first that matches there (`firstLit`: not the longest); the match is replaced by itself between two blanks and the
    scan goes on behind the match (matches do not overlap); where nothing matches the character is copied.
    Domain: no alternative is the empty string (an empty alternative would match the empty string at every position);
    `firstLit` ignores such an alternative, and the tie theorems assume that there is none (`Table.SymbolsPlain`).

(b) `re.sub(r"\s+", " ", text).strip()`: every maximal run of white space becomes one blank (`collapseRuns`), then the
    white space at both ends goes (`strip`).  `\s` for a `str` pattern and `str.strip()` use the same 29 code points as
    `str.isspace` (`Lang.isSpace`; checked with CPython 3.12 over all 1 114 112 code points). -/

namespace Py.W5Z
open Lang

/-- the first alternative, in the order of the list, that the text begins with -/
def firstLit (alts : List (List Char)) (text : List Char) : Option (List Char) :=
  alts.find? (fun o => !o.isEmpty && o.isPrefixOf text)

/-- (a) on characters; `skip` = characters of a match that are still to be passed over -/
def subAltC (alts : List (List Char)) : List Char → Nat → List Char
  | [], _ => []
  | _ :: cs, skip + 1 => subAltC alts cs skip
  | c :: cs, 0 =>
    match firstLit alts (c :: cs) with
    | some o => ' ' :: o ++ ' ' :: subAltC alts cs (o.length - 1)
    | none => c :: subAltC alts cs 0

/-- (a) `re.sub(rf"({regex})", r" \1 ", text)` for `regex = "|".join(re.escape(o) for o in alts)` -/
def subAlt (alts : List String) (text : String) : String :=
  String.ofList (subAltC (alts.map String.toList) text.toList 0)

/-- `re.sub(r"\s+", " ", ·)` on characters; `inRun` = the previous character was white space -/
def collapseRuns : Bool → List Char → List Char
  | _, [] => []
  | inRun, c :: cs =>
    if isSpace c then (if inRun then collapseRuns true cs else ' ' :: collapseRuns true cs)
    else c :: collapseRuns false cs

/-- `str.rstrip()`: a white-space character goes when everything behind it has gone -/
def rstrip : List Char → List Char
  | [] => []
  | c :: cs => if isSpace c && (rstrip cs).isEmpty then [] else c :: rstrip cs

/-- `str.strip()` -/
def strip (l : List Char) : List Char := rstrip (l.dropWhile isSpace)

/-- (b) `re.sub(r"\s+", " ", text).strip()` -/
def collapseStrip (text : String) : String := String.ofList (strip (collapseRuns false text.toList))

end Py.W5Z
