import FlVerif.Op.FormatInfix
import FlVerif.Op.ParsePostfix
import FlVerif.Spec.ExprSem

/-! # `Function.create(name, formula, engine)` and `Function.membership(x)` (term.py)

`load`: `root = parse(formula)`.  `membership`: the variable map is built from the engine's variables (name ↦ current
value, in order, later names overriding earlier ones), then `x`, then the term's own variables; it raises `ValueError`
when the term's variables contain `x`, when the engine has a variable named `x`, or when a variable of the term has
the name of an engine variable. -/

namespace Op
open Lang

/-- `dict` lookup after successive assignments: the last binding wins -/
def lookupLast {β : Type} (kvs : List (String × β)) (k : String) : Option β :=
  (kvs.reverse.find? (·.1 == k)).map (·.2)

def membershipEnv {β : Type} (fvars evars : List (String × β)) (x : β) : Except ErrKind (List (String × β)) :=
  if fvars.any (·.1 == "x") then .error .value
  else if evars.any (·.1 == "x") then .error .value
  else
    let ev := evars ++ [("x", x)]
    if fvars.any (fun kv => ev.any (·.1 == kv.1)) then .error .value
    else .ok (ev ++ fvars)

section
variable {α : Type} [Field α] [LinearOrder α] [IsStrictOrderedRing α] [FloorRing α]

def valSem (F : Fn α) (env : String → Option (X α)) : Sem (Val α) :=
  { leaf := semLeaf env, ap0 := sem0 F, ap1 := sem1 F, ap2 := sem2 F }

/-- `Function.create(...)` then `.membership(x)`: the loaded tree and the value
    (`none` in the value = `ValueError` of `Node.evaluate` for a variable without substitution) -/
def functionMembership (F : Fn α) (tbl : Table) (formula : String) (fvars evars : List (String × X α)) (x : X α) :
    Except ErrKind (Expr × Val α) :=
  match parseFormula tbl (formatInfix tbl formula) with
  | .error k => .error k
  | .ok e =>
    match membershipEnv fvars evars x with
    | .error k => .error k
    | .ok env =>
      match evalTree (valSem F (lookupLast env)) e with
      | some v => .ok (e, v)
      | none => .error .value

end

/-! ## the evaluation as `Function.Node.evaluate` / `Function.evaluate` / `Function.membership` perform it, for any
    type `V` of values (tied to the source by `C17.code_nodeEvaluate`, `code_functionEvaluate`, `code_functionMembership`) -/

/-- the interpretation `Node.evaluate` works with: a leaf is the scalar of `float(token)` when the token is the text
    of a number and otherwise the value the map of variables gives its name (`none`: no map, or the name is not a
    key); the elements mean what `sem` says (`sem.leaf` is not used) -/
def nodeSem {V : Type} (sem : Sem V) (const : X Rat → V) (lv : Option (List (String × V))) : Sem V :=
  { leaf := fun s => match parseFloat s with
      | some x => some (const x)
      | none => lv.bind (fun d => lookupLast d s),
    ap0 := sem.ap0, ap1 := sem.ap1, ap2 := sem.ap2 }

/-- `Function.evaluate(variables)` of a term whose loaded tree is `root`: `RuntimeError` when it is not loaded,
    `ValueError` when a variable has no substitution -/
def evaluateOf {V : Type} (S : Sem V) (root : Option Expr) : Except ErrKind V :=
  match root with
  | none => .error .runtime
  | some e =>
    match evalTree S e with
    | some v => .ok v
    | none => .error .value

/-- `Function.membership(x)` of a term whose loaded tree is `root` (`evars`: the engine's variables, `[]` without engine) -/
def membershipOf {V : Type} (sem : Sem V) (const : X Rat → V) (root : Option Expr) (fvars evars : List (String × V)) (x : V) :
    Except ErrKind V :=
  match membershipEnv fvars evars x with
  | .error k => .error k
  | .ok env => evaluateOf (nodeSem sem const (some env)) root

end Op
