/-! # Code-shaped model of the FLD grid enumeration (`FldExporter.write_from_scope`, `Op.increment`)

Digits are stored least-significant first, i.e. the *reversed* Python list: Python's recursion starts at the last
position and moves towards position 0.  Core Lean only. -/

namespace Op.Fld

/-- one call of `Op.increment(x, [0,…], maximum)` on the reversed lists; returns the new digits and `incremented` -/
def incRev : List Nat → List Nat → List Nat × Bool
  | [], _ => ([], false)                          -- `if not x or position < 0: return False`
  | d :: ds, [] => (d :: ds, false)               -- unreachable for equal lengths
  | d :: ds, m :: ms =>
    if d < m then ((d + 1) :: ds, true)           -- `x[position] += 1`
    else
      let r := incRev ds ms                       -- `x[position] = minimum[position]; position -= 1; recurse`
      (0 :: r.1, if ds.isEmpty then false else r.2)   -- `incremented = position != 0`, overwritten by the recursion

/-- `Op.increment` on Python-ordered lists -/
def increment (x mx : List Nat) : List Nat × Bool :=
  let r := incRev x.reverse mx.reverse
  (r.1.reverse, r.2)

/-- number of grid points -/
def total : List Nat → Nat
  | [] => 1
  | m :: ms => (m + 1) * total ms

/-- the `while incremented:` loop (fuel = an upper bound on the number of rows) -/
def loop (mx : List Nat) : Nat → List Nat → List (List Nat)
  | 0, _ => []
  | fuel + 1, ds =>
    let r := incRev ds mx
    ds :: (if r.2 then loop mx fuel r.1 else [])

/-- all sample-index vectors in the order the exporter emits them (reversed digit order) -/
def gridRev (mx : List Nat) : List (List Nat) := loop mx (total mx) (mx.map (fun _ => 0))

/-- Python order: one list of sample indices per row -/
def grid (maxValues : List Nat) : List (List Nat) := (gridRev maxValues.reverse).map List.reverse

/-- rank of a digit vector in lexicographic order (last Python position = head of the reversed list = fastest) -/
def rank : List Nat → List Nat → Nat
  | d :: ds, m :: ms => d + (m + 1) * rank ds ms
  | _, _ => 0

def Valid : List Nat → List Nat → Prop
  | [], [] => True
  | d :: ds, m :: ms => d ≤ m ∧ Valid ds ms
  | _, _ => False

/-- greatest `k` with `k ^ n ≤ v` -/
def iroot (n : Nat) : Nat → Nat
  | 0 => 0
  | v + 1 => let k := iroot n v; if (k + 1) ^ n ≤ v + 1 then k + 1 else k

def isRoot (n v k : Nat) : Prop := k ^ n ≤ v ∧ v < (k + 1) ^ n

/-- `while k ** n > values: k -= 1` -/
def down (n v : Nat) : Nat → Nat → Nat
  | 0, k => k
  | f + 1, k => if k ^ n > v then down n v f (k - 1) else k
/-- `while (k + 1) ** n <= values: k += 1` -/
def up (n v : Nat) : Nat → Nat → Nat
  | 0, k => k
  | f + 1, k => if (k + 1) ^ n ≤ v then up n v f (k + 1) else k

/-- the repaired root computation: start from the floating-point guess `g = int(pow(v, 1/n))` and correct it -/
def correctedRoot (n v g : Nat) : Nat := up n v v (down n v g g)

/-- `resolution` for `ScopeOfValues.AllVariables` (n inputs) and `EachVariable` -/
def resolutionAll (n v : Nat) : Nat := max 1 (iroot n v) - 1
def resolutionEach (v : Nat) : Nat := v - 1

/-- `max_values`: `resolution` for active variables, 0 for inactive ones -/
def maxValues (active : List Bool) (resolution : Nat) : List Nat := active.map (fun a => if a then resolution else 0)

end Op.Fld

namespace Op.Fld

/-- `line.strip()` -/
def strip (l : String) : String := l.trimAscii.toString
/-- `not (not line or line[0] == '#')` -/
def keep (t : String) : Bool := !(t.isEmpty || t.front == '#')

/-- `write_from_reader`: the loop over `enumerate(reader.readlines())` with `continue` for skipped, blank and
    comment lines; returns the kept (stripped) lines -/
def readerLoop (skip : Nat) : Nat → List String → List String
  | _, [] => []
  | i, l :: ls =>
    if i < skip then readerLoop skip (i + 1) ls
    else if keep (strip l) then strip l :: readerLoop skip (i + 1) ls
    else readerLoop skip (i + 1) ls

def readerRows (skip : Nat) (lines : List String) : List String := readerLoop skip 0 lines

/-- `FldExporter.header`: names of the selected variables -/
def header (inputs outputs : List String) (inputValues outputValues : Bool) : List String :=
  (if inputValues then inputs else []) ++ (if outputValues then outputs else [])

end Op.Fld

namespace Op.Fld

/-- what `FldExporter.write` uses of NumPy and of the engine (`E` = the engine with its state, `A` = arrays):
    `np.atleast_2d`, `input_values.shape[1]`, the column `input_values[:, index]`, `engine.restart()`,
    `variable.value = column` for the input variable of a name, `engine.process()`, `engine.input_values`,
    `engine.output_values`, the empty block `[]`, `np.hstack` -/
structure WriteOps (E A : Type) where
  atleast2d : A → A
  ncols : A → Nat
  col : A → Nat → A
  restart : E → E
  setInput : E → String → A → E
  process : E → E
  inputBlock : E → A
  outputBlock : E → A
  emptyBlock : A
  hstack : List A → A

/-- `for index, variable in enumerate(engine.input_variables): variable.value = input_values[:, index]` -/
def setInputs {E A : Type} (ops : WriteOps E A) (iv : A) : Nat → List String → E → E
  | _, [], e => e
  | i, v :: vs, e => setInputs ops iv (i + 1) vs (ops.setInput e v (ops.col iv i))

/-- the blocks that are stacked side by side: the inputs and / or the outputs as selected, one empty block if neither -/
def writeBlocks {E A : Type} (ops : WriteOps E A) (inputValues outputValues : Bool) (e : E) : List A :=
  let v := (if inputValues then [ops.inputBlock e] else []) ++ (if outputValues then [ops.outputBlock e] else [])
  if v.isEmpty then [ops.emptyBlock] else v

/-- `FldExporter.write` as far as it is control flow: `none` = `ValueError` (fewer columns than input variables);
    otherwise the engine after restart, assignment of the columns in order and processing, the array handed to
    `np.savetxt`, and the header text (`""` when headers are off) -/
def write {E A : Type} (ops : WriteOps E A) (inputs outputs : List String) (inputValues outputValues headers : Bool)
    (sep : String) (e0 : E) (iv0 : A) : Option (E × A × String) :=
  let iv := ops.atleast2d iv0
  if ops.ncols iv < inputs.length then none
  else
    let e := ops.process (setInputs ops iv 0 inputs (ops.restart e0))
    some (e, ops.hstack (writeBlocks ops inputValues outputValues e),
      if headers then sep.intercalate (header inputs outputs inputValues outputValues) else "")

end Op.Fld
