import FlVerif.Base.Py

/-! # Run-time vocabulary of the translated Python code: lists with an integer index and index assignment

Primitives the translator `fv/pylean.py` emits for `l[i]` with an `int` index, `l[i] = e` and `l[i] += e`.
Python counts a negative index from the end; an index outside `-len(l) ≤ i < len(l)` is an `IndexError`.
Core Lean only. -/

namespace Py

/-- the position a Python index denotes in a list of length `n` -/
def normIndex (n : Nat) (i : Int) : Option Nat :=
  if 0 ≤ i then (if i.toNat < n then some i.toNat else none)
  else (if -i ≤ (n : Int) then some (n - (-i).toNat) else none)

/-- `l[i]` for an integer index -/
def nthInt {α : Type} (l : List α) (i : Int) : M α :=
  match normIndex l.length i with
  | some k => nth l k
  | none => .error .lookup

/-- `l[i] = v` for a natural index: the updated list -/
def setNat {α : Type} (l : List α) (i : Nat) (v : α) : M (List α) :=
  if i < l.length then .ok (l.set i v) else .error .lookup

/-- `l[i] = v` for an integer index: the updated list -/
def setInt {α : Type} (l : List α) (i : Int) (v : α) : M (List α) :=
  match normIndex l.length i with
  | some k => setNat l k v
  | none => .error .lookup

theorem normIndex_natCast (n k : Nat) (h : k < n) : normIndex n (k : Int) = some k := by
  simp [normIndex, h]

theorem nthInt_natCast {α : Type} (l : List α) (k : Nat) (h : k < l.length) : nthInt l (k : Int) = .ok l[k] := by
  simp [nthInt, normIndex_natCast _ _ h, nth, List.getElem?_eq_getElem h]

theorem setInt_natCast {α : Type} (l : List α) (k : Nat) (v : α) (h : k < l.length) :
    setInt l (k : Int) v = .ok (l.set k v) := by
  simp [setInt, normIndex_natCast _ _ h, setNat, h]

end Py
