import FlVerif.Base.Py

/-! # A Python `set` that is only built and measured (`fv/pylean.py`: set comprehensions)

The translated code keeps a set as the list of its distinct elements in the order in which they were added.  This is
faithful for `len`, the truth value and `in`; the iteration order of a Python set is not kept, so anything that depends
on it is outside (an external of a profile must name it).  Core Lean only. -/

namespace Py

/-- `s.add(x)`: a value that is already an element changes nothing -/
def setAdd {α : Type} [BEq α] (s : List α) (x : α) : List α := if s.contains x then s else s ++ [x]

/-- `set(l)` / `{e for x in …}` from the list of the values in the order they are produced -/
def distinct {α : Type} [BEq α] (l : List α) : List α := l.foldl setAdd []

end Py
