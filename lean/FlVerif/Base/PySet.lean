import FlVerif.Base.Py

/-! # A Python `set` that is only built and measured (`fv/pylean.py`: set comprehensions)

The translated code keeps a set as the list of its distinct elements in the order in which they were added.  This is
faithful for `len`, the truth value and `in`; the iteration order of a Python set is not kept, so anything that depends
on it is outside (an external of a profile must name it).  Core Lean only. -/

namespace Py

/-- `s.add(x)`: a value that is already an element changes nothing -/
def setAdd {α : Type} [BEq α] (s : List α) (x : α) : List α := if s.contains x then s else s ++ [x]

/-- `set(l)` / `{e for x in …}` from the list of the values in the order they are produced -/
def distinct {α : Type} [BEq α] (l : List α) : List α := l.foldl setAdd []

end Py

/-! # Sets and `sorted` on strings (`fv/pylean.py`)

A Python `set` is kept as a list without repetitions.  The order of that list means nothing (Python does not define
the iteration order of a set): the translator lets a set be consumed only by operations whose result does not depend
on it (`union`, difference, `sorted`).  Core Lean only. -/

namespace Py

/-- a Python `set`: a list without repetitions, in no particular order -/
abbrev SetOf (α : Type) := List α

/-- `set(l)` -/
def SetOf.ofList {α : Type} [BEq α] : List α → SetOf α
  | [] => []
  | x :: xs => if xs.contains x then SetOf.ofList xs else x :: SetOf.ofList xs

/-- `s.union(t)` -/
def SetOf.union {α : Type} [BEq α] (s : SetOf α) (t : List α) : SetOf α :=
  s ++ (SetOf.ofList t).filter (fun x => !s.contains x)

/-- `s - t` -/
def SetOf.diff {α : Type} [BEq α] (s : SetOf α) (t : List α) : SetOf α := s.filter (fun x => !t.contains x)

/-- insertion into a descending list (behind the elements equal to `s`: equal strings cannot be told apart) -/
def insertDesc (s : String) : List String → List String
  | [] => [s]
  | x :: xs => if x < s then s :: x :: xs else x :: insertDesc s xs

/-- `sorted(l, reverse=True)` on strings (compared by code points, lexicographically, as in Python) -/
def sortedDesc (l : List String) : List String := l.foldr insertDesc []

/-- insertion into an ascending list (before the elements equal to `s`) -/
def insertAsc (s : String) : List String → List String
  | [] => [s]
  | x :: xs => if x < s then x :: insertAsc s xs else s :: x :: xs

/-- `sorted(l)` on strings -/
def sortedAsc (l : List String) : List String := l.foldr insertAsc []

end Py
