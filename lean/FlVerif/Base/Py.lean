/-! # Run-time vocabulary of the translated Python code (`fv/pylean.py`, DESIGN.md section 0.7)

The translator compiles a subset of Python to Lean functions in the exception monad `Py.M`.  This file holds the
*primitives* whose meaning is fixed once and for all: the exception classes that the translated code can raise and
the partial list operations of Python (`l[-1]`, `l.pop()`, `l[i]`).  Core Lean only. -/

namespace Py

/-- Exception classes.  `internal` = `TypeError` / `AttributeError` (what the properties call an internal error);
    `fuel` is not a Python exception: it is the exhaustion of the bound of a translated `while` loop;
    `alias` is not one either: an object was reached through a local that the profile declares an alias of the last
    element of a list (`alias_last`) after the list had been changed in another way (see `Alias`). -/
inductive Err where
  | syntax | value | lookup | runtime | internal | fuel | alias
deriving DecidableEq, Repr

abbrev M := Except Err

/-- `l[-1]` of a list that grows at its end -/
def last {α : Type} (l : List α) : M α :=
  match l.getLast? with
  | some x => .ok x
  | none => .error .lookup

/-- `l.pop()` of a list that grows at its end: the element and the remaining list -/
def popLast {α : Type} (l : List α) : M (α × List α) :=
  match l.getLast? with
  | some x => .ok (x, l.dropLast)
  | none => .error .lookup

/-- `l[-1]` of a list that is used as a stack only (`append`, `pop()`, `[-1]`, `len`, truth value): the
    translator keeps such a list reversed (top at the head) -/
def top {α : Type} (l : List α) : M α :=
  match l with
  | x :: _ => .ok x
  | [] => .error .lookup

/-- `l.pop()` of a list that is used as a stack only -/
def popTop {α : Type} (l : List α) : M (α × List α) :=
  match l with
  | x :: r => .ok (x, r)
  | [] => .error .lookup

/-- `l[i]` for a natural index -/
def nth {α : Type} (l : List α) (i : Nat) : M α :=
  match l[i]? with
  | some x => .ok x
  | none => .error .lookup

/-- value of an optional that the code dereferences (`None.attr` is an `AttributeError`) -/
def deref {α : Type} (o : Option α) : M α :=
  match o with
  | some x => .ok x
  | none => .error .internal

/-- `list(enumerate(l))` -/
def enumerate {α : Type} (l : List α) : List (Nat × α) := l.zipIdx.map (fun p => (p.2, p.1))

/-! ## `alias_last`: a local that is a second reference to the object a list was last extended with

The code binds `x` only by `x = None` or by the pair `x = C(...); l.append(x)` and afterwards reads and writes
attributes of `x`.  The translated code keeps the object in the list only; `x` becomes a three-valued mark. -/

/-- what the local refers to: nothing (`None`), the last element of the list, or an object that need not be the
    last element of the list any more (the list was popped / extended / rebound since the pair was executed) -/
inductive Alias where
  | none | live | stale
deriving DecidableEq, Repr

instance : Inhabited Alias := ⟨.none⟩

/-- any other change of the list: a reference to an object stays one, but it no longer tracks the last element -/
def Alias.detach : Alias → Alias
  | .none => .none
  | _ => .stale

/-- the object behind `x` in `x.attr` (list that grows at its end); `None.attr` is an `AttributeError` -/
def aliasLast {α : Type} (a : Alias) (l : List α) : M α :=
  match a with
  | .none => .error .internal
  | .stale => .error .alias
  | .live => last l

/-- the same for a list kept as a stack (top at the head) -/
def aliasTop {α : Type} (a : Alias) (l : List α) : M α :=
  match a with
  | .none => .error .internal
  | .stale => .error .alias
  | .live => top l

/-- `x.attr = …` through a live alias: replace the last element -/
def setLast {α : Type} (l : List α) (v : α) : List α := l.dropLast ++ [v]

/-- the same for a list kept as a stack -/
def setTop {α : Type} (l : List α) (v : α) : List α := v :: l.tail

@[simp] theorem top_cons {α : Type} (x : α) (l : List α) : top (x :: l) = .ok x := rfl
@[simp] theorem top_nil {α : Type} : top ([] : List α) = .error .lookup := rfl
@[simp] theorem popTop_cons {α : Type} (x : α) (l : List α) : popTop (x :: l) = .ok (x, l) := rfl
@[simp] theorem popTop_nil {α : Type} : popTop ([] : List α) = .error .lookup := rfl
@[simp] theorem deref_some {α : Type} (x : α) : deref (some x) = .ok x := rfl
@[simp] theorem deref_none {α : Type} : deref (none : Option α) = .error .internal := rfl

end Py
