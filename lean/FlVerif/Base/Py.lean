/-! # Run-time vocabulary of the translated Python code (`fv/pylean.py`, DESIGN.md section 0.7)

The translator compiles a subset of Python to Lean functions in the exception monad `Py.M`.  This file holds the
*primitives* whose meaning is fixed once and for all: the exception classes that the translated code can raise and
the partial list operations of Python (`l[-1]`, `l.pop()`, `l[i]`).  Core Lean only. -/

namespace Py

/-- Exception classes.  `internal` = `TypeError` / `AttributeError` (what the properties call an internal error);
    `fuel` is not a Python exception: it is the exhaustion of the bound of a translated `while` loop. -/
inductive Err where
  | syntax | value | lookup | runtime | internal | fuel
deriving DecidableEq, Repr

abbrev M := Except Err

/-- `l[-1]` of a list that grows at its end -/
def last {α : Type} (l : List α) : M α :=
  match l.getLast? with
  | some x => .ok x
  | none => .error .lookup

/-- `l.pop()` of a list that grows at its end: the element and the remaining list -/
def popLast {α : Type} (l : List α) : M (α × List α) :=
  match l.getLast? with
  | some x => .ok (x, l.dropLast)
  | none => .error .lookup

/-- `l[-1]` of a list that is used as a stack only (`append`, `pop()`, `[-1]`, `len`, truth value): the
    translator keeps such a list reversed (top at the head) -/
def top {α : Type} (l : List α) : M α :=
  match l with
  | x :: _ => .ok x
  | [] => .error .lookup

/-- `l.pop()` of a list that is used as a stack only -/
def popTop {α : Type} (l : List α) : M (α × List α) :=
  match l with
  | x :: r => .ok (x, r)
  | [] => .error .lookup

/-- `l[i]` for a natural index -/
def nth {α : Type} (l : List α) (i : Nat) : M α :=
  match l[i]? with
  | some x => .ok x
  | none => .error .lookup

/-- value of an optional that the code dereferences (`None.attr` is an `AttributeError`) -/
def deref {α : Type} (o : Option α) : M α :=
  match o with
  | some x => .ok x
  | none => .error .internal

/-- `list(enumerate(l))` -/
def enumerate {α : Type} (l : List α) : List (Nat × α) := l.zipIdx.map (fun p => (p.2, p.1))

@[simp] theorem top_cons {α : Type} (x : α) (l : List α) : top (x :: l) = .ok x := rfl
@[simp] theorem top_nil {α : Type} : top ([] : List α) = .error .lookup := rfl
@[simp] theorem popTop_cons {α : Type} (x : α) (l : List α) : popTop (x :: l) = .ok (x, l) := rfl
@[simp] theorem popTop_nil {α : Type} : popTop ([] : List α) = .error .lookup := rfl
@[simp] theorem deref_some {α : Type} (x : α) : deref (some x) = .ok x := rfl
@[simp] theorem deref_none {α : Type} : deref (none : Option α) = .error .internal := rfl

end Py
