import Mathlib.Algebra.Order.Field.Rat
import Mathlib.Algebra.Order.Floor.Ring
import Mathlib.Data.Rat.Floor
import Mathlib.Tactic.Ring
import Mathlib.Tactic.Linarith
import Mathlib.Tactic.NormNum
import Mathlib.Tactic.Positivity

/-! Decimal text of numbers (C14, C15).

`Num` is a number as the library holds it (a float64 is an exact rational, a signed zero, NaN or ±inf);
`Dec` is what `Op.str` prints at `d` decimals (`f"{x:.{d}f}"`: sign, the integer `k` of `k / 10^d`, or
`nan` / `inf` / `-inf`) and what `to_float` reads back.  `fmt d` is Python's `format`: round-half-even of the
*exact* value; `val d` is the exact value of the printed decimal.  Trusted, not modelled: that CPython's
`float(text)` returns the double nearest to `val d` and that this double prints as the same text again. -/

/-- a number held by the library -/
inductive Num where
  | nan | pinf | ninf
  | nzero            -- IEEE −0.0 (prints as `-0.000`)
  | fin (q : ℚ)
deriving DecidableEq, Repr, Inhabited

/-- a printed number: `num neg k` is the text of `(-1)^neg · k / 10^d` -/
inductive Dec where
  | nan | pinf | ninf
  | num (neg : Bool) (k : ℕ)
deriving DecidableEq, Repr, Inhabited

namespace Dec

/-- round half to even of an exact rational -/
def roundHE (x : ℚ) : ℤ :=
  let f := ⌊x⌋
  let r := x - f
  if r < 1/2 then f else if 1/2 < r then f + 1 else if f % 2 = 0 then f else f + 1

theorem roundHE_int (k : ℤ) : roundHE (k : ℚ) = k := by
  unfold roundHE
  simp only [Int.floor_intCast, sub_self]
  norm_num

def roundNat (x : ℚ) : ℕ := (roundHE x).toNat

theorem roundNat_nat (k : ℕ) : roundNat (k : ℚ) = k := by
  unfold roundNat
  have := roundHE_int (k : ℤ)
  simp only [Int.cast_natCast] at this
  rw [this]; simp

def scale (d : ℕ) : ℚ := 10 ^ d

theorem scale_pos (d : ℕ) : 0 < scale d := by unfold scale; positivity

/-- `format(x, f".{d}f")` -/
def fmt (d : ℕ) : Num → Dec
  | .nan => .nan
  | .pinf => .pinf
  | .ninf => .ninf
  | .nzero => .num true 0
  | .fin q => if q < 0 then .num true (roundNat (-q * scale d)) else .num false (roundNat (q * scale d))

/-- exact value of a printed number (what `to_float` reads, up to the nearest double) -/
def val (d : ℕ) : Dec → Num
  | .nan => .nan
  | .pinf => .pinf
  | .ninf => .ninf
  | .num neg k =>
    if k = 0 then (if neg then .nzero else .fin 0)
    else .fin ((if neg then -(k : ℚ) else (k : ℚ)) / scale d)

/-- printing what was read back prints the same text -/
theorem fmt_val (d : ℕ) (k : Dec) : fmt d (val d k) = k := by
  cases k with
  | nan => rfl
  | pinf => rfl
  | ninf => rfl
  | num neg k =>
    by_cases hk : k = 0
    · subst hk
      cases neg
      · simp [val, fmt, roundNat, roundHE]
      · simp [val, fmt]
    · have hkq : (0 : ℚ) < (k : ℚ) := by exact_mod_cast Nat.pos_of_ne_zero hk
      have hs := scale_pos d
      cases neg
      · have h1 : ¬ ((k : ℚ) / scale d < 0) := not_lt.2 (div_nonneg hkq.le hs.le)
        simp only [val, hk, if_false, Bool.false_eq_true, fmt, h1]
        rw [div_mul_cancel₀ _ hs.ne', roundNat_nat]
      · have h1 : (-(k : ℚ) / scale d < 0) := div_neg_of_neg_of_pos (neg_lt_zero.2 hkq) hs
        simp only [val, hk, if_false, if_true, fmt, h1]
        rw [← neg_div, neg_neg, div_mul_cancel₀ _ hs.ne', roundNat_nat]

/-- the number after one print / read cycle -/
def rnd (d : ℕ) (x : Num) : Num := val d (fmt d x)

theorem fmt_rnd (d : ℕ) (x : Num) : fmt d (rnd d x) = fmt d x := fmt_val d _

theorem rnd_rnd (d : ℕ) (x : Num) : rnd d (rnd d x) = rnd d x := by
  unfold rnd; rw [fmt_val]

/-- a number is on the `d`-decimal grid when printing and reading returns it -/
def OnGrid (d : ℕ) (x : Num) : Prop := rnd d x = x

/-- `Op.is_close(x, 1.0)` = `np.isclose(x, 1.0, atol, rtol, equal_nan=True)` with `tol = atol + rtol·1`;
    NaN and ±inf are not close to 1 -/
def isClose1 (tol : ℚ) : Num → Bool
  | .fin q => decide (|q - 1| ≤ tol)
  | .nzero => decide ((1 : ℚ) ≤ tol)
  | _ => false

def one : Num := .fin 1

theorem isClose1_one (tol : ℚ) (h : 0 ≤ tol) : isClose1 tol one = true := by
  simp [isClose1, one, h]

theorem rnd_one (d : ℕ) : rnd d one = one := by
  have hs := scale_pos d
  have h10 : (1 : ℚ) * scale d = ((10 ^ d : ℕ) : ℚ) := by simp [scale]
  have hne : (10 ^ d : ℕ) ≠ 0 := by positivity
  simp only [rnd, one, fmt, show ¬ ((1 : ℚ) < 0) by norm_num, if_false, h10, roundNat_nat, val, hne]
  congr 1
  simp only [Bool.false_eq_true, if_false]
  rw [← h10]; field_simp

/-! ### text (driver only; the digit-level rendering is outside the theorems) -/

def padLeft (n : ℕ) (s : String) : String := String.ofList (List.replicate (n - s.length) '0') ++ s

def render (d : ℕ) : Dec → String
  | .nan => "nan"
  | .pinf => "inf"
  | .ninf => "-inf"
  | .num neg k =>
    let p := 10 ^ d
    (if neg then "-" else "") ++ toString (k / p) ++ (if d = 0 then "" else "." ++ padLeft d (toString (k % p)))

def digitsVal (cs : List Char) : Option ℕ :=
  if cs.all Char.isDigit then some (cs.foldl (fun a c => 10 * a + (c.toNat - '0'.toNat)) 0) else none

/-- the part of Python's `float(text)` grammar the harness uses: `[+-]` digits `[.digits]` `[e[+-]digits]`,
    `nan`, `inf`, `infinity` (any case) -/
def parse (s : String) : Option Num :=
  let cs := s.toList.map Char.toLower
  let (neg, body) := match cs with
    | '-' :: r => (true, r)
    | '+' :: r => (false, r)
    | r => (false, r)
  if body = "nan".toList then some .nan
  else if body = "inf".toList || body = "infinity".toList then some (if neg then .ninf else .pinf)
  else
    let (mant, ex) := match body.span (· ≠ 'e') with
      | (m, []) => (m, some (0 : ℤ))
      | (m, _ :: e) =>
        let (eneg, ed) := match e with
          | '-' :: r => (true, r)
          | '+' :: r => (false, r)
          | r => (false, r)
        (m, if ed.isEmpty then none else (digitsVal ed).map (fun n => if eneg then -(n : ℤ) else (n : ℤ)))
    let (ip, fp) := match mant.span (· ≠ '.') with
      | (i, []) => (i, [])
      | (i, _ :: f) => (i, f)
    if ip.isEmpty && fp.isEmpty then none
    else do
      let e ← ex
      let i ← digitsVal ip
      let f ← digitsVal fp
      let m : ℚ := (i : ℚ) + (f : ℚ) / (10 : ℚ) ^ fp.length
      let q : ℚ := if e ≥ 0 then m * (10 : ℚ) ^ e.toNat else m / (10 : ℚ) ^ (-e).toNat
      if q = 0 then some (if neg then .nzero else .fin 0) else some (.fin (if neg then -q else q))

end Dec
