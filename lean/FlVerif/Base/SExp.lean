import FlVerif.Base.X

/-! S-expression line protocol of the driver: atoms and lists; numbers are exact rationals `n/d` or `n`,
    `nan`, `inf`, `-inf`. -/

inductive SExp where
  | atom (s : String)
  | list (l : List SExp)
deriving Repr, Inhabited, BEq

namespace SExp

partial def toStr : SExp → String
  | atom s => s
  | list l => "(" ++ " ".intercalate (l.map toStr) ++ ")"

instance : ToString SExp := ⟨toStr⟩

/-- tokenizer: parentheses are tokens, everything else splits on whitespace; a token starting with `"`
    extends to the closing `"` (no escapes needed by the protocol: the harness hex-encodes free text) -/
def tokenize (s : String) : List String := Id.run do
  let mut toks : Array String := #[]
  let mut cur : String := ""
  for c in s.toList do
    if c == '(' || c == ')' then
      if cur != "" then toks := toks.push cur; cur := ""
      toks := toks.push (String.singleton c)
    else if c == ' ' || c == '\t' || c == '\n' || c == '\r' then
      if cur != "" then toks := toks.push cur; cur := ""
    else cur := cur.push c
  if cur != "" then toks := toks.push cur
  return toks.toList

/-- parse one expression from a token list (fuel = number of tokens) -/
def parseAux : Nat → List String → List (List SExp) → Option SExp
  | 0, _, _ => none
  | _, [], _ => none
  | n+1, t :: ts, stack =>
    if t == "(" then parseAux n ts ([] :: stack)
    else if t == ")" then
      match stack with
      | [] => none
      | top :: rest =>
        let e := list top.reverse
        match rest with
        | [] => if ts.isEmpty then some e else none
        | r :: rs => parseAux n ts ((e :: r) :: rs)
    else
      match stack with
      | [] => if ts.isEmpty then some (atom t) else none
      | r :: rs => parseAux n ts ((atom t :: r) :: rs)

def parse (s : String) : Option SExp :=
  let ts := tokenize s
  parseAux (ts.length + 1) ts []

def parseRat (s : String) : Option Rat :=
  match s.splitOn "/" with
  | [n] => n.toInt?.map (fun (i : Int) => (i : Rat))
  | [n, d] => do
    let n ← n.toInt?
    let d ← d.toNat?
    if d = 0 then none else pure (mkRat n d)
  | _ => none

def parseX (s : String) : Option (X Rat) :=
  if s == "nan" then some .nan
  else if s == "inf" then some .pinf
  else if s == "-inf" then some .ninf
  else (parseRat s).map .fin

def ratStr (q : Rat) : String := if q.den == 1 then toString q.num else s!"{q.num}/{q.den}"

def xStr : X Rat → String
  | .nan => "nan" | .pinf => "inf" | .ninf => "-inf" | .fin q => ratStr q

def asX : SExp → Option (X Rat)
  | atom s => parseX s
  | _ => none
def asRat : SExp → Option Rat
  | atom s => parseRat s
  | _ => none
def asNat : SExp → Option Nat
  | atom s => s.toNat?
  | _ => none
def asInt : SExp → Option Int
  | atom s => s.toInt?
  | _ => none
def asAtom : SExp → Option String
  | atom s => some s
  | _ => none
def asList : SExp → Option (List SExp)
  | list l => some l
  | _ => none
def asBool : SExp → Option Bool
  | atom "true" => some true | atom "false" => some false | atom "1" => some true | atom "0" => some false
  | _ => none
def asXs (e : SExp) : Option (List (X Rat)) := do (← e.asList).mapM asX
def ofX (x : X Rat) : SExp := atom (xStr x)
def ofXs (l : List (X Rat)) : SExp := list (l.map ofX)
def ofBool (b : Bool) : SExp := atom (if b then "1" else "0")
def ofNat (n : Nat) : SExp := atom (toString n)

end SExp
