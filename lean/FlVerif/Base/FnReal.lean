import FlVerif.Base.X
import Mathlib.Analysis.SpecialFunctions.Sqrt
import Mathlib.Analysis.SpecialFunctions.Pow.Real
import Mathlib.Analysis.SpecialFunctions.Log.Basic
import Mathlib.Analysis.SpecialFunctions.Trigonometric.Basic

/-! The transcendental bundle at `ℝ`, used by every theorem about exp / log / sqrt / cos / pow. -/

noncomputable def Fn.real : Fn ℝ :=
  { exp := Real.exp, log := Real.log, sqrt := Real.sqrt, cos := Real.cos, sin := Real.sin,
    pow := fun a b => a ^ b, pi := Real.pi }
