import FlVerif.Base.Py

/-! # `all(...)` / `any(...)` over a generator whose elements can raise (`fv/pylean.py`)

Python evaluates the elements in order and stops at the first false (`all`) / true (`any`) one: an element behind it is
never evaluated, so it cannot raise.  Core Lean only. -/

namespace Py

/-- `all(p(x) for x in l)` -/
def allM {α : Type} (p : α → M Bool) : List α → M Bool
  | [] => .ok true
  | x :: rest => p x >>= fun b => if b then allM p rest else .ok false

/-- `any(p(x) for x in l)` -/
def anyM {α : Type} (p : α → M Bool) : List α → M Bool
  | [] => .ok false
  | x :: rest => p x >>= fun b => if b then .ok true else anyM p rest

end Py
