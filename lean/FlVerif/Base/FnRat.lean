import FlVerif.Base.X

/-! Fixed-point (2^-128) exp / log / sqrt / cos / sin / pow on core `Rat`, used by the driver only (oracle of
    the correspondence check).  Not used by any theorem; validated against NumPy on every run (`fv/xtable.py`). -/

namespace FnRat

def P : Nat := 128
def one : Int := (2 : Int) ^ P

/-- fixed-point value of a rational (floor) -/
def toFx (q : Rat) : Int := (q.num * one) / q.den
def ofFx (x : Int) : Rat := mkRat x (2 ^ P)
def mulFx (a b : Int) : Int := (a * b) / one
def divFx (a b : Int) : Int := (a * one) / b

/-- ln 2 and π to 128 fractional bits (floor), computed once by series -/
def atanhSeries (z : Int) (terms : Nat) : Int := Id.run do
  -- atanh z = z + z^3/3 + z^5/5 + …
  let z2 := mulFx z z
  let mut pow := z
  let mut acc : Int := 0
  for i in [0:terms] do
    acc := acc + pow / (2 * (i : Int) + 1)
    pow := mulFx pow z2
  return acc
/-- ln 2 = 2 atanh(1/3) -/
def ln2 : Int := 2 * atanhSeries (one / 3) 90
def atanSeries (z : Int) (terms : Nat) : Int := Id.run do
  let z2 := mulFx z z
  let mut pow := z
  let mut acc : Int := 0
  for i in [0:terms] do
    let t := pow / (2 * (i : Int) + 1)
    acc := if i % 2 == 0 then acc + t else acc - t
    pow := mulFx pow z2
  return acc
/-- Machin: π = 16 atan(1/5) − 4 atan(1/239) -/
def pi : Int := 16 * atanSeries (one / 5) 100 - 4 * atanSeries (one / 239) 30

def expFx (x : Int) : Int :=
  -- range reduction x = k ln2 + r, |r| ≤ ln2/2
  let k := (2 * x + ln2) / (2 * ln2)        -- round(x / ln2)
  let r := x - k * ln2
  let s := Id.run do
    let mut term := one
    let mut acc := one
    for i in [1:45] do
      term := mulFx term r / (i : Int)
      acc := acc + term
    return acc
  if k ≥ 0 then s * (2 : Int) ^ k.toNat else s / (2 : Int) ^ (-k).toNat

/-- relative precision ≈ 2^-120 over the whole float range: negative arguments through the reciprocal, so that
    tiny results (down to e^-800, below the smallest float) keep their leading digits -/
def exp (q : Rat) : Rat :=
  if q < -800 then 0
  else if q < 0 then 1 / ofFx (expFx (toFx (-q)))
  else ofFx (expFx (toFx q))

/-- natural logarithm of a positive rational -/
def log (q : Rat) : Rat :=
  -- normalise m = q / 2^k into [1, 2)
  let k : Int := (q.num.natAbs.log2 : Int) - (q.den.log2 : Int)
  let m0 : Rat := if k ≥ 0 then q / ((2 : Rat) ^ k.toNat) else q * ((2 : Rat) ^ (-k).toNat)
  let (m, k) := if m0 < 1 then (m0 * 2, k - 1) else if m0 ≥ 2 then (m0 / 2, k + 1) else (m0, k)
  let z := toFx ((m - 1) / (m + 1))
  ofFx (2 * atanhSeries z 60 + k * ln2)

def sqrt (q : Rat) : Rat :=
  if q ≤ 0 then 0 else
    let n := (q.num.toNat * 4 ^ (2 * P)) / q.den          -- q · 2^(4P)
    mkRat (Nat.sqrt n) (2 ^ (2 * P))

def cos (q : Rat) : Rat :=
  let x := toFx q
  let twoPi := 2 * pi
  let r0 := x - (x / twoPi) * twoPi          -- in [0, 2π)
  let r := if r0 > pi then r0 - twoPi else r0
  let r2 := mulFx r r
  ofFx <| Id.run do
    let mut term := one
    let mut acc := one
    for i in [1:40] do
      term := - (mulFx term r2) / ((2 * (i : Int) - 1) * (2 * (i : Int)))
      acc := acc + term
    return acc

def sin (q : Rat) : Rat := cos (q - ofFx pi / 2)

/-- a ^ b for a ≥ 0 -/
def pow (a b : Rat) : Rat :=
  if a = 0 then (if b = 0 then 1 else 0) else exp (b * log a)

end FnRat


/-- the oracle bundle used by the driver at `α := ℚ` -/
def Fn.rat : Fn Rat :=
  { exp := FnRat.exp, log := FnRat.log, sqrt := FnRat.sqrt, cos := FnRat.cos, sin := FnRat.sin,
    pow := FnRat.pow, pi := FnRat.ofFx FnRat.pi }
