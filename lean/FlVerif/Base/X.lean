import Mathlib.Algebra.Order.Field.Basic
import Mathlib.Algebra.Order.Field.Rat

/-! # `X α`: IEEE-754 / NumPy special-value algebra

Semantics of the NumPy expressions traced from `fuzzylite` (Tie A) and number
domain of the executable models (Tie B).  `fin` is closed under the field
operations: no signed zero, no overflow / underflow, no rounding.  The operation
tables are validated against NumPy on every run (`fv/xtable.py`). -/

inductive X (α : Type) where
  | nan | ninf | pinf | fin (a : α)
deriving DecidableEq, Repr

/-- transcendental functions enter through an explicit bundle (`Fn.real` in
    proofs, a fixed-point rational oracle `Fn.rat` in the driver) -/
structure Fn (α : Type) where
  exp : α → α
  log : α → α
  sqrt : α → α
  cos : α → α
  sin : α → α
  pow : α → α → α
  pi : α

namespace X
variable {α : Type} [Field α] [LinearOrder α] [IsStrictOrderedRing α]

def isnan : X α → Bool | nan => true | _ => false
def isfinite : X α → Bool | fin _ => true | _ => false
def isinf : X α → Bool | pinf => true | ninf => true | _ => false

def neg : X α → X α
  | nan => nan | ninf => pinf | pinf => ninf | fin a => fin (-a)

def add : X α → X α → X α
  | nan, _ | _, nan => nan
  | pinf, ninf | ninf, pinf => nan
  | pinf, _ | _, pinf => pinf
  | ninf, _ | _, ninf => ninf
  | fin a, fin b => fin (a + b)

def sub (a b : X α) : X α := add a (neg b)

/-- `±inf × a` for a finite `a` -/
def mulInf (pos : Bool) (a : α) : X α :=
  if 0 < a then (if pos then pinf else ninf) else if a < 0 then (if pos then ninf else pinf) else nan

def mul : X α → X α → X α
  | nan, _ | _, nan => nan
  | fin a, fin b => fin (a * b)
  | fin a, pinf | pinf, fin a => mulInf true a
  | fin a, ninf | ninf, fin a => mulInf false a
  | pinf, pinf | ninf, ninf => pinf
  | pinf, ninf | ninf, pinf => ninf

/-- NumPy float division (errstate ignored): `x/0 = ±inf`, `0/0 = nan` -/
def div : X α → X α → X α
  | nan, _ | _, nan => nan
  | fin a, fin b => if b = 0 then mulInf true a else fin (a / b)
  | fin _, pinf | fin _, ninf => fin 0
  | pinf, fin b => if 0 ≤ b then pinf else ninf
  | ninf, fin b => if 0 ≤ b then ninf else pinf
  | _, _ => nan

def lt : X α → X α → Bool
  | nan, _ | _, nan => false
  | ninf, ninf => false | ninf, _ => true
  | pinf, _ => false
  | fin _, ninf => false | fin _, pinf => true
  | fin a, fin b => decide (a < b)

def le : X α → X α → Bool
  | nan, _ | _, nan => false
  | ninf, _ => true
  | _, pinf => true
  | pinf, _ => false
  | fin _, ninf => false
  | fin a, fin b => decide (a ≤ b)

def eq : X α → X α → Bool
  | nan, _ | _, nan => false
  | ninf, ninf => true | pinf, pinf => true
  | fin a, fin b => decide (a = b)
  | _, _ => false

def ne (a b : X α) : Bool := !(eq a b)

/-- `np.minimum` / `np.maximum`: NaN-propagating -/
def npmin (a b : X α) : X α := if isnan a || isnan b then nan else if le a b then a else b
def npmax (a b : X α) : X α := if isnan a || isnan b then nan else if le a b then b else a

/-- Python builtin `min(a, b)`: `b if b < a else a` -/
def pymin (a b : X α) : X α := if lt b a then b else a
/-- Python builtin `max(a, b)`: `b if b > a else a` -/
def pymax (a b : X α) : X α := if lt a b then b else a

/-- `x**2` / `np.square` -/
def sq (a : X α) : X α := mul a a

/-- `np.where` -/
def sel (c : Bool) (a b : X α) : X α := if c then a else b

def ofBool (b : Bool) : X α := if b then fin 1 else fin 0

def abs : X α → X α
  | nan => nan | ninf => pinf | pinf => pinf | fin a => fin |a|

/-- `np.sign` -/
def sign : X α → X α
  | nan => nan | ninf => fin (-1) | pinf => fin 1
  | fin a => if 0 < a then fin 1 else if a < 0 then fin (-1) else fin 0

def sqrt (F : Fn α) : X α → X α
  | nan => nan | ninf => nan | pinf => pinf
  | fin a => if a < 0 then nan else fin (F.sqrt a)
def exp (F : Fn α) : X α → X α
  | nan => nan | ninf => fin 0 | pinf => pinf | fin a => fin (F.exp a)
def log (F : Fn α) : X α → X α
  | nan => nan | ninf => nan | pinf => pinf
  | fin a => if a < 0 then nan else if a = 0 then ninf else fin (F.log a)
def cos (F : Fn α) : X α → X α
  | fin a => fin (F.cos a) | _ => nan
def sin (F : Fn α) : X α → X α
  | fin a => fin (F.sin a) | _ => nan

/-- `np.power(base, exponent)` for a base that is non-negative or infinite (the
    only use in the traced code is Bell: `|·| ** (2·slope)`); other
    combinations are `nan` here and never reached by the traced formulas with
    valid parameters. -/
def powNonneg (F : Fn α) : X α → X α → X α
  | nan, fin b => if b = 0 then fin 1 else nan
  | nan, _ | _, nan => nan
  | fin a, fin b =>
      if b = 0 then fin 1
      else if a = 0 then (if 0 < b then fin 0 else pinf)
      else if a < 0 then nan
      else fin (F.pow a b)
  | pinf, fin b => if b = 0 then fin 1 else if 0 < b then pinf else fin 0
  | ninf, fin b => if b = 0 then fin 1 else nan
  | fin a, pinf => if |a| = 1 then fin 1 else if |a| < 1 then fin 0 else pinf
  | fin a, ninf => if |a| = 1 then fin 1 else if |a| < 1 then pinf else fin 0
  | pinf, pinf | ninf, pinf => pinf
  | pinf, ninf | ninf, ninf => fin 0

/-- `np.nan_to_num(x, nan=0, neginf=0, posinf=1)` as used by `Activated.degree` -/
def nanToNum01 : X α → X α
  | nan => fin 0 | ninf => fin 0 | pinf => fin 1 | fin a => fin a

/-- `np.nan_to_num(x, nan=a, neginf=b, posinf=c)` -/
def nanToNum (x a b c : X α) : X α :=
  match x with
  | nan => a | ninf => b | pinf => c | fin v => fin v

/-- `np.clip(x, lo, hi)` = `minimum(maximum(x, lo), hi)` -/
def clip (x lo hi : X α) : X α := npmin (npmax x lo) hi

def toFin? : X α → Option α | fin a => some a | _ => none

/-! ## rewriting lemmas (one simp-normal form: everything pushed into `fin`) -/

@[simp] theorem add_fin (a b : α) : add (fin a) (fin b) = fin (a + b) := rfl
@[simp] theorem neg_fin (a : α) : neg (fin a) = fin (-a) := rfl
@[simp] theorem sub_fin (a b : α) : sub (fin a) (fin b) = fin (a - b) := by simp [sub, sub_eq_add_neg]
@[simp] theorem mul_fin (a b : α) : mul (fin a) (fin b) = fin (a * b) := rfl
@[simp] theorem sq_fin (a : α) : sq (fin a) = fin (a * a) := rfl
@[simp] theorem lt_fin (a b : α) : lt (fin a) (fin b) = decide (a < b) := rfl
@[simp] theorem le_fin (a b : α) : le (fin a) (fin b) = decide (a ≤ b) := rfl
@[simp] theorem eq_fin (a b : α) : eq (fin a) (fin b) = decide (a = b) := rfl
@[simp] theorem ne_fin (a b : α) : ne (fin a) (fin b) = decide (a ≠ b) := by simp [ne]
@[simp] theorem isnan_fin (a : α) : isnan (fin a) = false := rfl
@[simp] theorem isnan_nan : isnan (nan : X α) = true := rfl
@[simp] theorem isnan_pinf : isnan (pinf : X α) = false := rfl
@[simp] theorem isnan_ninf : isnan (ninf : X α) = false := rfl
@[simp] theorem isfinite_fin (a : α) : isfinite (fin a) = true := rfl
@[simp] theorem eq_fin_pinf (a : α) : eq (fin a) pinf = false := rfl
@[simp] theorem eq_fin_ninf (a : α) : eq (fin a) ninf = false := rfl
@[simp] theorem npmin_fin (a b : α) : npmin (fin a) (fin b) = fin (min a b) := by
  simp only [npmin, isnan, Bool.or_self, Bool.false_eq_true, if_false, le, decide_eq_true_eq]
  rcases le_total a b with h | h
  · simp [h]
  · by_cases h' : a ≤ b
    · have : a = b := le_antisymm h' h
      simp [this]
    · simp [h', min_eq_right h]
@[simp] theorem npmax_fin (a b : α) : npmax (fin a) (fin b) = fin (max a b) := by
  simp only [npmax, isnan, Bool.or_self, Bool.false_eq_true, if_false, le, decide_eq_true_eq]
  rcases le_total a b with h | h
  · simp [h]
  · by_cases h' : a ≤ b
    · have : a = b := le_antisymm h' h
      simp [this]
    · simp [h', max_eq_left h]
theorem isnan_npmax (a b : X α) : isnan (npmax a b) = (isnan a || isnan b) := by
  unfold npmax
  cases ha : isnan a <;> cases hb : isnan b <;> simp [isnan_nan]
  split <;> assumption
theorem isnan_npmin (a b : X α) : isnan (npmin a b) = (isnan a || isnan b) := by
  unfold npmin
  cases ha : isnan a <;> cases hb : isnan b <;> simp [isnan_nan]
  split <;> assumption
@[simp] theorem mul_nan_right (a : X α) : mul a nan = nan := by cases a <;> rfl
@[simp] theorem mul_nan_left (a : X α) : mul nan a = nan := by cases a <;> rfl
@[simp] theorem add_nan_right (a : X α) : add a nan = nan := by cases a <;> rfl
@[simp] theorem add_nan_left (a : X α) : add nan a = nan := by cases a <;> rfl
@[simp] theorem sub_nan_right (a : X α) : sub a nan = nan := by cases a <;> rfl
@[simp] theorem sub_nan_left (a : X α) : sub nan a = nan := by cases a <;> rfl
@[simp] theorem div_nan_right (a : X α) : div a nan = nan := by cases a <;> rfl
@[simp] theorem div_nan_left (a : X α) : div nan a = nan := by cases a <;> rfl
@[simp] theorem npmin_nan_left (a : X α) : npmin nan a = nan := by simp [npmin, isnan]
@[simp] theorem npmin_nan_right (a : X α) : npmin a nan = nan := by simp [npmin, isnan]
@[simp] theorem npmax_nan_left (a : X α) : npmax nan a = nan := by simp [npmax, isnan]
@[simp] theorem npmax_nan_right (a : X α) : npmax a nan = nan := by simp [npmax, isnan]
@[simp] theorem lt_nan_left (a : X α) : lt nan a = false := by cases a <;> rfl
@[simp] theorem lt_nan_right (a : X α) : lt a nan = false := by cases a <;> rfl
@[simp] theorem le_nan_left (a : X α) : le nan a = false := by cases a <;> rfl
@[simp] theorem le_nan_right (a : X α) : le a nan = false := by cases a <;> rfl
@[simp] theorem eq_nan_left (a : X α) : eq nan a = false := by cases a <;> rfl
@[simp] theorem eq_nan_right (a : X α) : eq a nan = false := by cases a <;> rfl
theorem div_fin (a b : α) (hb : b ≠ 0) : div (fin a) (fin b) = fin (a / b) := by simp [div, hb]
@[simp] theorem sel_true (a b : X α) : sel true a b = a := rfl
@[simp] theorem sel_false (a b : X α) : sel false a b = b := rfl
@[simp] theorem abs_fin (a : α) : abs (fin a) = fin |a| := rfl
@[simp] theorem exp_fin (F : Fn α) (a : α) : exp F (fin a) = fin (F.exp a) := rfl
@[simp] theorem cos_fin (F : Fn α) (a : α) : cos F (fin a) = fin (F.cos a) := rfl
theorem sqrt_fin (F : Fn α) (a : α) (h : 0 ≤ a) : sqrt F (fin a) = fin (F.sqrt a) := by
  simp [sqrt, not_lt.2 h]
theorem log_fin (F : Fn α) (a : α) (h : 0 < a) : log F (fin a) = fin (F.log a) := by
  simp [log, not_lt.2 h.le, h.ne']
theorem sel_decide (p : Prop) [Decidable p] (a b : α) :
    sel (decide p) (fin a) (fin b) = fin (if p then a else b) := by
  by_cases h : p <;> simp [h]
theorem ofBool_decide (p : Prop) [Decidable p] :
    (ofBool (decide p) : X α) = fin (if p then 1 else 0) := by
  by_cases h : p <;> simp [h, ofBool]
@[simp] theorem nanToNum01_fin (a : α) : nanToNum01 (fin a) = fin a := rfl
theorem nanToNum_01 (x : X α) : nanToNum x (fin 0) (fin 0) (fin 1) = nanToNum01 x := by cases x <;> rfl

end X
