import FlVerif.Base.Py

/-! # Translated code that keeps the state at a raise (`raise_state` of a profile of `fv/pylean.py`)

`Py.M S = Except Py.Err S` drops the record of the locals when an exception is raised.  A function whose effects
*before* the raise matter (a loader that leaves its object unloaded when it fails, a loop that catches the exceptions
of its callees) is translated into `Py.R S`: the exception carries the record as it is at the raise.  Core Lean only. -/

namespace Py

/-- result of a translated function that keeps the state at a raise: the final record, or the exception class together
    with the record at the raise -/
abbrev R (S : Type) := Except (Err × S) S

/-- an expression that can raise, evaluated while the record is `σ` (expressions do not change the record) -/
def inState {S T : Type} (σ : S) : M T → Except (Err × S) T
  | .ok v => .ok v
  | .error e => .error (e, σ)

/-- the Python exceptions (`except Exception` catches them all); `fuel` and `alias` are artefacts of the translation
    that no handler may catch -/
def Err.isPython : Err → Bool
  | .fuel => false
  | .alias => false
  | _ => true

/-- a method call on an object kept in the record: `r` is what the call does to the object (the object afterwards,
    whether it returns or raises), `f` puts an object into the record -/
def R.map {O S : Type} (f : O → S) : Except (Err × O) O → Except (Err × S) S
  | .ok o => .ok (f o)
  | .error (e, o) => .error (e, f o)

/-- a callee translated without `raise_state` (it drops its record at a raise) called on an object that it does not
    change when it raises: the object stays `o` -/
def R.ofM {O : Type} (o : O) : M O → Except (Err × O) O
  | .ok o' => .ok o'
  | .error e => .error (e, o)

@[simp] theorem inState_ok {S T : Type} (σ : S) (v : T) : inState σ (.ok v : M T) = .ok v := rfl
@[simp] theorem inState_error {S T : Type} (σ : S) (e : Err) : inState σ (.error e : M T) = .error (e, σ) := rfl
@[simp] theorem R.map_ok {O S : Type} (f : O → S) (o : O) : R.map f (.ok o) = .ok (f o) := rfl
@[simp] theorem R.map_error {O S : Type} (f : O → S) (e : Err) (o : O) : R.map f (.error (e, o)) = .error (e, f o) := rfl

end Py
