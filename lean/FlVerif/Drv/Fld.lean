import FlVerif.Base.SExp
import FlVerif.Op.Fld

/-! Driver commands for the FLD grid model (C18). -/

namespace Drv
open SExp Op.Fld

def fldHexVal (c : Char) : Option Nat :=
  if '0' ≤ c ∧ c ≤ '9' then some (c.toNat - '0'.toNat)
  else if 'a' ≤ c ∧ c ≤ 'f' then some (c.toNat - 'a'.toNat + 10) else none

/-- free text travels as `h<hex of utf-8 bytes>` (ASCII is enough for the reader contents we generate) -/
def fldUnhex (s : String) : Option String :=
  match s.toList with
  | 'h' :: cs =>
    let rec go : List Char → List Char → Option (List Char)
      | [], acc => some acc.reverse
      | [_], _ => none
      | a :: b :: rest, acc => do
          let x ← fldHexVal a
          let y ← fldHexVal b
          go rest (Char.ofNat (16 * x + y) :: acc)
    (go cs []).map String.ofList
  | _ => none

def hexOf (s : String) : String :=
  let d (n : Nat) : Char := if n < 10 then Char.ofNat (n + 48) else Char.ofNat (n - 10 + 97)
  "h" ++ String.ofList (s.toList.flatMap (fun c => [d (c.toNat / 16), d (c.toNat % 16)]))

def fld : List SExp → Option SExp
  | [atom "iroot", n, v] => do pure (ofNat (iroot (← n.asNat) (← v.asNat)))
  | [atom "corrected-root", n, v, g] => do pure (ofNat (correctedRoot (← n.asNat) (← v.asNat) (← g.asNat)))
  | [atom "resolution-all", n, v] => do pure (ofNat (resolutionAll (← n.asNat) (← v.asNat)))
  -- `(fld-grid scope v ((lo hi active last) …))`: rows of exact input values
  | [atom "fld-grid", atom scope, v, list vars] => do
      let v ← v.asNat
      let vars ← vars.mapM (fun e => match e with
        | list [lo, hi, a, last] => do pure ((← lo.asRat), (← hi.asRat), (← a.asBool), (← last.asX))
        | _ => none)
      let n := vars.length
      let res := if scope == "all" then resolutionAll n v else resolutionEach v
      let mx := maxValues (vars.map (fun x => x.2.2.1)) res
      let rows := grid mx
      let den : Rat := if res == 0 then 1 else (res : Rat)
      pure (list (rows.map (fun row => list ((row.zip vars).map (fun (i, (lo, hi, a, last)) =>
        if a then atom (ratStr (lo + (i : Rat) * ((hi - lo) / den))) else ofX last)))))
  | [atom "fld-count", atom scope, v, list actives] => do
      let v ← v.asNat
      let act ← actives.mapM asBool
      let res := if scope == "all" then resolutionAll act.length v else resolutionEach v
      pure (ofNat (total (maxValues act res)))
  | [atom "fld-reader", skip, list lines] => do
      let lines ← lines.mapM (fun e => do fldUnhex (← e.asAtom))
      pure (list ((readerRows (← skip.asNat) lines).map (fun s => atom (hexOf s))))
  | [atom "fld-header", list ins, list outs, a, b] => do
      let i ← ins.mapM asAtom
      let o ← outs.mapM asAtom
      pure (list ((header i o (← a.asBool) (← b.asBool)).map atom))
  | _ => none

end Drv
