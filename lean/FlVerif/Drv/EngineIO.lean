import FlVerif.Base.SExp
import FlVerif.Op.EngineIO

/-! Driver commands for the accessors of `Engine` (C02): look-ups by name or index, `input_values` (getter and
    setter), `output_values`, `values` – the models of `Op/EngineIO.lean` and `Op/InputValues.lean`, the ones the code
    ties `C02.code_*` speak about.  Names travel hex-encoded (`h…`). -/

namespace Drv
open SExp Op.Engine

def eioHexVal (c : Char) : Option Nat :=
  if '0' ≤ c && c ≤ '9' then some (c.toNat - '0'.toNat)
  else if 'a' ≤ c && c ≤ 'f' then some (c.toNat - 'a'.toNat + 10)
  else none

def eioUnhexBytes : List Char → Option (List UInt8)
  | [] => some []
  | a :: b :: rest => do
    let x ← eioHexVal a
    let y ← eioHexVal b
    let r ← eioUnhexBytes rest
    pure (UInt8.ofNat (16 * x + y) :: r)
  | _ => none

/-- `h<hex of utf-8>` → text -/
def eioText : SExp → Option String
  | atom s =>
    match s.toList with
    | 'h' :: cs => do
      let bs ← eioUnhexBytes cs
      String.fromUTF8? ⟨bs.toArray⟩
    | _ => none
  | _ => none

/-- `(i n)` = the `int` n, `(s h…)` = the string -/
def eioKey : SExp → Option Key
  | list [atom "i", n] => do pure (.index (← n.asInt))
  | list [atom "s", t] => do pure (.name (← eioText t))
  | _ => none

def eioNames (e : SExp) : Option (List (Nat × String)) := do
  pure ((← (← e.asList).mapM eioText).zipIdx.map (fun p => (p.2, p.1)))

def eioErr (k : Lang.ErrKind) : SExp := list [atom "err", atom k.str]

/-- `(s x)` = a float / 0-d array, `(v x …)` = a 1-D array -/
def eioValue : SExp → Option (VarValue Rat)
  | list [atom "s", x] => do pure (.scalar (← x.asX))
  | list (atom "v" :: xs) => do pure (.vector (← xs.mapM asX))
  | _ => none

/-- `(scalar x)`, `(vector x …)`, `(matrix cols (row …))`, `(higher d0 d1 d2 …)` -/
def eioArr : SExp → Option (NdArr Rat)
  | list [atom "scalar", x] => do pure (.scalar (← x.asX))
  | list (atom "vector" :: xs) => do pure (.vector (← xs.mapM asX))
  | list [atom "matrix", c, list rows] => do pure (.matrix (← c.asNat) (← rows.mapM asXs))
  | list (atom "higher" :: ds) => do
      let s ← ds.mapM asNat
      if h : 3 ≤ s.length then pure (.higher s h) else none
  | _ => none

def eioOfArr : NdArr Rat → SExp
  | .scalar x => list [atom "scalar", ofX x]
  | .vector v => list (atom "vector" :: v.map ofX)
  | .matrix c rows => list [atom "matrix", ofNat c, list (rows.map ofXs)]
  | .higher s _ => list (atom "higher" :: s.map ofNat)

def eioOfArrR : Except Lang.ErrKind (NdArr Rat) → SExp
  | .ok a => list [atom "ok", eioOfArr a]
  | .error k => eioErr k

def eioInVar (p : Nat × String) : InVar Rat :=
  { name := p.2, enabled := true, value := .fin (p.1 : Rat), terms := [] }
def eioOutVar (p : Nat × String) : OutVar Rat :=
  { name := p.2, enabled := true, lo := .ninf, hi := .pinf, lockRange := false, lockPrev := false,
    dflt := .fin (p.1 : Rat), aggregation := none, defuzz := .missing, terms := [] }
def eioBlock (p : Nat × String) : String × Block Rat :=
  (p.2, { enabled := true, conjunction := some (toString p.1), disjunction := none, implication := none,
          activation := .general, rules := [] })

def eioIdx (x : X Rat) : SExp :=
  match x with
  | .fin q => atom (toString q.num)
  | _ => atom "?"

def engineIO : List SExp → Option SExp
  -- `Engine.input_variable / output_variable / rule_block (key)` on components of the given names: index found
  | [atom "eio-lookup", names, key] => do
      match lookup (·.2) (← eioNames names) (← eioKey key) with
      | .ok p => pure (list [atom "ok", ofNat p.1])
      | .error k => pure (eioErr k)
  -- `Engine.variable(name)`: index in input variables ++ output variables
  | [atom "eio-variable", ins, outs, name] => do
      let ins ← eioNames ins
      let outs ← eioNames outs
      match lookupVariable (·.2) ins (outs.map (fun p => (p.1 + ins.length, p.2))) (← eioText name) with
      | .ok p => pure (list [atom "ok", ofNat p.1])
      | .error k => pure (eioErr k)
  -- `engine[key]`: which list and index
  | [atom "eio-getitem", ins, outs, bls, key] => do
      let ins ← eioNames ins
      let outs ← eioNames outs
      let bls ← eioNames bls
      match getItem (ins.map eioInVar) (outs.map eioOutVar) (bls.map eioBlock) (← eioKey key) with
      | .ok (.input v) => pure (list [atom "ok", atom "input", eioIdx v.value])
      | .ok (.output v) => pure (list [atom "ok", atom "output", eioIdx v.dflt])
      | .ok (.block b) => pure (list [atom "ok", atom "block", atom (b.2.conjunction.getD "?")])
      | .error k => pure (eioErr k)
  | [atom "eio-input-values", list vals] => do
      pure (eioOfArrR (inputValues (← vals.mapM eioValue)))
  -- `Engine.output_values` on the values the input variables and the output variables hold
  | [atom "eio-output-values", list ins, list outs] => do
      pure (eioOfArrR (outputValues (← ins.mapM eioValue) (← outs.mapM eioValue)))
  | [atom "eio-values", list ins, list outs] => do
      pure (eioOfArrR (allValues (← ins.mapM eioValue) (← outs.mapM eioValue)))
  -- `engine.input_values = array` on input variables `(lockRange lo hi)`: what every variable receives
  | [atom "eio-set-input-values", list ins, arr] => do
      let ins ← ins.mapM (fun e => match e with
        | list [lr, lo, hi] => do
            pure ({ name := "", enabled := true, value := .nan, terms := [], lo := (← lo.asX), hi := (← hi.asX),
                    lockRange := (← lr.asBool) } : InVar Rat)
        | _ => none)
      match setInputValues ins (← eioArr arr) with
      | .ok cols => pure (list [atom "ok", list (cols.map ofXs)])
      | .error k => pure (eioErr k)
  | _ => none

end Drv
