import FlVerif.Base.SExp
import FlVerif.Base.FnRat
import FlVerif.Op.Engine
import FlVerif.Op.Session

/-! Driver commands for the engine model (C01, C02, C13). -/

namespace Drv
open SExp Op.Engine

def optName : SExp → Option (Option String)
  | atom "none" => some none
  | atom s => some (some s)
  | _ => none

def termD : SExp → Option (TermD Rat)
  | list [atom "shape", atom n, atom c, ps, h] => do pure (.shape n c (← ps.asXs) (← h.asX))
  | list [atom "constant", atom n, v] => do pure (.constant n (← v.asX))
  | list [atom "linear", atom n, cs] => do pure (.linear n (← cs.asXs))
  | list [atom "discrete", atom n, xs, ys, h] => do pure (.discrete n (← xs.asXs) (← ys.asXs) (← h.asX))
  | _ => none

def inVar : SExp → Option (InVar Rat)
  | list [atom "invar", atom n, en, lo, hi, lr, list ts] => do
      pure { name := n, enabled := (← en.asBool), value := .nan, terms := (← ts.mapM termD),
             lo := (← lo.asX), hi := (← hi.asX), lockRange := (← lr.asBool) }
  | _ => none

def defuzzD : SExp → Option Defuzz
  | list [atom "integral", atom k, r] => do pure (.integral k (← r.asNat))
  | list [atom "weighted", atom k, atom t] => some (.weighted k t)
  | list [atom "none"] => some .missing
  | _ => none

def outVar : SExp → Option (OutVar Rat)
  | list [atom "outvar", atom n, en, lo, hi, lr, lp, d, agg, df, list ts] => do
      pure { name := n, enabled := (← en.asBool), lo := (← lo.asX), hi := (← hi.asX), lockRange := (← lr.asBool),
             lockPrev := (← lp.asBool), dflt := (← d.asX), aggregation := (← optName agg), defuzz := (← defuzzD df),
             terms := (← ts.mapM termD) }
  | _ => none

partial def anteD : SExp → Option Ante
  | list [atom "prop", atom v, list hs, t] => do pure (.prop v (← hs.mapM asAtom) (← optName t))
  | list [atom "and", l, r] => do pure (.and (← anteD l) (← anteD r))
  | list [atom "or", l, r] => do pure (.or (← anteD l) (← anteD r))
  | _ => none

def conclD : SExp → Option Concl
  | list [atom "concl", atom v, list hs, atom t] => do pure { var := v, hedges := (← hs.mapM asAtom), term := t }
  | _ => none

def ruleD : SExp → Option (RuleD Rat)
  | list [atom "rule", en, ld, w, a, list cs] => do
      pure { enabled := (← en.asBool), loaded := (← ld.asBool), weight := (← w.asX), ante := (← anteD a),
             concls := (← cs.mapM conclD) }
  | _ => none

def activationD : SExp → Option (Activation Rat)
  | list [atom "general"] => some .general
  | list [atom "first", n, t] => do pure (.first (← n.asNat) (← t.asX))
  | list [atom "last", n, t] => do pure (.last (← n.asNat) (← t.asX))
  | list [atom "highest", n] => do pure (.highest (← n.asNat))
  | list [atom "lowest", n] => do pure (.lowest (← n.asNat))
  | list [atom "proportional"] => some .proportional
  | list [atom "threshold", atom c, t] => do pure (.threshold c (← t.asX))
  | list [atom "none"] => some .missing
  | _ => none

def blockD : SExp → Option (Block Rat)
  | list [atom "block", en, c, d, i, a, list rs] => do
      pure { enabled := (← en.asBool), conjunction := (← optName c), disjunction := (← optName d),
             implication := (← optName i), activation := (← activationD a), rules := (← rs.mapM ruleD) }
  | _ => none

def engineD : SExp → Option (EngineD Rat)
  | list [atom "engine", list ins, list outs, list bs] => do
      pure { inputs := (← ins.mapM inVar), outputs := (← outs.mapM outVar), blocks := (← bs.mapM blockD) }
  | _ => none

def showAct (a : Act Rat) : SExp :=
  list [atom a.term.name, ofX a.degree, atom (a.implication.getD "none")]

def showRow (r : RowResult Rat) : SExp :=
  list [ list (r.fuzzy.map (fun l => list (l.map showAct))),
         list (r.rules.map (fun b => list (b.map (fun o => list [ofX o.degree, ofBool o.triggered])))),
         list (r.raw.map (fun v => match v with | some x => ofX x | none => atom "disabled")) ]

/-- `(process engine ((v …) …))`: every row processed from a cleared engine, values through the cascade row by row
    AND (second list) with one commit on the whole batch of raw values; output per row: model observations -/
def engine : List SExp → Option SExp
  | [atom "process", e, list rows] => do
      let e ← engineD e
      let rows ← rows.mapM asXs
      let results := batchRows Fn.rat e rows
      -- row-by-row cascade
      let st0 : List (Op.OutState Rat) := e.outputs.map (fun ov => { value := [Op.setter (cascadeCfg ov) .nan], previous := .nan })
      let step (acc : List (Op.OutState Rat) × List SExp) (r : Option (RowResult Rat)) : List (Op.OutState Rat) × List SExp :=
        match r with
        | none => (acc.1, acc.2 ++ [atom "error"])
        | some rr =>
          let st' := (e.outputs.zip (acc.1.zip rr.raw)).map (fun (ov, (s, raw)) =>
            (Op.defuzzify (cascadeCfg ov) (raw.map (fun v => [v])) s).1)
          (st', acc.2 ++ [list [showRow rr, list (st'.map (fun s => ofX (Op.lastOr .nan s.value))),
                                list (st'.map (fun s => ofX s.previous))]])
      let (_, outs) := results.foldl step (st0, [])
      -- one commit on the batch (only meaningful when no row fails)
      let batch : SExp :=
        if results.all Option.isSome then
          let raws := results.filterMap id
          list ((e.outputs.zipIdx.zip st0).map (fun ((ov, i), s) =>
            if ov.enabled then
              ofXs (batchValues ov (rawColumn raws i) s)
            else atom "disabled"))
        else atom "error"
      pure (list [list outs, batch])
  | _ => none

def sessionCmd : SExp → Option (Op.Session.Cmd Rat)
  | list (atom "set" :: vs) => do pure (.setInputs (← vs.mapM asX))
  | list [atom "process"] => some .process
  | list [atom "restart"] => some .restart
  | list [atom "reconfig", e] => do pure (.reconfig (← engineD e))
  | _ => none

/-- `(session engine (cmd …))`: from a freshly built engine; one observation per `process` command:
    `(v|disabled …)` or `error` -/
def session : List SExp → Option SExp
  | [atom "session", e, list cmds] => do
      let e ← engineD e
      let cmds ← cmds.mapM sessionCmd
      let (_, outs) := cmds.foldl (fun (acc : Op.Session.Sess Rat × List SExp) c =>
        let (s', o) := Op.Session.step Fn.rat acc.1 c
        match c with
        | .process =>
          (s', acc.2 ++ [match o with
            | none => atom "error"
            | some vs => list (vs.map (fun v => match v with | some x => ofX x | none => atom "disabled"))])
        | _ => (s', acc.2)) (Op.Session.fresh e, [])
      pure (list outs)
  | _ => none

def engineAll (l : List SExp) : Option SExp := (engine l).orElse (fun _ => session l)

end Drv
