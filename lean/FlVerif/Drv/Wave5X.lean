import FlVerif.Drv.TieModels
import FlVerif.Op.InferTree
import FlVerif.Op.Configure
import FlVerif.Op.PyExtFllImport

/-! Driver commands for the models of the fifth wave of code ties: `Op.Engine.configure` (C14; `Op/Configure.lean`, with
    the factories of the FLL model: the regenerated tables of registered classes) and `Op.Weighted.inferComp` (C10;
    `Op/InferTree.lean`: `WeightedDefuzzifier.infer_type` on nested components). -/

namespace Drv
open SExp Op.FllIO Op.Engine

/-- the factories of the library, as the FLL model knows them -/
def w5Factories : Factories :=
  { tnorm := Py.Fll.constructNorm Gen.Tables.tnormKeys
    snorm := Py.Fll.constructNorm Gen.Tables.snormKeys
    defuzzifier := Py.Fll.constructDefuzz
    activation := Py.Fll.constructActiv }

def w5Ok {α : Type} : Py.M α → Option α
  | .ok a => some a
  | .error _ => none

/-- `none` | `(name hTEXT)` | `(obj hCLASS)` -/
def w5Arg {T : Type} (mk : String → Option T) : SExp → Option (OpArg T)
  | atom "none" => some .none
  | list [atom "name", t] => do pure (.name (← tmText t))
  | list [atom "obj", t] => do pure (.obj (← mk (← tmText t)))
  | _ => none

/-- `none` | `hCLASS`: an operator of a rule block / output variable -/
def w5Opt {T : Type} (mk : String → Option T) : SExp → Option (Option T)
  | atom "none" => some none
  | t => do pure (some (← mk (← tmText t)))

def w5OfOpt : Option String → SExp
  | none => atom "none"
  | some s => tmHex s

def w5Block : SExp → Option Block
  | list [c, d, i, a] => do
      pure { conjunction := ← w5Opt some c, disjunction := ← w5Opt some d, implication := ← w5Opt some i,
             activation := ← w5Opt (fun s => w5Ok (Py.Fll.constructActiv s)) a }
  | _ => none

def w5Output : SExp → Option OutVar
  | list [g, z] => do
      pure { aggregation := ← w5Opt some g, defuzzifier := ← w5Opt (fun s => w5Ok (Py.Fll.constructDefuzz s)) z }
  | _ => none

/-- a tree of components: `(g T …)` an `Aggregated` term / a `Variable`, `(a T)` an `Activated` term, `(p Class)` a plain
    term of that class (classified as in the stream `infer`: `tmKind`) -/
def w5Tree : Nat → SExp → Option Py.W5.Comp
  | 0, _ => none
  | n + 1, list (atom "g" :: ts) => do pure (.group (← ts.mapM (w5Tree n)))
  | n + 1, list [atom "a", t] => do pure (.activated (← w5Tree n t))
  | _ + 1, list [atom "p", atom cls] => do
      pure (.plain { name := "", kind := ← tmKind cls, mu := id, tsk := none })
  | _, _ => none

def w5Type : Op.Weighted.WType → String
  | .automatic => "Automatic" | .takagiSugeno => "TakagiSugeno" | .tsukamoto => "Tsukamoto"

def wave5x : List SExp → Option SExp
  -- C14: `(configure (conj disj impl aggr defuzz activ) (block …) (output …))`
  | [atom "configure", list [c, d, i, g, z, t], list blocks, list outputs] => do
      let a : ConfigArgs :=
        { conjunction := ← w5Arg some c, disjunction := ← w5Arg some d, implication := ← w5Arg some i,
          aggregation := ← w5Arg some g, defuzzifier := ← w5Arg (fun s => w5Ok (Py.Fll.constructDefuzz s)) z,
          activation := ← w5Arg (fun s => w5Ok (Py.Fll.constructActiv s)) t }
      let e : Engine := { blocks := ← blocks.mapM w5Block, outputs := ← outputs.mapM w5Output }
      match configure w5Factories a e with
      | .error k => pure (tmErr k)
      | .ok e' =>
        pure (list [atom "ok",
          list (e'.blocks.map (fun b => list [w5OfOpt b.conjunction, w5OfOpt b.disjunction, w5OfOpt b.implication,
                                              w5OfOpt (b.activation.map Activ.cls)])),
          list (e'.outputs.map (fun v => list [w5OfOpt v.aggregation, w5OfOpt (v.defuzzifier.map Defuzz.cls)]))])
  -- C10: `(infer-tree T)`
  | [atom "infer-tree", t] => do
      match Op.Weighted.inferComp (← w5Tree 64 t) with
      | .ok ty => pure (atom (w5Type ty))
      | .error e => pure (tmErr (Py.W.errToPy e))
  | _ => none

end Drv
