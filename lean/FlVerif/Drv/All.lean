import FlVerif.Drv.Leaf
import FlVerif.Drv.Export

/-! Registry of driver command groups: one handler per group, tried in order (`none` = not mine / malformed). -/

namespace Drv
def handlers : List (List SExp → Option SExp) :=
  [ leaf
  , exportCmd
  , reprCmd
  ]
end Drv
