import FlVerif.Drv.Leaf
import FlVerif.Drv.Lang

/-! Registry of driver command groups: one handler per group, tried in order (`none` = not mine / malformed). -/

namespace Drv
def handlers : List (List SExp → Option SExp) :=
  [ leaf
  , lang
  ]
end Drv
