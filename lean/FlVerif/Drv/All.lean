import FlVerif.Drv.Leaf
import FlVerif.Drv.State
import FlVerif.Drv.Fld
import FlVerif.Drv.Engine
import FlVerif.Drv.Term
import FlVerif.Drv.Rules
import FlVerif.Drv.Export
import FlVerif.Drv.Defuzz
import FlVerif.Drv.Lang
import FlVerif.Drv.EngineIO
import FlVerif.Drv.TieModels
import FlVerif.Drv.Wave5X

/-! Registry of driver command groups: one handler per group, tried in order (`none` = not mine / malformed). -/

namespace Drv
def handlers : List (List SExp → Option SExp) :=
  [ leaf
  , state
  , fld
  , engineAll
  , term
  , rules
  , exportCmd
  , reprCmd
  , defuzz
  , lang
  , engineIO
  , tieModels
  , wave5x
  ]
end Drv
