import FlVerif.Drv.Leaf
import FlVerif.Drv.Defuzz

/-! Registry of driver command groups: one handler per group, tried in order (`none` = not mine / malformed). -/

namespace Drv
def handlers : List (List SExp → Option SExp) :=
  [ leaf
  , defuzz
  ]
end Drv
