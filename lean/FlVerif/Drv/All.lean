import FlVerif.Drv.Leaf
