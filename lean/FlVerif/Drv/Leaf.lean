import FlVerif.Base.SExp
import FlVerif.Base.FnRat
import FlVerif.Spec.Norm
import FlVerif.Gen.NormGen
import FlVerif.Gen.HedgeGen
import FlVerif.Gen.TermGen

/-! Driver commands for the leaf formulas (C03, C04, C05, C11): the regenerated definitions evaluated at ℚ. -/

namespace Drv
open SExp

def leaf : List SExp → Option SExp
  | [atom "norm", atom name, a, b] => do
      let f ← Gen.normByName (α := Rat) name
      pure (ofX (f (← a.asX) (← b.asX)))
  | [atom "tnorm-spec", atom name, a, b] => do
      let T ← Spec.TNorm.ofName name
      pure (atom (ratStr (Spec.tnorm T (← a.asRat) (← b.asRat))))
  | [atom "snorm-spec", atom name, a, b] => do
      let S ← Spec.SNorm.ofName name
      pure (atom (ratStr (Spec.snorm S (← a.asRat) (← b.asRat))))
  | [atom "hedge", atom name, x] => do
      let f ← Gen.hedgeByName Fn.rat name
      pure (ofX (f (← x.asX)))
  | [atom "term", atom cls, ps, h, x] => do
      pure (ofX (← Gen.termMembership Fn.rat cls (← ps.asXs) (← h.asX) (← x.asX)))
  | [atom "tsukamoto", atom cls, ps, h, y] => do
      pure (ofX (← Gen.termTsukamoto Fn.rat cls (← ps.asXs) (← h.asX) (← y.asX)))
  | _ => none

end Drv
