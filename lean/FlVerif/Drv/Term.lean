import FlVerif.Base.SExp
import FlVerif.Op.Interp

/-! Driver commands of group T (C03): `(discrete (x1 y1 x2 y2 …) h x)` = the model of `Discrete.membership`
    (`height * numpy.interp(x, xs, ys)`).  The traced classes are served by `(term …)` / `(tsukamoto …)` in `Drv.leaf`. -/

namespace Drv
open SExp

def term : List SExp → Option SExp
  | [atom "discrete", list vs, h, x] => do
      let nums ← vs.mapM asRat
      let pts ← Op.pairs nums
      pure (ofX (Op.discrete pts (← h.asX) (← x.asX)))
  | _ => none

end Drv
