import FlVerif.Base.SExp
import FlVerif.Base.FnRat
import FlVerif.Base.Dec
import FlVerif.Gen.TermGen
import FlVerif.Op.Infer
import FlVerif.Op.PyExtDiscrete
import FlVerif.Op.Fld
import FlVerif.Drv.Defuzz
import FlVerif.Drv.Lang
import FlVerif.Drv.Engine

/-! Driver commands for models that came with the code ties (DESIGN.md 0.7) and had no differential stream of their
    own: `Op/Infer.lean` (C01: `Engine.infer_type`, `Variable.highest_membership`, `Variable.fuzzify`),
    `Op.Weighted.highestActivated` and `Aggregated.range` (C10), `Op.Fld.write` with recording stubs for the NumPy /
    engine operations (C18), `Op.loadRules` (C16 / C13: `RuleBlock.load_rules`), and the engine sessions of C13 with
    `Op.Session.restartR` for a restart whose `reload_rules` raises. -/

namespace Drv
open SExp

def tmHexVal (c : Char) : Option Nat :=
  if '0' ≤ c && c ≤ '9' then some (c.toNat - '0'.toNat)
  else if 'a' ≤ c && c ≤ 'f' then some (c.toNat - 'a'.toNat + 10)
  else none

def tmUnhexBytes : List Char → Option (List UInt8)
  | [] => some []
  | a :: b :: rest => do
    let x ← tmHexVal a
    let y ← tmHexVal b
    let r ← tmUnhexBytes rest
    pure (UInt8.ofNat (16 * x + y) :: r)
  | _ => none

/-- `h<hex of utf-8>` → text -/
def tmText : SExp → Option String
  | atom s =>
    match s.toList with
    | 'h' :: cs => do
      let bs ← tmUnhexBytes cs
      String.fromUTF8? ⟨bs.toArray⟩
    | _ => none
  | _ => none

def tmHexDigit (n : Nat) : Char := if n < 10 then Char.ofNat (48 + n) else Char.ofNat (87 + n)
def tmHex (s : String) : SExp :=
  atom ("h" ++ String.ofList (s.toUTF8.toList.flatMap fun b => [tmHexDigit (b.toNat / 16), tmHexDigit (b.toNat % 16)]))

def tmErrStr : Py.Err → String
  | .syntax => "syntax" | .value => "value" | .lookup => "lookup" | .runtime => "runtime" | .internal => "internal"
  | .fuel => "fuel" | .alias => "alias"

def tmErr (e : Py.Err) : SExp := list [atom "err", atom (tmErrStr e)]

def tmAsErr : String → Option Py.Err
  | "value" => some .value | "runtime" => some .runtime | "lookup" => some .lookup | "internal" => some .internal
  | "syntax" => some .syntax
  | _ => none

/-! ## C01: `Engine.infer_type` -/

open Op.Weighted in
/-- how `WeightedDefuzzifier.infer_type` sees a term of the class `cls`: `isinstance(term, (Constant, Linear,
    Function))`, else `term.is_monotonic()` (the regenerated table; `Discrete` inherits `Term.is_monotonic`: false) -/
def tmKind (cls : String) : Option Kind :=
  if cls == "Constant" || cls == "Linear" || cls == "Function" then some .sugeno
  else if cls == "Discrete" then some .other
  else (Gen.isMonotonicTable.lookup cls).map (fun m => if m then .monotonic else .other)

open Op.Weighted in
/-- `(none)`, `(integral)`, `(weighted cls …)`: the defuzzifier of an output variable and the classes of its terms;
    `defuzzifier.infer_type(variable)` is the model `Op.Weighted.inferType` on terms of these kinds -/
def tmDefuzz : SExp → Option Op.Infer.Defuzz
  | list [atom "none"] => some .none
  | list [atom "integral"] => some .integral
  | list (atom "weighted" :: cs) => do
      let ks ← cs.mapM (fun c => do tmKind (← c.asAtom))
      let acts : List (Act String Rat) :=
        ks.map (fun k => (({ name := "", kind := k, mu := id, tsk := none } : WTerm String Rat), X.fin 0))
      pure (.weighted (match inferType acts with | .ok t => some t | .error _ => none))
  | _ => none

def tmEType : Op.Infer.EType → String
  | .unknown => "Unknown" | .mamdani => "Mamdani" | .larsen => "Larsen" | .takagiSugeno => "TakagiSugeno"
  | .tsukamoto => "Tsukamoto" | .inverseTsukamoto => "InverseTsukamoto" | .hybrid => "Hybrid"

/-! ## C01: `Variable.highest_membership`, `Variable.fuzzify` -/

/-- `(shape Cls (p …) h)`, `(const v)`, `(raise kind)` → what `term.membership(x)` returns or raises -/
def tmMembership (x : X Rat) : SExp → Option (Py.M (X Rat))
  | list [atom "shape", atom cls, ps, h] => do
      pure (.ok (← Gen.termMembership Fn.rat cls (← ps.asXs) (← h.asX) x))
  | list [atom "const", v] => do pure (.ok (← v.asX))
  | list [atom "raise", atom k] => do pure (.error (← tmAsErr k))
  | _ => none

def tmNum : X Rat → Num
  | .nan => .nan | .pinf => .pinf | .ninf => .ninf | .fin q => .fin q

/-- `Activated.fuzzy_value(padding)` of `Activated(term, degree)`: the constructor stores the degree through the
    setter (`nan_to_num`), the text is the sign, `Op.str` of the absolute value (three decimals), `/`, the name -/
def tmFuzzyValue (a : (String × Py.M (X Rat)) × X Rat) (padding : Bool) : String :=
  let d := X.nanToNum01 a.2
  let neg := X.lt d (.fin 0)
  let sign := if padding then (if neg then " - " else " + ") else (if neg then "-" else "")
  sign ++ Dec.render 3 (Dec.fmt 3 (tmNum (X.abs d))) ++ "/" ++ a.1.1

/-! ## C18: `FldExporter.write` on a recording stub

The model `Op.Fld.write` is parametric in what the function uses of NumPy and of the engine.  Here the engine is the log
of what was done to it and an array is a description of where it came from, so that the result shows the order of the
operations, which column went to which variable, in which state of the engine the blocks were read and what was stacked. -/

inductive WArr where
  | given (shape : List Nat)          -- the argument `input_values`, by its shape
  | col (i : Nat)                     -- `input_values[:, i]`
  | inputs (after : Nat)              -- `engine.input_values`, read after so many operations on the engine
  | outputs (after : Nat)             -- `engine.output_values`
  | empty                             -- `[]`
  | stacked (l : List WArr)           -- `np.hstack(values)`
deriving Inhabited

def wAtleast2d : WArr → WArr
  | .given [] => .given [1, 1]
  | .given [k] => .given [1, k]
  | a => a

def wNcols : WArr → Nat
  | .given s => s.getD 1 0
  | _ => 0

def wOps : Op.Fld.WriteOps (List SExp) WArr :=
  { atleast2d := wAtleast2d
    ncols := wNcols
    col := fun _ i => .col i
    restart := fun e => e ++ [atom "restart"]
    setInput := fun e name a => e ++ [list [atom "set", tmHex name, match a with | .col i => ofNat i | _ => atom "?"]]
    process := fun e => e ++ [atom "process"]
    inputBlock := fun e => .inputs e.length
    outputBlock := fun e => .outputs e.length
    emptyBlock := .empty
    hstack := .stacked }

def wBlock : WArr → SExp
  | .inputs k => list [atom "inputs", ofNat k]
  | .outputs k => list [atom "outputs", ofNat k]
  | .empty => list [atom "empty"]
  | _ => atom "?"

/-! ## C13: sessions in which a restart can raise (`Op.Session.restartR`) -/

open Op.Engine in
/-- do the names of a rule resolve in the engine?  (`Rule.load`: every variable of the antecedent is a variable of the
    engine that has a term, every term one of its terms, every hedge registered; every conclusion names an output
    variable that has a term and one of its terms) -/
def ruleLoadsIn (e : EngineD Rat) (r : RuleD Rat) : Bool :=
  let hedgesOk (hs : List String) : Bool := hs.all (fun h => h == "any" || (Gen.hedgeByName Fn.rat h).isSome)
  let rec ante : Ante → Bool
    | .prop v hs t =>
      hedgesOk hs &&
      (match e.outputs.find? (fun o => o.name == v), e.inputs.find? (fun i => i.name == v) with
       | some ov, _ => !ov.terms.isEmpty && t.all (fun t => ov.terms.any (fun tt => tt.name == t))
       | none, some iv => !iv.terms.isEmpty && t.all (fun t => iv.terms.any (fun tt => tt.name == t))
       | none, none => false)
    | .and l r => ante l && ante r
    | .or l r => ante l && ante r
  ante r.ante && !r.concls.isEmpty && r.concls.all (fun c =>
    hedgesOk c.hedges &&
    (match e.outputs.find? (fun o => o.name == c.var) with
     | some ov => !ov.terms.isEmpty && ov.terms.any (fun tt => tt.name == c.term)
     | none => false))

open Op.Engine in
/-- what `rule_block.reload_rules(engine)` does to a block: every rule ends loaded exactly when its own load succeeds
    (`C16.load_rules_loaded_iff`), and the call raises exactly when some rule fails (`C16.load_rules_raises_iff`) -/
def reloadIn (e : EngineD Rat) (b : Block Rat) : Except (Block Rat) (Block Rat) :=
  let b' := { b with rules := b.rules.map (fun r => { r with loaded := ruleLoadsIn e r }) }
  if b'.rules.all (·.loaded) then .ok b' else .error b'

/-- a command of `Op.Session`, or `(restart-r)`: `Engine.restart()` as `Op.Session.restartR` with `reloadIn` -/
inductive SessCmdR where
  | plain (c : Op.Session.Cmd Rat)
  | restartR

def sessCmdR : SExp → Option SessCmdR
  | list [atom "restart-r"] => some .restartR
  | e => (sessionCmd e).map .plain

def obsSx (o : Op.Session.Obs Rat) : SExp :=
  match o with
  | none => atom "error"
  | some vs => list (vs.map (fun v => match v with | some x => ofX x | none => atom "disabled"))

def tieModels : List SExp → Option SExp
  | [atom "infer-type", list outs, list blocks] => do
      let e : Op.Infer.Engine := { outputs := (← outs.mapM tmDefuzz), blocks := (← blocks.mapM (fun b => do pure ⟨← b.asBool⟩)) }
      match Op.Infer.inferType e with
      | .ok t => pure (atom (tmEType t))
      | .error k => pure (tmErr k)
  | [atom "highest-membership", x, list terms] => do
      let x ← x.asX
      let ts ← terms.mapM (tmMembership x)
      match Op.Infer.highestMembership (fun (p : Nat × Py.M (X Rat)) => p.2) (Py.enumerate ts) with
      | .ok none => pure (atom "none")
      | .ok (some (p, d)) => pure (list [atom "some", ofNat p.1, ofX d])
      | .error k => pure (tmErr k)
  | [atom "fuzzify", x, list terms] => do
      let x ← x.asX
      let ts ← terms.mapM (fun e => match e with
        | list [n, t] => do pure ((← tmText n), (← tmMembership x t))
        | _ => none)
      match Op.Infer.fuzzify (fun (p : String × Py.M (X Rat)) => p.2) tmFuzzyValue ts with
      | .ok s => pure (list [atom "ok", tmHex s])
      | .error k => pure (tmErr k)
  -- C10: `(whighest agg (act …) anyVector)`: `Aggregated.highest_activated_term()`; `anyVector`: some activation carries
  -- a batch of degrees (`np.size` of the degree of its group exceeds one)
  | [atom "whighest", atom agg, acts, vec] => do
      let aggf ← parseAgg agg
      let acts ← (← acts.asList).mapM parseAct
      let vec ← vec.asBool
      match Op.Weighted.highestActivated (fun _ => if vec then 2 else 1) aggf acts with
      | none => pure (atom "value-error")
      | some none => pure (atom "none")
      | some (some g) => pure (list [atom "some", atom g.1.name, ofX g.2])
  -- C18: `(fld-write (in…) (out…) inputValues outputValues headers sep (d…))`: names hex-encoded, `(d…)` the shape of
  -- the argument `input_values`
  | [atom "fld-write", list ins, list outs, iv, ov, hd, sep, list shape] => do
      let ins ← ins.mapM tmText
      let outs ← outs.mapM tmText
      match Op.Fld.write wOps ins outs (← iv.asBool) (← ov.asBool) (← hd.asBool) (← tmText sep) [] (.given (← shape.mapM asNat)) with
      | none => pure (atom "value-error")
      | some (e, out, header) =>
        pure (list [atom "ok", list e, (match out with | .stacked l => list (l.map wBlock) | _ => atom "?"), tmHex header])
  -- C13: `(session-r engine (cmd …))`: as `session` (one observation per `process`), plus `(restart-r)`: a restart whose
  -- `reload_rules` may raise - observation `(restart ok)` / `(restart raises)`; the session continues from the state
  -- the model `restartR` gives (on a raise: inputs NaN, rules of the failing block as the reload left them, outputs kept)
  | [atom "session-r", e, list cmds] => do
      let e ← engineD e
      let cmds ← cmds.mapM sessCmdR
      let (_, outs) := cmds.foldl (fun (acc : Op.Session.Sess Rat × List SExp) c =>
        match c with
        | .plain c =>
          let (s', o) := Op.Session.step Fn.rat acc.1 c
          (match c with
           | .process => (s', acc.2 ++ [obsSx o])
           | _ => (s', acc.2))
        | .restartR =>
          (match Op.Session.restartR (reloadIn acc.1.engine) acc.1 with
           | .ok s' => (s', acc.2 ++ [list [atom "restart", atom "ok"]])
           | .error s' => (s', acc.2 ++ [list [atom "restart", atom "raises"]]))) (Op.Session.fresh e, [])
      pure (list outs)
  -- C16 / C13: `(load-rules (var …) (text …))`: `RuleBlock.load_rules(engine)` on rules parsed from the texts:
  -- `(ok|raises (loaded …) ((index kind) …))`
  | [atom "load-rules", vars, list texts] => do
      let vs ← (← vars.asList).mapM asVarD
      let texts ← texts.mapM lgAsText
      let ps ← texts.mapM (fun t => match Op.ruleParse t with | .ok p => some p | .error _ => none)
      let eng : Op.EngineInfo := ⟨vs.map (·.info), Gen.Tables.hedgeKeys⟩
      let tbl := Gen.Tables.elements
      let r := Op.loadRules tbl eng ps
      -- the failures are (rule, class) in order: their positions are those of the rules whose own load fails
      let idx := (ps.zipIdx.filterMap (fun p => ((Op.ruleLoad tbl eng p.1 .unloaded).2.map (fun k => (p.2, k)))))
      if idx.map (·.2) != r.2.map (·.2) then none
      else pure (list [atom (if Op.loadRulesRaises tbl eng ps then "raises" else "ok"),
                       list (r.1.map (fun st => ofBool st.isLoaded)),
                       list (idx.map (fun p => list [ofNat p.1, atom p.2.str]))])
  -- C10: `Aggregated.range()` = `maximum - minimum` (the model of `C10.code_aggregatedRange`)
  | [atom "wrange", lo, hi] => do pure (ofX (X.sub (← hi.asX) (← lo.asX)))
  | _ => none

end Drv
