import FlVerif.Base.SExp
import FlVerif.Op.FllIO
import FlVerif.Op.FllText
import FlVerif.Op.PyRepr

/-! Driver commands of the export / import models (C14, C15).  Free text travels hex-encoded (`h…`). -/

namespace Drv
open SExp Op.FllIO

def hexVal (c : Char) : Option Nat :=
  if '0' ≤ c ∧ c ≤ '9' then some (c.toNat - '0'.toNat)
  else if 'a' ≤ c ∧ c ≤ 'f' then some (c.toNat - 'a'.toNat + 10)
  else none

def unhexBytes : List Char → Option (List UInt8)
  | [] => some []
  | a :: b :: r => do
    let x ← hexVal a
    let y ← hexVal b
    let rest ← unhexBytes r
    pure (UInt8.ofNat (16 * x + y) :: rest)
  | _ => none

/-- `h<hex of utf-8>` → text -/
def unhex (s : String) : Option String :=
  match s.toList with
  | 'h' :: r => do
    let bs ← unhexBytes r
    String.fromUTF8? (ByteArray.mk bs.toArray)
  | _ => none

def hexDigit (n : Nat) : Char := if n < 10 then Char.ofNat ('0'.toNat + n) else Char.ofNat ('a'.toNat + n - 10)

def hex (s : String) : String :=
  "h" ++ String.ofList (s.toUTF8.toList.flatMap (fun b => [hexDigit (b.toNat / 16), hexDigit (b.toNat % 16)]))

def asText : SExp → Option String
  | atom s => unhex s
  | _ => none

def asNum : SExp → Option Num
  | atom "nan" => some .nan
  | atom "inf" => some .pinf
  | atom "-inf" => some .ninf
  | atom "-0" => some .nzero
  | atom s => (parseRat s).map .fin
  | _ => none

def ofNum : Num → SExp
  | .nan => atom "nan" | .pinf => atom "inf" | .ninf => atom "-inf" | .nzero => atom "-0"
  | .fin q => atom (ratStr q)

def asNums (e : SExp) : Option (List Num) := do (← e.asList).mapM asNum
def ofNums (l : List Num) : SExp := list (l.map ofNum)
def ofText (s : String) : SExp := atom (hex s)
def asOptName : SExp → Option (Option String)
  | atom "none" => some none
  | atom s => some (some s)
  | _ => none
def ofOptName (o : Option String) : SExp := atom (o.getD "none")

def asBody : SExp → Option TermBody
  | list [atom "shape", ps, atom "none"] => do pure (.shape (← asNums ps) none)
  | list [atom "shape", ps, h] => do pure (.shape (← asNums ps) (some (← asNum h)))
  | list [atom "discrete", xy, h] => do pure (.discrete (← asNums xy) (← asNum h))
  | list [atom "linear", cs] => do pure (.linear (← asNums cs))
  | list [atom "function", f] => do pure (.function (← asText f))
  | _ => none

def ofBody : TermBody → SExp
  | .shape ps none => list [atom "shape", ofNums ps, atom "none"]
  | .shape ps (some h) => list [atom "shape", ofNums ps, ofNum h]
  | .discrete xy h => list [atom "discrete", ofNums xy, ofNum h]
  | .linear cs => list [atom "linear", ofNums cs]
  | .function f => list [atom "function", ofText f]

def asTerm : SExp → Option Term
  | list [atom "term", n, atom cls, b] => do pure ⟨← asText n, cls, ← asBody b⟩
  | _ => none
def ofTerm (t : Term) : SExp := list [atom "term", ofText t.name, atom t.cls, ofBody t.body]

def asDefuzz : SExp → Option (Option Defuzz)
  | atom "none" => some none
  | list [atom "integral", atom cls, r] => do pure (some (.integral cls (← r.asInt)))
  | list [atom "weighted", atom cls, atom ty] => some (some (.weighted cls ty))
  | _ => none
def ofDefuzz : Option Defuzz → SExp
  | none => atom "none"
  | some (.integral cls r) => list [atom "integral", atom cls, atom (toString r)]
  | some (.weighted cls ty) => list [atom "weighted", atom cls, atom ty]

def asActiv : SExp → Option (Option Activ)
  | atom "none" => some none
  | list [atom "plain", atom cls] => some (some (.plain cls))
  | list [atom "nth", atom cls, r, t] => do pure (some (.nth cls (← r.asInt) (← asNum t)))
  | list [atom "best", atom cls, r] => do pure (some (.best cls (← r.asInt)))
  | list [atom "threshold", atom cls, cmp, t] => do pure (some (.threshold cls (← asText cmp) (← asNum t)))
  | _ => none
def ofActiv : Option Activ → SExp
  | none => atom "none"
  | some (.plain cls) => list [atom "plain", atom cls]
  | some (.nth cls r t) => list [atom "nth", atom cls, atom (toString r), ofNum t]
  | some (.best cls r) => list [atom "best", atom cls, atom (toString r)]
  | some (.threshold cls cmp t) => list [atom "threshold", atom cls, ofText cmp, ofNum t]

def asRule : SExp → Option Rule
  | list [atom "rule", list a, list q, w] => do pure ⟨← a.mapM asText, ← q.mapM asText, ← asNum w⟩
  | _ => none
def ofRule (r : Rule) : SExp :=
  list [atom "rule", list (r.antecedent.map ofText), list (r.consequent.map ofText), ofNum r.weight]

def asVar : SExp → Option Var
  | list [atom "var", n, d, en, lo, hi, lr, list ts] => do
    pure { name := ← asText n, description := ← asText d, enabled := ← en.asBool, lo := ← asNum lo, hi := ← asNum hi,
           lockRange := ← lr.asBool, terms := ← ts.mapM asTerm }
  | _ => none
def ofVar (v : Var) : SExp :=
  list [atom "var", ofText v.name, ofText v.description, ofBool v.enabled, ofNum v.lo, ofNum v.hi, ofBool v.lockRange,
        list (v.terms.map ofTerm)]

def asOut : SExp → Option OutVar
  | list [atom "out", v, agg, df, dv, lp] => do
    pure { base := ← asVar v, aggregation := ← asOptName agg, defuzzifier := ← asDefuzz df, default := ← asNum dv,
           lockPrevious := ← lp.asBool }
  | _ => none
def ofOut (o : OutVar) : SExp :=
  list [atom "out", ofVar o.base, ofOptName o.aggregation, ofDefuzz o.defuzzifier, ofNum o.default, ofBool o.lockPrevious]

def asBlock : SExp → Option Block
  | list [atom "block", n, d, en, cj, dj, im, ac, list rs] => do
    pure { name := ← asText n, description := ← asText d, enabled := ← en.asBool, conjunction := ← asOptName cj,
           disjunction := ← asOptName dj, implication := ← asOptName im, activation := ← asActiv ac,
           rules := ← rs.mapM asRule }
  | _ => none
def ofBlock (b : Block) : SExp :=
  list [atom "block", ofText b.name, ofText b.description, ofBool b.enabled, ofOptName b.conjunction,
        ofOptName b.disjunction, ofOptName b.implication, ofActiv b.activation, list (b.rules.map ofRule)]

def asEngine : SExp → Option Engine
  | list [atom "engine", n, d, list is, list os, list bs] => do
    pure { name := ← asText n, description := ← asText d, inputs := ← is.mapM asVar, outputs := ← os.mapM asOut,
           blocks := ← bs.mapM asBlock }
  | _ => none
def ofEngine (e : Engine) : SExp :=
  list [atom "engine", ofText e.name, ofText e.description, list (e.inputs.map ofVar), list (e.outputs.map ofOut),
        list (e.blocks.map ofBlock)]

def asCfg (d tol : SExp) : Option Cfg := do pure ⟨← d.asNat, ← tol.asRat⟩

def ofErr : Err → SExp
  | .syntax => list [atom "err", atom "syntax"]
  | .value => list [atom "err", atom "value"]
  | .key => list [atom "err", atom "key"]

def ofExcept {α} (f : α → SExp) : Except Err α → SExp
  | .ok a => list [atom "ok", f a]
  | .error e => ofErr e

/-- import of a text: the loop of `FllImporter.engine` with each line lexed when the loop reaches it
    (= `lexText s >>= fllImport` whenever every line lexes; tied to the translated code by `C14.code_fllEngine`) -/
def importText (s : String) : Except Err Engine := importTextLazy s

def exportCmd : List SExp → Option SExp
  -- C14: whole engines
  | [atom "fll-export", d, tol, e] => do
      let c ← asCfg d tol
      pure (ofText (renderLines c.d (fllExport c (← asEngine e))))
  | [atom "fll-export-pinned", d, tol, e] => do
      let c ← asCfg d tol
      pure (ofText (renderLines c.d (fllExportPinned c (← asEngine e))))
  | [atom "fll-canon", d, tol, e] => do
      let c ← asCfg d tol
      pure (ofEngine (canon c (← asEngine e)))
  | [atom "fll-import", t] => do
      pure (ofExcept ofEngine (importText (← asText t)))
  | [atom "fll-cycle", d, tol, t] => do
      let c ← asCfg d tol
      pure (ofExcept (fun e => ofText (renderLines c.d (fllExport c e))) (importText (← asText t)))
  -- C14: component layers
  | [atom "fll-term-line", d, tol, t] => do
      let c ← asCfg d tol
      pure (ofText ((termLine (keepHeight c) c (← asTerm t)).render c.d))
  | [atom "fll-term-import", t] => do
      let ls ← (lexText (← asText t)).toOption
      match ls with
      | [l] => pure (ofExcept ofTerm (importTerm l.toks))
      | _ => none
  | [atom "fll-defuzz", d, tol, x] => do
      let c ← asCfg d tol
      pure (ofText (" ".intercalate ((defuzzToks (← asDefuzz x)).map (Tok.render c.d))))
  | [atom "fll-defuzz-import", t] => do
      pure (ofExcept ofDefuzz (importDefuzz (lexValue .defuzzifier (trimChars (← asText t).toList))))
  | [atom "fll-activ", d, tol, x] => do
      let c ← asCfg d tol
      pure (ofText (" ".intercalate ((activToks c (← asActiv x)).map (Tok.render c.d))))
  | [atom "fll-activ-import", t] => do
      pure (ofExcept ofActiv (importActiv (lexValue .activation (trimChars (← asText t).toList))))
  | [atom "fll-rule", d, tol, r] => do
      let c ← asCfg d tol
      pure (ofText (" ".intercalate ((ruleToks (keepHeight c) c (← asRule r)).map (Tok.render c.d))))
  | [atom "fll-rule-import", t] => do
      pure (ofExcept ofRule (importRule (lexValue .rule (trimChars (← asText t).toList))))
  | [atom "dec-fmt", d, x] => do
      pure (ofText (Dec.render (← d.asNat) (Dec.fmt (← d.asNat) (← asNum x))))
  | [atom "dec-parse", t] => do
      match Dec.parse (← asText t) with
      | some x => pure (ofNum x)
      | none => pure (atom "none")
  | _ => none

/-! ### C15: object trees and constructor-call trees -/

open Op.PyRepr in
def asAtomVal : SExp → Option Atom
  | atom "none" => some .none
  | list [atom "num", x] => do pure (.num (← asNum x))
  | list [atom "int", z] => do pure (.int (← z.asInt))
  | list [atom "str", t] => do pure (.str (← asText t))
  | list [atom "bool", b] => do pure (.bool (← b.asBool))
  | list [atom "enum", t] => do pure (.enum (← asText t))
  | list [atom "rule", r] => do pure (.rule (← asRule r))
  | list [atom "opaque", atom w] => some (.other w)
  | _ => none

open Op.PyRepr in
partial def asVal : SExp → Option Val
  | list (atom "list" :: kids) => do pure (.node .list (← kids.mapM asVal))
  | list (atom "array" :: kids) => do pure (.node .array (← kids.mapM asVal))
  | list (atom "dict" :: list keys :: kids) => do pure (.node (.dict (← keys.mapM asText)) (← kids.mapM asVal))
  | list (atom "obj" :: atom cls :: list names :: kids) => do
      pure (.node (.obj cls (← names.mapM asAtom)) (← kids.mapM asVal))
  | e => (asAtomVal e).map .atom

open Op.PyRepr in
def ofAtomVal : Atom → SExp
  | .none => atom "none"
  | .num x => list [atom "num", ofNum x]
  | .int z => list [atom "int", atom (toString z)]
  | .str s => list [atom "str", ofText s]
  | .bool b => list [atom "bool", ofBool b]
  | .enum s => list [atom "enum", ofText s]
  | .rule r => list [atom "rule", ofRule r]
  | .other w => list [atom "opaque", atom w]

open Op.PyRepr in
partial def ofVal : Val → SExp
  | .atom a => ofAtomVal a
  | .node .list kids => list (atom "list" :: kids.map ofVal)
  | .node .array kids => list (atom "array" :: kids.map ofVal)
  | .node (.dict keys) kids => list (atom "dict" :: list (keys.map ofText) :: kids.map ofVal)
  | .node (.obj cls names) kids => list (atom "obj" :: atom cls :: list (names.map atom) :: kids.map ofVal)

open Op.PyRepr in
partial def ofSrc (d : Nat) : Src → SExp
  | .atom (.lit pfx a) => list [atom "lit", ofText pfx, ofAtomVal a]
  | .atom (.rule pfx toks) => list [atom "rulecreate", ofText pfx, ofText (" ".intercalate (toks.map (Tok.render d)))]
  | .atom .invalid => atom "invalid"
  | .node .list kids => list (atom "list" :: kids.map (ofSrc d))
  | .node (.array pfx) kids => list (atom "array" :: ofText pfx :: kids.map (ofSrc d))
  | .node (.dict keys) kids => list (atom "dict" :: list (keys.map ofText) :: kids.map (ofSrc d))
  | .node (.call pfx cls kws) kids =>
    list (atom "call" :: ofText pfx :: atom cls :: list (kws.map (fun k => atom (k.getD "_"))) :: kids.map (ofSrc d))

open Op.PyRepr in
def asEnv (al d tol : SExp) : Option Env := do pure ⟨← asText al, ← asCfg d tol⟩

open Op.PyRepr in
def reprCmd : List SExp → Option SExp
  | [atom "py-repr", al, d, tol, v] => do
      let env ← asEnv al d tol
      pure (ofSrc env.cfg.d (asConstructor env (← asVal v)))
  | [atom "py-eval", al, d, tol, v] => do
      let env ← asEnv al d tol
      match evalCall (asConstructor env (← asVal v)) with
      | some r => pure (list [atom "ok", ofVal r])
      | none => pure (atom "none")
  | [atom "py-view", al, d, tol, v] => do
      let env ← asEnv al d tol
      pure (ofVal (view env (← asVal v)))
  | _ => none

end Drv
