import FlVerif.Base.SExp
import FlVerif.Base.FnRat
import FlVerif.Gen.Tables
import FlVerif.Gen.NormGen
import FlVerif.Gen.HedgeGen
import FlVerif.Gen.TermGen
import FlVerif.Op.FunctionTerm
import FlVerif.Op.RuleLoad
import FlVerif.Op.Degree

/-! Driver commands of the language group (C17, C06, C16): formulas, antecedents, rules. -/

namespace Drv
open SExp Lang Op

def lgHexVal (c : Char) : Option Nat :=
  if '0' ≤ c && c ≤ '9' then some (c.toNat - '0'.toNat)
  else if 'a' ≤ c && c ≤ 'f' then some (c.toNat - 'a'.toNat + 10)
  else none

def lgUnhexBytes : List Char → Option (List UInt8)
  | [] => some []
  | a :: b :: rest => do
    let x ← lgHexVal a
    let y ← lgHexVal b
    let r ← lgUnhexBytes rest
    pure (UInt8.ofNat (16 * x + y) :: r)
  | _ => none

/-- free text travels as `h<hex of utf-8>` -/
def lgUnhex (s : String) : Option String :=
  match s.toList with
  | 'h' :: cs => do
    let bs ← lgUnhexBytes cs
    String.fromUTF8? ⟨bs.toArray⟩
  | _ => none

def lgHexDigit (n : Nat) : Char := if n < 10 then Char.ofNat (48 + n) else Char.ofNat (87 + n)
def tohex (s : String) : String :=
  "h" ++ String.ofList (s.toUTF8.toList.flatMap fun b => [lgHexDigit (b.toNat / 16), lgHexDigit (b.toNat % 16)])

def lgAsText : SExp → Option String
  | atom s => lgUnhex s
  | _ => none

def asBindings (e : SExp) : Option (List (String × X Rat)) := do
  (← e.asList).mapM fun kv =>
    match kv with
    | list [k, v] => do pure (← lgAsText k, ← v.asX)
    | _ => none

/-- words of free text go out hex-encoded (they may contain parentheses) -/
def wordsSx (ws : List String) : SExp := list (ws.map fun w => atom (tohex w))

partial def exprSx : Expr → SExp
  | .leaf s => list [atom "leaf", atom s]
  | .words ws => list (atom "words" :: ws.map atom)
  | .app0 f => list [atom f.name]
  | .app1 f x => list [atom f.name, exprSx x]
  | .app2 f l r => list [atom f.name, exprSx l, exprSx r]

def valSx : Val Rat → SExp
  | .num x => list [atom "num", ofX x]
  | .tv b => list [atom "tv", ofBool b]
  | .unk => atom "unk"

def errSx (k : ErrKind) : SExp := list [atom "err", atom k.str]

/-- `Fn.rat` with a guard against astronomically large exponentials (anything above 2^5000 is an overflow for the
    harness anyway); keeps the driver total in time on nested `exp`/`^` -/
def gexp (q : Rat) : Rat := if q > 4000 then (2 : Rat) ^ 5800 else FnRat.exp q
def FnG : Fn Rat :=
  { Fn.rat with
    exp := gexp
    pow := fun a b => if a = 0 then (if b = 0 then 1 else 0) else gexp (b * FnRat.log a) }

def asRow (e : SExp) : Option (List (String × X Rat) × X Rat) :=
  match e with
  | list [ev, x] => do pure (← asBindings ev, ← x.asX)
  | _ => none

/-! ## engines for the rule commands -/

structure TermD where
  name : String
  cls : String
  params : List (X Rat)
  height : X Rat

structure VarD where
  info : VarInfo
  terms : List TermD
  agg : Option String
  acts : List (String × X Rat)

def asTermD : SExp → Option TermD
  | list [n, atom cls, ps, h] => do pure ⟨← lgAsText n, cls, ← ps.asXs, ← h.asX⟩
  | _ => none

def asVarD : SExp → Option VarD
  | list [n, atom kind, en, ts, atom agg, acts] => do
      let name ← lgAsText n
      let terms ← (← ts.asList).mapM asTermD
      let acts ← asBindings acts
      pure ⟨⟨name, kind == "out", ← en.asBool, terms.map (·.name)⟩, terms,
            if agg == "none" then none else some agg, acts⟩
  | _ => none

def findVarD (vs : List VarD) (n : String) : Option VarD := vs.reverse.find? (·.info.name == n)

def stageStr : Stage → String
  | .parse => "parse" | .ante => "ante" | .cons => "cons"

def concSx (c : Conclusion) : SExp :=
  list [atom (tohex c.v), wordsSx c.hs, atom (match c.t with | some t => tohex t | none => "none")]

/-- the evaluation context of one input row; `none` when a term class or operator is unknown to the regenerated model.
    `cleared`: the variables whose terms were removed after the rule was loaded (their objects are false in Python) -/
def mkCtx (vs : List VarD) (cleared : List String) (conj disj : Option String) (row : List (String × X Rat)) :
    Option (DegCtx Rat) := do
  let cj ← match conj with
    | none => some none
    | some n => (Gen.normByName (α := Rat) n).map some
  let dj ← match disj with
    | none => some none
    | some n => (Gen.normByName (α := Rat) n).map some
  pure {
    hasTerms := fun v => !cleared.contains v && ((findVarD vs v).map (fun d => !d.info.terms.isEmpty)).getD false
    enabled := fun v => ((findVarD vs v).map (·.info.enabled)).getD false
    isOutput := fun v => ((findVarD vs v).map (·.info.isOutput)).getD false
    membership := fun v t =>
      match findVarD vs v with
      | none => .nan
      | some vd =>
        match vd.terms.reverse.find? (·.name == t) with
        | none => .nan
        | some td => (Gen.termMembership Fn.rat td.cls td.params td.height ((lookupLast row v).getD .nan)).getD .nan
    outDegree := fun v t =>
      match findVarD vs v with
      | none => .nan
      | some vd =>
        let agg := ((vd.agg.bind (Gen.normByName (α := Rat))).getD (Gen.Norm.UnboundedSum))
        aggregatedDegree agg vd.acts t
    hedge := fun h x => ((Gen.hedgeByName Fn.rat h).map (· x)).getD .nan
    conj := cj
    disj := dj }

def lgOptName : SExp → Option (Option String)
  | atom "none" => some none
  | atom s => some (some s)
  | _ => none

def lang : List SExp → Option SExp
  -- (c17 formula fvars ((evars x) …)): load result, then one value per row
  | [atom "c17", formula, fvars, rows] => do
      let text ← lgAsText formula
      let fv ← asBindings fvars
      let rows ← (← rows.asList).mapM asRow
      let tbl := Gen.Tables.elements
      let toks := Op.formatInfix tbl text
      match Op.parseFormula tbl toks with
      | .error k => pure (list [atom "err", atom k.str])
      | .ok e =>
        let pf := list ((e.pfx).map (fun t => atom t.str))
        let vals := rows.map fun (ev, x) =>
          match Op.functionMembership FnG tbl text fv ev x with
          | .error k => errSx k
          | .ok (_, v) => valSx v
        pure (list [atom "ok", pf, exprSx e, list vals])
  | [atom "float", t] => do
      match parseFloat (← lgAsText t) with
      | some x => pure (ofX x)
      | none => pure (atom "none")
  -- (rule text (vars…) (conj disj) (rows…) [(cleared…)]): Rule.create(text, engine), then - after the terms of the variables
  -- `cleared` were removed - activate_with per row
  | atom "rule" :: text :: vars :: list [cj, dj] :: rows :: more => do
      let cleared ← match more with
        | [] => some []
        | [cl] => do (← cl.asList).mapM lgAsText
        | _ => none
      let text ← lgAsText text
      let vs ← (← vars.asList).mapM asVarD
      let rows ← (← rows.asList).mapM asBindings
      let conj ← lgOptName cj
      let disj ← lgOptName dj
      let eng : EngineInfo := ⟨vs.map (·.info), Gen.Tables.hedgeKeys⟩
      match ruleCreate Gen.Tables.elements eng text with
      | .error (k, st) => pure (list [atom "err", atom k.str, atom (stageStr st)])
      | .ok (p, a, cs) =>
        let degs ← rows.mapM fun row => do
          let c ← mkCtx vs cleared conj disj row
          pure (match activateWith c p.weight a with
            | .ok d => ofX d
            | .error k => errSx k)
        pure (list [atom "ok", wordsSx a.pfx, wordsSx a.infixWords, list (cs.map concSx), ofX p.weight, list degs])
  | _ => none

end Drv
