import FlVerif.Base.SExp
import FlVerif.Base.FnRat
import FlVerif.Gen.Tables
import FlVerif.Op.FunctionTerm

/-! Driver commands of the language group (C17, C06, C16): formulas, antecedents, rules. -/

namespace Drv
open SExp Lang

def hexVal (c : Char) : Option Nat :=
  if '0' ≤ c && c ≤ '9' then some (c.toNat - '0'.toNat)
  else if 'a' ≤ c && c ≤ 'f' then some (c.toNat - 'a'.toNat + 10)
  else none

def unhexBytes : List Char → Option (List UInt8)
  | [] => some []
  | a :: b :: rest => do
    let x ← hexVal a
    let y ← hexVal b
    let r ← unhexBytes rest
    pure (UInt8.ofNat (16 * x + y) :: r)
  | _ => none

/-- free text travels as `h<hex of utf-8>` -/
def unhex (s : String) : Option String :=
  match s.toList with
  | 'h' :: cs => do
    let bs ← unhexBytes cs
    String.fromUTF8? ⟨bs.toArray⟩
  | _ => none

def asText : SExp → Option String
  | atom s => unhex s
  | _ => none

def asBindings (e : SExp) : Option (List (String × X Rat)) := do
  (← e.asList).mapM fun kv =>
    match kv with
    | list [k, v] => do pure (← asText k, ← v.asX)
    | _ => none

partial def exprSx : Expr → SExp
  | .leaf s => list [atom "leaf", atom s]
  | .app0 f => list [atom f.name]
  | .app1 f x => list [atom f.name, exprSx x]
  | .app2 f l r => list [atom f.name, exprSx l, exprSx r]

def valSx : Val Rat → SExp
  | .num x => list [atom "num", ofX x]
  | .tv b => list [atom "tv", ofBool b]
  | .unk => atom "unk"

def errSx (k : ErrKind) : SExp := list [atom "err", atom k.str]

/-- `Fn.rat` with a guard against astronomically large exponentials (anything above 2^5000 is an overflow for the
    harness anyway); keeps the driver total in time on nested `exp`/`^` -/
def gexp (q : Rat) : Rat := if q > 4000 then (2 : Rat) ^ 5800 else FnRat.exp q
def FnG : Fn Rat :=
  { Fn.rat with
    exp := gexp
    pow := fun a b => if a = 0 then (if b = 0 then 1 else 0) else gexp (b * FnRat.log a) }

def asRow (e : SExp) : Option (List (String × X Rat) × X Rat) :=
  match e with
  | list [ev, x] => do pure (← asBindings ev, ← x.asX)
  | _ => none

def lang : List SExp → Option SExp
  -- (c17 formula fvars ((evars x) …)): load result, then one value per row
  | [atom "c17", formula, fvars, rows] => do
      let text ← asText formula
      let fv ← asBindings fvars
      let rows ← (← rows.asList).mapM asRow
      let tbl := Gen.Tables.elements
      let toks := Op.formatInfix tbl text
      match Op.parseFormula tbl toks with
      | .error k => pure (list [atom "err", atom k.str])
      | .ok e =>
        let pf := list ((e.pfx).map (fun t => atom t.str))
        let vals := rows.map fun (ev, x) =>
          match Op.functionMembership FnG tbl text fv ev x with
          | .error k => errSx k
          | .ok (_, v) => valSx v
        pure (list [atom "ok", pf, exprSx e, list vals])
  | [atom "float", t] => do
      match parseFloat (← asText t) with
      | some x => pure (ofX x)
      | none => pure (atom "none")
  | _ => none

end Drv
