import FlVerif.Base.SExp
import FlVerif.Base.FnRat
import FlVerif.Gen.HedgeGen
import FlVerif.Op.Activation
import FlVerif.Op.Consequent
import FlVerif.Op.IsReady

/-! Driver commands for rule activation (C08), consequents (C07) and readiness (C19). -/

namespace Drv
open SExp

/-! ### C07 -/

def parseConcl (e : SExp) : Option (Spec.Consequent.Concl (X Rat)) :=
  match e with
  | list [atom var, en, list hs, atom term] => do
    let en ← en.asBool
    let hs ← hs.mapM (fun h => do Gen.hedgeByName Fn.rat (← h.asAtom))
    pure { var := var, enabled := en, hedges := hs, term := term }
  | _ => none

def ofAct (a : Spec.Consequent.Act (X Rat) String) : SExp := list [atom a.var, atom a.term, ofX a.degree, atom a.impl]

def posX (d : X Rat) : Bool := X.lt (.fin 0) d

/-! ### C08 -/

def parseRule (e : SExp) : Option (Spec.Activation.Rule Rat) :=
  match e with
  | list (l :: en :: v :: d :: ad :: tr :: _) => do
    pure { loaded := ← l.asBool, enabled := ← en.asBool, vector := ← v.asBool, degree := ← d.asX,
           actDegree := ← ad.asX, triggered := ← tr.asBool }
  | _ => none

def parseMethod (e : SExp) : Option (Spec.Activation.Method Rat) :=
  match e with
  | list [atom "General"] => some .general
  | list [atom "First", n, t] => do pure (.first (← n.asInt).toNat (← t.asX))
  | list [atom "Last", n, t] => do pure (.last (← n.asInt).toNat (← t.asX))
  | list [atom "Highest", n] => do pure (.highest (← n.asInt).toNat)
  | list [atom "Lowest", n] => do pure (.lowest (← n.asInt).toNat)
  | list [atom "Proportional"] => some .proportional
  | list [atom "Threshold", atom c, t] => do pure (.threshold (← Spec.Activation.Comparator.ofSymbol c) (← t.asX))
  | _ => none

def ofOutcome (o : Spec.Activation.Outcome Rat) : SExp :=
  list [atom "ok", list (o.rules.map (fun r => list [ofX r.actDegree, ofBool r.triggered])),
        list (o.fires.map (fun f => list [ofNat f.1, ofX f.2]))]

/-- conclusions of rule `i` (7th field of a rule) -/
def conclsOf (rules : List SExp) (i : Nat) : Option (List (Spec.Consequent.Concl (X Rat))) :=
  match rules[i]? with
  | some (list [_, _, _, _, _, _, list cs]) => cs.mapM parseConcl
  | _ => none

/-! ### C19 -/

def parseDefuzz : SExp → Option Op.Ready.DefuzzKind
  | atom "none" => some .none | atom "integral" => some .integral | atom "weighted" => some .weighted
  | _ => none

def parseROutput : SExp → Option Op.Ready.Output
  | list [en, ht, df, ag] => do
    pure { enabled := ← en.asBool, hasTerms := ← ht.asBool, defuzz := ← parseDefuzz df, aggr := ← ag.asBool }
  | _ => none

def parseRRule : SExp → Option Op.Ready.Rule
  | list [l, en, ta, tor, tra, tro, list cs] => do
    pure { loaded := ← l.asBool, enabled := ← en.asBool, textAnd := ← ta.asBool, textOr := ← tor.asBool,
           treeAnd := ← tra.asBool, treeOr := ← tro.asBool, concls := ← cs.mapM asNat }
  | _ => none

def parseRBlock : SExp → Option Op.Ready.Block
  | list [en, c, d, i, a, list rs] => do
    pure { enabled := ← en.asBool, conj := ← c.asBool, disj := ← d.asBool, impl := ← i.asBool, act := ← a.asBool,
           rules := ← rs.mapM parseRRule }
  | _ => none

def ofReadyErr : Op.Ready.Err → SExp
  | .noInputs => atom "noInputs" | .noOutputs => atom "noOutputs" | .noBlocks => atom "noBlocks"
  | .noTerms o => list [atom "noTerms", ofNat o] | .noDefuzzifier o => list [atom "noDefuzzifier", ofNat o]
  | .noAggregation o => list [atom "noAggregation", ofNat o] | .noRules b => list [atom "noRules", ofNat b]
  | .noConjunction b => list [atom "noConjunction", ofNat b] | .noDisjunction b => list [atom "noDisjunction", ofNat b]
  | .noImplication b => list [atom "noImplication", ofNat b]

def ofProcErr : Option Op.Ready.ProcErr → SExp
  | none => atom "none"
  | some (.activation b) => list [atom "activation", ofNat b]
  | some (.conjunction b) => list [atom "conjunction", ofNat b]
  | some (.disjunction b) => list [atom "disjunction", ofNat b]
  | some (.defuzzifier o) => list [atom "defuzzifier", ofNat o]
  | some (.aggregation o) => list [atom "aggregation", ofNat o]
  | some (.implication o) => list [atom "implication", ofNat o]

def rules : List SExp → Option SExp
  -- C07: `Consequent.modify` as written / the specification / `Rule.trigger`
  | [atom "modify", d, atom impl, list cs] => do
      let cs ← cs.mapM parseConcl
      pure (list ((Op.Consequent.modifyPinned X.nanToNum01 impl (← d.asX) cs).map ofAct))
  | [atom "modify-spec", d, atom impl, list cs] => do
      let cs ← cs.mapM parseConcl
      pure (list ((Spec.Consequent.contrib X.nanToNum01 (← d.asX) impl cs).map ofAct))
  | [atom "trigger", en, d, atom impl, list cs] => do
      let cs ← cs.mapM parseConcl
      let r := Op.Consequent.trigger X.nanToNum01 posX (← en.asBool) (← d.asX) impl cs
      pure (list [ofBool r.1, list (r.2.map ofAct)])
  | [atom "trigger-repaired", en, d, atom impl, list cs] => do
      let cs ← cs.mapM parseConcl
      let r := Op.Consequent.triggerRepaired X.nanToNum01 posX (← en.asBool) (← d.asX) impl cs
      pure (list [ofBool r.1, list (r.2.map ofAct)])
  | [atom "consequent-load", list outs, list hs, list toks] => do
      let outs ← outs.mapM (fun o => match o with
        | list [atom n, list ts] => do pure (n, ← ts.mapM asAtom)
        | _ => none)
      let hs ← hs.mapM asAtom
      let toks ← toks.mapM asAtom
      match Op.Consequent.load outs hs toks with
      | some cs => pure (list (atom "ok" :: cs.map (fun c =>
          list [atom c.var, list (c.hedges.map atom), atom (c.term.getD "?")])))
      | none => pure (list [atom "error", atom "syntax"])
  -- C08: the loops of activation.py / the specification
  | [atom "activate", m, list rs] => do
      let m ← parseMethod m
      let rs ← rs.mapM parseRule
      match Op.Activation.activate m rs with
      | .ok o => pure (ofOutcome o)
      | .error _ => pure (list [atom "error", atom "value"])
  | [atom "activate-spec", m, list rs] => do
      let m ← parseMethod m
      let rs ← rs.mapM parseRule
      pure (ofOutcome (Spec.Activation.activate m rs))
  -- C08 + C07 composed: `RuleBlock.activate` down to the fuzzy outputs
  | [atom "block", m, atom impl, list rs] => do
      let m ← parseMethod m
      let rules ← rs.mapM parseRule
      match Op.Activation.activate m rules with
      | .ok o =>
        let acts ← o.fires.mapM (fun f => do
          let cs ← conclsOf rs f.1
          pure ((Op.Consequent.modifyPinned X.nanToNum01 impl f.2 cs).map ofAct))
        pure (list [atom "ok", list (o.rules.map (fun r => list [ofX r.actDegree, ofBool r.triggered])),
                    list acts.flatten])
      | .error _ => pure (list [atom "error", atom "value"])
  -- C19
  | [atom "ready", n, list outs, list blocks] => do
      let e : Op.Ready.Engine := { inputs := ← n.asNat, outputs := ← outs.mapM parseROutput, blocks := ← blocks.mapM parseRBlock }
      pure (list [list ((Op.Ready.isReady e).map ofReadyErr), list ((Op.Ready.isReadyPinned e).map ofReadyErr),
                  ofProcErr (Op.Ready.processError e)])
  | _ => none

end Drv
