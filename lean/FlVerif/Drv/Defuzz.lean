import FlVerif.Base.SExp
import FlVerif.Base.FnRat
import FlVerif.Gen.NormGen
import FlVerif.Gen.TermGen
import FlVerif.Op.Integral
import FlVerif.Op.Weighted

/-! Driver commands for the defuzzifiers (C09 integral, C10 weighted): the `Op` models evaluated at ℚ, with the
    term memberships / Tsukamoto inverses and the norms taken from the regenerated definitions. -/

namespace Drv
open SExp

/-! ## C09 -/

/-- `(Cls (p …) h)` -> membership function of a shape term -/
def shapeMu (spec : SExp) : Option (X Rat → X Rat) := do
  match spec with
  | list [atom cls, ps, h] =>
      let ps ← ps.asXs
      let h ← h.asX
      -- reject unknown classes / wrong arity up front
      let _ ← Gen.termMembership Fn.rat cls ps h (.fin 0)
      pure (fun v => (Gen.termMembership Fn.rat cls ps h v).getD .nan)
  | _ => none

/-- `((Cls (p …) h) implication|none (d …))`; `none` inside = missing implication operator -/
def parseActivated (e : SExp) : Option (Option (Op.Integral.Activated Rat)) := do
  match e with
  | list [spec, atom impl, ds] =>
      let mu ← shapeMu spec
      let ds ← ds.asXs
      if impl == "none" then pure none
      else
        let f ← Gen.normByName (α := Rat) impl
        pure (some { mu := mu, degrees := ds, implication := f })
  | _ => none

def finRow (l : List (X Rat)) : Option (List Rat) := l.mapM X.toFin?

def absQ (q : Rat) : Rat := if q < 0 then -q else q

/-- tie information of the Bisector on one row of finite memberships: the sample points whose exact score is
    within `eps` of the minimum, split into classes of equal cumulative membership (points of one class cannot be
    told apart by any evaluation order) -/
def bisectorTies (eps : Rat) (y : List Rat) : List (List Nat) :=
  let cum := (y.foldl (fun (acc : List Rat × Rat) v => ((acc.2 + v) :: acc.1, acc.2 + v)) ([], 0)).1.reverse
  let total := cum.getLastD 0
  if total == 0 then []
  else
    let sc := cum.map (fun c => absQ (c / total - 1 / 2))
    let m := sc.foldl min (sc.headD 0)
    let sel := ((List.range sc.length).zip (sc.zip cum)).filter (fun t => t.2.1 ≤ m + eps)
    -- consecutive selected indices with the same cumulative value form one class
    let step (acc : List (List Nat × Rat)) (t : Nat × Rat × Rat) : List (List Nat × Rat) :=
      match acc with
      | (cls, c) :: rest => if c == t.2.2 then (t.1 :: cls, c) :: rest else ([t.1], t.2.2) :: acc
      | [] => [([t.1], t.2.2)]
    ((sel.foldl step []).map (fun p => p.1.reverse)).reverse

/-- (exact plateau, plateau within eps) of the positive maximum -/
def maximaTies (eps : Rat) (y : List Rat) : List Nat × List Nat :=
  let m := y.foldl max (y.headD 0)
  if m ≤ 0 then ([], [])
  else
    let idx := (List.range y.length).zip y
    ((idx.filter (fun t => t.2 == m)).map Prod.fst, (idx.filter (fun t => t.2 > 0 && t.2 ≥ m - eps)).map Prod.fst)

def ofNats (l : List Nat) : SExp := list (l.map ofNat)

def integralRow (eps : Rat) (x y : List (X Rat)) : SExp :=
  let res := [Op.Integral.centroid x y, Op.Integral.bisector x y, Op.Integral.som x y, Op.Integral.mom x y,
              Op.Integral.lom x y]
  match finRow (Op.Integral.bcastRow x.length y) with
  | some yq =>
      let (t0, te) := maximaTies eps yq
      list [ofXs res, list ((bisectorTies eps yq).map ofNats), ofNats t0, ofNats te]
  | none => list [ofXs res, list [], list [], list []]

/-! ## C10 -/

open Op.Weighted in
/-- `(name (Constant v) | (Linear (c …) (in …)) | (Poly (c0 c1 …)) | (Cls (p …) h))` -> the term as the weighted
    defuzzifiers see it; `Poly` is a `Function` term whose formula is a polynomial in the reserved variable `x` -/
def parseWTerm (name : String) (spec : SExp) : Option (WTerm String Rat) := do
  match spec with
  | list [atom "Constant", v] =>
      let v ← v.asX
      pure { name := name, kind := .sugeno, mu := fun _ => v, tsk := none }
  | list [atom "Linear", cs, ins] =>
      let cs ← cs.asXs
      let ins ← ins.asXs
      pure { name := name, kind := .sugeno, mu := fun _ => linear cs ins, tsk := none }
  | list [atom "Poly", cs] =>
      let cs ← cs.asXs
      pure { name := name, kind := .sugeno,
             mu := fun w => cs.foldr (fun c acc => X.add c (X.mul w acc)) (.fin 0), tsk := none }
  | list [atom cls, ps, h] =>
      let ps ← ps.asXs
      let h ← h.asX
      let _ ← Gen.termMembership Fn.rat cls ps h (.fin 0)
      let mono ← (Gen.isMonotonicTable.lookup cls)
      let tsk : Option (X Rat → X Rat) :=
        if Gen.tsukamotoOverrides.contains cls then
          some (fun y => (Gen.termTsukamoto Fn.rat cls ps h y).getD .nan)
        else none
      pure { name := name, kind := if mono then .monotonic else .other,
             mu := fun v => (Gen.termMembership Fn.rat cls ps h v).getD .nan, tsk := tsk }
  | _ => none

open Op.Weighted in
def parseAct (e : SExp) : Option (Act String Rat) := do
  match e with
  | list [atom name, spec, d] =>
      let t ← parseWTerm name spec
      -- the constructor of `Activated` stores the degree through the setter
      pure (t, setDegree (← d.asX))
  | _ => none

def parseType : String → Option Op.Weighted.WType
  | "Automatic" => some .automatic
  | "TakagiSugeno" => some .takagiSugeno
  | "Tsukamoto" => some .tsukamoto
  | _ => none

def parseAgg (name : String) : Option (Option (X Rat → X Rat → X Rat)) :=
  if name == "none" then some none else (Gen.normByName (α := Rat) name).map some

def ofResult : Except Op.Weighted.Err (X Rat) → SExp
  | .ok v => ofX v
  | .error .typeError => atom "type-error"
  | .error .runtimeError => atom "runtime-error"

def integral (x : List (X Rat)) (agg : String) (eps : Rat) (acts : List SExp) : Option SExp := do
  let acts ← acts.mapM parseActivated
  let aggf ← parseAgg agg
  -- `Aggregated.membership`: terms without an aggregation operator raise ValueError; so does an activated
  -- term without implication operator
  if acts.isEmpty then pure (list [integralRow eps x [.fin 0]])
  else match aggf, acts.mapM id with
    | some f, some acts =>
        let B := acts.foldl (fun b a => max b a.degrees.length) 1
        let Y := Op.Integral.aggregatedMat f acts B x
        pure (list (Y.map (integralRow eps x)))
    | _, _ => pure (atom "value-error")

def defuzz : List SExp → Option SExp
  | [atom "midpoints", lo, hi, r] => do
      pure (ofXs (Op.Integral.midpoints (← lo.asX) (← hi.asX) (← r.asNat)))
  | [atom "idefuzz", lo, hi, r, atom agg, eps, acts] => do
      integral (Op.Integral.midpoints (← lo.asX) (← hi.asX) (← r.asNat)) agg (← eps.asRat) (← acts.asList)
  | [atom "idefuzzx", xs, atom agg, eps, acts] => do
      -- the sample points as the implementation computed them (floats, exact)
      integral (← xs.asXs) agg (← eps.asRat) (← acts.asList)
  | [atom "wdefuzz", atom which, atom ty, atom agg, acts] => do
      let ty ← parseType ty
      let aggf ← parseAgg agg
      let acts ← (← acts.asList).mapM parseAct
      match which with
      | "Average" => pure (ofResult (Op.Weighted.weightedAverage ty aggf acts))
      | "Sum" => pure (ofResult (Op.Weighted.weightedSum ty aggf acts))
      | "AveragePinned" => pure (ofResult (Op.Weighted.weightedAveragePinned ty aggf acts))
      | "SumPinned" => pure (ofResult (Op.Weighted.weightedSumPinned ty aggf acts))
      | _ => none
  | [atom "wgroups", atom agg, acts] => do
      let aggf ← parseAgg agg
      let acts ← (← acts.asList).mapM parseAct
      pure (list ((Op.Weighted.groupedTerms aggf acts).map (fun g => list [atom g.1.name, ofX g.2])))
  | [atom "winfer", acts] => do
      let acts ← (← acts.asList).mapM parseAct
      match Op.Weighted.inferType acts with
      | .ok .automatic => pure (atom "Automatic")
      | .ok .takagiSugeno => pure (atom "TakagiSugeno")
      | .ok .tsukamoto => pure (atom "Tsukamoto")
      | .error _ => pure (atom "type-error")
  | _ => none

end Drv
