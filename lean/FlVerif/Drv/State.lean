import FlVerif.Base.SExp
import FlVerif.Op.Cascade
import FlVerif.Op.Settings

/-! Driver commands for the state-machine models (C12 cascade, …). -/

namespace Drv
open SExp

def cascadeOp : SExp → Option (Op.CascadeOp Rat)
  | list (atom "defuzz" :: vs) => do pure (.defuzz (some (← vs.mapM asX)))
  | list [atom "raise"] => some (.defuzz none)
  | list [atom "clear"] => some .clear
  | list [atom "enable", b] => do pure (.setEnabled (← b.asBool))
  | _ => none

/-- `(cascade (lockPrev lockRange dflt lo hi) (op …))` → per step `((value…) previous)` -/
def cascade : List SExp → Option SExp
  | [atom "cascade", list [lp, lr, d, lo, hi], list ops] => do
      let cfg : Op.CascadeCfg Rat :=
        { lockPrev := (← lp.asBool), lockRange := (← lr.asBool), dflt := (← d.asX), lo := (← lo.asX), hi := (← hi.asX) }
      let ops ← ops.mapM cascadeOp
      let s0 : Op.OutState Rat := { value := [Op.setter cfg .nan], previous := .nan }
      let (_, outs) := ops.foldl (fun (acc : (Op.CascadeCfg Rat × Op.OutState Rat) × List SExp) op =>
        let cs := Op.step acc.1 op
        (cs, list [ofXs cs.2.value, ofX cs.2.previous] :: acc.2)) ((cfg, s0), [])
      pure (list outs.reverse)
  | _ => none

/-- program syntax: `(done) | (raise) | (probe rest) | (assign k v rest) | (ctx ((k v|none) …) body rest)` -/
partial def settingsProg : SExp → Option Op.Settings.Prog
  | list [atom "done"] => some .done
  | list [atom "raise"] => some .raise
  | list [atom "probe", r] => do pure (.probe (← settingsProg r))
  | list [atom "assign", k, v, r] => do pure (.assign (← k.asNat) (← v.asNat) (← settingsProg r))
  | list [atom "ctx", list kws, b, r] => do
      let kws ← kws.mapM (fun e => match e with
        | list [k, atom "none"] => do pure ((← k.asNat), (none : Option Nat))
        | list [k, v] => do pure ((← k.asNat), some (← v.asNat))
        | _ => none)
      pure (.ctx kws (← settingsProg b) (← settingsProg r))
  | _ => none

/-- `(settings prog)` → `(exc (final…) (probe…) …)` starting from the all-zero store -/
def settingsCmd : List SExp → Option SExp
  | [atom "settings", p] => do
      let p ← settingsProg p
      let r := Op.Settings.run p (fun _ => 0)
      let snap (l : List Nat) : SExp := list (l.map ofNat)
      pure (list (ofBool r.exc :: snap (Op.Settings.snapshot r.s) :: r.log.map snap))
  | _ => none

def state (l : List SExp) : Option SExp := (cascade l).orElse (fun _ => settingsCmd l)

end Drv
