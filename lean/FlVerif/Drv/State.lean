import FlVerif.Base.SExp
import FlVerif.Op.Cascade

/-! Driver commands for the state-machine models (C12 cascade, …). -/

namespace Drv
open SExp

def cascadeOp : SExp → Option (Op.CascadeOp Rat)
  | list (atom "defuzz" :: vs) => do pure (.defuzz (some (← vs.mapM asX)))
  | list [atom "raise"] => some (.defuzz none)
  | list [atom "clear"] => some .clear
  | list [atom "enable", b] => do pure (.setEnabled (← b.asBool))
  | _ => none

/-- `(cascade (lockPrev lockRange dflt lo hi) (op …))` → per step `((value…) previous)` -/
def cascade : List SExp → Option SExp
  | [atom "cascade", list [lp, lr, d, lo, hi], list ops] => do
      let cfg : Op.CascadeCfg Rat :=
        { lockPrev := (← lp.asBool), lockRange := (← lr.asBool), dflt := (← d.asX), lo := (← lo.asX), hi := (← hi.asX) }
      let ops ← ops.mapM cascadeOp
      let s0 : Op.OutState Rat := { value := [Op.setter cfg .nan], previous := .nan }
      let (_, outs) := ops.foldl (fun (acc : (Op.CascadeCfg Rat × Op.OutState Rat) × List SExp) op =>
        let cs := Op.step acc.1 op
        (cs, list [ofXs cs.2.value, ofX cs.2.previous] :: acc.2)) ((cfg, s0), [])
      pure (list outs.reverse)
  | _ => none

def state (l : List SExp) : Option SExp := cascade l

end Drv
