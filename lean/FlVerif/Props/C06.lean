import FlVerif.Gen.Tables
import FlVerif.Gen.HedgeGen
import FlVerif.Lemmas.Antecedent
import FlVerif.Lemmas.CodeLoadAnte
import FlVerif.Lemmas.CodeDegree
import FlVerif.Lemmas.CodeDegreeAggr
import FlVerif.Lemmas.CodeWave5ZRuleLaw    -- `Proposition.__str__`, `Antecedent.prefix / infix / postfix`, `postfix_of_load`

/-! # C06 — Rule antecedents mean what the rule grammar says

Model: `Op.antecedentLoadTokens` (= `Function.infix_to_postfix` with the regenerated element table, then the
five-flag state machine of `Antecedent.load`), `Op.degree` (`Antecedent.activation_degree`), `Op.activateWith`
(`Rule.activate_with`), `Op.aggregatedDegree` (`Aggregated.activation_degree`); documented side `Lang.Ante` with its
denotation `Ante.den`.  The shunting-yard theorem is shared with C17 (`Op.sy_prints`): an antecedent is an
expression tree over the element table whose leaves are the propositions (runs of plain words). -/

namespace C06
open Lang Op

/-! ## the state machine of `Antecedent.load` is the one of the source -/

/-- **Tie A (code → model).**  `Gen.Code.Antecedent_load` is regenerated from the source of `Antecedent.load` on every
    run (`fv/pylean.py`; the local `proposition` is translated as an alias of the top of `stack`, the callee
    `Function.infix_to_postfix` is the parameter `post`).  For every engine, every behaviour of the callee and every
    text: an empty text is a `SyntaxError`, an exception of the callee is passed on, and on the tokens of the postfix
    text the code raises the exception class the model `Op.antecedentLoadPostfix` predicts and otherwise assigns to
    `self.expression` the tree of the model.  (Python's `if variable:` - a variable without terms is false,
    `Variable.__len__` - is part of the model's look-up `EngineInfo.findVar`.) -/
theorem code_antecedentLoad (e : EngineInfo) (post : String → Py.M String) (text : String) :
    if text = "" then Gen.Code.Antecedent_load.run e post text {} = .error .syntax else
    match post text with
    | .error x => Gen.Code.Antecedent_load.run e post text {} = .error x
    | .ok s =>
      match antecedentLoadPostfix e (Py.split s) with
      | .error k => Gen.Code.Antecedent_load.run e post text {} = .error k.toPy
      | .ok a => ∃ σ, Gen.Code.Antecedent_load.run e post text {} = .ok σ ∧ exprA σ.self_expression = some a :=
  Op.code_antecedentLoad e post text

/-- the name of a variable without terms is not recognised (Python's `if variable:` is false for it): `A is any`
    over such a variable is rejected with a `SyntaxError` -/
theorem termless_variable_not_recognised :
    antecedentLoadPostfix ⟨[⟨"A", false, true, []⟩], ["any"]⟩ ["A", "is", "any"] = .error .syntax ∧
    antecedentLoadPostfix ⟨[⟨"A", false, true, ["t"]⟩], ["any"]⟩ ["A", "is", "any"] = .ok (.prop "A" ["any"] none) := by
  decide

/-! ## the evaluation of a loaded antecedent is the one of the source -/

/-- **Tie A (code → model).**  `Gen.Code.Antecedent_activation_degree` is regenerated from the source of
    `Antecedent.activation_degree` on every run (`fv/pylean.py`: a recursion on a fuel bound - the height of the tree -
    over expression objects; a variable object is its name, read through the evaluation context `c` of the model,
    `c.hasTerms` being Python's truth value of a variable object, `Variable.__len__`).  For every context and every
    loaded antecedent `a` (the call `activation_degree(conjunction, disjunction)` of `Rule.activate_with`: `node` is
    `None`, the tree is `self.expression`) the code raises the exception class the model `Op.degree` predicts
    (`ValueError`: a variable that has lost its terms since the rule was loaded - `if not node.variable`, even when the
    variable is disabled -, a missing operator, an unknown operator name, a missing term) and otherwise returns the degree
    of the model; in particular the fuel bound is never exhausted.  Second part: an antecedent that is not loaded raises
    `RuntimeError`.  Third part: objects `Antecedent.load` never builds - a proposition without a variable, an operator
    with a missing operand - raise `ValueError`. -/
theorem code_activationDegree (c : DegCtx ℚ) :
    (∀ a : ANode,
      match degree c a with
      | .error k =>
        Gen.Code.Antecedent_activation_degree.run c (Py.Deg.ofANode a) c.conj c.disj .none {} = .error k.toPy
      | .ok d =>
        ∃ σ, Gen.Code.Antecedent_activation_degree.run c (Py.Deg.ofANode a) c.conj c.disj .none {} = .ok σ ∧
          σ.ret = some d) ∧
    (∀ cj dj, Gen.Code.Antecedent_activation_degree.run c .none cj dj .none {} = .error .runtime) ∧
    (∀ e cj dj,
      (∀ hs t, Gen.Code.Antecedent_activation_degree.run c e cj dj (.prop ⟨none, hs, t⟩) {} = .error .value) ∧
      (∀ n r, Gen.Code.Antecedent_activation_degree.run c e cj dj (.op n .none r) {} = .error .value) ∧
      (∀ n l, Gen.Code.Antecedent_activation_degree.run c e cj dj (.op n l .none) {} = .error .value)) :=
  ⟨Op.code_activationDegree_loaded c, Op.code_activationDegree_notLoaded c, Op.code_activationDegree_defects c⟩

/-- what the tie found (and the model now follows): a variable that has no terms any more when the rule is evaluated
    (they were removed after `Rule.load`) makes `activation_degree` raise `ValueError` - whatever hedges and term follow,
    also for `any`, also when the variable is disabled -/
theorem termless_variable_raises {α : Type} [Field α] [LinearOrder α] [IsStrictOrderedRing α] (c : DegCtx α)
    (v : String) (hs : List String) (t : Option String) (ht : c.hasTerms v = false) :
    degree c (.prop v hs t) = .error .value := by
  simp [degree, ht]

/-- **Tie A (code → model).**  `Gen.Code.Aggregated_activation_degree` is regenerated from the source of
    `Aggregated.activation_degree`; its callee `grouped_terms` is the translation tied in C10 (`C10.code_groupedTerms`).
    For every aggregation operator (or none: `UnboundedSum`), every list of activated terms - the objects
    `Activated(tᵢ, dᵢ, …)`, whose `degree` setter stores `nan_to_num(dᵢ)` - and every term: the method never raises and
    returns the aggregated degree of the model `Op.aggregatedDegree` on the raw degrees (0 for a term that was never
    activated). -/
theorem code_aggregatedDegree (agg : Option (X ℚ → X ℚ → X ℚ)) (raw : List (Op.Weighted.Act String ℚ))
    (t : Op.Weighted.WTerm String ℚ) :
    ∃ σ, Gen.Code.Aggregated_activation_degree.run agg (raw.map (fun a => (a.1, Op.Weighted.setDegree a.2))) t {} = .ok σ ∧
      σ.ret = some (aggregatedDegree (Op.Weighted.aggregationOr agg) (raw.map (fun a => (a.1.name, a.2))) t.name) :=
  Op.code_aggregatedDegree agg raw t

/-! ## the texts of a loaded antecedent -/

/-- **Tie A (code → model).**  `Proposition.__str__` on a proposition of the loader (`Py.Load.Proposition`: a hedge / term
    object is its name): `variable is hedge* term`, the parts that are set, joined by single blanks. -/
theorem code_propositionStr (p : Py.Load.Proposition) :
    ∃ σ, Gen.Code.Proposition_str.run p {} = .ok σ ∧ σ.ret = some (AntecedentText.propText p) :=
  CodeW5ZR.code_propositionStr p

/-- **Tie A (code → model).**  `Antecedent.prefix(node)` on the tree `Antecedent.load` builds (`expression` is
    `self.expression`, `node = .none` the call without argument): `RuntimeError` when nothing is loaded, otherwise the
    operator name before its operands; an operand that is `None` contributes nothing.  The recursion bound is never
    exhausted. -/
theorem code_antecedentPrefix (expression node : Py.Load.Expression) :
    match AntecedentText.render AntecedentText.pfxText expression node with
    | .error k => Gen.Code.Antecedent_prefix.run expression node {} = .error k.toPy
    | .ok s => ∃ σ, Gen.Code.Antecedent_prefix.run expression node {} = .ok σ ∧ σ.ret = some s :=
  CodeW5ZR.code_antecedentPrefix expression node

/-- **Tie A (code → model).**  `Antecedent.infix(node)`: the operator name between its operands (no parentheses are
    written: the text of `(a or b) and c` reads `a or b and c`). -/
theorem code_antecedentInfix (expression node : Py.Load.Expression) :
    match AntecedentText.render AntecedentText.infText expression node with
    | .error k => Gen.Code.Antecedent_infix.run expression node {} = .error k.toPy
    | .ok s => ∃ σ, Gen.Code.Antecedent_infix.run expression node {} = .ok σ ∧ σ.ret = some s :=
  CodeW5ZR.code_antecedentInfix expression node

/-- **Tie A (code → model).**  `Antecedent.postfix(node)`: the operator name after its operands. -/
theorem code_antecedentPostfix (expression node : Py.Load.Expression) :
    match AntecedentText.render AntecedentText.postText expression node with
    | .error k => Gen.Code.Antecedent_postfix.run expression node {} = .error k.toPy
    | .ok s => ∃ σ, Gen.Code.Antecedent_postfix.run expression node {} = .ok σ ∧ σ.ret = some s :=
  CodeW5ZR.code_antecedentPostfix expression node

/-- the state machine of `Antecedent.load` keeps the tokens: the postfix form of the tree it builds is the token list -/
theorem load_keeps_postfix (e : EngineInfo) (pf : List String) (a : ANode) (h : antecedentLoadPostfix e pf = .ok a) :
    a.pfx = pf :=
  CodeW5ZR.pfx_of_load e pf a h

/-- **`Antecedent.postfix` of the expression loaded from a postfix text gives the text back, token for token.**  For
    every engine, every token list `pf` that the state machine of `Antecedent.load` accepts and the expression object
    `x` that the translated loader stores for it (`code_antecedentLoad`: `exprA x` is the tree of the model), the
    translated `Antecedent.postfix()` returns `" ".join(pf)`. -/
theorem postfix_of_load (e : EngineInfo) (pf : List String) (a : ANode) (x : Py.Load.Expression)
    (hl : antecedentLoadPostfix e pf = .ok a) (hx : exprA x = some a) :
    ∃ σ, Gen.Code.Antecedent_postfix.run x .none {} = .ok σ ∧ σ.ret = some (Py.joinSp pf) :=
  CodeW5ZR.antecedent_postfix_of_load e pf a x hl hx

/-! ## grammar: every writing of every antecedent loads to that antecedent -/

/-- **load ∘ print = id.**  For every well-formed element table in which `and`, `or` are binary elements, every
    engine whose variables are not called `and` / `or`, every antecedent `a` over the engine's names (`AnteOK`: its
    variables have at least one term - the loader does not recognise the name of a variable without terms, not even
    in `v is any`; no bound on depth, number of hedges, …) whose words are plain words (not element names or punctuation), and every writing of
    `a` with at least the necessary and any number of redundant parentheses: the shunting-yard loop followed by the
    state machine of `Antecedent.load` builds exactly `a`. -/
theorem load_print (tbl : Table) (hT : tbl.WellFormed) (e : EngineInfo) (he : EngineOK e) (eAnd eOr : Elem)
    (hA : tbl.lookup "and" = some eAnd) (hO : tbl.lookup "or" = some eOr) (hAa : eAnd.arity = 2) (hOa : eOr.arity = 2)
    (a : Ante) (hok : AnteOK e a) (hw : AnteWords tbl a) (ts : List Tok) (hp : Prints (a.toExpr eAnd eOr) ts) :
    antecedentLoadTokens tbl e (ts.map Tok.str) = .ok (ofAnte a) := by
  have n1 := Table.lookup_name hA
  have n2 := Table.lookup_name hO
  have hover := toExpr_overW tbl eAnd eOr (by rw [n1]; exact hA) hAa (by rw [n2]; exact hO) hOa a hw
  unfold antecedentLoadTokens toPostfix
  rw [map_fix (Pr.fix hT hp hover), sy_prints (Expr.shape_of_over hT hover) hp]
  simp only [Except.map]
  rw [toExpr_pfx eAnd eOr n1 n2 a]
  exact antecedentLoadPostfix_pfx e he a hok

private abbrev T : Table := Gen.Tables.elements
private abbrev eAnd : Elem := T.get "and"
private abbrev eOr : Elem := T.get "or"

/-- the regenerated table meets the hypotheses of `load_print`; `and` binds tighter than `or`, both are
    left-associative binary operators -/
theorem table_facts :
    T.WellFormed ∧ T.lookup "and" = some eAnd ∧ T.lookup "or" = some eOr ∧ eAnd.arity = 2 ∧ eOr.arity = 2 ∧
    eAnd.isOp = true ∧ eOr.isOp = true ∧ eAnd.assoc < 0 ∧ eOr.assoc < 0 ∧ eOr.prec < eAnd.prec := by
  decide +kernel

/-- the minimal writing of an antecedent (parentheses only where `and`/`or` precedence and left associativity
    require them), as the words of the text -/
def write (a : Ante) : List String := ((a.toExpr eAnd eOr).prMin 0 0).map Tok.str
/-- the fully parenthesised writing -/
def writeFull (a : Ante) : List String := ((a.toExpr eAnd eOr).prFull).map Tok.str

private theorem shape (a : Ante) (hw : AnteWords T a) : (a.toExpr eAnd eOr).Shape := by
  obtain ⟨hT, hA, hO, hAa, hOa, _⟩ := table_facts
  have n1 := Table.lookup_name hA
  have n2 := Table.lookup_name hO
  exact Expr.shape_of_over hT (toExpr_overW T eAnd eOr (by rw [n1]; exact hA) hAa (by rw [n2]; exact hO) hOa a hw)

/-- with the library's table: the minimal and the fully parenthesised writing of every antecedent load to it -/
theorem load_write (e : EngineInfo) (he : EngineOK e) (a : Ante) (hok : AnteOK e a) (hw : AnteWords T a) :
    antecedentLoadTokens T e (write a) = .ok (ofAnte a) ∧ antecedentLoadTokens T e (writeFull a) = .ok (ofAnte a) := by
  obtain ⟨hT, hA, hO, hAa, hOa, _⟩ := table_facts
  exact ⟨load_print T hT e he eAnd eOr hA hO hAa hOa a hok hw _ (Expr.prMin_pr _ (shape a hw) 0 0),
         load_print T hT e he eAnd eOr hA hO hAa hOa a hok hw _ (Expr.prFull_pr _ (shape a hw) 0 0)⟩

/-- how the minimal writing looks: `p or q and r` has no parentheses and means `p or (q and r)`;
    `(p or q) and r` needs them; `p and q and r` / `p or q or r` group to the left, `p and (q and r)` needs them -/
theorem minimal_writing_shapes (p q r : Ante) :
    write (.disj p (.conj q r)) = ((p.toExpr eAnd eOr).prMin 0 100).map Tok.str ++ "or" ::
        (((q.toExpr eAnd eOr).prMin 101 120).map Tok.str ++ "and" :: ((r.toExpr eAnd eOr).prMin 121 0).map Tok.str) ∧
    write (.conj (.conj p q) r) = (((p.toExpr eAnd eOr).prMin 0 120).map Tok.str ++ "and" ::
        ((q.toExpr eAnd eOr).prMin 121 120).map Tok.str) ++ "and" :: ((r.toExpr eAnd eOr).prMin 121 0).map Tok.str ∧
    write (.conj (.disj p q) r) = "(" :: (((p.toExpr eAnd eOr).prMin 0 100).map Tok.str ++ "or" ::
        ((q.toExpr eAnd eOr).prMin 101 0).map Tok.str) ++ ")" :: "and" :: ((r.toExpr eAnd eOr).prMin 121 0).map Tok.str := by
  have hA : eAnd = ⟨"and", true, 2, 60, -1⟩ := by decide +kernel
  have hO : eOr = ⟨"or", true, 2, 50, -1⟩ := by decide +kernel
  refine ⟨?_, ?_, ?_⟩ <;>
    simp [write, Ante.toExpr, Expr.prMin, hA, hO, Elem.L, Elem.R, Tok.str, List.map_append]

/-- a proposition is written as its words -/
theorem write_prop (v : String) (hs : List String) (t : String) :
    write (.prop v hs t) = [v, "is"] ++ hs ++ [t] ∧ write (.anyP v hs) = [v, "is"] ++ hs ++ ["any"] := by
  simp [write, Ante.toExpr, Expr.prMin, Ante.propWords, Tok.str, Function.comp_def]

/-- **`and` binds tighter than `or`**: `p or q and r` (propositions `p q r`) loads as `p or (q and r)` and
    `p and q or r` as `(p and q) or r` -/
theorem and_tighter_or (e : EngineInfo) (he : EngineOK e) (p q r : Ante)
    (hp : AnteOK e p ∧ AnteWords T p) (hq : AnteOK e q ∧ AnteWords T q) (hr : AnteOK e r ∧ AnteWords T r) :
    antecedentLoadTokens T e (write (.disj p (.conj q r))) = .ok (.op "or" (ofAnte p) (.op "and" (ofAnte q) (ofAnte r))) ∧
    antecedentLoadTokens T e (write (.disj (.conj p q) r)) = .ok (.op "or" (.op "and" (ofAnte p) (ofAnte q)) (ofAnte r)) :=
  ⟨(load_write e he (.disj p (.conj q r)) ⟨hp.1, hq.1, hr.1⟩ ⟨hp.2, hq.2, hr.2⟩).1,
   (load_write e he (.disj (.conj p q) r) ⟨⟨hp.1, hq.1⟩, hr.1⟩ ⟨⟨hp.2, hq.2⟩, hr.2⟩).1⟩

/-- **both connectives associate to the left** (the unparenthesised chains are the left-nested trees), and
    **parentheses override** (the right-nested trees are obtained from the writing with parentheses) -/
theorem left_assoc (e : EngineInfo) (he : EngineOK e) (p q r : Ante)
    (hp : AnteOK e p ∧ AnteWords T p) (hq : AnteOK e q ∧ AnteWords T q) (hr : AnteOK e r ∧ AnteWords T r) :
    antecedentLoadTokens T e (write (.conj (.conj p q) r)) = .ok (.op "and" (.op "and" (ofAnte p) (ofAnte q)) (ofAnte r)) ∧
    antecedentLoadTokens T e (write (.disj (.disj p q) r)) = .ok (.op "or" (.op "or" (ofAnte p) (ofAnte q)) (ofAnte r)) ∧
    antecedentLoadTokens T e (write (.conj p (.conj q r))) = .ok (.op "and" (ofAnte p) (.op "and" (ofAnte q) (ofAnte r))) ∧
    antecedentLoadTokens T e (write (.conj (.disj p q) r)) = .ok (.op "and" (.op "or" (ofAnte p) (ofAnte q)) (ofAnte r)) :=
  ⟨(load_write e he (.conj (.conj p q) r) ⟨⟨hp.1, hq.1⟩, hr.1⟩ ⟨⟨hp.2, hq.2⟩, hr.2⟩).1,
   (load_write e he (.disj (.disj p q) r) ⟨⟨hp.1, hq.1⟩, hr.1⟩ ⟨⟨hp.2, hq.2⟩, hr.2⟩).1,
   (load_write e he (.conj p (.conj q r)) ⟨hp.1, hq.1, hr.1⟩ ⟨hp.2, hq.2, hr.2⟩).1,
   (load_write e he (.conj (.disj p q) r) ⟨⟨hp.1, hq.1⟩, hr.1⟩ ⟨⟨hp.2, hq.2⟩, hr.2⟩).1⟩

/-- concrete texts on the regenerated table -/
theorem readings :
    let e : EngineInfo := ⟨[⟨"a", false, true, ["lo", "hi"]⟩, ⟨"b", false, true, ["lo", "hi"]⟩, ⟨"o", true, true, ["t"]⟩],
                           Gen.Tables.hedgeKeys⟩
    antecedentLoadTokens T e ["a", "is", "lo", "or", "b", "is", "hi", "and", "o", "is", "very", "t"]
      = .ok (.op "or" (.prop "a" [] (some "lo")) (.op "and" (.prop "b" [] (some "hi")) (.prop "o" ["very"] (some "t")))) ∧
    antecedentLoadTokens T e ["(", "a", "is", "lo", "or", "b", "is", "hi", ")", "and", "o", "is", "not", "very", "t"]
      = .ok (.op "and" (.op "or" (.prop "a" [] (some "lo")) (.prop "b" [] (some "hi"))) (.prop "o" ["not", "very"] (some "t"))) ∧
    antecedentLoadTokens T e ["a", "is", "any", "and", "b", "is", "lo", "and", "a", "is", "hi"]
      = .ok (.op "and" (.op "and" (.prop "a" ["any"] none) (.prop "b" [] (some "lo"))) (.prop "a" [] (some "hi"))) ∧
    antecedentLoadTokens T e ["a", "is", "lo", "and"] = .error .syntax ∧
    antecedentLoadTokens T e ["a", "is", "very"] = .error .syntax ∧
    antecedentLoadTokens T e ["a", "is"] = .error .syntax ∧
    antecedentLoadTokens T e ["a", "is", "t"] = .error .syntax := by
  decide +kernel

/-! ## evaluation: the activation degree is weight × denotation -/

section
variable {α : Type} [Field α] [LinearOrder α] [IsStrictOrderedRing α]

/-- **`Rule.activate_with` = weight × ⟦antecedent⟧** with the block's conjunction and disjunction, for every
    antecedent over variables that have a term (`Ante.Termed`: the rule could be loaded and the terms are still there);
    when a needed operator is not set the evaluation raises `ValueError` -/
theorem degree_denotation (c : DegCtx α) (w : X α) (a : Ante) (hp : a.Proper) (ht : a.Termed c) :
    activateWith c w (ofAnte a) = (match a.den c with | some d => .ok (X.mul w d) | none => .error .value) := by
  unfold activateWith
  rw [degree_ofAnte c a hp ht]
  cases a.den c <;> rfl

/-- the connectives are the block's operators applied to the values of the two sides -/
theorem connectives (c : DegCtx α) (l r : Ante) (f g : X α → X α → X α) (hc : c.conj = some f) (hd : c.disj = some g)
    (x y : X α) (hl : l.den c = some x) (hr : r.den c = some y) :
    (Ante.conj l r).den c = some (f x y) ∧ (Ante.disj l r).den c = some (g x y) := by
  simp [Ante.den, hc, hd, hl, hr]

/-- **hedges apply from the one nearest the term outwards**: `v is h hs… t` is `h` applied to `v is hs… t` -/
theorem hedge_order (c : DegCtx α) (v h : String) (hs : List String) (t : String) (he : c.enabled v = true) :
    (Ante.prop v (h :: hs) t).den c = ((Ante.prop v hs t).den c).map (c.hedge h) ∧
    (Ante.prop v [] t).den c = some (c.base v t) := by
  simp [Ante.den, he, applyHedges]

/-- the same on the code side: the loop `for hedge in reversed(node.hedges)` computes `h₁(h₂(…hₙ(μ)))` -/
theorem hedge_order_op (c : DegCtx α) (v : String) (hs : List String) (t : String) (he : c.enabled v = true)
    (ht : c.hasTerms v = true) (hp : ∀ h ∈ hs, h ≠ "any") :
    degree c (.prop v hs (some t)) = .ok (hs.foldr (fun h acc => c.hedge h acc) (c.base v t)) := by
  have := degree_ofAnte c (.prop v hs t) hp ht
  simpa [ofAnte, Ante.den, he, applyHedges] using this

/-- a proposition reads the term's membership for an input variable and the aggregated activation degree of the
    term for an output variable -/
theorem proposition_base (c : DegCtx α) (v t : String) :
    c.base v t = if c.isOutput v then c.outDegree v t else c.membership v t := rfl

/-- **`any` yields 1** (with the hedge `any` of the library, regenerated from `hedge.py`), whatever the variable's
    value; hedges in front of `any` are applied to that 1 -/
theorem any_is_one (F : Fn α) (c : DegCtx α) (hany : c.hedge "any" = Gen.Hedge.any F) (v : String)
    (he : c.enabled v = true) (ht : c.hasTerms v = true) (hs : List String) :
    (Ante.anyP v []).den c = some (.fin 1) ∧ (Ante.anyP v hs).den c = some (applyHedges c hs (.fin 1)) ∧
    degree c (ofAnte (.anyP v [])) = .ok (.fin 1) := by
  have h1 : c.hedge "any" .nan = .fin 1 := by rw [hany]; rfl
  refine ⟨by simp [Ante.den, he, applyHedges, h1], by simp [Ante.den, he, h1], ?_⟩
  simp [ofAnte, degree, he, ht, hedgesReversed, h1]

/-- **a disabled variable yields 0**, whatever hedges and term follow (also for `any`); the variable still has a term
    (a variable object without terms is false in Python: `ValueError`, see `termless_variable_raises`) -/
theorem disabled_is_zero (c : DegCtx α) (v : String) (hs : List String) (t : String) (t' : Option String)
    (he : c.enabled v = false) (ht : c.hasTerms v = true) :
    (Ante.prop v hs t).den c = some (.fin 0) ∧ (Ante.anyP v hs).den c = some (.fin 0) ∧
    degree c (.prop v hs t') = .ok (.fin 0) := by
  simp [Ante.den, degree, he, ht]

/-- **an output-variable term that was never activated has degree 0** (not NaN); one activation gives its degree
    (with `nan, -inf ↦ 0`, `+inf ↦ 1`), further ones are combined with the aggregation operator -/
theorem output_term_degree (agg : X α → X α → X α) (acts : List (String × X α)) (t : String) (d d' : X α) :
    (∀ kv ∈ acts, kv.1 ≠ t) → aggregatedDegree agg acts t = .fin 0 ∧
      aggregatedDegree agg (acts ++ [(t, d)]) t = X.nanToNum01 d ∧
      aggregatedDegree agg (acts ++ [(t, d), (t, d')]) t
        = X.nanToNum01 (agg (X.nanToNum01 d) (X.nanToNum01 d')) := by
  intro h
  have hf : acts.filter (·.1 == t) = [] := by
    simp only [List.filter_eq_nil_iff, beq_iff_eq]; exact fun kv hk => h kv hk
  simp [aggregatedDegree, List.filter_append, hf]

end

/-! ## the hypotheses are satisfiable -/

private def eng : EngineInfo :=
  ⟨[⟨"a", false, true, ["lo", "hi"]⟩, ⟨"o", true, true, ["t"]⟩], Gen.Tables.hedgeKeys⟩
private def sample : Ante :=
  .disj (.prop "a" ["not", "very"] "lo") (.conj (.anyP "a" []) (.disj (.prop "o" [] "t") (.prop "a" [] "hi")))

example : EngineOK eng := by unfold EngineOK; decide +kernel
example : write sample = ["a", "is", "not", "very", "lo", "or", "a", "is", "any", "and", "(", "o", "is", "t", "or",
    "a", "is", "hi", ")"] := by decide +kernel
example : antecedentLoadTokens T eng (write sample) = .ok (ofAnte sample) := by decide +kernel
example : sample.Proper := by simp [sample, Ante.Proper]

end C06
