import FlVerif.Lemmas.PyTables
import FlVerif.Lemmas.CodeRepr
import FlVerif.Lemmas.CodePyExportRepr
import FlVerif.Lemmas.CodePyExportObject

/-! # C15 — Python export reconstructs an identical engine

Model: `Op.PyRepr`.  An object is a tree of named fields (`Val`); `asConstructor` is
`Representation.as_constructor / construction_arguments` together with the `__repr__` overrides (which fields are
passed on), `evalCall` is the interpreter's binding of a constructor call against the signature, `view` is the
object that is expected back: every parameter the constructor stores carries the (rebuilt) field that was passed
on, and the constructor default where the `__repr__` dropped the field; rules go through one FLL print / parse
cycle (`Rule.__repr__` is `Rule.create('text')`, so this part rests on C14).

The constructor table (parameters, what `Class()` stores for each), the `__repr__` table (positional flag, fields
never / conditionally passed, the probed condition) and the class → module table are regenerated from the code on
every run; the side conditions on them are discharged by evaluation in the kernel (`decide`), so an edit that makes
a `__repr__` drop a field whose default differs re-opens the obligation.

The text level (`Op/PyExport.lean`: `render` of a call tree, `importStatement`, `encapsulate`, `exportText`) is tied to
the code by the `code_*` theorems below: prefix (`package_of`), import statement, `as_constructor`, the dispatch of
`repr` on the type name, `repr_float`, `repr_ndarray`, the `__repr__` of `Rule` / `RuleBlock` / `Variable` /
`OutputVariable`, and the wrapper of `PythonExporter`.

Outside these theorems (carried by the correspondence): the leaf texts `repr(float)` / `repr(str)`, executing the
source, `black`, bit-identical outputs; the elision limits of `reprlib` (`maxlevel` 10 for directly nested lists,
6·10⁶ elements, 3·10⁷ characters of a string or of a nested object's text), beyond which the library prints `...`. -/

namespace C15
open Op.PyRepr Op.FllIO Dec Spec.Fll

/-! ## side conditions on the regenerated tables -/

/-- no constructor of the library has two parameters of the same name -/
theorem signatures_distinct : TablesDistinct := tablesDistinct

/-- every conditional drop of a `__repr__` is "equal to the constructor default" or "height within the tolerance
    of 1" on a parameter whose default is 1: the default itself satisfies the condition -/
theorem dropped_fields_are_defaults (env : Env) (h0 : 0 ≤ env.cfg.tol) : TablesFixed env := tablesFixed env h0

/-- a field dropped by an "equal to the default" condition *is* the default -/
theorem dropped_eq_default (env : Env) (d v : Val) (h : dropHolds env (some d) .eqDefault v = true) : v = d :=
  eqDefaultVal_eq d v (by simpa [dropHolds] using h)

/-! ## `construction_arguments` against Python's call binding -/

/-- **Tie A (code → model).**  `Gen.Code.construction_arguments` is regenerated from the source of
    `Representation.construction_arguments` on every run (`fv/pylean.py`; `sig` = the parameters of the constructor
    signature including `self`, `noInit` = the class has no constructor, `fields name` = the text `self.repr` gives
    for the field).  It raises `ValueError` exactly when `emit` fails on the signature without `self`, and otherwise
    returns the arguments of `emit`, `name=value` for a keyword argument and `value` for a positional one. -/
theorem code_constructionArguments (noInit : Bool) (sig : List Param) (fields : String → Option String)
    (positional : Bool) :
    match emit fields positional (if noInit then [] else notSelf sig) with
    | none => Gen.Code.construction_arguments.run noInit sig fields positional {} = .error .value
    | some args => ∃ σ, Gen.Code.construction_arguments.run noInit sig fields positional {} = .ok σ ∧
        σ.ret = some (args.map argText) :=
  Op.PyRepr.code_constructionArguments noInit sig fields positional

/-! ## Tie A (code → model) for the text of the representation and the exporter

`Gen.Code.*` below are regenerated from the source on every run (`fv/pylean.py`, profiles `fv/profiles/pyexport.py`);
the text of a constructor-call tree is `Op.PyRepr.render` (`Op/PyExport.lean`), CPython's leaf texts are the fields
of `Leaf`. -/

/-- `Representation.package_of` (`modname` = the name of `inspect.getmodule(x)`, `none` = no module): the model
    `packageOf` for every alias and every module name -/
theorem code_packageOf (al : String) (modname : Option String) :
    ∃ σ, Gen.Code.package_of.run al modname {} = .ok σ ∧ σ.ret = some (packageOfOpt al modname) :=
  Op.PyRepr.code_packageOf al modname

/-- `Representation.import_statement` -/
theorem code_importStatement (al : String) :
    Gen.Code.import_statement.run al {} = .ok { ret := some (importStatement al) } :=
  Op.PyRepr.code_importStatement al

/-- `Representation.as_constructor`: with the callee `construction_arguments` = the model `emit` (tied above), the
    text is prefix, class name and the comma-separated arguments in parentheses – `ValueError` when `emit` fails.
    This is `render` of a call node (`render_call`). -/
theorem code_asConstructor (noInit : Bool) (sig : List Param) (fields : String → Option String) (positional : Bool)
    (al : String) (modname : Option String) (cls : String) :
    match emit fields positional (if noInit then [] else notSelf sig) with
    | none => Gen.Code.as_constructor.run noInit sig fields positional al modname cls {} = .error .value
    | some args => Gen.Code.as_constructor.run noInit sig fields positional al modname cls {} =
        .ok { arguments := args.map argText,
              ret := some (packageOfOpt al modname ++ cls ++ "(" ++ ", ".intercalate (args.map argText) ++ ")") } :=
  Op.PyRepr.code_asConstructor noInit sig fields positional al modname cls

/-- the text of a call node is what `as_constructor` returns for its prefix, class and rendered arguments -/
theorem render_call (L : Leaf) (pfx cls : String) (kws : List (Option String)) (kids : List Src) :
    Op.PyRepr.render L (.node (.call pfx cls kws) kids) =
      pfx ++ cls ++ "(" ++ ", ".intercalate ((kws.zip (renderList L kids)).map argText) ++ ")" := by
  simp [Op.PyRepr.render]

/-- **the text the code prints for an object is the rendered model tree.**  `textFields` = for every field the
    `__repr__` of the class passes on (`passed`, tied for `RuleBlock` / `Variable` / `OutputVariable` below), the text
    `self.repr` gives for its value, assumed to be the rendered model tree of that value (the recursion goes through
    `repr1`, `repr_instance` and the `__repr__` of the field); then the translated `as_constructor` (with
    `construction_arguments` = `emit`, `package_of` = `packageOf`) returns `render (asConstructor env obj)`, and raises
    `ValueError` exactly where the model tree is `invalid` -/
theorem code_reprObject (L : Leaf) (env : Env) (cls : String) (names : List String) (kids : List Val) (sig ps : List Param)
    (info : ReprInfo) (hp : paramsOf cls = some ps) (hi : reprInfoOf cls = some info)
    (hu : info.cond.any (fun c => c.2 == .unknown) = false) (hsig : notSelf sig = ps) :
    match emit (textFields L env ps info names kids) info.positional ps with
    | some _ => ∃ σ, Gen.Code.as_constructor.run false sig (textFields L env ps info names kids) info.positional env.aliasName
          (some (moduleOf cls)) cls {} = .ok σ ∧ σ.ret = some (reprText L env (.node (.obj cls names) kids))
    | none => Gen.Code.as_constructor.run false sig (textFields L env ps info names kids) info.positional env.aliasName
          (some (moduleOf cls)) cls {} = .error .value ∧ asConstructor env (.node (.obj cls names) kids) = .atom .invalid :=
  Op.PyRepr.code_reprObject L env cls names kids sig ps info hp hi hu hsig

/-- `Representation.repr` (inherited from `reprlib.Repr`): `repr1` at the level `maxlevel` (10, read from the live
    `representation` object) -/
theorem code_repr (rec1 : Val → Int → Py.M String) (x : Val) :
    Gen.Code.Representation_repr.run rec1 x {} = (rec1 x 10 >>= fun s => .ok { ret := some s }) :=
  Op.PyRepr.code_repr rec1 x

/-- `Representation.repr1` (inherited): the dispatch on `type(x).__name__` over the `repr_*` attributes that
    `Representation` has now (regenerated into the code): floats of every width go to `Representation.repr_float`,
    arrays to `Representation.repr_ndarray`, `int` / `str` / `list` / `dict` to the methods of `reprlib`, everything
    else (`bool`, `None`, enumerations, rules, objects of the library) to `repr_instance`, i.e. to its own `__repr__`.
    `TypeName tn x`: `tn` names the types as CPython / NumPy do; for the last group only that the name has no blank and
    is not the suffix of a `repr_*` attribute (`classes_of_tables_plain`). -/
theorem code_repr1 (C : String → Val → Int → Py.M String) (tn : Val → String) (x : Val) (level : Int)
    (h : TypeName tn x) :
    Gen.Code.Representation_repr1.run C tn x level {} =
      (C (methodOf x) x level >>= fun s => .ok { typename := tn x, ret := some s }) :=
  Op.PyRepr.code_repr1 C tn x level h

/-- the class names of the regenerated tables (and `bool`, `NoneType`, `Rule`, the enumeration `Type`) satisfy the
    side condition of `code_repr1` -/
theorem classes_of_tables_plain :
    (Gen.ExportTables.classModule.all (fun p => plainClassB p.1) &&
      ["bool", "NoneType", "Rule", "Type"].all plainClassB) = true :=
  table_classes_plain

/-- `Representation.repr_float`: the text of the model's literal – `nan` / `inf` with the prefix of the `settings`
    object, `-` before the prefix for `-inf`, CPython's `repr` otherwise -/
theorem code_reprFloat (env : Env) (L : Leaf) (x : Num) (level : Int) :
    ∃ σ, Gen.Code.repr_float.run env L x level {} = .ok σ ∧ σ.ret = some (reprText L env (.atom (.num x))) :=
  Op.PyRepr.code_reprFloat env L x level

/-- `Representation.repr_ndarray` for an array with rows: when `repr1` gives the model's text for every row, the
    result is the model's text for the array -/
theorem code_reprNdarray (env : Env) (L : Leaf) (rec1 : Val → Int → Py.M String) (item : Val) (kids : List Val) (level : Int)
    (hrec : ∀ y ∈ kids, rec1 y level = .ok (reprText L env y)) :
    ∃ σ, Gen.Code.repr_ndarray.run env rec1 false item (.node .array kids) level {} = .ok σ ∧
      σ.ret = some (reprText L env (.node .array kids)) :=
  Op.PyRepr.code_reprNdarray env L rec1 item kids level hrec

/-- … and a zero-dimensional array is represented as its item -/
theorem code_reprNdarray0 (env : Env) (rec1 : Val → Int → Py.M String) (item x : Val) (level : Int) :
    Gen.Code.repr_ndarray.run env rec1 true item x level {} = (rec1 item level >>= fun s => .ok { ret := some s }) :=
  Op.PyRepr.code_reprNdarray0 env rec1 item x level

/-- `Rule.__repr__`: the text of the model's rule leaf (`L.rule toks` = `Rule.text`) -/
theorem code_reprRule (env : Env) (L : Leaf) (toks : List Tok) :
    Gen.Code.Rule_repr.run env (L.rule toks) {} = .ok { ret := some (renderAtom L (.rule (classPrefix env "Rule") toks)) } :=
  Op.PyRepr.code_reprRule env L toks

/-- `RuleBlock.__repr__` (`vars` = `vars(self)` as the list of its items, `asCtor` = `representation.as_constructor`):
    the call gets the positional flag of the probed table and a dictionary whose entries are the fields the model
    passes on (`passed`: `description` unless empty, `enabled` unless true) – for every state of the block -/
theorem code_reprRuleBlock (env : Env) (asCtor : List (String × Val) → Bool → Py.M String) (vars : List (String × Val))
    (d : String) (e : Bool)
    (hd : vars.lookup "description" = some (.atom (.str d))) (he : vars.lookup "enabled" = some (.atom (.bool e)))
    (ps : List Param) (info : ReprInfo) (hp : paramsOf "RuleBlock" = some ps) (hi : reprInfoOf "RuleBlock" = some info) :
    ∃ fields, Gen.Code.RuleBlock_repr.run asCtor vars d e {} =
        (asCtor fields info.positional >>= fun s => .ok { fields := fields, ret := some s }) ∧
      ∀ n, fields.lookup n = passed env ps info vars n :=
  Op.PyRepr.code_reprRuleBlock env asCtor vars d e hd he ps info hp hi

/-- `Variable.__repr__`: as for the rule block, `_value` is never passed -/
theorem code_reprVariable (env : Env) (asCtor : List (String × Val) → Bool → Py.M String) (vars : List (String × Val))
    (d : String) (e : Bool) (v : Val)
    (hd : vars.lookup "description" = some (.atom (.str d))) (he : vars.lookup "enabled" = some (.atom (.bool e)))
    (hv : vars.lookup "_value" = some v)
    (ps : List Param) (info : ReprInfo) (hp : paramsOf "Variable" = some ps) (hi : reprInfoOf "Variable" = some info) :
    ∃ fields, Gen.Code.Variable_repr.run asCtor vars d e {} =
        (asCtor fields info.positional >>= fun s => .ok { fields := fields, ret := some s }) ∧
      ∀ n, fields.lookup n = passed env ps info vars n :=
  Op.PyRepr.code_reprVariable env asCtor vars d e v hd he hv ps info hp hi

/-- `OutputVariable.__repr__`: the state is `vars(self)` with what the properties `minimum`, `maximum`,
    `aggregation` return; `fuzzy`, `_value`, `previous_value` are never passed -/
theorem code_reprOutputVariable (env : Env) (asCtor : List (String × Val) → Bool → Py.M String) (vars : List (String × Val))
    (d : String) (e : Bool) (mn mx ag v1 v2 v3 : Val)
    (hd : vars.lookup "description" = some (.atom (.str d))) (he : vars.lookup "enabled" = some (.atom (.bool e)))
    (hf : vars.lookup "fuzzy" = some v1) (hv : vars.lookup "_value" = some v2) (hpv : vars.lookup "previous_value" = some v3)
    (ps : List Param) (info : ReprInfo) (hp : paramsOf "OutputVariable" = some ps) (hi : reprInfoOf "OutputVariable" = some info) :
    ∃ fields, Gen.Code.OutputVariable_repr.run asCtor vars d e mn mx ag {} =
        (asCtor fields info.positional >>= fun s => .ok { fields := fields, ret := some s }) ∧
      ∀ n, fields.lookup n = passed env ps info (withProperties vars mn mx ag) n :=
  Op.PyRepr.code_reprOutputVariable env asCtor vars d e mn mx ag v1 v2 v3 hd he hf hv hpv ps info hp hi

/-- `PythonExporter.encapsulate`: import statement, then the class (an engine) or the function `create()` -/
theorem code_encapsulate (al : String) (isEngine : Bool) (ident qual text : String) :
    ∃ σ, Gen.Code.PythonExporter_encapsulate.run al isEngine ident qual text {} = .ok σ ∧
      σ.ret = some (encapsulate al isEngine ident qual text) :=
  Op.PyRepr.code_encapsulate al isEngine ident qual text

/-- `PythonExporter.to_string`: the wrapped or the plain text, through `format` (`black`) when `formatted` -/
theorem code_toString (encapsulated formatted : Bool) (fmt : String → Py.M String) (wrapped text : String) :
    Gen.Code.PythonExporter_to_string.run encapsulated formatted fmt wrapped text {} =
      (exportText encapsulated formatted fmt wrapped text >>= fun s => .ok { code := s, ret := some s }) :=
  Op.PyRepr.code_toString encapsulated formatted fmt wrapped text

/-- `PythonExporter.engine` is `to_string` -/
theorem code_engine (toString : Py.M String) :
    Gen.Code.PythonExporter_engine.run toString {} = (toString >>= fun s => .ok { ret := some s }) :=
  Op.PyRepr.code_engine toString

/-- binding the emitted arguments (positional prefix, then keywords) against the signature gives, for every
    stored parameter, the emitted field and otherwise the constructor default -/
theorem bind_emitted (fields : String → Option Val) (ps : List Param) (hd : Distinct ps) (positional : Bool)
    (args : List (Option String × Val)) (h : emit fields positional ps = some args) :
    bindArgs (fun p => p.stored) ps args = expected fields (fun p => p.stored) ps :=
  bind_emit_any fields _ ps hd positional args h

/-- `construction_arguments` raises exactly when a parameter without default is missing from the fields -/
theorem emit_fails_iff (fields : String → Option Val) (positional : Bool) (ps : List Param) :
    emit fields positional ps = none ↔ ∃ p ∈ ps, fields p.name = none ∧ p.hasDefault = false :=
  emit_none_iff fields positional ps

/-- the emitted argument list is a valid Python call for the signature: positional arguments bind the leading
    parameters, keywords follow, are pairwise distinct and name remaining parameters -/
theorem positional_then_keyword_valid (fields : String → Option Val) (positional : Bool) (ps : List Param)
    (hd : Distinct ps) (args : List (Option String × Val)) (h : emit fields positional ps = some args) :
    ValidCall ps args := emit_validCall fields positional ps hd args h

/-- … and so is every nested call of the representation of any object -/
theorem positional_then_keyword_valid_everywhere (env : Env) (v : Val) : CallsValid (asConstructor env v) :=
  callsValid_asConstructor env v

/-! ## evaluating the representation -/

/-- evaluating `repr(obj)` rebuilds the object: every parameter the constructor stores gets the rebuilt field that
    the `__repr__` passed on, and the constructor default where it dropped the field – which, by
    `dropped_fields_are_defaults` / `dropped_eq_default`, is the value the field had (a height within the tolerance
    of 1 becomes 1, a rule weight goes through one print cycle: the property's own restrictions) -/
theorem eval_repr (env : Env) (v : Val) (hr : RulesOK v) (hv : NoInvalid (asConstructor env v)) :
    evalCall (asConstructor env v) = some (view env v) :=
  eval_asConstructor env signatures_distinct v hr hv

/-- every nested call, `array`, `nan` / `inf` literal and `Rule.create` carries the prefix that `package_of`
    gives for the alias setting and the module of the class -/
theorem prefix_everywhere (env : Env) (v : Val) : PrefixOK env (asConstructor env v) := prefix_asConstructor env v

/-- the alias regimes for a module name that is not empty, has no trailing dot and is not below `fuzzylite.examples`
    (`modules_of_tables_plain`: the modules of the regenerated class table are such): `''` = the module path, `'*'` = no
    prefix, anything else = the alias (one dot added unless the alias ends in one) for the modules of the library.
    Outside these conditions `package_of` behaves otherwise (found by the tie `code_packageOf`: an empty prefix gets no
    dot, a prefix that ends in a dot no second one, a module below `fuzzylite.examples` keeps its path after the alias). -/
theorem prefix_of_alias (m : String) (hm : ModuleOK m = true) :
    packageOf "" m = m ++ "." ∧ packageOf "*" m = "" ∧
    ∀ al, al ≠ "" → al ≠ "*" → al.endsWith "." = false → m.startsWith "fuzzylite." = true → packageOf al m = al ++ "." := by
  refine ⟨by rw [packageOf_plain _ _ hm]; simp, by rw [packageOf_plain _ _ hm]; simp, ?_⟩
  intro al h1 h2 h3 h4
  rw [packageOf_plain _ _ hm]
  simp [h1, h2, h3, h4]

/-- the modules of the regenerated class table and the module of `settings` satisfy the condition of `prefix_of_alias` -/
theorem modules_of_tables_plain :
    (Gen.ExportTables.classModule.all (fun p => ModuleOK p.2) && ModuleOK Gen.ExportTables.settingsModule) = true :=
  table_modules_ok

/-- a module below `fuzzylite.examples` keeps its path below `fuzzylite` after a non-empty alias – also after `'*'`,
    where the prefix then starts with a dot (`.examples.mamdani.x.`: not an importable path) -/
theorem prefix_of_examples :
    packageOf "fl" "fuzzylite.examples.mamdani.x" = "fl.examples.mamdani.x." ∧
    packageOf "*" "fuzzylite.examples.mamdani.x" = ".examples.mamdani.x." ∧
    packageOf "" "fuzzylite.examples.mamdani.x" = "fuzzylite.examples.mamdani.x." ∧
    packageOf "fl." "fuzzylite.term" = "fl." ∧ packageOf "fl." "fuzzylite.examples.mamdani.x" = "fl..examples.mamdani.x." := by
  decide +kernel

/-- `repr (eval (repr o)) = repr o` for objects that carry their constructor parameters -/
theorem repr_fixed_point (env : Env) (h0 : 0 ≤ env.cfg.tol) (v : Val) (hc : Complete v) (hr : RulesOK v)
    (hv : NoInvalid (asConstructor env v)) :
    ∃ o, evalCall (asConstructor env v) = some o ∧ asConstructor env o = asConstructor env v :=
  ⟨view env v, eval_repr env v hr hv,
   asConstructor_view env h0 signatures_distinct (dropped_fields_are_defaults env h0) v hc⟩

/-! ## the hypotheses are satisfiable by non-trivial values -/

def envFl : Env := ⟨"fl", ⟨3, 1/1000⟩⟩

/-- `fl.Triangle('t', 0.0, 0.5, 1.0)`: the height 1 is dropped, the rest is positional -/
def tri : Val := .node (.obj "Triangle" ["name", "left", "top", "right", "height"])
  [.atom (.str "t"), .atom (.num (.fin 0)), .atom (.num (.fin (1/2))), .atom (.num (.fin 1)), .atom (.num (.fin 1))]

/-- `fl.InputVariable(name='x', minimum=0.0, maximum=1.0, lock_range=False, terms=[…])`: `description` and
    `enabled` are dropped, everything is passed by keyword; `_value` is never passed -/
def var : Val := .node (.obj "InputVariable" ["name", "description", "enabled", "minimum", "maximum", "lock_range", "terms", "_value"])
  [.atom (.str "x"), .atom (.str ""), .atom (.bool true), .atom (.num (.fin 0)), .atom (.num (.fin 1)), .atom (.bool false),
   .node .list [tri], .atom (.other "ndarray")]

/-- label and atomic arguments of a call (decidable summary of a tree) -/
def summary : Src → Option (String × String × List (Option String) × List (Option SAtom))
  | .node (.call p c kws) kids => some (p, c, kws, kids.map (fun k => match k with | .atom a => some a | _ => none))
  | _ => none

def fields : Val → Option (String × List String × List (Option Atom))
  | .node (.obj c names) kids => some (c, names, kids.map (fun k => match k with | .atom a => some a | _ => none))
  | _ => none

example : summary (asConstructor envFl tri) =
    some ("fl.", "Triangle", [none, none, none, none],
      [some (.lit "fl." (.str "t")), some (.lit "fl." (.num (.fin 0))), some (.lit "fl." (.num (.fin (1/2)))),
       some (.lit "fl." (.num (.fin 1)))]) := by decide +kernel

example : (match asConstructor envFl var with
    | .node (.call p c kws) _ => (p, c, kws)
    | _ => ("", "", [])) = ("fl.", "InputVariable", [some "name", some "minimum", some "maximum", some "lock_range", some "terms"]) := by
  decide +kernel

example : (evalCall (asConstructor envFl tri)).bind fields = fields tri := by decide +kernel

end C15
