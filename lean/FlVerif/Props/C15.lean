import FlVerif.Op.PyRepr
namespace C15
end C15
