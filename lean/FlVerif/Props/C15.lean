import FlVerif.Lemmas.PyTables
import FlVerif.Lemmas.CodeRepr

/-! # C15 — Python export reconstructs an identical engine

Model: `Op.PyRepr`.  An object is a tree of named fields (`Val`); `asConstructor` is
`Representation.as_constructor / construction_arguments` together with the `__repr__` overrides (which fields are
passed on), `evalCall` is the interpreter's binding of a constructor call against the signature, `view` is the
object that is expected back: every parameter the constructor stores carries the (rebuilt) field that was passed
on, and the constructor default where the `__repr__` dropped the field; rules go through one FLL print / parse
cycle (`Rule.__repr__` is `Rule.create('text')`, so this part rests on C14).

The constructor table (parameters, what `Class()` stores for each), the `__repr__` table (positional flag, fields
never / conditionally passed, the probed condition) and the class → module table are regenerated from the code on
every run; the side conditions on them are discharged by evaluation in the kernel (`decide`), so an edit that makes
a `__repr__` drop a field whose default differs re-opens the obligation.

Outside these theorems (carried by the correspondence): the leaf texts `repr(float)` / `repr(str)`, executing the
source, `black`, the `class` / `def create()` wrapper of `PythonExporter.encapsulate`, bit-identical outputs. -/

namespace C15
open Op.PyRepr Op.FllIO Dec Spec.Fll

/-! ## side conditions on the regenerated tables -/

/-- no constructor of the library has two parameters of the same name -/
theorem signatures_distinct : TablesDistinct := tablesDistinct

/-- every conditional drop of a `__repr__` is "equal to the constructor default" or "height within the tolerance
    of 1" on a parameter whose default is 1: the default itself satisfies the condition -/
theorem dropped_fields_are_defaults (env : Env) (h0 : 0 ≤ env.cfg.tol) : TablesFixed env := tablesFixed env h0

/-- a field dropped by an "equal to the default" condition *is* the default -/
theorem dropped_eq_default (env : Env) (d v : Val) (h : dropHolds env (some d) .eqDefault v = true) : v = d :=
  eqDefaultVal_eq d v (by simpa [dropHolds] using h)

/-! ## `construction_arguments` against Python's call binding -/

/-- **Tie A (code → model).**  `Gen.Code.construction_arguments` is regenerated from the source of
    `Representation.construction_arguments` on every run (`fv/pylean.py`; `sig` = the parameters of the constructor
    signature including `self`, `noInit` = the class has no constructor, `fields name` = the text `self.repr` gives
    for the field).  It raises `ValueError` exactly when `emit` fails on the signature without `self`, and otherwise
    returns the arguments of `emit`, `name=value` for a keyword argument and `value` for a positional one. -/
theorem code_constructionArguments (noInit : Bool) (sig : List Param) (fields : String → Option String)
    (positional : Bool) :
    match emit fields positional (if noInit then [] else notSelf sig) with
    | none => Gen.Code.construction_arguments.run noInit sig fields positional {} = .error .value
    | some args => ∃ σ, Gen.Code.construction_arguments.run noInit sig fields positional {} = .ok σ ∧
        σ.ret = some (args.map argText) :=
  Op.PyRepr.code_constructionArguments noInit sig fields positional

/-- binding the emitted arguments (positional prefix, then keywords) against the signature gives, for every
    stored parameter, the emitted field and otherwise the constructor default -/
theorem bind_emitted (fields : String → Option Val) (ps : List Param) (hd : Distinct ps) (positional : Bool)
    (args : List (Option String × Val)) (h : emit fields positional ps = some args) :
    bindArgs (fun p => p.stored) ps args = expected fields (fun p => p.stored) ps :=
  bind_emit_any fields _ ps hd positional args h

/-- `construction_arguments` raises exactly when a parameter without default is missing from the fields -/
theorem emit_fails_iff (fields : String → Option Val) (positional : Bool) (ps : List Param) :
    emit fields positional ps = none ↔ ∃ p ∈ ps, fields p.name = none ∧ p.hasDefault = false :=
  emit_none_iff fields positional ps

/-- the emitted argument list is a valid Python call for the signature: positional arguments bind the leading
    parameters, keywords follow, are pairwise distinct and name remaining parameters -/
theorem positional_then_keyword_valid (fields : String → Option Val) (positional : Bool) (ps : List Param)
    (hd : Distinct ps) (args : List (Option String × Val)) (h : emit fields positional ps = some args) :
    ValidCall ps args := emit_validCall fields positional ps hd args h

/-- … and so is every nested call of the representation of any object -/
theorem positional_then_keyword_valid_everywhere (env : Env) (v : Val) : CallsValid (asConstructor env v) :=
  callsValid_asConstructor env v

/-! ## evaluating the representation -/

/-- evaluating `repr(obj)` rebuilds the object: every parameter the constructor stores gets the rebuilt field that
    the `__repr__` passed on, and the constructor default where it dropped the field – which, by
    `dropped_fields_are_defaults` / `dropped_eq_default`, is the value the field had (a height within the tolerance
    of 1 becomes 1, a rule weight goes through one print cycle: the property's own restrictions) -/
theorem eval_repr (env : Env) (v : Val) (hr : RulesOK v) (hv : NoInvalid (asConstructor env v)) :
    evalCall (asConstructor env v) = some (view env v) :=
  eval_asConstructor env signatures_distinct v hr hv

/-- every nested call, `array`, `nan` / `inf` literal and `Rule.create` carries the prefix that `package_of`
    gives for the alias setting and the module of the class -/
theorem prefix_everywhere (env : Env) (v : Val) : PrefixOK env (asConstructor env v) := prefix_asConstructor env v

/-- the three alias regimes: `''` = the module path, `'*'` = no prefix, anything else = the alias (for the
    modules of the library) -/
theorem prefix_of_alias (m : String) :
    packageOf "" m = m ++ "." ∧ packageOf "*" m = "" ∧
    ∀ al, al ≠ "" → al ≠ "*" → m.startsWith "fuzzylite." = true → packageOf al m = al ++ "." := by
  refine ⟨by simp [packageOf], by simp [packageOf], ?_⟩
  intro al h1 h2 h3
  simp [packageOf, h1, h2, h3]

/-- `repr (eval (repr o)) = repr o` for objects that carry their constructor parameters -/
theorem repr_fixed_point (env : Env) (h0 : 0 ≤ env.cfg.tol) (v : Val) (hc : Complete v) (hr : RulesOK v)
    (hv : NoInvalid (asConstructor env v)) :
    ∃ o, evalCall (asConstructor env v) = some o ∧ asConstructor env o = asConstructor env v :=
  ⟨view env v, eval_repr env v hr hv,
   asConstructor_view env h0 signatures_distinct (dropped_fields_are_defaults env h0) v hc⟩

/-! ## the hypotheses are satisfiable by non-trivial values -/

def envFl : Env := ⟨"fl", ⟨3, 1/1000⟩⟩

/-- `fl.Triangle('t', 0.0, 0.5, 1.0)`: the height 1 is dropped, the rest is positional -/
def tri : Val := .node (.obj "Triangle" ["name", "left", "top", "right", "height"])
  [.atom (.str "t"), .atom (.num (.fin 0)), .atom (.num (.fin (1/2))), .atom (.num (.fin 1)), .atom (.num (.fin 1))]

/-- `fl.InputVariable(name='x', minimum=0.0, maximum=1.0, lock_range=False, terms=[…])`: `description` and
    `enabled` are dropped, everything is passed by keyword; `_value` is never passed -/
def var : Val := .node (.obj "InputVariable" ["name", "description", "enabled", "minimum", "maximum", "lock_range", "terms", "_value"])
  [.atom (.str "x"), .atom (.str ""), .atom (.bool true), .atom (.num (.fin 0)), .atom (.num (.fin 1)), .atom (.bool false),
   .node .list [tri], .atom (.other "ndarray")]

/-- label and atomic arguments of a call (decidable summary of a tree) -/
def summary : Src → Option (String × String × List (Option String) × List (Option SAtom))
  | .node (.call p c kws) kids => some (p, c, kws, kids.map (fun k => match k with | .atom a => some a | _ => none))
  | _ => none

def fields : Val → Option (String × List String × List (Option Atom))
  | .node (.obj c names) kids => some (c, names, kids.map (fun k => match k with | .atom a => some a | _ => none))
  | _ => none

example : summary (asConstructor envFl tri) =
    some ("fl.", "Triangle", [none, none, none, none],
      [some (.lit "fl." (.str "t")), some (.lit "fl." (.num (.fin 0))), some (.lit "fl." (.num (.fin (1/2)))),
       some (.lit "fl." (.num (.fin 1)))]) := by decide +kernel

example : (match asConstructor envFl var with
    | .node (.call p c kws) _ => (p, c, kws)
    | _ => ("", "", [])) = ("fl.", "InputVariable", [some "name", some "minimum", some "maximum", some "lock_range", some "terms"]) := by
  decide +kernel

example : (evalCall (asConstructor envFl tri)).bind fields = fields tri := by decide +kernel

end C15
