import FlVerif.Lemmas.FllRepresentable
import FlVerif.Lemmas.CodeFllExportNamed
import FlVerif.Lemmas.CodeFllExportFormat
import FlVerif.Lemmas.CodeFllImportEngine
import FlVerif.Lemmas.CodeFllImportTerm
import FlVerif.Lemmas.CodeTermParse
import FlVerif.Lemmas.CodeTermParseOps
import FlVerif.Lemmas.CodeRaisedStr
import FlVerif.Lemmas.CodeBlockActImport   -- the factory look-ups of the importer (`FllImporter.tnorm` / `snorm`)
import FlVerif.Lemmas.CodeWave5XCfg        -- `Engine.configure`, `FllImporter.component`

import FlVerif.Lemmas.CodeWave5Y           -- the shape classes of term.py: constructors, parameters, configure
import FlVerif.Lemmas.CodeWave5YAct        -- the activation methods: constructors, parameters, configure

/-! # C14 — FuzzyLite Language export / import round-trips engines

Model: `Op.FllIO` (token level: a line is a key and the tokens of its value; a number token carries the exact
value `to_float` reads; `Dec.fmt d` is Python's `format(x, f".{d}f")` on the exact value).  The tables of
registered classes, term parameter counts and optional heights, and the parameter lists of defuzzifiers and
activation methods are regenerated from the code (`Gen.Tables`, `Gen.ExportTables`).

`fllExport` models the exporter of the current tree: the height of a term / weight of a rule is printed unless
the value *or its printed form* is within the tolerance of 1.  `fllExportPinned` models the pinned tree (only the
exact value is tested), for which the round trip needs the hypothesis `Stable` and fails without it (defect F11).

Outside these theorems (carried by the correspondence): the digit-level text of numbers and CPython's
`float()` / `format`, cutting a text into lines and tokens, loading rules and formulas against the engine, and
the numeric outputs of a re-imported engine. -/

namespace C14
open Op.FllIO Dec Spec.Fll

/-! ## Tie A: the importer translated from the current source (`fv/pylean.py`, `Gen/CodeFllImport.lean`)

The methods of `FllImporter` work on strings; the model `Op.FllIO` works on token lines.  Both meet in the lexer
`lexLine` of `Op/FllText.lean` (cut at `#`, strip, cut at the first colon, strip, tokens of the value by key), and the
translated loops are proved equal to the model's line functions applied to `lexLine` of each raw line **when the loop
reaches it** (`stepText`): same exception class, same component.  What stays an external (trusted vocabulary,
`Op/PyExtFllImport.lean`): the character-level meaning of `str.strip / split`, `Op.strip_comments`, `to_float`, the
separator fixed to `"\n"`, and the methods of other classes (factories, `configure`, `Rule.create`) as the model's
`configure`, `activParams`, `defuzzParams`, `importRule` on the tokens of the text.  The four methods `term`, `rule`,
`defuzzifier`, `activation` are called from the loops through their text-level models `Py.Fll.termOf`, … -/

/-- `FllImporter.extract_key_value`: comments stripped, cut at the first colon, `SyntaxError` without a colon or when
    the text before the colon is not the expected key (compared *unstripped*), both parts stripped -/
theorem code_fllKeyValue (fll : String) (component : Option String) :
    Gen.Code.FllImporter_extract_key_value.run fll component {} =
      (Py.Fll.keyValue fll component).map
        (fun kv => { parts := Py.Fll.splitColon (Py.Fll.stripComments fll), ret := some kv }) :=
  code_keyValue fll component

/-- the (key, value) pair that `extract_key_value` returns for a raw line is the pair the lexer turns into the
    token line of the model (the line of the unknown key `term ` / `rule ` when white space precedes the colon) -/
theorem fllKeyValue_lexLine (x : String) :
    (Py.Fll.stripComments x = "" ∧ lexLine x.toList = .ok none) ∨
    (Py.Fll.stripComments x ≠ "" ∧ (∀ c, Py.Fll.keyValue (Py.Fll.stripComments x) c = .error .syntax) ∧
      lexLine x.toList = .error .syntax) ∨
    (∃ k v, Py.Fll.stripComments x ≠ "" ∧
      Py.Fll.keyValue (Py.Fll.stripComments x) none = .ok (Py.Fll.strip k, Py.Fll.strip v) ∧
      lexLine x.toList =
        if (Key.ofText (Py.Fll.strip k) = .term ∨ Key.ofText (Py.Fll.strip k) = .rule) ∧ k ≠ Py.Fll.strip k
        then .ok (some ⟨.other k, textTok (Py.Fll.strip v).toList⟩)
        else .ok (some ⟨Key.ofText (Py.Fll.strip k), lexValue (Key.ofText (Py.Fll.strip k)) (Py.Fll.strip v).toList⟩)) := by
  rcases lineCase x with ⟨hb, hl⟩ | ⟨hb, hk, hl⟩ | ⟨k, v, hb, hs, hl⟩
  · exact Or.inl ⟨hb, hl⟩
  · exact Or.inr (Or.inl ⟨hb, hk, hl⟩)
  · refine Or.inr (Or.inr ⟨k, v, hb, ?_, hl⟩)
    have := keyValue_pair x k v hs none
    simpa [Py.Fll.truthyOptStr] using this

/-- `FllImporter.extract_value` -/
theorem code_fllExtractValue (fll : String) (component : Option String) :
    Gen.Code.FllImporter_extract_value.run fll component {} =
      (Py.Fll.keyValue fll component).map (fun kv => { ret := some kv.2 }) :=
  code_extractValue fll component

/-- `FllImporter.boolean` = `boolOf` on the token of the stripped text -/
theorem code_fllBoolean (fll : String) :
    Gen.Code.FllImporter_boolean.run fll {} =
      (Py.Fll.lift (boolOf (textTok (trimChars fll.toList)))).map (fun b => { ret := some b }) :=
  code_boolean fll

/-- `FllImporter.range` = `rangeOf` on the number tokens of the words of the text -/
theorem code_fllRange (fll : String) :
    Gen.Code.FllImporter_range.run fll {} =
      (Py.Fll.lift (rangeOf ((words fll.toList).map numTokOf))).map
        (fun r => { values := Py.Fll.words fll, ret := some r }) :=
  code_range fll

/-- `FllImporter.tnorm` = `normOf` over the regenerated table of T-norms -/
theorem code_fllTnorm (fll : String) :
    Gen.Code.FllImporter_tnorm.run fll {} =
      (Py.Fll.lift (normOf Gen.Tables.tnormKeys (textTok fll.toList))).map (fun o => { ret := some o }) :=
  code_tnorm fll

/-- `FllImporter.snorm` = `normOf` over the regenerated table of S-norms -/
theorem code_fllSnorm (fll : String) :
    Gen.Code.FllImporter_snorm.run fll {} =
      (Py.Fll.lift (normOf Gen.Tables.snormKeys (textTok fll.toList))).map (fun o => { ret := some o }) :=
  code_snorm fll

/-- **Tie A.**  `FllImporter.component(cls, fll)` on a stripped value = the dispatch `Py.W5.componentOf`: the first of
    the four tests `issubclass(cls, Activation / Defuzzifier / SNorm / TNorm)` that holds selects the method, whose
    meaning is its text-level model (`activOf`, `defuzzOf`, `normOf` over the regenerated table of S-norms / T-norms -
    through the ties `code_fllActivation`, `code_fllDefuzzifier`, `code_fllSnorm`, `code_fllTnorm`); a class that is none
    of the four raises `TypeError`.  (A class that is both an S-norm and a T-norm is read as an S-norm.) -/
theorem code_fllComponent (cls : Py.W5.ClassOf) (v : String) :
    Gen.Code.FllImporter_component.run cls (Py.Fll.strip v) {} =
      (if cls.isActivation then (Py.Fll.activOf (Py.Fll.strip v)).map Py.W5.Component.activation
       else if cls.isDefuzzifier then (Py.Fll.defuzzOf (Py.Fll.strip v)).map Py.W5.Component.defuzzifier
       else if cls.isSNorm then
         (Py.Fll.lift (normOf Gen.Tables.snormKeys (textTok (Py.Fll.strip v).toList))).map Py.W5.Component.snorm
       else if cls.isTNorm then
         (Py.Fll.lift (normOf Gen.Tables.tnormKeys (textTok (Py.Fll.strip v).toList))).map Py.W5.Component.tnorm
       else .error .internal).map (fun c => { ret := some c }) :=
  Py.W5.code_fllComponent cls v

/-- `FllImporter.rule` = the text-level model `ruleOf` that `rule_block` calls: `extract_value(line, "rule")`, then
    `Rule.parse` of the model (`importRule`) on the tokens of the value -/
theorem code_fllRule (fll : String) :
    Gen.Code.FllImporter_rule.run fll {} = (Py.Fll.ruleOf fll).map (fun r => { ret := some r }) :=
  code_rule fll

/-- `FllImporter.term` = the text-level model `termOf` that `input_variable` / `output_variable` call:
    `extract_value(line, "term")`, name and class, `SyntaxError` for fewer than two words, factory construction and
    `configure` = the model's `importTerm` on the tokens of the value -/
theorem code_fllTerm (fll : String) :
    (Gen.Code.FllImporter_term.run fll {} >>= fun r => Py.deref r.ret) = Py.Fll.termOf fll :=
  code_term fll

/-- `FllImporter.activation` on a stripped value (what `extract_key_value` returns; on a text with surrounding white
    space the code raises where the lexer strips) = the text-level model `activOf` that `rule_block` calls: `none`,
    class name, factory construction, `configure` = the model's `importActiv` on the tokens of the value -/
theorem code_fllActivation (v : String) :
    (Gen.Code.FllImporter_activation.run (Py.Fll.strip v) {} >>= fun r => Py.deref r.ret) =
      Py.Fll.activOf (Py.Fll.strip v) :=
  code_activation v

/-- `FllImporter.defuzzifier` on a stripped value = the text-level model `defuzzOf` that `output_variable` calls
    (the model's `importDefuzz` on the tokens of the value) -/
theorem code_fllDefuzzifier (v : String) :
    (Gen.Code.FllImporter_defuzzifier.run (Py.Fll.strip v) {} >>= fun r => Py.deref r.ret) =
      Py.Fll.defuzzOf (Py.Fll.strip v) :=
  code_defuzzifier v

/-- `FllImporter.input_variable`: the key dispatch loop is `importVarLine` on the lexed lines, then the name as an
    identifier - same exception class, same variable, for every text -/
theorem code_fllInputVariable (fll : String) :
    match ((Py.Fll.splitLines fll).foldlM (stepText (importVarLine .inputVariable)) {}).map finishVar with
    | .error e => Gen.Code.FllImporter_input_variable.run fll {} = .error e.toPy
    | .ok v => ∃ σ, Gen.Code.FllImporter_input_variable.run fll {} = .ok σ ∧ σ.ret = some v := by
  have h := code_inputVariable_agree fll
  unfold importInputText at h
  generalize ((Py.Fll.splitLines fll).foldlM (stepText (importVarLine .inputVariable)) {}).map finishVar = r at h ⊢
  cases r <;> exact h

/-- `FllImporter.output_variable`: `importOutLine` on the lexed lines -/
theorem code_fllOutputVariable (fll : String) :
    match ((Py.Fll.splitLines fll).foldlM (stepText importOutLine) {}).map (fun o => { o with base := finishVar o.base }) with
    | .error e => Gen.Code.FllImporter_output_variable.run fll {} = .error e.toPy
    | .ok v => ∃ σ, Gen.Code.FllImporter_output_variable.run fll {} = .ok σ ∧ σ.ret = some v := by
  have h := code_outputVariable_agree fll
  unfold importOutputText at h
  generalize ((Py.Fll.splitLines fll).foldlM (stepText importOutLine) {}).map (fun o => { o with base := finishVar o.base }) = r at h ⊢
  cases r <;> exact h

/-- `FllImporter.rule_block`: `importBlockLine` on the lexed lines -/
theorem code_fllRuleBlock (fll : String) :
    match (Py.Fll.splitLines fll).foldlM (stepText importBlockLine) {} with
    | .error e => Gen.Code.FllImporter_rule_block.run fll {} = .error e.toPy
    | .ok v => ∃ σ, Gen.Code.FllImporter_rule_block.run fll {} = .ok σ ∧ σ.ret = some v := by
  have h := code_ruleBlock_agree fll
  unfold importBlockText at h
  generalize (Py.Fll.splitLines fll).foldlM (stepText importBlockLine) {} = r at h ⊢
  cases r <;> exact h

/-- when every line lexes, the text-level reading of a component is the model's reading of its token lines -/
theorem stepText_lexed {β : Type} (f : β → Line → Except Err β) (ws : List (List Char)) (ls : List Line)
    (h : lexLines ws = .ok ls) (b : β) : (ws.map String.ofList).foldlM (stepText f) b = ls.foldlM f b :=
  foldlM_stepText_lexed f ws ls h b

/-- `FllImporter._process`: the `Engine` lines in place, the three other components through their methods -/
theorem code_fllProcess (component : String) (block : List String) (e : Engine) :
    match processText component block e with
    | .error err => Gen.Code.FllImporter__process.run component block e {} = .error err.toPy
    | .ok v => ∃ σ, Gen.Code.FllImporter__process.run component block e {} = .ok σ ∧ σ.engine = v := by
  have h := code_process component block e
  generalize processText component block e = r at h ⊢
  cases r <;> exact h

/-- **`FllImporter.engine`** (the block cutting loop): the translated code is the loop `engineLoop` of the model with
    each line lexed when the loop reaches it - same exception class, same engine, for every text -/
theorem code_fllEngine (fll : String) :
    match engineLoopText (Py.Fll.splitLines fll) none [] {} with
    | .error e => Gen.Code.FllImporter_engine.run fll {} = .error e.toPy
    | .ok v => ∃ σ, Gen.Code.FllImporter_engine.run fll {} = .ok σ ∧ σ.ret = some v := by
  have h := code_engine fll
  unfold importTextLazy at h
  change Agree _ (Except.map some (engineLoopText (Py.Fll.splitLines fll) none [] {})) _ at h
  generalize engineLoopText (Py.Fll.splitLines fll) none [] {} = r at h ⊢
  cases r <;> exact h

/-- on every text all of whose lines lex (every non-empty line has a colon), the translated `engine` is the model
    `fllImport` of the theorems below, applied to the token lines of the text -/
theorem code_fllEngine_tokens (fll : String) (ls : List Line) (h : lexText fll = .ok ls) :
    match fllImport ls with
    | .error e => Gen.Code.FllImporter_engine.run fll {} = .error e.toPy
    | .ok v => ∃ σ, Gen.Code.FllImporter_engine.run fll {} = .ok σ ∧ σ.ret = some v := by
  rw [← importTextLazy_lexed fll ls h]
  exact code_fllEngine fll

/-- a text with a non-empty line without a colon is rejected by the translated `engine` (the class is `SyntaxError`
    unless a component completed before that line raises first) -/
theorem code_fllEngine_unlexed (fll : String) (e : Err) (h : lexText fll = .error e) :
    ∃ e', Gen.Code.FllImporter_engine.run fll {} = .error e' := by
  have h1 := engineLoopText_unlexed (splitNl fll.toList) e h none [] {}
  obtain ⟨e2, he2⟩ := h1
  have h2 := code_fllEngine fll
  unfold Py.Fll.splitLines at h2
  rw [he2] at h2
  exact ⟨_, h2⟩

/-! ## decimal text -/

/-- printing what was read back prints the same text -/
theorem fmt_idempotent (d : ℕ) (k : Dec) : fmt d (val d k) = k := fmt_val d k

/-- a number that went through one print / read cycle is a fixed point of the cycle -/
theorem rnd_idempotent (d : ℕ) (x : Num) : rnd d (rnd d x) = rnd d x := rnd_rnd d x

/-- one cycle does not change how a number prints -/
theorem fmt_of_rnd (d : ℕ) (x : Num) : fmt d (rnd d x) = fmt d x := fmt_rnd d x

/-! ## component layers: the importer reads back what the exporter printed -/

/-- term parameters and height (`Term.parameters()` / `configure()`, all registered classes incl. Discrete,
    Linear, Function, Constant), any "print the height" rule -/
theorem term_roundtrip (keep : Num → Bool) (c : Cfg) (t : Term) (h : TermOK t) :
    importTerm (termLine keep c t).toks = .ok (canonTerm keep c t) :=
  Op.FllIO.term_roundtrip keep c t h

/-- T-norm / S-norm names incl. `none` -/
theorem operator_roundtrip (keys : List String) (hn : "none" ∉ keys) (o : Option String) (h : NormOK keys o) :
    normOf keys [normTok o] = .ok o := norm_roundtrip keys hn o h

/-- the regenerated operator tables do not contain the reserved word `none` -/
theorem none_is_not_an_operator : "none" ∉ Gen.Tables.tnormKeys ∧ "none" ∉ Gen.Tables.snormKeys :=
  ⟨none_not_tnorm, none_not_snorm⟩

/-- defuzzifier with its resolution / type parameter (dropped when it is the default) -/
theorem defuzzifier_roundtrip (d : Option Defuzz) (h : DefuzzOK d) : importDefuzz (defuzzToks d) = .ok d :=
  defuzz_roundtrip d h

/-- activation method with its parameters -/
theorem activation_roundtrip (c : Cfg) (a : Option Activ) (h : ActivOK a) :
    importActiv (activToks c a) = .ok (a.map (canonActiv c)) := activ_roundtrip c a h

/-- rule text with its weight (`Rule.text` / `Rule.parse`) -/
theorem rule_roundtrip (keep : Num → Bool) (c : Cfg) (r : Rule) (h : RuleOK r) :
    importRule (ruleToks keep c r) = .ok (canonRule keep c r) := Op.FllIO.rule_roundtrip keep c r h

/-- input variable: name, description, enabled, range, lock-range, terms -/
theorem input_variable_roundtrip (keep : Num → Bool) (c : Cfg) (v : Var) (h : VarOK v) :
    importInput (inputLines keep c v) = .ok (canonVar keep c v) := input_roundtrip keep c v h

/-- output variable: additionally aggregation, defuzzifier, default, lock-previous -/
theorem output_variable_roundtrip (keep : Num → Bool) (c : Cfg) (o : OutVar) (h : OutOK o) :
    importOutput (outputLines keep c o) = .ok (canonOut keep c o) := output_roundtrip keep c o h

/-- rule block: name, description, enabled, three operators, activation, rules -/
theorem rule_block_roundtrip (keep : Num → Bool) (c : Cfg) (b : Block) (h : BlockOK b) :
    importBlock (blockLines keep c b) = .ok (canonBlock keep c b) := block_roundtrip keep c b h

/-! ## whole engines -/

/-- the imported engine has the structure of the original: same components in the same order, same classes,
    operators, flags and texts; names as identifiers; numbers rounded to `d` decimals; a height / weight
    replaced by 1 exactly when it was not printed -/
theorem import_export_structure (c : Cfg) (e : Engine) (h : WellFormed e) :
    fllImport (fllExport c e) = .ok (canon c e) := import_export (keepHeight c) c e h

/-- the printer of the current tree is stable for *every* number: 1 is never printed, and a printed height /
    weight is printed again after it was read back – so `export_import_export` needs no hypothesis on heights -/
theorem current_printer_stable (c : Cfg) (h0 : 0 ≤ c.tol) :
    keepHeight c one = false ∧ ∀ h, keepHeight c h = true → keepHeight c (rnd c.d h) = true :=
  keepHeight_stable c h0

/-- export → import → export reproduces the text, for every printable engine -/
theorem export_import_export (c : Cfg) (h0 : 0 ≤ c.tol) (e : Engine) (hp : Printable e) :
    (fllImport (fllExport c e)).map (fllExport c) = .ok (fllExport c e) := by
  obtain ⟨hw, hi, ho⟩ := hp
  have hs := keepHeight_stable c h0
  rw [import_export_structure c e hw]
  simp only [except_map_ok, fllExport, canon]
  rw [export_canon (keepHeight c) c hs.1 e hi ho (fun h _ => hs.2 h)]

/-- the pinned printer (`not is_close(h, 1)` only): the round trip holds under `Stable` -/
theorem export_import_export_pinned (c : Cfg) (h0 : 0 ≤ c.tol) (e : Engine) (hp : Printable e)
    (hs : Stable (keepHeightPinned c) c e) :
    (fllImport (fllExportPinned c e)).map (fllExportPinned c) = .ok (fllExportPinned c e) := by
  obtain ⟨hw, hi, ho⟩ := hp
  have h1 : keepHeightPinned c one = false := by simp [keepHeightPinned, isClose1_one c.tol h0]
  unfold fllExportPinned
  rw [import_export (keepHeightPinned c) c e hw]
  simp only [except_map_ok]
  rw [export_canon (keepHeightPinned c) c h1 e hi ho hs]

/-- `Stable` for the pinned printer fails exactly when some height / weight is outside the tolerance of 1 while
    its printed form is inside (F11) -/
theorem pinned_unstable_iff (c : Cfg) (e : Engine) :
    ¬ Stable (keepHeightPinned c) c e ↔
      ∃ h ∈ heightsAndWeights e, isClose1 c.tol h = false ∧ isClose1 c.tol (rnd c.d h) = true := by
  unfold Stable keepHeightPinned
  constructor
  · intro hn
    by_contra hc
    apply hn
    intro h hh hk
    by_contra hk2
    exact hc ⟨h, hh, by simpa using hk, by simpa using hk2⟩
  · rintro ⟨h, hh, h1, h2⟩ hs
    have := hs h hh (by simp [h1])
    simp [h2] at this

/-- two decimals, tolerance 1e-3, a Triangle of height 0.9986 -/
def f11Cfg : Cfg := ⟨2, 1/1000⟩
def f11Var : Var :=
  { name := "x", lo := .fin 0, hi := .fin 1,
    terms := [⟨"t", "Triangle", .shape [.fin 0, .fin (1/2), .fin 1] (some (.fin (9986/10000)))⟩] }
def f11Engine : Engine := { name := "e", inputs := [f11Var] }

theorem f11Engine_printable : Printable f11Engine := by
  refine ⟨⟨?_, by intro o ho; simp [f11Engine] at ho, by intro b hb; simp [f11Engine] at hb⟩, ?_,
    by intro o ho; simp [f11Engine] at ho⟩
  · intro v hv
    simp only [f11Engine, List.mem_singleton] at hv
    subst hv
    intro t ht
    simp only [f11Var, List.mem_singleton] at ht
    subst ht
    exact ⟨by decide, by decide, by decide⟩
  · intro v hv
    simp only [f11Engine, List.mem_singleton] at hv
    subst hv
    show asIdent "x" = "x"
    decide +kernel

/-- F11 in the model: with the pinned printer the height is exported as `1.00`, read back as 1 and dropped by the
    second export – export → import → export differs -/
theorem export_import_export_unstable :
    Printable f11Engine ∧
    (fllImport (fllExportPinned f11Cfg f11Engine)).map (fllExportPinned f11Cfg)
      ≠ .ok (fllExportPinned f11Cfg f11Engine) := by
  refine ⟨f11Engine_printable, ?_⟩
  unfold fllExportPinned
  rw [import_export (keepHeightPinned f11Cfg) f11Cfg f11Engine f11Engine_printable.1]
  simp only [except_map_ok, ne_eq, Except.ok.injEq]
  decide +kernel

/-- the same engine is a fixed point of the current printer -/
example : (fllImport (fllExport f11Cfg f11Engine)).map (fllExport f11Cfg) = .ok (fllExport f11Cfg f11Engine) :=
  export_import_export f11Cfg (by norm_num [f11Cfg]) f11Engine f11Engine_printable

/-- whatever the importer accepts is a printable engine -/
theorem import_printable (ls : List Line) (e : Engine) (h : fllImport ls = .ok e) : Printable e :=
  fllImport_printable ls e h

/-- any accepted text is normalised by one import / export cycle to a fixed point -/
theorem import_normalises (c : Cfg) (h0 : 0 ≤ c.tol) (ls : List Line) (e : Engine) (h : fllImport ls = .ok e) :
    (fllImport (fllExport c e)).map (fllExport c) = .ok (fllExport c e) :=
  export_import_export c h0 e (fllImport_printable ls e h)

/-! ## representable engines are reproduced exactly -/

/-- when every number is representable at `d` decimals (heights and weights 1 or outside the tolerance) the
    importer rebuilds *the same engine*; hence every observation of it – in particular the outputs it computes
    for any input (`C01.process` is a function of the engine) – is the same -/
theorem representable_same_outputs (c : Cfg) (h0 : 0 ≤ c.tol) (e : Engine) (hw : WellFormed e)
    (hr : Representable c e) :
    fllImport (fllExport c e) = .ok e ∧
    ∀ {β : Type} (outputs : Engine → β), (fllImport (fllExport c e)).map outputs = .ok (outputs e) := by
  obtain ⟨hi, ho, hb⟩ := hr
  have hc : canon c e = e := by
    unfold canon canonWith
    have e1 := map_eq_self _ e.inputs (fun v h => canonVar_rep c h0 v (hi v h))
    have e2 : e.outputs.map (canonOut (keepHeight c) c) = e.outputs :=
      map_eq_self _ _ (fun o h => by
        obtain ⟨hv, hd⟩ := ho o h
        have hd' : rnd c.d o.default = o.default := hd
        simp [canonOut, canonVar_rep c h0 o.base hv, hd'])
    have e3 := map_eq_self _ e.blocks (fun b h => canonBlock_rep c h0 b (hb b h))
    simp [e1, e2, e3]
  have := import_export_structure c e hw
  rw [hc] at this
  exact ⟨this, fun outputs => by rw [this]; rfl⟩

/-! ## the hypotheses are satisfiable by non-trivial values -/

/-- a printable, representable engine with a height, an output variable, a rule with a weight -/
def sampleIn : Var :=
  { name := "service", lo := .fin 0, hi := .fin 10,
    terms := [⟨"poor", "Triangle", .shape [.fin 0, .fin (5/2), .fin 5] (some (.fin (1/2)))⟩,
              ⟨"pts", "Discrete", .discrete [.fin 0, .fin 1, .fin 10, .fin 0] one⟩] }
def sampleOutBase : Var :=
  { name := "tip", lo := .fin 0, hi := .fin 30, lockRange := true,
    terms := [⟨"cheap", "Constant", .shape [.fin 5] none⟩, ⟨"lin", "Linear", .linear [.fin 1, .fin 2]⟩] }
def sampleOut : OutVar :=
  { base := sampleOutBase, aggregation := some "Maximum",
    defuzzifier := some (.weighted "WeightedAverage" "TakagiSugeno"), default := .nan, lockPrevious := true }
def sampleBlock : Block :=
  { name := "rules", conjunction := some "Minimum", activation := some (.nth "First" 2 (.fin (1/4))),
    rules := [⟨["service", "is", "poor"], ["tip", "is", "cheap"], .fin (3/4)⟩] }
def sample : Engine :=
  { name := "tipper", description := "a 'small' engine", inputs := [sampleIn], outputs := [sampleOut],
    blocks := [sampleBlock] }

def sampleCfg : Cfg := ⟨3, 1/1000⟩

example : (fllImport (fllExport sampleCfg sample)) = .ok sample := by decide +kernel
example : Stable (keepHeightPinned sampleCfg) sampleCfg sample := by
  intro h hh; revert h; decide +kernel
example : ¬ Stable (keepHeightPinned f11Cfg) f11Cfg f11Engine :=
  (pinned_unstable_iff f11Cfg f11Engine).2 ⟨.fin (9986/10000), by decide +kernel, by decide +kernel, by decide +kernel⟩


/-! ## Tie A: term parameters

The import side of term parameters, regenerated from the current source (`Gen/CodeTermParse.lean`): `Term._parse`, the
`configure` methods of representative classes, and the helpers of `Operation` the FuzzyLite Language layer uses.  The
translated code works on the parameter *text*; the importer model (`numsOf`, `parseShape`, `configure`) on its *tokens*
`Py.FllIn.toks rd parameters` = the words of the text (`parameters.split()`), a word being a number token `.n x` where
the reader `rd` (`to_float`, i.e. CPython's `float(text)`) reads `x` and a word token otherwise.  `rd` is a parameter:
the theorems hold for every reader; the text layer of the driver uses `parseNum` (`tokens_are_lexer_tokens`).
All failures of these functions are `ValueError`s, as the model says (`Err.value`). -/

/-- with `parseNum` as the reader the tokens are the tokens the lexer of the text layer makes of the words -/
theorem tokens_are_lexer_tokens (parameters : String) :
    Py.FllIn.toks parseNum parameters = (Py.split parameters).map numTokOf := rfl

/-- `to_float(x)` of a string is the reader `rd` of the theorems below (`settings.float_type(x)`): `ValueError` where it
    reads no number -/
theorem code_toFloat (rd : String → Option Num) (x : String) :
    match rd x with
    | none => Gen.Code.to_float.run rd x {} = .error .value
    | some v => ∃ σ, Gen.Code.to_float.run rd x {} = .ok σ ∧ σ.ret = some v :=
  Py.FllIn.code_toFloat rd x

/-- `Term._parse(required, parameters, height=…)`: the values and the count check of `parseShape`; the list returned is
    the parameters followed by the height (1 when it is optional and absent) -/
theorem code_termParse (rd : String → Option Num) (required : ℕ) (parameters : String) (height : Bool) :
    match numsOf (Py.FllIn.toks rd parameters) >>= parseShape required height with
    | .error e => Gen.Code.Term_parse.run rd required parameters height {} = .error e.toPy
    | .ok b => ∃ σ, Gen.Code.Term_parse.run rd required parameters height {} = .ok σ ∧
        σ.ret = some (Py.FllIn.shapeValues b) :=
  Py.FllIn.code_termParse rd required parameters height

/-- `Triangle.configure`: three parameters and the optional height, assigned in this order -/
theorem code_triangleConfigure (rd : String → Option Num) (parameters : String) :
    match numsOf (Py.FllIn.toks rd parameters) >>= parseShape 3 true with
    | .error e => Gen.Code.Triangle_configure.run rd parameters {} = .error e.toPy
    | .ok b => ∃ σ, Gen.Code.Triangle_configure.run rd parameters {} = .ok σ ∧
        b = .shape [σ.self_left, σ.self_top, σ.self_right] (some σ.self_height) :=
  Py.FllIn.code_triangleConfigure rd parameters

/-- `Trapezoid.configure`: four parameters and the optional height -/
theorem code_trapezoidConfigure (rd : String → Option Num) (parameters : String) :
    match numsOf (Py.FllIn.toks rd parameters) >>= parseShape 4 true with
    | .error e => Gen.Code.Trapezoid_configure.run rd parameters {} = .error e.toPy
    | .ok b => ∃ σ, Gen.Code.Trapezoid_configure.run rd parameters {} = .ok σ ∧
        b = .shape [σ.self_bottom_left, σ.self_top_left, σ.self_top_right, σ.self_bottom_right] (some σ.self_height) :=
  Py.FllIn.code_trapezoidConfigure rd parameters

/-- `Constant.configure`: one parameter, no height -/
theorem code_constantConfigure (rd : String → Option Num) (parameters : String) :
    match numsOf (Py.FllIn.toks rd parameters) >>= parseShape 1 false with
    | .error e => Gen.Code.Constant_configure.run rd parameters {} = .error e.toPy
    | .ok b => ∃ σ, Gen.Code.Constant_configure.run rd parameters {} = .ok σ ∧ b = .shape [σ.self_value] none :=
  Py.FllIn.code_constantConfigure rd parameters

/-- the counts `3 / 4 / 1` and the height flags in the three theorems above are those of the regenerated table, and the
    model's `configure` of such a class (the importer calls it with at least one token) is `numsOf` then `parseShape` -/
theorem configure_parse_classes (ps : List Tok) (hp : ps ≠ []) :
    configure "Triangle" ps = (numsOf ps >>= parseShape 3 true) ∧
    configure "Trapezoid" ps = (numsOf ps >>= parseShape 4 true) ∧
    configure "Constant" ps = (numsOf ps >>= parseShape 1 false) :=
  ⟨Py.FllIn.configure_of_arity _ _ _ ps (by decide) (by decide) (by decide) hp,
   Py.FllIn.configure_of_arity _ _ _ ps (by decide) (by decide) (by decide) hp,
   Py.FllIn.configure_of_arity _ _ _ ps (by decide) (by decide) (by decide) hp⟩

/-- `Linear.configure`: every word is a coefficient -/
theorem code_linearConfigure (rd : String → Option Num) (parameters : String) :
    match configure "Linear" (Py.FllIn.toks rd parameters) with
    | .error e => Gen.Code.Linear_configure.run rd parameters {} = .error e.toPy
    | .ok b => ∃ σ, Gen.Code.Linear_configure.run rd parameters {} = .ok σ ∧ b = .linear σ.self_coefficients :=
  Py.FllIn.code_linearConfigure rd parameters

/-- `Discrete.configure`: an even number of words are the pairs (height 1); with an odd number the last word is the
    height (read first) and the others are the pairs (`values` as the flat row-major list of the `n × 2` array) -/
theorem code_discreteConfigure (rd : String → Option Num) (parameters : String) :
    match configure "Discrete" (Py.FllIn.toks rd parameters) with
    | .error e => Gen.Code.Discrete_configure.run rd parameters {} = .error e.toPy
    | .ok b => ∃ σ, Gen.Code.Discrete_configure.run rd parameters {} = .ok σ ∧
        b = .discrete σ.self_values σ.self_height :=
  Py.FllIn.code_discreteConfigure rd parameters

/-- `Function.configure`: the formula is the whole parameter text; `load` stands for `Function.load` on it (C17), whose
    exceptions pass through – loading is outside the model of this property -/
theorem code_functionConfigure (load : String → Py.M Unit) (parameters : String) :
    match load parameters with
    | .error e => Gen.Code.Function_configure.run load parameters {} = .error e
    | .ok _ => ∃ σ, Gen.Code.Function_configure.run load parameters {} = .ok σ ∧
        configure "Function" [.w parameters] = .ok (.function σ.self_formula) :=
  Py.FllIn.code_functionConfigure load parameters

/-- `Op.as_identifier(name)`: the characters that are alphanumeric or `_` are kept, an empty result is `_`, a leading
    numeric character gets `_` in front – for any character classes `str.isalnum` / `str.isnumeric` in which `_` is
    not numeric -/
theorem code_asIdentifier (alnum numeric : Char → Bool) (hu : numeric '_' = false) (name : String) :
    ∃ σ, Gen.Code.Op_as_identifier.run alnum numeric name {} = .ok σ ∧
      σ.ret = some (Py.FllIn.asIdentWith alnum numeric name) :=
  Py.FllIn.code_asIdentifier alnum numeric hu name

/-- the model's `asIdent` is `Op.as_identifier` with the ASCII character classes (the model's reading of `isalnum` /
    `isnumeric`; names with other letters or digits are outside the model), which satisfy the side condition -/
theorem asIdent_is_ascii_instance (name : String) :
    asIdent name = Py.FllIn.asIdentWith Char.isAlphanum Char.isDigit name ∧ Char.isDigit '_' = false :=
  ⟨Py.FllIn.asIdent_eq name, Py.FllIn.underscore_not_numeric⟩

/-- `Op.strip_comments(fll, delimiter)` for a one-character delimiter: every line is cut at the first delimiter and
    stripped, empty lines are dropped, the others joined by new lines -/
theorem code_stripComments (fll : String) (delim : Char) :
    ∃ σ, Gen.Code.Op_strip_comments.run fll delim {} = .ok σ ∧ σ.ret = some (Py.FllIn.stripComments delim fll) :=
  Py.FllIn.code_stripComments fll delim

/-- the lexer of the driver's text layer cuts a physical line in the same way (`stripLine '#'`); a `term` / `rule` key
    followed by white space before the colon is kept as an unknown key (the importer rejects it when the component is
    processed) -/
theorem lexer_strips_like_strip_comments (s : List Char) :
    lexLine s =
      if (Py.FllIn.stripLine '#' s).isEmpty then .ok none
      else match (Py.FllIn.stripLine '#' s).span (· ≠ ':') with
        | (_, []) => .error .syntax
        | (k, _ :: v) =>
          if (Key.ofText (String.ofList (trimChars k)) = .term ∨ Key.ofText (String.ofList (trimChars k)) = .rule) ∧ k ≠ trimChars k
          then .ok (some ⟨.other (String.ofList k), textTok (trimChars v)⟩)
          else .ok (some ⟨Key.ofText (String.ofList (trimChars k)), lexValue (Key.ofText (String.ofList (trimChars k))) (trimChars v)⟩) :=
  Py.FllIn.lexLine_stripLine s

/-- `Op.scale(x, x_min, x_max, y_min, y_max)` -/
theorem code_scale (x xmin xmax ymin ymax : X Rat) :
    ∃ σ, Gen.Code.Op_scale.run x xmin xmax ymin ymax {} = .ok σ ∧
      σ.ret = some (X.add (X.mul (X.div (X.sub ymax ymin) (X.sub xmax xmin)) (X.sub x xmin)) ymin) :=
  Py.FllIn.code_scale x xmin xmax ymin ymax

/-- `Op.bound(x, minimum, maximum)` = `np.clip` -/
theorem code_bound (x lo hi : X Rat) :
    ∃ σ, Gen.Code.Op_bound.run x lo hi {} = .ok σ ∧ σ.ret = some (X.clip x lo hi) :=
  Py.FllIn.code_bound x lo hi


/-! ## Tie A: exporter

The functions of `exporter.py` (`FllExporter`), `Term._parameters` / `parameters()` and `Rule.text`, regenerated from
the current source (`Gen/CodeFllExport.lean`), return the *text of the tokens* the export side of the model
produces: a line is `key: tok tok …` (`Py.Fll.Line.body`, numbers printed by `Dec.render ∘ Dec.fmt`), the lines
of a component are the header line and the indented other lines (`Py.Fll.blockStrs`), joined by the separator.
`Op.str(x)` is the printed number `Dec.fmt`, `to_float` of it its value `Dec.val` (the trusted CPython step of
this property).  Side conditions: class names are not empty (`Py.Fll.*Named`; they hold for every well-formed
engine by the regenerated tables, `exporter_side_conditions`) and, for `Rule.text`, the rule has an antecedent
and a consequent (otherwise Python prints two adjacent spaces where the model has no token). -/

/-- `Term._parameters(*args)`: the arguments and the height, the height under the current (repaired, F11) rule -/
theorem code_termParameters (c : Cfg) (args : List Num) (h : Num) :
    ∃ σ, Gen.Code.Term_parameters.run c args h {} = .ok σ ∧
      σ.ret = some (Py.joinSp ((termParams (keepHeight c) c (.shape args (some h))).map (Tok.render c.d))) :=
  Py.Fll.code_termParameters c args h

/-- `Triangle.parameters`: left, top, right, then the height -/
theorem code_triangleParameters (c : Cfg) (left top right h : Num) :
    ∃ σ, Gen.Code.Triangle_parameters.run c left top right h {} = .ok σ ∧
      σ.ret = some (Py.Fll.termParameters c (.shape [left, top, right] (some h))) :=
  Py.Fll.code_triangleParameters c left top right h

/-- `Constant.parameters`: the value – and the inherited attribute `height` under the same rule (the model's
    `.shape [v] none` is the case in which it is not printed, `Py.Fll.parameters_no_height`) -/
theorem code_constantParameters (c : Cfg) (value h : Num) :
    ∃ σ, Gen.Code.Constant_parameters.run c value h {} = .ok σ ∧
      σ.ret = some (Py.Fll.termParameters c (.shape [value] (some h))) :=
  Py.Fll.code_constantParameters c value h

/-- `Linear.parameters`: the coefficients – and the inherited attribute `height` (as for `Constant`) -/
theorem code_linearParameters (c : Cfg) (coefficients : List Num) (h : Num) :
    ∃ σ, Gen.Code.Linear_parameters.run c coefficients h {} = .ok σ ∧
      σ.ret = some (Py.Fll.termParameters c (.shape coefficients (some h))) :=
  Py.Fll.code_linearParameters c coefficients h

/-- `Rule.text` (getter): `if … then … [with w]` -/
theorem code_ruleText (c : Cfg) (r : Rule) (hr : Py.Fll.ruleNamed r) :
    ∃ σ, Gen.Code.Rule_text.run c r {} = .ok σ ∧
      σ.ret = some (Py.joinSp ((ruleToks (keepHeight c) c r).map (Tok.render c.d))) :=
  Py.Fll.code_ruleText c r hr

/-- `FllExporter.format(key, value)` for every value (`Py.Fll.Val`: string, `None`, bool, float, nested tuples, any
    other object by its `str`): the recursion over tuples, with empty pieces dropped – `Py.Fll.format` is what the
    other exporter functions below call -/
theorem code_fllFormat (d : ℕ) (key : String) (v : Py.Fll.Val) :
    ∃ σ, Gen.Code.FllExporter_format.run d key v {} = .ok σ ∧ σ.ret = some (Py.Fll.format d key v) :=
  Py.Fll.code_fllFormat d key v

/-- `FllExporter.term` -/
theorem code_fllExportTerm (c : Cfg) (indent sep : String) (t : Term) (ht : Py.Fll.termNamed t) :
    ∃ σ, Gen.Code.FllExporter_term.run c indent sep t {} = .ok σ ∧
      σ.ret = some (Py.Fll.Line.body c.d (termLine (keepHeight c) c t)) :=
  Py.Fll.code_fllExportTerm c indent sep t ht

/-- `FllExporter.norm` -/
theorem code_fllExportNorm (c : Cfg) (indent sep : String) (o : Option String) :
    ∃ σ, Gen.Code.FllExporter_norm.run c indent sep o {} = .ok σ ∧ σ.ret = some (Tok.render c.d (normTok o)) :=
  Py.Fll.code_fllExportNorm c indent sep o

/-- `FllExporter.activation` -/
theorem code_fllExportActivation (c : Cfg) (indent sep : String) (a : Option Activ) (h : Py.Fll.activNamed a) :
    ∃ σ, Gen.Code.FllExporter_activation.run c indent sep a {} = .ok σ ∧
      σ.ret = some (Py.joinSp ((activToks c a).map (Tok.render c.d))) :=
  Py.Fll.code_fllExportActivation c indent sep a h

/-- `FllExporter.defuzzifier` -/
theorem code_fllExportDefuzzifier (c : Cfg) (indent sep : String) (x : Option Defuzz) (h : Py.Fll.defuzzNamed x) :
    ∃ σ, Gen.Code.FllExporter_defuzzifier.run c indent sep x {} = .ok σ ∧
      σ.ret = some (Py.joinSp ((defuzzToks x).map (Tok.render c.d))) :=
  Py.Fll.code_fllExportDefuzzifier c indent sep x h

/-- `FllExporter.rule` -/
theorem code_fllExportRule (c : Cfg) (indent sep : String) (r : Rule) :
    ∃ σ, Gen.Code.FllExporter_rule.run c indent sep r {} = .ok σ ∧
      σ.ret = some (Py.Fll.Line.body c.d (ruleLine (keepHeight c) c r)) :=
  Py.Fll.code_fllExportRule c indent sep r

/-- `FllExporter.variable(variable, terms)`; `hdr` is the key of the class name of the variable -/
theorem code_fllExportVariable (c : Cfg) (indent sep : String) (hdr : Key) (v : Var) (terms : Bool)
    (hh : hdr.text ≠ "") :
    ∃ σ, Gen.Code.FllExporter_variable.run c indent sep hdr v terms {} = .ok σ ∧
      σ.ret = some (Py.Fll.join sep (Py.Fll.blockStrs indent c.d
        (varHead c hdr v ++ (if terms then v.terms.map (termLine (keepHeight c) c) else [])))) :=
  Py.Fll.code_fllExportVariable c indent sep hdr v terms hh

/-- `FllExporter.input_variable` -/
theorem code_fllExportInputVariable (c : Cfg) (indent sep : String) (v : Var) :
    ∃ σ, Gen.Code.FllExporter_input_variable.run c indent sep v {} = .ok σ ∧
      σ.ret = some (Py.Fll.join sep (Py.Fll.blockStrs indent c.d (inputLines (keepHeight c) c v))) :=
  Py.Fll.code_fllExportInputVariable c indent sep v

/-- `FllExporter.output_variable` -/
theorem code_fllExportOutputVariable (c : Cfg) (indent sep : String) (o : OutVar)
    (ha : Py.Fll.normNamed o.aggregation) (hd : Py.Fll.defuzzNamed o.defuzzifier) :
    ∃ σ, Gen.Code.FllExporter_output_variable.run c indent sep o {} = .ok σ ∧
      σ.ret = some (Py.Fll.join sep (Py.Fll.blockStrs indent c.d (outputLines (keepHeight c) c o))) :=
  Py.Fll.code_fllExportOutputVariable c indent sep o ha hd

/-- `FllExporter.rule_block` -/
theorem code_fllExportRuleBlock (c : Cfg) (indent sep : String) (b : Block) (hb : Py.Fll.blockNamed b) :
    ∃ σ, Gen.Code.FllExporter_rule_block.run c indent sep b {} = .ok σ ∧
      σ.ret = some (Py.Fll.join sep (Py.Fll.blockStrs indent c.d (blockLines (keepHeight c) c b))) :=
  Py.Fll.code_fllExportRuleBlock c indent sep b hb

/-- `FllExporter.engine`: the lines of `fllExport`, header lines not indented, and the trailing empty line -/
theorem code_fllExportEngine (c : Cfg) (indent sep : String) (e : Engine) :
    ∃ σ, Gen.Code.FllExporter_engine.run c indent sep e {} = .ok σ ∧
      σ.ret = some (Py.Fll.join sep ((fllExport c e).map (Py.Fll.lineText indent c.d) ++ [""])) :=
  Py.Fll.code_fllExportEngine c indent sep e

/-- **`Operation.str(x, delimiter)`** for every value (`Py.Raised.SVal`: a string, a float, a nested sequence, a NumPy
    array of 0 / 1 / 2 / more dimensions, any other object by its `str`): the translated function returns the string of
    the model `Py.Raised.opStr` - a float is `f"{x:.{d}f}"`, i.e. the printed number `Dec.render d (Dec.fmt d x)` (the
    external of all the exporter ties above, `opStr_float`); the elements of a sequence / array are printed by the
    recursive call **under the default delimiter** (the source does not pass `delimiter` on) and joined by `delimiter`;
    the rows of a matrix are joined by line feeds; the recursion bound of the translation is never reached -/
theorem code_opStr (d : ℕ) (x : Py.Raised.SVal) (delimiter : String) :
    ∃ σ, Gen.Code.Op_str.run d x delimiter {} = .ok σ ∧ σ.ret = some (Py.Raised.opStr d delimiter x) :=
  Py.Raised.code_opStr d x delimiter

/-- on a float `Op.str` is the printed number the exporter ties use as the meaning of `Op.str(x)` -/
theorem opStr_float (d : ℕ) (delimiter : String) (x : Num) :
    Py.Raised.opStr d delimiter (.num x) = Dec.render d (Dec.fmt d x) := rfl

/-- **`FllExporter.to_string(instance)`**: the dispatch on the class of the object (`Py.Raised.FlObj`; the `isinstance`
    tests follow the class hierarchy: an `InputVariable` / `OutputVariable` is a `Variable`, the source tests them
    first).  Every fuzzylite object is printed by the method of its class - whose text is what the ties above prove
    that method returns -, anything else is a `TypeError`. -/
theorem code_fllToString (c : Cfg) (indent sep : String) (o : Py.Raised.FlObj) :
    match Py.Raised.toString c indent sep o with
    | none => Gen.Code.FllExporter_to_string.run c indent sep o {} = .error .internal
    | some s => ∃ σ, Gen.Code.FllExporter_to_string.run c indent sep o {} = .ok σ ∧ σ.ret = some s :=
  Py.Raised.code_fllToString c indent sep o

/-- with the default indent and separator the text of `code_fllExportEngine` is the text the driver renders from the
    model lines (`Op.FllIO.renderLines`), i.e. the text the correspondence runs compare with the real exporter's -/
theorem exporter_text_is_driver_text (c : Cfg) (e : Engine) :
    Py.Fll.join "\n" ((fllExport c e).map (Py.Fll.lineText "  " c.d) ++ [""]) = renderLines c.d (fllExport c e) :=
  Py.Fll.engine_text_default c e

/-- the side conditions hold for the engines of the round-trip theorems (regenerated tables, `decide`) -/
theorem exporter_side_conditions (e : Engine) (h : WellFormed e) :
    Py.Fll.engineNamed e ∧ ∀ b ∈ e.blocks, ∀ r ∈ b.rules, Py.Fll.ruleNamed r :=
  ⟨Py.Fll.wellFormed_named e h, fun b hb r hr => Py.Fll.ruleOK_named r ((h.2.2 b hb).2.2.2.2 r hr)⟩

/-! ## Tie A: importer - the factory look-ups of the norms

`FllImporter.tnorm` / `snorm` (`Gen/CodeFactory.lean`): `None` for an empty value and for `none`, otherwise
`settings.factory_manager.<kind>.construct(fll)`, the callee being the translated `ConstructionFactory.construct`
(`C17.code_factoryConstruct`) on the registered names `keys`.  The model reads the norm from the tokens of the value
(`normOf keys`; `Py.BlockAct.normToks fll` = no token for an empty value, else the one word `fll`). -/

theorem code_importTnorm (keys : List String) (fll : String) :
    match normOf keys (Py.BlockAct.normToks fll) with
    | .error e => Gen.Code.FllImporter_tnorm_factory.run keys fll {} = .error (Py.BlockAct.fllErrToPy e)
    | .ok v => ∃ σ, Gen.Code.FllImporter_tnorm_factory.run keys fll {} = .ok σ ∧ σ.ret = v :=
  Py.BlockAct.code_importTnorm keys fll

theorem code_importSnorm (keys : List String) (fll : String) :
    match normOf keys (Py.BlockAct.normToks fll) with
    | .error e => Gen.Code.FllImporter_snorm_factory.run keys fll {} = .error (Py.BlockAct.fllErrToPy e)
    | .ok v => ∃ σ, Gen.Code.FllImporter_snorm_factory.run keys fll {} = .ok σ ∧ σ.ret = v :=
  Py.BlockAct.code_importSnorm keys fll

/-! ## `Engine.configure`  (fifth wave: model `Op/Configure.lean`, translated with the state at a raise)

`Gen.Code.Engine_configure` is regenerated from `engine.py`.  The engine is the record of this file's model, an argument
is `None`, a registered name or an object (`Op.Engine.OpArg`), the four factories are a parameter (`Op.Engine.Factories`;
for the library's own factories see `configure_unknown_tnorm`).  The translation keeps the record of the locals at a raise:
its fields `blocks` / `outputs` are the rule blocks / output variables the two loops have assigned to. -/

section Configure
open Op.Engine

/-- **Tie A (code → model), with the state at a raise.**  When the model `Op.Engine.configure` raises (a name its
    factory rejects), the translated `configure` raises the same class and at the raise it has assigned to no rule
    block and no output variable; otherwise the rule blocks and output variables it has assigned to - all of them, in
    order - are those of the model's engine. -/
theorem code_engineConfigure (F : Factories) (e : Engine) (a : ConfigArgs) :
    match Op.Engine.configure F a e with
    | .error err => ∃ σ, Gen.Code.Engine_configure.run F e a {} = .error (err, σ) ∧ σ.blocks = [] ∧ σ.outputs = []
    | .ok e' => ∃ σ, Gen.Code.Engine_configure.run F e a {} = .ok σ ∧ σ.blocks = e'.blocks ∧ σ.outputs = e'.outputs :=
  Op.Engine.code_engineConfigure F e a

/-- **`None` is assigned like any other value.**  After a `configure` that returns, an operator whose argument was
    `None` - the default of every parameter - is `None` in every rule block / output variable, whatever it was before:
    `engine.configure(conjunction="Minimum")` clears the disjunction, implication, activation, aggregation and
    defuzzifier of the whole engine.  (The reading "`None` leaves the operator unchanged" is refuted by
    `configure_none_is_not_skipped`.) -/
theorem configure_none_clears (F : Factories) (a : ConfigArgs) (e e' : Engine) (h : Op.Engine.configure F a e = .ok e') :
    (a.conjunction = .none → ∀ b ∈ e'.blocks, b.conjunction = none) ∧
    (a.disjunction = .none → ∀ b ∈ e'.blocks, b.disjunction = none) ∧
    (a.implication = .none → ∀ b ∈ e'.blocks, b.implication = none) ∧
    (a.activation = .none → ∀ b ∈ e'.blocks, b.activation = none) ∧
    (a.aggregation = .none → ∀ v ∈ e'.outputs, v.aggregation = none) ∧
    (a.defuzzifier = .none → ∀ v ∈ e'.outputs, v.defuzzifier = none) :=
  Op.Engine.configure_none_clears F a e e' h

/-- a witness: a block with the disjunction `Maximum`, configured with a conjunction only, has no disjunction afterwards -/
theorem configure_none_is_not_skipped (F : Factories) (h : F.tnorm "Minimum" = .ok "Minimum") :
    Op.Engine.configure F { conjunction := .name "Minimum" } { blocks := [{ disjunction := some "Maximum" }] } =
      .ok { blocks := [{ conjunction := some "Minimum", disjunction := none }] } :=
  Op.Engine.configure_none_is_not_skipped F h

/-- a call that returns changes nothing but the six operators: names, descriptions, flags, rules, terms, ranges, default
    values and the input variables are as before -/
theorem configure_frame (F : Factories) (a : ConfigArgs) (e e' : Engine) (h : Op.Engine.configure F a e = .ok e') :
    e'.name = e.name ∧ e'.description = e.description ∧ e'.inputs = e.inputs ∧
    e'.blocks.map (fun b => (b.name, b.description, b.enabled, b.rules)) =
      e.blocks.map (fun b => (b.name, b.description, b.enabled, b.rules)) ∧
    e'.outputs.map (fun v => (v.base, v.default, v.lockPrevious)) =
      e.outputs.map (fun v => (v.base, v.default, v.lockPrevious)) :=
  Op.Engine.configure_frame F a e e' h

/-- **A name unknown to its factory.**  If one of the six arguments is a name that its factory rejects
    (`Op.Engine.Rejected`), the translated `configure` raises, and **at the raise no rule block and no output variable
    has been assigned to** - the factories are consulted before the loops, also when the rejected name is the last
    argument and the earlier ones are fine.  The class is `ValueError` when that is all the factories raise
    (`OnlyValueError`: `ConstructionFactory.construct` for an unregistered key). -/
theorem configure_unknown_name_unchanged (F : Factories) (e : Engine) (a : ConfigArgs) (h : Rejected F a) :
    ∃ err σ, Gen.Code.Engine_configure.run F e a {} = .error (err, σ) ∧ σ.blocks = [] ∧ σ.outputs = [] ∧
      (OnlyValueError F → err = .value) :=
  Op.Engine.configure_unknown_name_unchanged F e a h

/-- with the T-norm factory of the library (the regenerated table of registered T-norms): a conjunction that is not a
    registered T-norm - e.g. the S-norm `Maximum`, or the empty name - raises `ValueError` and nothing is assigned -/
theorem configure_unknown_tnorm (F : Factories) (e : Engine) (a : ConfigArgs) (s : String)
    (hF : F.tnorm = Py.Fll.constructNorm Gen.Tables.tnormKeys) (ha : a.conjunction = .name s)
    (hs : s ∉ Gen.Tables.tnormKeys) :
    ∃ σ, Gen.Code.Engine_configure.run F e a {} = .error (.value, σ) ∧ σ.blocks = [] ∧ σ.outputs = [] :=
  Op.Engine.configure_unknown_tnorm F e a s hF ha hs

end Configure

/-! ## Tie A: the shape classes of `term.py` – `__init__`, `parameters`, `configure` and the per-class round trip

The nineteen classes that are configured through `Term._parse` (`Gen/CodeWave5Y.lean`, regenerated from the current
source; `Triangle.configure`, `Trapezoid.configure`, `Triangle.parameters` are in the blocks above).  A constructor
stores every argument in the attribute of the same name (numbers as `X Rat`); `Triangle.__init__` / `Trapezoid.__init__`
compute missing vertices: `Py.W5Y.triangleVertices` / `trapezoidVertices`, with the NaN tests in the order of the source.
`parameters` prints the attributes in the order of the constructor, then the height; `configure` assigns the values of
`Term._parse` in the same order.  `configure_parameters_<class>` is the round trip **over the generated code**:
`configure` of a fresh object on the text that `parameters()` of an object prints stores the printed values
(`rnd d x`: the value of the printed decimal) and the height, 1 when it was not printed (`canonH`).  Its hypothesis
`Py.W5Y.ReadsBack` is the joint that the theorems of this property leave to the correspondence: splitting the joined
words and reading each printed decimal with `to_float` gives the tokens that were printed. -/

/-- the vertices when all are given / when the last one(s) are NaN; `Trapezoid` computes only when *both* `top_right`
    and `bottom_right` are NaN -/
theorem vertices_laws (a b c d : X Rat) (p q : Rat) :
    (X.isnan c = false → Py.W5Y.triangleVertices a b c = (a, b, c)) ∧
    Py.W5Y.triangleVertices (.fin p) (.fin q) .nan = (.fin p, .fin ((p + q) / 2), .fin q) ∧
    (X.isnan c = false ∨ X.isnan d = false → Py.W5Y.trapezoidVertices a b c d = (a, b, c, d)) ∧
    Py.W5Y.trapezoidVertices (.fin p) (.fin q) .nan .nan =
      (.fin p, .fin (p + (q - p) * 1 / 5), .fin (p + (q - p) * 4 / 5), .fin q) :=
  ⟨Py.W5Y.triangleVertices_given a b c, Py.W5Y.triangleVertices_midpoint p q, Py.W5Y.trapezoidVertices_given a b c d,
   Py.W5Y.trapezoidVertices_ends p q⟩

/-- the arities `configure` passes to `Term._parse` are those of the regenerated table `Gen.Tables.termParse` (what the
    model's `configure` looks up), class by class -/
theorem shape_arities :
    Gen.Tables.termParse.filter (fun p => p.1 ≠ "Constant") =
      [("Arc", 2, true), ("Bell", 3, true), ("Binary", 2, true), ("Concave", 2, true), ("Cosine", 2, true),
       ("Gaussian", 2, true), ("GaussianProduct", 4, true), ("PiShape", 4, true), ("Ramp", 2, true), ("Rectangle", 2, true),
       ("SShape", 2, true), ("SemiEllipse", 2, true), ("Sigmoid", 2, true), ("SigmoidDifference", 4, true),
       ("SigmoidProduct", 4, true), ("Spike", 2, true), ("Trapezoid", 4, true), ("Triangle", 3, true), ("ZShape", 2, true)] := by
  decide

/-- `Arc.__init__` stores every argument in the attribute of the same name (and does not raise) -/
theorem code_arcInit (name : String) (start end_ height : X Rat) (σ0 : Gen.Code.Arc_init.S) :
    ∃ σ, Gen.Code.Arc_init.run name start end_ height σ0 = .ok σ ∧ σ.self_name = name ∧
      σ.self_start = start ∧ σ.self_end = end_ ∧ σ.self_height = height :=
  Py.W5Y.code_arcInit name start end_ height σ0

/-- `Arc.parameters`: the 2 parameters in the order of the constructor, then the height (under the rule of `Term._parameters`) -/
theorem code_arcParameters (c : Cfg) (start end_ h : Num) :
    ∃ σ, Gen.Code.Arc_parameters.run c start end_ h {} = .ok σ ∧
      σ.ret = some (Py.Fll.termParameters c (.shape [start, end_] (some h))) :=
  Py.W5Y.code_arcParameters c start end_ h

/-- `Arc.configure`: 2 parameters and the optional height, assigned in this order -/
theorem code_arcConfigure (rd : String → Option Num) (parameters : String) :
    match numsOf (Py.FllIn.toks rd parameters) >>= parseShape 2 true with
    | .error e => Gen.Code.Arc_configure.run rd parameters {} = .error e.toPy
    | .ok b => ∃ σ, Gen.Code.Arc_configure.run rd parameters {} = .ok σ ∧
        b = .shape [σ.self_start, σ.self_end] (some σ.self_height) :=
  Py.W5Y.code_arcConfigure rd parameters

/-- round trip of `Arc`: `configure` of a fresh object on the text `parameters()` prints gives the printed values -/
theorem configure_parameters_arc (rd : String → Option Num) (c : Cfg) (start end_ h : Num)
    (hrd : Py.W5Y.ReadsBack rd c (.shape [start, end_] (some h))) :
    ∃ σp text σc, Gen.Code.Arc_parameters.run c start end_ h {} = .ok σp ∧ σp.ret = some text ∧
      Gen.Code.Arc_configure.run rd text {} = .ok σc ∧
      σc.self_start = rnd c.d start ∧ σc.self_end = rnd c.d end_ ∧
      σc.self_height = canonH (keepHeight c) c h :=
  Py.W5Y.configure_parameters_arc rd c start end_ h hrd

/-- `Bell.__init__` stores every argument in the attribute of the same name (and does not raise) -/
theorem code_bellInit (name : String) (center width slope height : X Rat) (σ0 : Gen.Code.Bell_init.S) :
    ∃ σ, Gen.Code.Bell_init.run name center width slope height σ0 = .ok σ ∧ σ.self_name = name ∧
      σ.self_center = center ∧ σ.self_width = width ∧ σ.self_slope = slope ∧ σ.self_height = height :=
  Py.W5Y.code_bellInit name center width slope height σ0

/-- `Bell.parameters`: the 3 parameters in the order of the constructor, then the height (under the rule of `Term._parameters`) -/
theorem code_bellParameters (c : Cfg) (center width slope h : Num) :
    ∃ σ, Gen.Code.Bell_parameters.run c center width slope h {} = .ok σ ∧
      σ.ret = some (Py.Fll.termParameters c (.shape [center, width, slope] (some h))) :=
  Py.W5Y.code_bellParameters c center width slope h

/-- `Bell.configure`: 3 parameters and the optional height, assigned in this order -/
theorem code_bellConfigure (rd : String → Option Num) (parameters : String) :
    match numsOf (Py.FllIn.toks rd parameters) >>= parseShape 3 true with
    | .error e => Gen.Code.Bell_configure.run rd parameters {} = .error e.toPy
    | .ok b => ∃ σ, Gen.Code.Bell_configure.run rd parameters {} = .ok σ ∧
        b = .shape [σ.self_center, σ.self_width, σ.self_slope] (some σ.self_height) :=
  Py.W5Y.code_bellConfigure rd parameters

/-- round trip of `Bell`: `configure` of a fresh object on the text `parameters()` prints gives the printed values -/
theorem configure_parameters_bell (rd : String → Option Num) (c : Cfg) (center width slope h : Num)
    (hrd : Py.W5Y.ReadsBack rd c (.shape [center, width, slope] (some h))) :
    ∃ σp text σc, Gen.Code.Bell_parameters.run c center width slope h {} = .ok σp ∧ σp.ret = some text ∧
      Gen.Code.Bell_configure.run rd text {} = .ok σc ∧
      σc.self_center = rnd c.d center ∧ σc.self_width = rnd c.d width ∧ σc.self_slope = rnd c.d slope ∧
      σc.self_height = canonH (keepHeight c) c h :=
  Py.W5Y.configure_parameters_bell rd c center width slope h hrd

/-- `Binary.__init__` stores every argument in the attribute of the same name (and does not raise) -/
theorem code_binaryInit (name : String) (start direction height : X Rat) (σ0 : Gen.Code.Binary_init.S) :
    ∃ σ, Gen.Code.Binary_init.run name start direction height σ0 = .ok σ ∧ σ.self_name = name ∧
      σ.self_start = start ∧ σ.self_direction = direction ∧ σ.self_height = height :=
  Py.W5Y.code_binaryInit name start direction height σ0

/-- `Binary.parameters`: the 2 parameters in the order of the constructor, then the height (under the rule of `Term._parameters`) -/
theorem code_binaryParameters (c : Cfg) (start direction h : Num) :
    ∃ σ, Gen.Code.Binary_parameters.run c start direction h {} = .ok σ ∧
      σ.ret = some (Py.Fll.termParameters c (.shape [start, direction] (some h))) :=
  Py.W5Y.code_binaryParameters c start direction h

/-- `Binary.configure`: 2 parameters and the optional height, assigned in this order -/
theorem code_binaryConfigure (rd : String → Option Num) (parameters : String) :
    match numsOf (Py.FllIn.toks rd parameters) >>= parseShape 2 true with
    | .error e => Gen.Code.Binary_configure.run rd parameters {} = .error e.toPy
    | .ok b => ∃ σ, Gen.Code.Binary_configure.run rd parameters {} = .ok σ ∧
        b = .shape [σ.self_start, σ.self_direction] (some σ.self_height) :=
  Py.W5Y.code_binaryConfigure rd parameters

/-- round trip of `Binary`: `configure` of a fresh object on the text `parameters()` prints gives the printed values -/
theorem configure_parameters_binary (rd : String → Option Num) (c : Cfg) (start direction h : Num)
    (hrd : Py.W5Y.ReadsBack rd c (.shape [start, direction] (some h))) :
    ∃ σp text σc, Gen.Code.Binary_parameters.run c start direction h {} = .ok σp ∧ σp.ret = some text ∧
      Gen.Code.Binary_configure.run rd text {} = .ok σc ∧
      σc.self_start = rnd c.d start ∧ σc.self_direction = rnd c.d direction ∧
      σc.self_height = canonH (keepHeight c) c h :=
  Py.W5Y.configure_parameters_binary rd c start direction h hrd

/-- `Concave.__init__` stores every argument in the attribute of the same name (and does not raise) -/
theorem code_concaveInit (name : String) (inflection end_ height : X Rat) (σ0 : Gen.Code.Concave_init.S) :
    ∃ σ, Gen.Code.Concave_init.run name inflection end_ height σ0 = .ok σ ∧ σ.self_name = name ∧
      σ.self_inflection = inflection ∧ σ.self_end = end_ ∧ σ.self_height = height :=
  Py.W5Y.code_concaveInit name inflection end_ height σ0

/-- `Concave.parameters`: the 2 parameters in the order of the constructor, then the height (under the rule of `Term._parameters`) -/
theorem code_concaveParameters (c : Cfg) (inflection end_ h : Num) :
    ∃ σ, Gen.Code.Concave_parameters.run c inflection end_ h {} = .ok σ ∧
      σ.ret = some (Py.Fll.termParameters c (.shape [inflection, end_] (some h))) :=
  Py.W5Y.code_concaveParameters c inflection end_ h

/-- `Concave.configure`: 2 parameters and the optional height, assigned in this order -/
theorem code_concaveConfigure (rd : String → Option Num) (parameters : String) :
    match numsOf (Py.FllIn.toks rd parameters) >>= parseShape 2 true with
    | .error e => Gen.Code.Concave_configure.run rd parameters {} = .error e.toPy
    | .ok b => ∃ σ, Gen.Code.Concave_configure.run rd parameters {} = .ok σ ∧
        b = .shape [σ.self_inflection, σ.self_end] (some σ.self_height) :=
  Py.W5Y.code_concaveConfigure rd parameters

/-- round trip of `Concave`: `configure` of a fresh object on the text `parameters()` prints gives the printed values -/
theorem configure_parameters_concave (rd : String → Option Num) (c : Cfg) (inflection end_ h : Num)
    (hrd : Py.W5Y.ReadsBack rd c (.shape [inflection, end_] (some h))) :
    ∃ σp text σc, Gen.Code.Concave_parameters.run c inflection end_ h {} = .ok σp ∧ σp.ret = some text ∧
      Gen.Code.Concave_configure.run rd text {} = .ok σc ∧
      σc.self_inflection = rnd c.d inflection ∧ σc.self_end = rnd c.d end_ ∧
      σc.self_height = canonH (keepHeight c) c h :=
  Py.W5Y.configure_parameters_concave rd c inflection end_ h hrd

/-- `Cosine.__init__` stores every argument in the attribute of the same name (and does not raise) -/
theorem code_cosineInit (name : String) (center width height : X Rat) (σ0 : Gen.Code.Cosine_init.S) :
    ∃ σ, Gen.Code.Cosine_init.run name center width height σ0 = .ok σ ∧ σ.self_name = name ∧
      σ.self_center = center ∧ σ.self_width = width ∧ σ.self_height = height :=
  Py.W5Y.code_cosineInit name center width height σ0

/-- `Cosine.parameters`: the 2 parameters in the order of the constructor, then the height (under the rule of `Term._parameters`) -/
theorem code_cosineParameters (c : Cfg) (center width h : Num) :
    ∃ σ, Gen.Code.Cosine_parameters.run c center width h {} = .ok σ ∧
      σ.ret = some (Py.Fll.termParameters c (.shape [center, width] (some h))) :=
  Py.W5Y.code_cosineParameters c center width h

/-- `Cosine.configure`: 2 parameters and the optional height, assigned in this order -/
theorem code_cosineConfigure (rd : String → Option Num) (parameters : String) :
    match numsOf (Py.FllIn.toks rd parameters) >>= parseShape 2 true with
    | .error e => Gen.Code.Cosine_configure.run rd parameters {} = .error e.toPy
    | .ok b => ∃ σ, Gen.Code.Cosine_configure.run rd parameters {} = .ok σ ∧
        b = .shape [σ.self_center, σ.self_width] (some σ.self_height) :=
  Py.W5Y.code_cosineConfigure rd parameters

/-- round trip of `Cosine`: `configure` of a fresh object on the text `parameters()` prints gives the printed values -/
theorem configure_parameters_cosine (rd : String → Option Num) (c : Cfg) (center width h : Num)
    (hrd : Py.W5Y.ReadsBack rd c (.shape [center, width] (some h))) :
    ∃ σp text σc, Gen.Code.Cosine_parameters.run c center width h {} = .ok σp ∧ σp.ret = some text ∧
      Gen.Code.Cosine_configure.run rd text {} = .ok σc ∧
      σc.self_center = rnd c.d center ∧ σc.self_width = rnd c.d width ∧
      σc.self_height = canonH (keepHeight c) c h :=
  Py.W5Y.configure_parameters_cosine rd c center width h hrd

/-- `Gaussian.__init__` stores every argument in the attribute of the same name (and does not raise) -/
theorem code_gaussianInit (name : String) (mean standard_deviation height : X Rat) (σ0 : Gen.Code.Gaussian_init.S) :
    ∃ σ, Gen.Code.Gaussian_init.run name mean standard_deviation height σ0 = .ok σ ∧ σ.self_name = name ∧
      σ.self_mean = mean ∧ σ.self_standard_deviation = standard_deviation ∧ σ.self_height = height :=
  Py.W5Y.code_gaussianInit name mean standard_deviation height σ0

/-- `Gaussian.parameters`: the 2 parameters in the order of the constructor, then the height (under the rule of `Term._parameters`) -/
theorem code_gaussianParameters (c : Cfg) (mean standard_deviation h : Num) :
    ∃ σ, Gen.Code.Gaussian_parameters.run c mean standard_deviation h {} = .ok σ ∧
      σ.ret = some (Py.Fll.termParameters c (.shape [mean, standard_deviation] (some h))) :=
  Py.W5Y.code_gaussianParameters c mean standard_deviation h

/-- `Gaussian.configure`: 2 parameters and the optional height, assigned in this order -/
theorem code_gaussianConfigure (rd : String → Option Num) (parameters : String) :
    match numsOf (Py.FllIn.toks rd parameters) >>= parseShape 2 true with
    | .error e => Gen.Code.Gaussian_configure.run rd parameters {} = .error e.toPy
    | .ok b => ∃ σ, Gen.Code.Gaussian_configure.run rd parameters {} = .ok σ ∧
        b = .shape [σ.self_mean, σ.self_standard_deviation] (some σ.self_height) :=
  Py.W5Y.code_gaussianConfigure rd parameters

/-- round trip of `Gaussian`: `configure` of a fresh object on the text `parameters()` prints gives the printed values -/
theorem configure_parameters_gaussian (rd : String → Option Num) (c : Cfg) (mean standard_deviation h : Num)
    (hrd : Py.W5Y.ReadsBack rd c (.shape [mean, standard_deviation] (some h))) :
    ∃ σp text σc, Gen.Code.Gaussian_parameters.run c mean standard_deviation h {} = .ok σp ∧ σp.ret = some text ∧
      Gen.Code.Gaussian_configure.run rd text {} = .ok σc ∧
      σc.self_mean = rnd c.d mean ∧ σc.self_standard_deviation = rnd c.d standard_deviation ∧
      σc.self_height = canonH (keepHeight c) c h :=
  Py.W5Y.configure_parameters_gaussian rd c mean standard_deviation h hrd

/-- `GaussianProduct.__init__` stores every argument in the attribute of the same name (and does not raise) -/
theorem code_gaussianProductInit (name : String) (mean_a standard_deviation_a mean_b standard_deviation_b height : X Rat) (σ0 : Gen.Code.GaussianProduct_init.S) :
    ∃ σ, Gen.Code.GaussianProduct_init.run name mean_a standard_deviation_a mean_b standard_deviation_b height σ0 = .ok σ ∧ σ.self_name = name ∧
      σ.self_mean_a = mean_a ∧ σ.self_standard_deviation_a = standard_deviation_a ∧ σ.self_mean_b = mean_b ∧ σ.self_standard_deviation_b = standard_deviation_b ∧ σ.self_height = height :=
  Py.W5Y.code_gaussianProductInit name mean_a standard_deviation_a mean_b standard_deviation_b height σ0

/-- `GaussianProduct.parameters`: the 4 parameters in the order of the constructor, then the height (under the rule of `Term._parameters`) -/
theorem code_gaussianProductParameters (c : Cfg) (mean_a standard_deviation_a mean_b standard_deviation_b h : Num) :
    ∃ σ, Gen.Code.GaussianProduct_parameters.run c mean_a standard_deviation_a mean_b standard_deviation_b h {} = .ok σ ∧
      σ.ret = some (Py.Fll.termParameters c (.shape [mean_a, standard_deviation_a, mean_b, standard_deviation_b] (some h))) :=
  Py.W5Y.code_gaussianProductParameters c mean_a standard_deviation_a mean_b standard_deviation_b h

/-- `GaussianProduct.configure`: 4 parameters and the optional height, assigned in this order -/
theorem code_gaussianProductConfigure (rd : String → Option Num) (parameters : String) :
    match numsOf (Py.FllIn.toks rd parameters) >>= parseShape 4 true with
    | .error e => Gen.Code.GaussianProduct_configure.run rd parameters {} = .error e.toPy
    | .ok b => ∃ σ, Gen.Code.GaussianProduct_configure.run rd parameters {} = .ok σ ∧
        b = .shape [σ.self_mean_a, σ.self_standard_deviation_a, σ.self_mean_b, σ.self_standard_deviation_b] (some σ.self_height) :=
  Py.W5Y.code_gaussianProductConfigure rd parameters

/-- round trip of `GaussianProduct`: `configure` of a fresh object on the text `parameters()` prints gives the printed values -/
theorem configure_parameters_gaussianProduct (rd : String → Option Num) (c : Cfg) (mean_a standard_deviation_a mean_b standard_deviation_b h : Num)
    (hrd : Py.W5Y.ReadsBack rd c (.shape [mean_a, standard_deviation_a, mean_b, standard_deviation_b] (some h))) :
    ∃ σp text σc, Gen.Code.GaussianProduct_parameters.run c mean_a standard_deviation_a mean_b standard_deviation_b h {} = .ok σp ∧ σp.ret = some text ∧
      Gen.Code.GaussianProduct_configure.run rd text {} = .ok σc ∧
      σc.self_mean_a = rnd c.d mean_a ∧ σc.self_standard_deviation_a = rnd c.d standard_deviation_a ∧ σc.self_mean_b = rnd c.d mean_b ∧ σc.self_standard_deviation_b = rnd c.d standard_deviation_b ∧
      σc.self_height = canonH (keepHeight c) c h :=
  Py.W5Y.configure_parameters_gaussianProduct rd c mean_a standard_deviation_a mean_b standard_deviation_b h hrd

/-- `PiShape.__init__` stores every argument in the attribute of the same name (and does not raise) -/
theorem code_piShapeInit (name : String) (bottom_left top_left top_right bottom_right height : X Rat) (σ0 : Gen.Code.PiShape_init.S) :
    ∃ σ, Gen.Code.PiShape_init.run name bottom_left top_left top_right bottom_right height σ0 = .ok σ ∧ σ.self_name = name ∧
      σ.self_bottom_left = bottom_left ∧ σ.self_top_left = top_left ∧ σ.self_top_right = top_right ∧ σ.self_bottom_right = bottom_right ∧ σ.self_height = height :=
  Py.W5Y.code_piShapeInit name bottom_left top_left top_right bottom_right height σ0

/-- `PiShape.parameters`: the 4 parameters in the order of the constructor, then the height (under the rule of `Term._parameters`) -/
theorem code_piShapeParameters (c : Cfg) (bottom_left top_left top_right bottom_right h : Num) :
    ∃ σ, Gen.Code.PiShape_parameters.run c bottom_left top_left top_right bottom_right h {} = .ok σ ∧
      σ.ret = some (Py.Fll.termParameters c (.shape [bottom_left, top_left, top_right, bottom_right] (some h))) :=
  Py.W5Y.code_piShapeParameters c bottom_left top_left top_right bottom_right h

/-- `PiShape.configure`: 4 parameters and the optional height, assigned in this order -/
theorem code_piShapeConfigure (rd : String → Option Num) (parameters : String) :
    match numsOf (Py.FllIn.toks rd parameters) >>= parseShape 4 true with
    | .error e => Gen.Code.PiShape_configure.run rd parameters {} = .error e.toPy
    | .ok b => ∃ σ, Gen.Code.PiShape_configure.run rd parameters {} = .ok σ ∧
        b = .shape [σ.self_bottom_left, σ.self_top_left, σ.self_top_right, σ.self_bottom_right] (some σ.self_height) :=
  Py.W5Y.code_piShapeConfigure rd parameters

/-- round trip of `PiShape`: `configure` of a fresh object on the text `parameters()` prints gives the printed values -/
theorem configure_parameters_piShape (rd : String → Option Num) (c : Cfg) (bottom_left top_left top_right bottom_right h : Num)
    (hrd : Py.W5Y.ReadsBack rd c (.shape [bottom_left, top_left, top_right, bottom_right] (some h))) :
    ∃ σp text σc, Gen.Code.PiShape_parameters.run c bottom_left top_left top_right bottom_right h {} = .ok σp ∧ σp.ret = some text ∧
      Gen.Code.PiShape_configure.run rd text {} = .ok σc ∧
      σc.self_bottom_left = rnd c.d bottom_left ∧ σc.self_top_left = rnd c.d top_left ∧ σc.self_top_right = rnd c.d top_right ∧ σc.self_bottom_right = rnd c.d bottom_right ∧
      σc.self_height = canonH (keepHeight c) c h :=
  Py.W5Y.configure_parameters_piShape rd c bottom_left top_left top_right bottom_right h hrd

/-- `Ramp.__init__` stores every argument in the attribute of the same name (and does not raise) -/
theorem code_rampInit (name : String) (start end_ height : X Rat) (σ0 : Gen.Code.Ramp_init.S) :
    ∃ σ, Gen.Code.Ramp_init.run name start end_ height σ0 = .ok σ ∧ σ.self_name = name ∧
      σ.self_start = start ∧ σ.self_end = end_ ∧ σ.self_height = height :=
  Py.W5Y.code_rampInit name start end_ height σ0

/-- `Ramp.parameters`: the 2 parameters in the order of the constructor, then the height (under the rule of `Term._parameters`) -/
theorem code_rampParameters (c : Cfg) (start end_ h : Num) :
    ∃ σ, Gen.Code.Ramp_parameters.run c start end_ h {} = .ok σ ∧
      σ.ret = some (Py.Fll.termParameters c (.shape [start, end_] (some h))) :=
  Py.W5Y.code_rampParameters c start end_ h

/-- `Ramp.configure`: 2 parameters and the optional height, assigned in this order -/
theorem code_rampConfigure (rd : String → Option Num) (parameters : String) :
    match numsOf (Py.FllIn.toks rd parameters) >>= parseShape 2 true with
    | .error e => Gen.Code.Ramp_configure.run rd parameters {} = .error e.toPy
    | .ok b => ∃ σ, Gen.Code.Ramp_configure.run rd parameters {} = .ok σ ∧
        b = .shape [σ.self_start, σ.self_end] (some σ.self_height) :=
  Py.W5Y.code_rampConfigure rd parameters

/-- round trip of `Ramp`: `configure` of a fresh object on the text `parameters()` prints gives the printed values -/
theorem configure_parameters_ramp (rd : String → Option Num) (c : Cfg) (start end_ h : Num)
    (hrd : Py.W5Y.ReadsBack rd c (.shape [start, end_] (some h))) :
    ∃ σp text σc, Gen.Code.Ramp_parameters.run c start end_ h {} = .ok σp ∧ σp.ret = some text ∧
      Gen.Code.Ramp_configure.run rd text {} = .ok σc ∧
      σc.self_start = rnd c.d start ∧ σc.self_end = rnd c.d end_ ∧
      σc.self_height = canonH (keepHeight c) c h :=
  Py.W5Y.configure_parameters_ramp rd c start end_ h hrd

/-- `Rectangle.__init__` stores every argument in the attribute of the same name (and does not raise) -/
theorem code_rectangleInit (name : String) (start end_ height : X Rat) (σ0 : Gen.Code.Rectangle_init.S) :
    ∃ σ, Gen.Code.Rectangle_init.run name start end_ height σ0 = .ok σ ∧ σ.self_name = name ∧
      σ.self_start = start ∧ σ.self_end = end_ ∧ σ.self_height = height :=
  Py.W5Y.code_rectangleInit name start end_ height σ0

/-- `Rectangle.parameters`: the 2 parameters in the order of the constructor, then the height (under the rule of `Term._parameters`) -/
theorem code_rectangleParameters (c : Cfg) (start end_ h : Num) :
    ∃ σ, Gen.Code.Rectangle_parameters.run c start end_ h {} = .ok σ ∧
      σ.ret = some (Py.Fll.termParameters c (.shape [start, end_] (some h))) :=
  Py.W5Y.code_rectangleParameters c start end_ h

/-- `Rectangle.configure`: 2 parameters and the optional height, assigned in this order -/
theorem code_rectangleConfigure (rd : String → Option Num) (parameters : String) :
    match numsOf (Py.FllIn.toks rd parameters) >>= parseShape 2 true with
    | .error e => Gen.Code.Rectangle_configure.run rd parameters {} = .error e.toPy
    | .ok b => ∃ σ, Gen.Code.Rectangle_configure.run rd parameters {} = .ok σ ∧
        b = .shape [σ.self_start, σ.self_end] (some σ.self_height) :=
  Py.W5Y.code_rectangleConfigure rd parameters

/-- round trip of `Rectangle`: `configure` of a fresh object on the text `parameters()` prints gives the printed values -/
theorem configure_parameters_rectangle (rd : String → Option Num) (c : Cfg) (start end_ h : Num)
    (hrd : Py.W5Y.ReadsBack rd c (.shape [start, end_] (some h))) :
    ∃ σp text σc, Gen.Code.Rectangle_parameters.run c start end_ h {} = .ok σp ∧ σp.ret = some text ∧
      Gen.Code.Rectangle_configure.run rd text {} = .ok σc ∧
      σc.self_start = rnd c.d start ∧ σc.self_end = rnd c.d end_ ∧
      σc.self_height = canonH (keepHeight c) c h :=
  Py.W5Y.configure_parameters_rectangle rd c start end_ h hrd

/-- `SemiEllipse.__init__` stores every argument in the attribute of the same name (and does not raise) -/
theorem code_semiEllipseInit (name : String) (start end_ height : X Rat) (σ0 : Gen.Code.SemiEllipse_init.S) :
    ∃ σ, Gen.Code.SemiEllipse_init.run name start end_ height σ0 = .ok σ ∧ σ.self_name = name ∧
      σ.self_start = start ∧ σ.self_end = end_ ∧ σ.self_height = height :=
  Py.W5Y.code_semiEllipseInit name start end_ height σ0

/-- `SemiEllipse.parameters`: the 2 parameters in the order of the constructor, then the height (under the rule of `Term._parameters`) -/
theorem code_semiEllipseParameters (c : Cfg) (start end_ h : Num) :
    ∃ σ, Gen.Code.SemiEllipse_parameters.run c start end_ h {} = .ok σ ∧
      σ.ret = some (Py.Fll.termParameters c (.shape [start, end_] (some h))) :=
  Py.W5Y.code_semiEllipseParameters c start end_ h

/-- `SemiEllipse.configure`: 2 parameters and the optional height, assigned in this order -/
theorem code_semiEllipseConfigure (rd : String → Option Num) (parameters : String) :
    match numsOf (Py.FllIn.toks rd parameters) >>= parseShape 2 true with
    | .error e => Gen.Code.SemiEllipse_configure.run rd parameters {} = .error e.toPy
    | .ok b => ∃ σ, Gen.Code.SemiEllipse_configure.run rd parameters {} = .ok σ ∧
        b = .shape [σ.self_start, σ.self_end] (some σ.self_height) :=
  Py.W5Y.code_semiEllipseConfigure rd parameters

/-- round trip of `SemiEllipse`: `configure` of a fresh object on the text `parameters()` prints gives the printed values -/
theorem configure_parameters_semiEllipse (rd : String → Option Num) (c : Cfg) (start end_ h : Num)
    (hrd : Py.W5Y.ReadsBack rd c (.shape [start, end_] (some h))) :
    ∃ σp text σc, Gen.Code.SemiEllipse_parameters.run c start end_ h {} = .ok σp ∧ σp.ret = some text ∧
      Gen.Code.SemiEllipse_configure.run rd text {} = .ok σc ∧
      σc.self_start = rnd c.d start ∧ σc.self_end = rnd c.d end_ ∧
      σc.self_height = canonH (keepHeight c) c h :=
  Py.W5Y.configure_parameters_semiEllipse rd c start end_ h hrd

/-- `Sigmoid.__init__` stores every argument in the attribute of the same name (and does not raise) -/
theorem code_sigmoidInit (name : String) (inflection slope height : X Rat) (σ0 : Gen.Code.Sigmoid_init.S) :
    ∃ σ, Gen.Code.Sigmoid_init.run name inflection slope height σ0 = .ok σ ∧ σ.self_name = name ∧
      σ.self_inflection = inflection ∧ σ.self_slope = slope ∧ σ.self_height = height :=
  Py.W5Y.code_sigmoidInit name inflection slope height σ0

/-- `Sigmoid.parameters`: the 2 parameters in the order of the constructor, then the height (under the rule of `Term._parameters`) -/
theorem code_sigmoidParameters (c : Cfg) (inflection slope h : Num) :
    ∃ σ, Gen.Code.Sigmoid_parameters.run c inflection slope h {} = .ok σ ∧
      σ.ret = some (Py.Fll.termParameters c (.shape [inflection, slope] (some h))) :=
  Py.W5Y.code_sigmoidParameters c inflection slope h

/-- `Sigmoid.configure`: 2 parameters and the optional height, assigned in this order -/
theorem code_sigmoidConfigure (rd : String → Option Num) (parameters : String) :
    match numsOf (Py.FllIn.toks rd parameters) >>= parseShape 2 true with
    | .error e => Gen.Code.Sigmoid_configure.run rd parameters {} = .error e.toPy
    | .ok b => ∃ σ, Gen.Code.Sigmoid_configure.run rd parameters {} = .ok σ ∧
        b = .shape [σ.self_inflection, σ.self_slope] (some σ.self_height) :=
  Py.W5Y.code_sigmoidConfigure rd parameters

/-- round trip of `Sigmoid`: `configure` of a fresh object on the text `parameters()` prints gives the printed values -/
theorem configure_parameters_sigmoid (rd : String → Option Num) (c : Cfg) (inflection slope h : Num)
    (hrd : Py.W5Y.ReadsBack rd c (.shape [inflection, slope] (some h))) :
    ∃ σp text σc, Gen.Code.Sigmoid_parameters.run c inflection slope h {} = .ok σp ∧ σp.ret = some text ∧
      Gen.Code.Sigmoid_configure.run rd text {} = .ok σc ∧
      σc.self_inflection = rnd c.d inflection ∧ σc.self_slope = rnd c.d slope ∧
      σc.self_height = canonH (keepHeight c) c h :=
  Py.W5Y.configure_parameters_sigmoid rd c inflection slope h hrd

/-- `SigmoidDifference.__init__` stores every argument in the attribute of the same name (and does not raise) -/
theorem code_sigmoidDifferenceInit (name : String) (left rising falling right height : X Rat) (σ0 : Gen.Code.SigmoidDifference_init.S) :
    ∃ σ, Gen.Code.SigmoidDifference_init.run name left rising falling right height σ0 = .ok σ ∧ σ.self_name = name ∧
      σ.self_left = left ∧ σ.self_rising = rising ∧ σ.self_falling = falling ∧ σ.self_right = right ∧ σ.self_height = height :=
  Py.W5Y.code_sigmoidDifferenceInit name left rising falling right height σ0

/-- `SigmoidDifference.parameters`: the 4 parameters in the order of the constructor, then the height (under the rule of `Term._parameters`) -/
theorem code_sigmoidDifferenceParameters (c : Cfg) (left rising falling right h : Num) :
    ∃ σ, Gen.Code.SigmoidDifference_parameters.run c left rising falling right h {} = .ok σ ∧
      σ.ret = some (Py.Fll.termParameters c (.shape [left, rising, falling, right] (some h))) :=
  Py.W5Y.code_sigmoidDifferenceParameters c left rising falling right h

/-- `SigmoidDifference.configure`: 4 parameters and the optional height, assigned in this order -/
theorem code_sigmoidDifferenceConfigure (rd : String → Option Num) (parameters : String) :
    match numsOf (Py.FllIn.toks rd parameters) >>= parseShape 4 true with
    | .error e => Gen.Code.SigmoidDifference_configure.run rd parameters {} = .error e.toPy
    | .ok b => ∃ σ, Gen.Code.SigmoidDifference_configure.run rd parameters {} = .ok σ ∧
        b = .shape [σ.self_left, σ.self_rising, σ.self_falling, σ.self_right] (some σ.self_height) :=
  Py.W5Y.code_sigmoidDifferenceConfigure rd parameters

/-- round trip of `SigmoidDifference`: `configure` of a fresh object on the text `parameters()` prints gives the printed values -/
theorem configure_parameters_sigmoidDifference (rd : String → Option Num) (c : Cfg) (left rising falling right h : Num)
    (hrd : Py.W5Y.ReadsBack rd c (.shape [left, rising, falling, right] (some h))) :
    ∃ σp text σc, Gen.Code.SigmoidDifference_parameters.run c left rising falling right h {} = .ok σp ∧ σp.ret = some text ∧
      Gen.Code.SigmoidDifference_configure.run rd text {} = .ok σc ∧
      σc.self_left = rnd c.d left ∧ σc.self_rising = rnd c.d rising ∧ σc.self_falling = rnd c.d falling ∧ σc.self_right = rnd c.d right ∧
      σc.self_height = canonH (keepHeight c) c h :=
  Py.W5Y.configure_parameters_sigmoidDifference rd c left rising falling right h hrd

/-- `SigmoidProduct.__init__` stores every argument in the attribute of the same name (and does not raise) -/
theorem code_sigmoidProductInit (name : String) (left rising falling right height : X Rat) (σ0 : Gen.Code.SigmoidProduct_init.S) :
    ∃ σ, Gen.Code.SigmoidProduct_init.run name left rising falling right height σ0 = .ok σ ∧ σ.self_name = name ∧
      σ.self_left = left ∧ σ.self_rising = rising ∧ σ.self_falling = falling ∧ σ.self_right = right ∧ σ.self_height = height :=
  Py.W5Y.code_sigmoidProductInit name left rising falling right height σ0

/-- `SigmoidProduct.parameters`: the 4 parameters in the order of the constructor, then the height (under the rule of `Term._parameters`) -/
theorem code_sigmoidProductParameters (c : Cfg) (left rising falling right h : Num) :
    ∃ σ, Gen.Code.SigmoidProduct_parameters.run c left rising falling right h {} = .ok σ ∧
      σ.ret = some (Py.Fll.termParameters c (.shape [left, rising, falling, right] (some h))) :=
  Py.W5Y.code_sigmoidProductParameters c left rising falling right h

/-- `SigmoidProduct.configure`: 4 parameters and the optional height, assigned in this order -/
theorem code_sigmoidProductConfigure (rd : String → Option Num) (parameters : String) :
    match numsOf (Py.FllIn.toks rd parameters) >>= parseShape 4 true with
    | .error e => Gen.Code.SigmoidProduct_configure.run rd parameters {} = .error e.toPy
    | .ok b => ∃ σ, Gen.Code.SigmoidProduct_configure.run rd parameters {} = .ok σ ∧
        b = .shape [σ.self_left, σ.self_rising, σ.self_falling, σ.self_right] (some σ.self_height) :=
  Py.W5Y.code_sigmoidProductConfigure rd parameters

/-- round trip of `SigmoidProduct`: `configure` of a fresh object on the text `parameters()` prints gives the printed values -/
theorem configure_parameters_sigmoidProduct (rd : String → Option Num) (c : Cfg) (left rising falling right h : Num)
    (hrd : Py.W5Y.ReadsBack rd c (.shape [left, rising, falling, right] (some h))) :
    ∃ σp text σc, Gen.Code.SigmoidProduct_parameters.run c left rising falling right h {} = .ok σp ∧ σp.ret = some text ∧
      Gen.Code.SigmoidProduct_configure.run rd text {} = .ok σc ∧
      σc.self_left = rnd c.d left ∧ σc.self_rising = rnd c.d rising ∧ σc.self_falling = rnd c.d falling ∧ σc.self_right = rnd c.d right ∧
      σc.self_height = canonH (keepHeight c) c h :=
  Py.W5Y.configure_parameters_sigmoidProduct rd c left rising falling right h hrd

/-- `Spike.__init__` stores every argument in the attribute of the same name (and does not raise) -/
theorem code_spikeInit (name : String) (center width height : X Rat) (σ0 : Gen.Code.Spike_init.S) :
    ∃ σ, Gen.Code.Spike_init.run name center width height σ0 = .ok σ ∧ σ.self_name = name ∧
      σ.self_center = center ∧ σ.self_width = width ∧ σ.self_height = height :=
  Py.W5Y.code_spikeInit name center width height σ0

/-- `Spike.parameters`: the 2 parameters in the order of the constructor, then the height (under the rule of `Term._parameters`) -/
theorem code_spikeParameters (c : Cfg) (center width h : Num) :
    ∃ σ, Gen.Code.Spike_parameters.run c center width h {} = .ok σ ∧
      σ.ret = some (Py.Fll.termParameters c (.shape [center, width] (some h))) :=
  Py.W5Y.code_spikeParameters c center width h

/-- `Spike.configure`: 2 parameters and the optional height, assigned in this order -/
theorem code_spikeConfigure (rd : String → Option Num) (parameters : String) :
    match numsOf (Py.FllIn.toks rd parameters) >>= parseShape 2 true with
    | .error e => Gen.Code.Spike_configure.run rd parameters {} = .error e.toPy
    | .ok b => ∃ σ, Gen.Code.Spike_configure.run rd parameters {} = .ok σ ∧
        b = .shape [σ.self_center, σ.self_width] (some σ.self_height) :=
  Py.W5Y.code_spikeConfigure rd parameters

/-- round trip of `Spike`: `configure` of a fresh object on the text `parameters()` prints gives the printed values -/
theorem configure_parameters_spike (rd : String → Option Num) (c : Cfg) (center width h : Num)
    (hrd : Py.W5Y.ReadsBack rd c (.shape [center, width] (some h))) :
    ∃ σp text σc, Gen.Code.Spike_parameters.run c center width h {} = .ok σp ∧ σp.ret = some text ∧
      Gen.Code.Spike_configure.run rd text {} = .ok σc ∧
      σc.self_center = rnd c.d center ∧ σc.self_width = rnd c.d width ∧
      σc.self_height = canonH (keepHeight c) c h :=
  Py.W5Y.configure_parameters_spike rd c center width h hrd

/-- `SShape.__init__` stores every argument in the attribute of the same name (and does not raise) -/
theorem code_sShapeInit (name : String) (start end_ height : X Rat) (σ0 : Gen.Code.SShape_init.S) :
    ∃ σ, Gen.Code.SShape_init.run name start end_ height σ0 = .ok σ ∧ σ.self_name = name ∧
      σ.self_start = start ∧ σ.self_end = end_ ∧ σ.self_height = height :=
  Py.W5Y.code_sShapeInit name start end_ height σ0

/-- `SShape.parameters`: the 2 parameters in the order of the constructor, then the height (under the rule of `Term._parameters`) -/
theorem code_sShapeParameters (c : Cfg) (start end_ h : Num) :
    ∃ σ, Gen.Code.SShape_parameters.run c start end_ h {} = .ok σ ∧
      σ.ret = some (Py.Fll.termParameters c (.shape [start, end_] (some h))) :=
  Py.W5Y.code_sShapeParameters c start end_ h

/-- `SShape.configure`: 2 parameters and the optional height, assigned in this order -/
theorem code_sShapeConfigure (rd : String → Option Num) (parameters : String) :
    match numsOf (Py.FllIn.toks rd parameters) >>= parseShape 2 true with
    | .error e => Gen.Code.SShape_configure.run rd parameters {} = .error e.toPy
    | .ok b => ∃ σ, Gen.Code.SShape_configure.run rd parameters {} = .ok σ ∧
        b = .shape [σ.self_start, σ.self_end] (some σ.self_height) :=
  Py.W5Y.code_sShapeConfigure rd parameters

/-- round trip of `SShape`: `configure` of a fresh object on the text `parameters()` prints gives the printed values -/
theorem configure_parameters_sShape (rd : String → Option Num) (c : Cfg) (start end_ h : Num)
    (hrd : Py.W5Y.ReadsBack rd c (.shape [start, end_] (some h))) :
    ∃ σp text σc, Gen.Code.SShape_parameters.run c start end_ h {} = .ok σp ∧ σp.ret = some text ∧
      Gen.Code.SShape_configure.run rd text {} = .ok σc ∧
      σc.self_start = rnd c.d start ∧ σc.self_end = rnd c.d end_ ∧
      σc.self_height = canonH (keepHeight c) c h :=
  Py.W5Y.configure_parameters_sShape rd c start end_ h hrd

/-- `Trapezoid.__init__`: name and height as given; the vertices are `trapezoidVertices` (with `top_right` and `bottom_right` NaN the top is computed) -/
theorem code_trapezoidInit (name : String) (bottom_left top_left top_right bottom_right height : X Rat) (σ0 : Gen.Code.Trapezoid_init.S) :
    ∃ σ, Gen.Code.Trapezoid_init.run name bottom_left top_left top_right bottom_right height σ0 = .ok σ ∧ σ.self_name = name ∧
      σ.self_height = height ∧
      (σ.self_bottom_left, σ.self_top_left, σ.self_top_right, σ.self_bottom_right) =
        Py.W5Y.trapezoidVertices bottom_left top_left top_right bottom_right :=
  Py.W5Y.code_trapezoidInit name bottom_left top_left top_right bottom_right height σ0

/-- `Trapezoid.parameters`: the 4 parameters in the order of the constructor, then the height (under the rule of `Term._parameters`) -/
theorem code_trapezoidParameters (c : Cfg) (bottom_left top_left top_right bottom_right h : Num) :
    ∃ σ, Gen.Code.Trapezoid_parameters.run c bottom_left top_left top_right bottom_right h {} = .ok σ ∧
      σ.ret = some (Py.Fll.termParameters c (.shape [bottom_left, top_left, top_right, bottom_right] (some h))) :=
  Py.W5Y.code_trapezoidParameters c bottom_left top_left top_right bottom_right h

/-- round trip of `Trapezoid`: `configure` of a fresh object on the text `parameters()` prints gives the printed values -/
theorem configure_parameters_trapezoid (rd : String → Option Num) (c : Cfg) (bottom_left top_left top_right bottom_right h : Num)
    (hrd : Py.W5Y.ReadsBack rd c (.shape [bottom_left, top_left, top_right, bottom_right] (some h))) :
    ∃ σp text σc, Gen.Code.Trapezoid_parameters.run c bottom_left top_left top_right bottom_right h {} = .ok σp ∧ σp.ret = some text ∧
      Gen.Code.Trapezoid_configure.run rd text {} = .ok σc ∧
      σc.self_bottom_left = rnd c.d bottom_left ∧ σc.self_top_left = rnd c.d top_left ∧ σc.self_top_right = rnd c.d top_right ∧ σc.self_bottom_right = rnd c.d bottom_right ∧
      σc.self_height = canonH (keepHeight c) c h :=
  Py.W5Y.configure_parameters_trapezoid rd c bottom_left top_left top_right bottom_right h hrd

/-- `Triangle.__init__`: name and height as given; the vertices are `triangleVertices` (with `right` NaN the top is computed) -/
theorem code_triangleInit (name : String) (left top right height : X Rat) (σ0 : Gen.Code.Triangle_init.S) :
    ∃ σ, Gen.Code.Triangle_init.run name left top right height σ0 = .ok σ ∧ σ.self_name = name ∧ σ.self_height = height ∧
      (σ.self_left, σ.self_top, σ.self_right) = Py.W5Y.triangleVertices left top right :=
  Py.W5Y.code_triangleInit name left top right height σ0

/-- round trip of `Triangle`: `configure` of a fresh object on the text `parameters()` prints gives the printed values -/
theorem configure_parameters_triangle (rd : String → Option Num) (c : Cfg) (left top right h : Num)
    (hrd : Py.W5Y.ReadsBack rd c (.shape [left, top, right] (some h))) :
    ∃ σp text σc, Gen.Code.Triangle_parameters.run c left top right h {} = .ok σp ∧ σp.ret = some text ∧
      Gen.Code.Triangle_configure.run rd text {} = .ok σc ∧
      σc.self_left = rnd c.d left ∧ σc.self_top = rnd c.d top ∧ σc.self_right = rnd c.d right ∧
      σc.self_height = canonH (keepHeight c) c h :=
  Py.W5Y.configure_parameters_triangle rd c left top right h hrd

/-- `ZShape.__init__` stores every argument in the attribute of the same name (and does not raise) -/
theorem code_zShapeInit (name : String) (start end_ height : X Rat) (σ0 : Gen.Code.ZShape_init.S) :
    ∃ σ, Gen.Code.ZShape_init.run name start end_ height σ0 = .ok σ ∧ σ.self_name = name ∧
      σ.self_start = start ∧ σ.self_end = end_ ∧ σ.self_height = height :=
  Py.W5Y.code_zShapeInit name start end_ height σ0

/-- `ZShape.parameters`: the 2 parameters in the order of the constructor, then the height (under the rule of `Term._parameters`) -/
theorem code_zShapeParameters (c : Cfg) (start end_ h : Num) :
    ∃ σ, Gen.Code.ZShape_parameters.run c start end_ h {} = .ok σ ∧
      σ.ret = some (Py.Fll.termParameters c (.shape [start, end_] (some h))) :=
  Py.W5Y.code_zShapeParameters c start end_ h

/-- `ZShape.configure`: 2 parameters and the optional height, assigned in this order -/
theorem code_zShapeConfigure (rd : String → Option Num) (parameters : String) :
    match numsOf (Py.FllIn.toks rd parameters) >>= parseShape 2 true with
    | .error e => Gen.Code.ZShape_configure.run rd parameters {} = .error e.toPy
    | .ok b => ∃ σ, Gen.Code.ZShape_configure.run rd parameters {} = .ok σ ∧
        b = .shape [σ.self_start, σ.self_end] (some σ.self_height) :=
  Py.W5Y.code_zShapeConfigure rd parameters

/-- round trip of `ZShape`: `configure` of a fresh object on the text `parameters()` prints gives the printed values -/
theorem configure_parameters_zShape (rd : String → Option Num) (c : Cfg) (start end_ h : Num)
    (hrd : Py.W5Y.ReadsBack rd c (.shape [start, end_] (some h))) :
    ∃ σp text σc, Gen.Code.ZShape_parameters.run c start end_ h {} = .ok σp ∧ σp.ret = some text ∧
      Gen.Code.ZShape_configure.run rd text {} = .ok σc ∧
      σc.self_start = rnd c.d start ∧ σc.self_end = rnd c.d end_ ∧
      σc.self_height = canonH (keepHeight c) c h :=
  Py.W5Y.configure_parameters_zShape rd c start end_ h hrd

/-- the defaults of the signatures of the nineteen constructors (regenerated with the code): the empty name, NaN for
    every parameter, height 1 – the object the factory builds, which the model's `configure cls []` describes -/
theorem shape_defaults :
    (Gen.Code.Arc_init.dflt_name, Gen.Code.Arc_init.dflt_start, Gen.Code.Arc_init.dflt_end_, Gen.Code.Arc_init.dflt_height) = ("", .nan, .nan, .fin 1) ∧
    (Gen.Code.Bell_init.dflt_name, Gen.Code.Bell_init.dflt_center, Gen.Code.Bell_init.dflt_width, Gen.Code.Bell_init.dflt_slope, Gen.Code.Bell_init.dflt_height) = ("", .nan, .nan, .nan, .fin 1) ∧
    (Gen.Code.Binary_init.dflt_name, Gen.Code.Binary_init.dflt_start, Gen.Code.Binary_init.dflt_direction, Gen.Code.Binary_init.dflt_height) = ("", .nan, .nan, .fin 1) ∧
    (Gen.Code.Concave_init.dflt_name, Gen.Code.Concave_init.dflt_inflection, Gen.Code.Concave_init.dflt_end_, Gen.Code.Concave_init.dflt_height) = ("", .nan, .nan, .fin 1) ∧
    (Gen.Code.Cosine_init.dflt_name, Gen.Code.Cosine_init.dflt_center, Gen.Code.Cosine_init.dflt_width, Gen.Code.Cosine_init.dflt_height) = ("", .nan, .nan, .fin 1) ∧
    (Gen.Code.Gaussian_init.dflt_name, Gen.Code.Gaussian_init.dflt_mean, Gen.Code.Gaussian_init.dflt_standard_deviation, Gen.Code.Gaussian_init.dflt_height) = ("", .nan, .nan, .fin 1) ∧
    (Gen.Code.GaussianProduct_init.dflt_name, Gen.Code.GaussianProduct_init.dflt_mean_a, Gen.Code.GaussianProduct_init.dflt_standard_deviation_a, Gen.Code.GaussianProduct_init.dflt_mean_b, Gen.Code.GaussianProduct_init.dflt_standard_deviation_b, Gen.Code.GaussianProduct_init.dflt_height) = ("", .nan, .nan, .nan, .nan, .fin 1) ∧
    (Gen.Code.PiShape_init.dflt_name, Gen.Code.PiShape_init.dflt_bottom_left, Gen.Code.PiShape_init.dflt_top_left, Gen.Code.PiShape_init.dflt_top_right, Gen.Code.PiShape_init.dflt_bottom_right, Gen.Code.PiShape_init.dflt_height) = ("", .nan, .nan, .nan, .nan, .fin 1) ∧
    (Gen.Code.Ramp_init.dflt_name, Gen.Code.Ramp_init.dflt_start, Gen.Code.Ramp_init.dflt_end_, Gen.Code.Ramp_init.dflt_height) = ("", .nan, .nan, .fin 1) ∧
    (Gen.Code.Rectangle_init.dflt_name, Gen.Code.Rectangle_init.dflt_start, Gen.Code.Rectangle_init.dflt_end_, Gen.Code.Rectangle_init.dflt_height) = ("", .nan, .nan, .fin 1) ∧
    (Gen.Code.SemiEllipse_init.dflt_name, Gen.Code.SemiEllipse_init.dflt_start, Gen.Code.SemiEllipse_init.dflt_end_, Gen.Code.SemiEllipse_init.dflt_height) = ("", .nan, .nan, .fin 1) ∧
    (Gen.Code.Sigmoid_init.dflt_name, Gen.Code.Sigmoid_init.dflt_inflection, Gen.Code.Sigmoid_init.dflt_slope, Gen.Code.Sigmoid_init.dflt_height) = ("", .nan, .nan, .fin 1) ∧
    (Gen.Code.SigmoidDifference_init.dflt_name, Gen.Code.SigmoidDifference_init.dflt_left, Gen.Code.SigmoidDifference_init.dflt_rising, Gen.Code.SigmoidDifference_init.dflt_falling, Gen.Code.SigmoidDifference_init.dflt_right, Gen.Code.SigmoidDifference_init.dflt_height) = ("", .nan, .nan, .nan, .nan, .fin 1) ∧
    (Gen.Code.SigmoidProduct_init.dflt_name, Gen.Code.SigmoidProduct_init.dflt_left, Gen.Code.SigmoidProduct_init.dflt_rising, Gen.Code.SigmoidProduct_init.dflt_falling, Gen.Code.SigmoidProduct_init.dflt_right, Gen.Code.SigmoidProduct_init.dflt_height) = ("", .nan, .nan, .nan, .nan, .fin 1) ∧
    (Gen.Code.Spike_init.dflt_name, Gen.Code.Spike_init.dflt_center, Gen.Code.Spike_init.dflt_width, Gen.Code.Spike_init.dflt_height) = ("", .nan, .nan, .fin 1) ∧
    (Gen.Code.SShape_init.dflt_name, Gen.Code.SShape_init.dflt_start, Gen.Code.SShape_init.dflt_end_, Gen.Code.SShape_init.dflt_height) = ("", .nan, .nan, .fin 1) ∧
    (Gen.Code.Trapezoid_init.dflt_name, Gen.Code.Trapezoid_init.dflt_bottom_left, Gen.Code.Trapezoid_init.dflt_top_left, Gen.Code.Trapezoid_init.dflt_top_right, Gen.Code.Trapezoid_init.dflt_bottom_right, Gen.Code.Trapezoid_init.dflt_height) = ("", .nan, .nan, .nan, .nan, .fin 1) ∧
    (Gen.Code.Triangle_init.dflt_name, Gen.Code.Triangle_init.dflt_left, Gen.Code.Triangle_init.dflt_top, Gen.Code.Triangle_init.dflt_right, Gen.Code.Triangle_init.dflt_height) = ("", .nan, .nan, .nan, .fin 1) ∧
    (Gen.Code.ZShape_init.dflt_name, Gen.Code.ZShape_init.dflt_start, Gen.Code.ZShape_init.dflt_end_, Gen.Code.ZShape_init.dflt_height) = ("", .nan, .nan, .fin 1) :=
  Py.W5Y.shape_defaults

/-! ## Tie A: the activation methods – `__init__`, `parameters`, `configure` and the round trip

`First`, `Last`, `Highest`, `Lowest`, `Threshold` (`Gen/CodeWave5YAct.lean`).  `configure("")` leaves the object as it is;
for any other text the words are unpacked (white space only: `ValueError`) and read with `int` / `to_float` /
`Threshold.Comparator(text)` – the readers `rdi`, `rd` are parameters, the comparator look-up is by value in the
regenerated enumeration (`Py.W5Y.symbols`; the operator of each symbol is `C08.code_comparator`).  The result is the
model's `activParams` on the tokens of the words.  The model's "no tokens ↦ defaults" is the importer's "no parameters ↦
`configure` is not called": the defaults are those of the signatures (`activation_defaults`). -/

section activationTie
open Gen.Code Py.W5Y Py.FllIn

theorem code_firstInit (rules : Int) (threshold : Num) (σ0 : First_init.S) :
    ∃ σ, First_init.run rules threshold σ0 = .ok σ ∧ σ.self_rules = rules ∧ σ.self_threshold = threshold :=
  Py.W5Y.code_firstInit rules threshold σ0

theorem code_lastInit (rules : Int) (threshold : Num) (σ0 : Last_init.S) :
    ∃ σ, Last_init.run rules threshold σ0 = .ok σ ∧ σ.self_rules = rules ∧ σ.self_threshold = threshold :=
  Py.W5Y.code_lastInit rules threshold σ0

theorem code_highestInit (rules : Int) (σ0 : Highest_init.S) :
    ∃ σ, Highest_init.run rules σ0 = .ok σ ∧ σ.self_rules = rules :=
  Py.W5Y.code_highestInit rules σ0

theorem code_lowestInit (rules : Int) (σ0 : Lowest_init.S) :
    ∃ σ, Lowest_init.run rules σ0 = .ok σ ∧ σ.self_rules = rules :=
  Py.W5Y.code_lowestInit rules σ0

/-- `Threshold.__init__`: a string is looked up in the enumeration (`ValueError` when it is no symbol), a member is
    stored as it is; the threshold is stored -/
theorem code_thresholdInit (comparator : CmpArg) (threshold : Num) (σ0 : Threshold_init.S) :
    match comparatorOf comparator with
    | .error e => Threshold_init.run comparator threshold σ0 = .error e
    | .ok m => ∃ σ, Threshold_init.run comparator threshold σ0 = .ok σ ∧ σ.self_comparator = m ∧
        σ.self_threshold = threshold :=
  Py.W5Y.code_thresholdInit comparator threshold σ0

/-- the defaults of the signatures are the parameters of the model's default activation methods (what the importer
    builds when the line has no parameters) -/
theorem activation_defaults (cls : String) :
    activParams cls .nth [] = .ok (.nth cls First_init.dflt_rules First_init.dflt_threshold) ∧
    activParams cls .nth [] = .ok (.nth cls Last_init.dflt_rules Last_init.dflt_threshold) ∧
    activParams cls .best [] = .ok (.best cls Highest_init.dflt_rules) ∧
    activParams cls .best [] = .ok (.best cls Lowest_init.dflt_rules) ∧
    Threshold_init.dflt_comparator = .member ">" ∧
    activParams cls .threshold [] = .ok (.threshold cls ">" Threshold_init.dflt_threshold) :=
  Py.W5Y.activation_defaults cls

theorem code_firstParameters (cls : String) (c : Cfg) (rules : Int) (threshold : Num) :
    ∃ σ, First_parameters.run c rules threshold {} = .ok σ ∧
      σ.ret = some (Py.Fll.activParameters c (.nth cls rules threshold)) :=
  Py.W5Y.code_firstParameters cls c rules threshold

theorem code_lastParameters (cls : String) (c : Cfg) (rules : Int) (threshold : Num) :
    ∃ σ, Last_parameters.run c rules threshold {} = .ok σ ∧
      σ.ret = some (Py.Fll.activParameters c (.nth cls rules threshold)) :=
  Py.W5Y.code_lastParameters cls c rules threshold

theorem code_highestParameters (cls : String) (c : Cfg) (rules : Int) :
    ∃ σ, Highest_parameters.run c rules {} = .ok σ ∧ σ.ret = some (Py.Fll.activParameters c (.best cls rules)) :=
  Py.W5Y.code_highestParameters cls c rules

theorem code_lowestParameters (cls : String) (c : Cfg) (rules : Int) :
    ∃ σ, Lowest_parameters.run c rules {} = .ok σ ∧ σ.ret = some (Py.Fll.activParameters c (.best cls rules)) :=
  Py.W5Y.code_lowestParameters cls c rules

theorem code_thresholdParameters (cls : String) (c : Cfg) (comparator : String) (threshold : Num) :
    ∃ σ, Threshold_parameters.run c comparator threshold {} = .ok σ ∧
      σ.ret = some (Py.Fll.activParameters c (.threshold cls comparator threshold)) :=
  Py.W5Y.code_thresholdParameters cls c comparator threshold

theorem code_firstConfigure (cls : String) (rdi : String → Option Int) (rd : String → Option Num) (parameters : String)
    (σ0 : First_configure.S) :
    if parameters = "" then First_configure.run rdi rd parameters σ0 = .ok σ0
    else if Py.split parameters = [] then First_configure.run rdi rd parameters σ0 = .error .value
    else match activParams cls .nth (activToks rdi rd (Py.split parameters)) with
      | .error e => First_configure.run rdi rd parameters σ0 = .error e.toPy
      | .ok a => ∃ σ, First_configure.run rdi rd parameters σ0 = .ok σ ∧ a = .nth cls σ.self_rules σ.self_threshold :=
  Py.W5Y.code_firstConfigure cls rdi rd parameters σ0

theorem code_lastConfigure (cls : String) (rdi : String → Option Int) (rd : String → Option Num) (parameters : String)
    (σ0 : Last_configure.S) :
    if parameters = "" then Last_configure.run rdi rd parameters σ0 = .ok σ0
    else if Py.split parameters = [] then Last_configure.run rdi rd parameters σ0 = .error .value
    else match activParams cls .nth (activToks rdi rd (Py.split parameters)) with
      | .error e => Last_configure.run rdi rd parameters σ0 = .error e.toPy
      | .ok a => ∃ σ, Last_configure.run rdi rd parameters σ0 = .ok σ ∧ a = .nth cls σ.self_rules σ.self_threshold :=
  Py.W5Y.code_lastConfigure cls rdi rd parameters σ0

/-- the shared script of `Highest.configure` / `Lowest.configure`: `if parameters: self.rules = int(parameters)` -/
theorem code_highestConfigure (cls : String) (rdi : String → Option Int) (parameters : String) (σ0 : Highest_configure.S) :
    if parameters = "" then Highest_configure.run rdi parameters σ0 = .ok σ0
    else match activParams cls .best (match rdi parameters with | some z => [Tok.i z] | none => [Tok.w parameters]) with
      | .error e => Highest_configure.run rdi parameters σ0 = .error e.toPy
      | .ok a => ∃ σ, Highest_configure.run rdi parameters σ0 = .ok σ ∧ a = .best cls σ.self_rules :=
  Py.W5Y.code_highestConfigure cls rdi parameters σ0

theorem code_lowestConfigure (cls : String) (rdi : String → Option Int) (parameters : String) (σ0 : Lowest_configure.S) :
    if parameters = "" then Lowest_configure.run rdi parameters σ0 = .ok σ0
    else match activParams cls .best (match rdi parameters with | some z => [Tok.i z] | none => [Tok.w parameters]) with
      | .error e => Lowest_configure.run rdi parameters σ0 = .error e.toPy
      | .ok a => ∃ σ, Lowest_configure.run rdi parameters σ0 = .ok σ ∧ a = .best cls σ.self_rules :=
  Py.W5Y.code_lowestConfigure cls rdi parameters σ0

theorem code_thresholdConfigure (cls : String) (rd : String → Option Num) (parameters : String)
    (σ0 : Threshold_configure.S) :
    if parameters = "" then Threshold_configure.run rd parameters σ0 = .ok σ0
    else if Py.split parameters = [] then Threshold_configure.run rd parameters σ0 = .error .value
    else match activParams cls .threshold (thresholdToks rd (Py.split parameters)) with
      | .error e => Threshold_configure.run rd parameters σ0 = .error e.toPy
      | .ok a => ∃ σ, Threshold_configure.run rd parameters σ0 = .ok σ ∧
          a = .threshold cls σ.self_comparator σ.self_threshold :=
  Py.W5Y.code_thresholdConfigure cls rd parameters σ0

theorem configure_parameters_first (cls : String) (rdi : String → Option Int) (rd : String → Option Num) (c : Cfg)
    (rules : Int) (threshold : Num) (σ0 : First_configure.S)
    (hrd : ReadsBackActiv rdi rd c (.nth cls rules threshold)) :
    ∃ σc, First_configure.run rdi rd (Py.Fll.activParameters c (.nth cls rules threshold)) σ0 = .ok σc ∧
      σc.self_rules = rules ∧ σc.self_threshold = rnd c.d threshold :=
  Py.W5Y.configure_parameters_first cls rdi rd c rules threshold σ0 hrd

theorem configure_parameters_last (cls : String) (rdi : String → Option Int) (rd : String → Option Num) (c : Cfg)
    (rules : Int) (threshold : Num) (σ0 : Last_configure.S)
    (hrd : ReadsBackActiv rdi rd c (.nth cls rules threshold)) :
    ∃ σc, Last_configure.run rdi rd (Py.Fll.activParameters c (.nth cls rules threshold)) σ0 = .ok σc ∧
      σc.self_rules = rules ∧ σc.self_threshold = rnd c.d threshold :=
  Py.W5Y.configure_parameters_last cls rdi rd c rules threshold σ0 hrd

theorem configure_parameters_threshold (cls : String) (rd : String → Option Num) (c : Cfg)
    (comparator : String) (threshold : Num) (σ0 : Threshold_configure.S) (hc : comparator ∈ comparatorSymbols)
    (hrd : ReadsBackThreshold rd c (.threshold cls comparator threshold)) :
    ∃ σc, Threshold_configure.run rd (Py.Fll.activParameters c (.threshold cls comparator threshold)) σ0 = .ok σc ∧
      σc.self_comparator = comparator ∧ σc.self_threshold = rnd c.d threshold :=
  Py.W5Y.configure_parameters_threshold cls rd c comparator threshold σ0 hc hrd

/-- `Highest` / `Lowest`: the text is the printed integer; `int` reads it back -/
theorem configure_parameters_highest (cls : String) (rdi : String → Option Int) (c : Cfg) (rules : Int)
    (σ0 : Highest_configure.S) (hrd : rdi (toString rules) = some rules) :
    ∃ σc, Highest_configure.run rdi (Py.Fll.activParameters c (.best cls rules)) σ0 = .ok σc ∧ σc.self_rules = rules :=
  Py.W5Y.configure_parameters_highest cls rdi c rules σ0 hrd

theorem configure_parameters_lowest (cls : String) (rdi : String → Option Int) (c : Cfg) (rules : Int)
    (σ0 : Lowest_configure.S) (hrd : rdi (toString rules) = some rules) :
    ∃ σc, Lowest_configure.run rdi (Py.Fll.activParameters c (.best cls rules)) σ0 = .ok σc ∧ σc.self_rules = rules :=
  Py.W5Y.configure_parameters_lowest cls rdi c rules σ0 hrd

/-- the symbols `Threshold.Comparator(text)` accepts are the six of the regenerated enumeration; the lexer of the text
    layer reads each of them as a word (neither `int` nor `float` reads one), so the tokens `thresholdToks` are the
    tokens `activParamToks` of the importer's text layer on such a text -/
theorem comparator_symbols_are_words :
    symbols = ["<", "<=", "==", "!=", ">=", ">"] ∧ ∀ s ∈ symbols, intTokOf s = .w s :=
  Py.W5Y.comparator_symbols_are_words 

/-- `Threshold.Comparator(text)`: the member whose value is the text – exactly for the six symbols of
    `Spec.Activation.Comparator.ofSymbol`, whose operators `C08.code_comparator` ties; `ValueError` for any other text -/
theorem comparatorOfText_spec (s : String) :
    match Spec.Activation.Comparator.ofSymbol s with
    | some _ => comparatorOfText s = .ok s
    | none => comparatorOfText s = .error .value :=
  Py.W5Y.comparatorOfText_spec s

end activationTie

/-! ### the hypotheses of the round trips are satisfiable: with the readers of the driver's text layer (`parseNum`,
`parseInt`, `Py.split`) the printed parameters are read back as the tokens that were printed -/
example : Py.W5Y.ReadsBack parseNum ⟨3, 1 / 10000⟩ (.shape [.fin 1, .fin (5 / 2)] (some (.fin (1 / 2)))) := by
  unfold Py.W5Y.ReadsBack; decide +kernel
example : Py.W5Y.ReadsBack parseNum ⟨3, 1 / 10000⟩ (.shape [.ninf, .fin (-5 / 2), .nan] (some one)) := by
  unfold Py.W5Y.ReadsBack; decide +kernel
example : Py.W5Y.ReadsBackActiv parseInt parseNum ⟨3, 1 / 10000⟩ (.nth "First" 3 (.fin (1 / 4))) := by
  unfold Py.W5Y.ReadsBackActiv; decide +kernel
example : Py.W5Y.ReadsBackThreshold parseNum ⟨3, 1 / 10000⟩ (.threshold "Threshold" ">=" (.fin (1 / 4))) := by
  unfold Py.W5Y.ReadsBackThreshold; decide +kernel

end C14
