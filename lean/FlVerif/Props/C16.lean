import FlVerif.Gen.Tables
import FlVerif.Lemmas.RuleParse
import FlVerif.Lemmas.ConsequentLoad
import FlVerif.Lemmas.AntecedentSound
import FlVerif.Lemmas.Reject
import FlVerif.Lemmas.CodeRule
import FlVerif.Lemmas.CodeLoad
import FlVerif.Lemmas.CodeSession
import FlVerif.Lemmas.CodeFllImportReject
import FlVerif.Lemmas.CodeRaisedLoad

/-! # C16 — Malformed rule text is rejected cleanly, never accepted

The parsers are modelled as total functions into `Except ErrKind _` (`Op.ruleParse`, `Op.antecedentLoad`,
`Op.consequentLoad`, `Op.ruleLoad`): "rejected" is `.error .syntax` / `.error .value`, "accepted" is `.ok _`.
The theorems characterise exactly which texts are accepted, so that every listed one-error class is rejected for
*every* rule, and state what `is_loaded` reports after a failing load.  That the implementation never raises an
internal error (`TypeError`, `AttributeError`, `IndexError`, `RecursionError`) cannot be said about a total function;
it is decided by the error-kind comparison of the correspondence run (defect F5 was found that way). -/

namespace C16
open Lang Op

/-! ## `Rule.parse` -/

/-- **Tie A (code → model).**  `Gen.Code.Rule_parse` is regenerated from the source of `Rule.parse` on every run
    (`fv/pylean.py`); it raises the exception class the model `Op.ruleParse` predicts and otherwise assigns the
    antecedent / consequent texts and the weight that the model returns - for every text. -/
theorem code_ruleParse (text : String) :
    match ruleParse text with
    | .error e => Gen.Code.Rule_parse.run text {} = .error e.toPy
    | .ok p => ∃ σ, Gen.Code.Rule_parse.run text {} = .ok σ ∧ σ.self_antecedent_text = " ".intercalate p.ante ∧
        σ.self_consequent_text = " ".intercalate p.cons ∧ σ.self_weight = p.weight :=
  Op.code_ruleParse text

/-- **Tie A, the state at a raise: a rejected text leaves the rule as it was.**  `Gen.Code.Rule_parse_rs` is the same
    source translated with `raise_state` (an exception carries the record of the locals as it is at the raise; same
    profile and externals; `a0`, `c0`, `w0` are `antecedent.text`, `consequent.text` and `weight` of the rule before the
    call).  For every text: when the translated function raises, the record at the raise still has `a0`, `c0`, `w0`
    (the source assigns the three attributes in its last three statements, after every check), and the plain
    translation - which `code_ruleParse` ties to `Op.ruleParse` - raises the same class; on success both translations
    assign the same texts and weight. -/
theorem code_ruleParse_raise_unchanged (text a0 c0 : String) (w0 : X Rat) :
    match Gen.Code.Rule_parse_rs.run text a0 c0 w0 {} with
    | .error (err, σ) => (σ.self_antecedent_text = a0 ∧ σ.self_consequent_text = c0 ∧ σ.self_weight = w0) ∧
        Gen.Code.Rule_parse.run text {} = .error err
    | .ok σ => ∃ σ', Gen.Code.Rule_parse.run text {} = .ok σ' ∧ σ.self_antecedent_text = σ'.self_antecedent_text ∧
        σ.self_consequent_text = σ'.self_consequent_text ∧ σ.self_weight = σ'.self_weight :=
  Op.code_ruleParse_raise_unchanged text a0 c0 w0

/-- **`Rule.parse` accepts exactly** `if A… then C… [with w]` with a non-empty antecedent (up to the first `then`),
    a non-empty consequent (up to the first `with`), a weight that is the text of a number and nothing after it – and
    returns these parts (weight 1 when absent) -/
theorem ruleParse_accepts_iff (ts : List String) (p : ParsedRule) :
    ruleParseTokens ts = .ok p ↔ RuleForm ts p :=
  ⟨form_of_ruleParse, ruleParse_of_form⟩

/-- the only errors of `Rule.parse` are `SyntaxError` and (for the weight) `ValueError` -/
theorem ruleParse_error_kinds (ts : List String) (k : ErrKind) (h : ruleParseTokens ts = .error k) :
    k = .syntax ∨ k = .value := by
  have loop : ∀ (ts : List String) (s : PState) (a c : List String) (w : X Rat) (k : ErrKind),
      parseLoop s a c w ts = .error k → k = .syntax ∨ k = .value := by
    intro ts
    induction ts with
    | nil => intro s a c w k h; cases s <;> simp [parseLoop] at h
    | cons t ts ih =>
      intro s a c w k h
      cases s with
      | sBegin =>
        simp only [parseLoop] at h
        split at h
        · exact ih _ _ _ _ _ h
        · simp only [Except.error.injEq] at h; exact Or.inl h.symm
      | sIf => simp only [parseLoop] at h; split at h <;> exact ih _ _ _ _ _ h
      | sThen => simp only [parseLoop] at h; split at h <;> exact ih _ _ _ _ _ h
      | sWith =>
        simp only [parseLoop] at h
        split at h
        · exact ih _ _ _ _ _ h
        · simp only [Except.error.injEq] at h; exact Or.inr h.symm
      | sEnd => simp only [parseLoop, Except.error.injEq] at h; exact Or.inl h.symm
  unfold ruleParseTokens at h
  split at h
  · rename_i k' hk; simp only [Except.error.injEq] at h; subst h; exact loop _ _ _ _ _ _ hk
  · split at h
    · simp only [Except.error.injEq] at h; exact Or.inl h.symm
    · split at h
      · simp only [Except.error.injEq] at h; exact Or.inl h.symm
      · cases h

/-- **accepted ⇒ re-exportable**: the text `if A then C [with s]` that `Rule.text` produces for an accepted rule
    (weight omitted, or printed as a number `s`) is accepted again with the same antecedent and consequent -/
theorem accepted_reexports (ts : List String) (p : ParsedRule) (h : ruleParseTokens ts = .ok p) :
    ruleParseTokens (ruleTextTokens p.ante p.cons none) = .ok ⟨p.ante, p.cons, .fin 1⟩ ∧
    ∀ s w, parseFloat s = some w → ruleParseTokens (ruleTextTokens p.ante p.cons (some s)) = .ok ⟨p.ante, p.cons, w⟩ := by
  obtain ⟨ha, hc, hat, hcw, _⟩ := form_of_ruleParse h
  refine ⟨ruleParse_of_form ⟨ha, hc, hat, hcw, Or.inl ⟨by simp [ruleTextTokens], rfl⟩⟩, fun s w hs => ?_⟩
  exact ruleParse_of_form ⟨ha, hc, hat, hcw, Or.inr ⟨s, hs, by simp [ruleTextTokens]⟩⟩

/-! ### every listed one-error class, for every rule -/

/-- missing `if` (any other first token, or an empty text) -/
theorem single_error_missing_if (ts : List String) (h : ts.head? ≠ some "if") : ruleParseTokens ts = .error .syntax := by
  cases ts with
  | nil => simp [ruleParseTokens, parseLoop]
  | cons t ts =>
    have : t ≠ "if" := by simpa using h
    simp [ruleParseTokens, parseLoop, this]

/-- missing `then` -/
theorem single_error_missing_then (ts : List String) (h : "then" ∉ ts) : ruleParseTokens ("if" :: ts) = .error .syntax := by
  simp [ruleParseTokens, parseLoop, parseLoop_sIf_noThen _ _ _ ts h]

/-- an empty antecedent or consequent -/
theorem single_error_empty_part (a c : List String) (hat : "then" ∉ a) (hcw : "with" ∉ c) :
    ruleParseTokens ("if" :: "then" :: c) = .error .syntax ∧ ruleParseTokens ("if" :: (a ++ ["then"])) = .error .syntax := by
  constructor
  · simp only [ruleParseTokens, parseLoop, if_true]
    rw [parseLoop_sThen_noWith _ _ _ c hcw]; simp
  · simp only [ruleParseTokens, parseLoop, if_true]
    rw [parseLoop_sIf_then _ _ _ a [] hat]; simp [parseLoop]

/-- a non-numeric weight (`ValueError` of `float(token)`), for every accepted rule -/
theorem single_error_non_numeric_weight (ts : List String) (p : ParsedRule) (h : ruleParseTokens ts = .ok p)
    (s : String) (hs : parseFloat s = none) (rest : List String) :
    ruleParseTokens ("if" :: (p.ante ++ "then" :: (p.cons ++ "with" :: s :: rest))) = .error .value := by
  obtain ⟨_, _, hat, hcw, _⟩ := form_of_ruleParse h
  simp only [ruleParseTokens, parseLoop, if_true]
  rw [parseLoop_sIf_then _ _ _ p.ante [] hat, parseLoop_sThen_with _ _ _ p.cons [] hcw]
  simp [parseLoop, hs]

/-- `with` without a weight -/
theorem single_error_missing_weight (ts : List String) (p : ParsedRule) (h : ruleParseTokens ts = .ok p) :
    ruleParseTokens ("if" :: (p.ante ++ "then" :: (p.cons ++ ["with"]))) = .error .syntax := by
  obtain ⟨_, _, hat, hcw, _⟩ := form_of_ruleParse h
  simp only [ruleParseTokens, parseLoop, if_true]
  rw [parseLoop_sIf_then _ _ _ p.ante [] hat, parseLoop_sThen_with _ _ _ p.cons [] hcw]
  simp [parseLoop]

/-- a trailing token after the weight -/
theorem single_error_trailing_token (ts : List String) (p : ParsedRule) (h : ruleParseTokens ts = .ok p)
    (s : String) (w : X Rat) (hs : parseFloat s = some w) (t : String) (rest : List String) :
    ruleParseTokens ("if" :: (p.ante ++ "then" :: (p.cons ++ "with" :: s :: t :: rest))) = .error .syntax := by
  obtain ⟨_, _, hat, hcw, _⟩ := form_of_ruleParse h
  simp only [ruleParseTokens, parseLoop, if_true]
  rw [parseLoop_sIf_then _ _ _ p.ante [] hat, parseLoop_sThen_with _ _ _ p.cons [] hcw]
  simp [parseLoop, hs]

/-! ## `Consequent.load` -/

/-- **Tie A (code → model).**  `Gen.Code.Consequent_load` is regenerated from the source of `Consequent.load` on every
    run (`fv/pylean.py`; the local `proposition` is translated as an alias of the last element of `conclusions`).  For
    every engine and every consequent text it raises the exception class the model `Op.consequentLoad` predicts, and
    otherwise the propositions it assigns to `self.conclusions` are the conclusions of the model (variable name, hedge
    names, term name), each holding the output variable the engine has under that name. -/
theorem code_consequentLoad (e : EngineInfo) (text : String) :
    match consequentLoad e text with
    | .error k => Gen.Code.Consequent_load.run e text {} = .error k.toPy
    | .ok cs => ∃ σ, Gen.Code.Consequent_load.run e text {} = .ok σ ∧ σ.self_conclusions.map propConc = cs ∧
        ∀ p ∈ σ.self_conclusions, e.findOut p.variable_.name = some p.variable_ :=
  Op.code_consequentLoad e text

/-- **Tie A, the state at a raise: a failing `Consequent.load` leaves the consequent unloaded.**
    `Gen.Code.Consequent_load_rs` is the same source translated with `raise_state` (`fv/pylean.py`: combined with the
    alias of the proposition appended last; `loaded0` is what `self.conclusions` holds before the call).  For every
    engine and text: when the translated function raises, the record at the raise has `self.conclusions = []` - the
    function starts with `self.unload()` and assigns only in its last statement - and the plain translation, which
    `code_consequentLoad` ties to `Op.consequentLoad`, raises the same class; on success both assign the same list. -/
theorem code_consequentLoad_raise_unloaded (e : EngineInfo) (text : String) (loaded0 : List Py.Load.Proposition) :
    match Gen.Code.Consequent_load_rs.run e text loaded0 {} with
    | .error (err, σ) => σ.self_conclusions = [] ∧ Gen.Code.Consequent_load.run e text {} = .error err
    | .ok σ => ∃ σ', Gen.Code.Consequent_load.run e text {} = .ok σ' ∧ σ.self_conclusions = σ'.self_conclusions :=
  Op.code_consequentLoad_raise_unloaded e text loaded0

/-- **Tie A, the state at a raise: a failing `Antecedent.load` leaves the antecedent unloaded.**
    `Gen.Code.Antecedent_load_rs` is the source of `Antecedent.load` translated with `raise_state` (`loaded0`: what
    `self.expression` holds before the call; `post`: the callee `Function.infix_to_postfix`, whose exceptions pass
    through).  When the translated function raises, the record at the raise has `self.expression = None`, and the plain
    translation, which `C06.code_antecedentLoad` ties to `Op.antecedentLoadPostfix`, raises the same class; on success
    both assign the same expression. -/
theorem code_antecedentLoad_raise_unloaded (e : EngineInfo) (post : String → Py.M String) (text : String)
    (loaded0 : Py.Load.Expression) :
    match Gen.Code.Antecedent_load_rs.run e post text loaded0 {} with
    | .error (err, σ) => σ.self_expression = Py.Load.Expression.none ∧
        Gen.Code.Antecedent_load.run e post text {} = .error err
    | .ok σ => ∃ σ', Gen.Code.Antecedent_load.run e post text {} = .ok σ' ∧ σ.self_expression = σ'.self_expression :=
  Op.code_antecedentLoad_raise_unloaded e post text loaded0

/-- **The external `Py.Sess.consLoad`** - the call `self.consequent.load(engine)` inside the translated `Rule.load`
    (`code_ruleLoad` below), which *states* that a failing call leaves `conclusions = []` - **is the translated
    `Consequent.load`, including that clause**: the external returns the rule with the conclusions the translated
    function assigns; when it raises, the translated function raises the same class and the record at the raise holds
    the (empty) conclusions the external puts into the rule; nothing else of the rule changes. -/
theorem consLoad_external_is_code (e : EngineInfo) (r : Py.Sess.RuleObj) (loaded0 : List Py.Load.Proposition) :
    match Py.Sess.consLoad e r with
    | .ok r' => ∃ σ, Gen.Code.Consequent_load_rs.run e (joinWords r.parsed.cons) loaded0 {} = .ok σ ∧
        σ.self_conclusions.map propConc = r'.cons ∧ r' = { r with cons := r'.cons }
    | .error (err, r') => ∃ σ, Gen.Code.Consequent_load_rs.run e (joinWords r.parsed.cons) loaded0 {} = .error (err, σ) ∧
        σ.self_conclusions.map propConc = r'.cons ∧ r' = { r with cons := [] } :=
  Op.consLoad_external_is_code e r loaded0

/-- **The external `Py.Sess.anteLoad`** - the call `self.antecedent.load(engine)` inside the translated `Rule.load`,
    which *states* that a failing call leaves `expression = None` - **is the translated `Antecedent.load`, including that
    clause**, for every callee `post` (`Function.infix_to_postfix`) that behaves like its model `Op.toPostfix` (it raises
    the class the model predicts and otherwise returns a text whose words are the model's postfix tokens; the
    translated `infix_to_postfix` is tied to that model by `C17.code_toPostfix`): the external returns the rule with
    the tree the translated function assigns; when it raises, the translated function raises the same class and the
    record at the raise has `self.expression = None`; nothing else of the rule changes.  (`_partial`: the hypothesis on
    `post` is not discharged here for the translated `infix_to_postfix`; that needs `C17.code_toPostfix` under `NoPunct`
    and `Py.split (Py.joinSp p) = p` for postfix tokens.) -/
theorem anteLoad_external_is_code_partial (tbl : Table) (e : EngineInfo) (r : Py.Sess.RuleObj) (loaded0 : Py.Load.Expression)
    (post : String → Py.M String)
    (hp : ∀ text, match toPostfix tbl (formatInfix tbl text) with
      | .error k => post text = .error k.toPy
      | .ok p => ∃ s, post text = .ok s ∧ Py.split s = p) :
    match Py.Sess.anteLoad tbl e r with
    | .ok r' => ∃ σ, Gen.Code.Antecedent_load_rs.run e post (joinWords r.parsed.ante) loaded0 {} = .ok σ ∧
        exprA σ.self_expression = r'.ante ∧ r' = { r with ante := r'.ante }
    | .error (err, r') => ∃ σ, Gen.Code.Antecedent_load_rs.run e post (joinWords r.parsed.ante) loaded0 {} = .error (err, σ) ∧
        exprA σ.self_expression = r'.ante ∧ r' = { r with ante := none } :=
  Op.anteLoad_external_is_code tbl e r loaded0 post hp

/-- **`Consequent.load` accepts exactly** a non-empty list of conclusions `v is h* t` joined by `and`, where `v` is an
    output variable of the engine, the `h` are registered hedges and `t` is a term of `v` – and returns exactly those
    conclusions.  (`⇐` needs that no term is called like a hedge: the machine tries hedges first.)  In particular a
    trailing token, a missing variable / `is` / term, an unknown name, an input variable or a parenthesis in the
    consequent are rejected. -/
theorem consequentLoad_accepts_iff (e : EngineInfo) (ts : List String) (cs : List Conclusion)
    (hterms : ∀ c ∈ cs, ∀ t, c.t = some t → e.hedges.contains t = false) :
    consequentLoadTokens e ts = .ok cs ↔ (cs ≠ [] ∧ ts = consTokens cs ∧ ∀ c ∈ cs, ConcValid e c) := by
  constructor
  · exact consequentLoad_sound e ts cs
  · rintro ⟨hne, rfl, hv⟩
    exact consequentLoad_complete e cs hne (fun c hc => ⟨hv c hc, hterms c hc⟩)

/-- soundness alone needs no side condition -/
theorem consequentLoad_sound (e : EngineInfo) (ts : List String) (cs : List Conclusion)
    (h : consequentLoadTokens e ts = .ok cs) : cs ≠ [] ∧ ts = consTokens cs ∧ ∀ c ∈ cs, ConcValid e c :=
  Op.consequentLoad_sound e ts cs h

/-- any single token appended to an accepted consequent (a trailing word, or `and` with nothing after it) makes it
    rejected -/
theorem single_error_consequent (e : EngineInfo) (ts : List String) (cs : List Conclusion)
    (h : consequentLoadTokens e ts = .ok cs) (t : String) :
    consequentLoadTokens e (ts ++ [t]) = .error .syntax := by
  have hf := consequentLoad_final e ts cs h
  unfold consequentLoadTokens
  rw [cLoop_append e ts _ _ _ _ [t] hf]
  by_cases ht : t = "and"
  · subst ht; simp [cLoop, cStep, cAndWith, cVariable]
  · simp [cLoop, cStep, cAndWith, ht]

/-! ## `Antecedent.load` -/

/-- **soundness**: if the state machine accepts a postfix token list it is the postfix form of the tree it returns,
    and every proposition of that tree has an engine variable, registered hedges, and a term of that variable (or
    ends in the hedge `any`); the connectives are `and` / `or` with two operands.  Hence a missing variable, `is`,
    term or operand, and an unknown variable, hedge or term are never accepted. -/
theorem antecedentLoad_sound (e : EngineInfo) (pf : List String) (a : ANode)
    (h : antecedentLoadPostfix e pf = .ok a) : pf = a.pfx ∧ a.WF e :=
  antecedentLoadPostfix_sound e pf a h

/-- through `infix_to_postfix`: an accepted antecedent text (as tokens) has balanced parentheses, and its postfix form
    is the postfix form of the loaded tree -/
theorem antecedentLoadTokens_sound (tbl : Table) (e : EngineInfo) (toks : List String) (a : ANode)
    (h : antecedentLoadTokens tbl e toks = .ok a) :
    toPostfix tbl toks = .ok a.pfx ∧ a.WF e ∧ nlp (toks.map (classify tbl)) = nrp (toks.map (classify tbl)) := by
  unfold antecedentLoadTokens at h
  cases hp : toPostfix tbl toks with
  | error k => rw [hp] at h; cases h
  | ok p =>
    rw [hp] at h
    obtain ⟨rfl, hwf⟩ := antecedentLoadPostfix_sound e p a h
    refine ⟨rfl, hwf, ?_⟩
    by_contra hne
    have := (C17_unbalanced tbl toks hne)
    rw [this] at hp; cases hp
where
  C17_unbalanced (tbl : Table) (toks : List String)
      (h : nlp (toks.map (classify tbl)) ≠ nrp (toks.map (classify tbl))) : toPostfix tbl toks = .error .syntax := by
    unfold toPostfix
    cases hs : sy (toks.map (classify tbl)) [] [] with
    | ok out =>
      have := sy_parens _ _ _ _ hs
      simp only [nlp, Nat.zero_add] at this
      exact absurd this h
    | error k => rw [sy_error _ _ _ _ hs]; rfl

/-- an unbalanced parenthesis in the antecedent is rejected -/
theorem single_error_unbalanced_parenthesis (tbl : Table) (e : EngineInfo) (toks : List String)
    (h : nlp (toks.map (classify tbl)) ≠ nrp (toks.map (classify tbl))) :
    antecedentLoadTokens tbl e toks = .error .syntax := by
  unfold antecedentLoadTokens
  rw [antecedentLoadTokens_sound.C17_unbalanced tbl toks h]

/-- an antecedent that stops after a variable, after `is` or after a hedge (other than `any`) is rejected with a
    `SyntaxError` – the final-state check (the place of defect F5) -/
theorem single_error_incomplete_proposition (e : EngineInfo) (pf : List String) (st : AFlags) (stack : List ANode)
    (h : aLoop e pf fVariable [] = .ok (st, stack)) (hst : st = fIs ∨ st = fHedgeTerm) :
    antecedentLoadPostfix e pf = .error .syntax := by
  unfold antecedentLoadPostfix
  rw [h]
  rcases hst with rfl | rfl <;> simp [fIs, fHedgeTerm]

/-! ## `Rule.load` and `is_loaded` -/

/-- **a failed load never leaves the rule reporting loaded**, whatever it held before -/
theorem failed_load_not_loaded (tbl : Table) (e : EngineInfo) (p : ParsedRule) (s : RuleState) (k : ErrKind)
    (h : (ruleLoad tbl e p s).2 = some k) : (ruleLoad tbl e p s).1.isLoaded = false := by
  unfold ruleLoad at h ⊢
  cases ha : antecedentLoad tbl e (joinWords p.ante) with
  | error k' => simp [RuleState.isLoaded]
  | ok a =>
    rw [ha] at h
    cases hc : consequentLoad e (joinWords p.cons) with
    | error k' => simp [RuleState.isLoaded]
    | ok cs => rw [hc] at h; simp at h

/-- and a successful load does report loaded -/
theorem successful_load_loaded (tbl : Table) (e : EngineInfo) (p : ParsedRule) (s : RuleState)
    (h : (ruleLoad tbl e p s).2 = none) : (ruleLoad tbl e p s).1.isLoaded = true := by
  unfold ruleLoad at h ⊢
  cases ha : antecedentLoad tbl e (joinWords p.ante) with
  | error k' => rw [ha] at h; simp at h
  | ok a =>
    rw [ha] at h
    cases hc : consequentLoad e (joinWords p.cons) with
    | error k' => rw [hc] at h; simp at h
    | ok cs =>
      have hne : cs ≠ [] := by
        unfold consequentLoad at hc
        split at hc
        · cases hc
        · exact (Op.consequentLoad_sound e _ _ hc).1
      cases cs with
      | nil => exact absurd rfl hne
      | cons c cs => simp [RuleState.isLoaded]

/-! ### Tie A (code → model) for the loading / unloading functions

The rule object is `Py.Sess.RuleObj` (the texts `Rule.parse` stored, the loaded antecedent tree, the loaded conclusions,
the activation flag); `r.state` is what `is_loaded` looks at and `r.put s` the object with its parts in state `s` and
no activation.  `Rule.load`, `load_rules` and `reload_rules` are translated with the state at a raise
(`Except (Py.Err × S) S`, profile `raise_state`): an exception carries the objects as they are at that moment.  The two
calls `antecedent.load(engine)` / `consequent.load(engine)` are the models of the functions tied above
(`code_consequentLoad`, `C06.code_antecedentLoad`, `C17.code_toPostfix`) together with "a failing call leaves its own
part unloaded" (`Py.Sess.anteLoad`, `consLoad`). -/

/-- `Antecedent.is_loaded` as translated from the source: `expression is not None` -/
theorem code_anteIsLoaded (a : Option ANode) :
    ∃ σ, Gen.Code.Antecedent_is_loaded.run a {} = .ok σ ∧ σ.ret = some a.isSome :=
  ⟨_, Op.code_anteIsLoaded a {}, rfl⟩

/-- `Antecedent.unload` as translated from the source: `expression = None` -/
theorem code_anteUnload (σ0 : Gen.Code.Antecedent_unload.S) :
    ∃ σ, Gen.Code.Antecedent_unload.run σ0 = .ok σ ∧ σ.self_expression = none :=
  ⟨_, Op.code_anteUnload σ0, rfl⟩

/-- `Consequent.is_loaded` as translated from the source: the list of conclusions is not empty -/
theorem code_consIsLoaded (cs : List Conclusion) :
    ∃ σ, Gen.Code.Consequent_is_loaded.run cs {} = .ok σ ∧ σ.ret = some (!cs.isEmpty) :=
  ⟨_, Op.code_consIsLoaded cs {}, rfl⟩

/-- `Consequent.unload` as translated from the source: the list of conclusions is emptied -/
theorem code_consUnload (σ0 : Gen.Code.Consequent_unload.S) :
    ∃ σ, Gen.Code.Consequent_unload.run σ0 = .ok σ ∧ σ.self_conclusions = [] :=
  ⟨_, Op.code_consUnload σ0, rfl⟩

/-- `Rule.is_loaded` as translated from the source (its two callees are their generated definitions) = the model
    `RuleState.isLoaded` -/
theorem code_ruleIsLoaded (r : Py.Sess.RuleObj) :
    ∃ σ, Gen.Code.Rule_is_loaded.run r {} = .ok σ ∧ σ.ret = some r.state.isLoaded :=
  ⟨_, Op.code_ruleIsLoaded r {}, rfl⟩

/-- `Rule.unload` as translated from the source (its callees are their generated definitions): no activation, no
    expression, no conclusions -/
theorem code_ruleUnload (r : Py.Sess.RuleObj) :
    ∃ σ, Gen.Code.Rule_unload.run r {} = .ok σ ∧ σ.this = r.put .unloaded :=
  ⟨_, Op.code_ruleUnload r {}, rfl⟩

/-- **Tie A (code → model).**  `Gen.Code.Rule_load` is regenerated from the source of `Rule.load` on every run.  For
    every table, engine and rule object it raises the exception class the model `Op.ruleLoad` predicts – **and the rule
    is then in the state the model gives** (so `failed_load_not_loaded` below is a statement about the code) – and
    otherwise returns with the rule in the model's state. -/
theorem code_ruleLoad (tbl : Table) (e : EngineInfo) (r : Py.Sess.RuleObj) :
    match ruleLoad tbl e r.parsed r.state with
    | (s, none) => ∃ σ, Gen.Code.Rule_load.run tbl e r {} = .ok σ ∧ σ.this = r.put s
    | (s, some k) => ∃ σ, Gen.Code.Rule_load.run tbl e r {} = .error (k.toPy, σ) ∧ σ.this = r.put s :=
  Op.code_ruleLoad tbl e r

/-- `RuleBlock.unload_rules` as translated from the source: every rule is unloaded -/
theorem code_unloadRules (rules : List Py.Sess.RuleObj) :
    ∃ σ, Gen.Code.RuleBlock_unload_rules.run rules {} = .ok σ ∧ σ.visited = rules.map (·.put .unloaded) :=
  Op.code_unloadRules rules

/-- **Tie A (code → model).**  `Gen.Code.RuleBlock_load_rules` is regenerated from the source of
    `RuleBlock.load_rules` on every run (`try: rule.load(engine) except Exception as ex:` runs the handler on the state
    at the raise; `rule.unload()` / `rule.load(engine)` are the generated definitions above).  It raises `RuntimeError`
    exactly when the model `Op.loadRules` has a failure – after the loop, i.e. after every rule has been tried – and,
    raising or not, every rule ends in the state of the model with its texts unchanged and no activation, and one
    entry (rule, exception class) per failure has been collected, in order. -/
theorem code_loadRules (tbl : Table) (e : EngineInfo) (rules : List Py.Sess.RuleObj) :
    ∃ σ, Gen.Code.RuleBlock_load_rules.run tbl e rules {} =
        (if loadRulesRaises tbl e (rules.map (·.parsed)) then .error (.runtime, σ) else .ok σ) ∧
      σ.visited.map Py.Sess.RuleObj.state = (loadRules tbl e (rules.map (·.parsed))).1 ∧
      σ.visited.map (·.parsed) = rules.map (·.parsed) ∧ (∀ r ∈ σ.visited, r.activated = false) ∧
      σ.exceptions = (loadRules tbl e (rules.map (·.parsed))).2.map (fun f => (f.1, f.2.toPy)) :=
  Op.code_loadRules tbl e rules

/-- `RuleBlock.reload_rules` as translated from the source (`unload_rules` then `load_rules`, both their generated
    definitions): the outcome of `load_rules` -/
theorem code_reloadRules (tbl : Table) (e : EngineInfo) (rules : List Py.Sess.RuleObj) :
    ∃ σ, Gen.Code.RuleBlock_reload_rules.run tbl e rules {} =
        (if loadRulesRaises tbl e (rules.map (·.parsed)) then .error (.runtime, σ) else .ok σ) ∧
      σ.rules.map Py.Sess.RuleObj.state = (loadRules tbl e (rules.map (·.parsed))).1 ∧
      σ.rules.map (·.parsed) = rules.map (·.parsed) ∧ (∀ r ∈ σ.rules, r.activated = false) :=
  Op.code_reloadRules tbl e rules

/-- after `load_rules` – whether it raised or not – a rule reports loaded exactly when its own load did not fail -/
theorem load_rules_loaded_iff (tbl : Table) (e : EngineInfo) (ps : List ParsedRule) :
    (loadRules tbl e ps).1.map (·.isLoaded) = ps.map (fun p => (ruleLoad tbl e p .unloaded).2.isNone) := by
  simp only [loadRules, List.map_map]
  apply List.map_congr_left
  intro p _
  simp only [Function.comp]
  cases h : (ruleLoad tbl e p .unloaded).2 with
  | none => exact successful_load_loaded tbl e p _ h
  | some k => exact failed_load_not_loaded tbl e p _ k h

/-- `load_rules` raises exactly when some rule does not load -/
theorem load_rules_raises_iff (tbl : Table) (e : EngineInfo) (ps : List ParsedRule) :
    loadRulesRaises tbl e ps = true ↔ ∃ p ∈ ps, (ruleLoad tbl e p .unloaded).2 ≠ none := by
  simp only [loadRulesRaises, loadRules, Bool.not_eq_true', ← Bool.not_eq_true, List.isEmpty_iff]
  constructor
  · intro h
    obtain ⟨x, hx⟩ := List.exists_mem_of_ne_nil _ h
    obtain ⟨p, hp, hk⟩ := List.mem_filterMap.mp hx
    refine ⟨p, hp, ?_⟩
    cases hh : (ruleLoad tbl e p .unloaded).2 with
    | none => rw [hh] at hk; simp at hk
    | some k => simp
  · rintro ⟨p, hp, hk⟩ hnil
    cases hh : (ruleLoad tbl e p .unloaded).2 with
    | none => exact hk hh
    | some k =>
      have : (p, k) ∈ ps.filterMap (fun p => (ruleLoad tbl e p .unloaded).2.map (fun k => (p, k))) :=
        List.mem_filterMap.mpr ⟨p, hp, by simp [hh]⟩
      rw [hnil] at this
      cases this

/-! ## the hypotheses are satisfiable; the F5 inputs are rejected with a `SyntaxError` by the model -/

private def eng : EngineInfo :=
  ⟨[⟨"a", false, true, ["lo", "hi"]⟩, ⟨"o", true, true, ["t"]⟩], Gen.Tables.hedgeKeys⟩
private abbrev T : Table := Gen.Tables.elements

example : ruleParse "if a is lo then o is t with 0.5 # comment" = .ok ⟨["a", "is", "lo"], ["o", "is", "t"], .fin (1/2)⟩ := by
  decide +kernel
example : (ruleCreate T eng "if a is lo and (o is very t or a is any) then o is not t and o is t").isOk = true := by
  decide +kernel
example : ruleCreate T eng "if a is then o is t" = .error (.syntax, .ante) := by decide +kernel
example : ruleCreate T eng "if a is very then o is t" = .error (.syntax, .ante) := by decide +kernel
example : ruleCreate T eng "if a is lo then o is t with high" = .error (.value, .parse) := by decide +kernel
example : ruleCreate T eng "if a is lo then a is lo" = .error (.syntax, .cons) := by decide +kernel
example : ruleCreate T eng "if (a is lo then o is t" = .error (.syntax, .ante) := by decide +kernel
example : ruleCreate T eng "if a is lo and then o is t" = .error (.syntax, .ante) := by decide +kernel
example : ruleCreate T eng "if a is lo then o is t extra" = .error (.syntax, .cons) := by decide +kernel

/-! ## malformed lines of an FLL document (the translated key dispatch loops of `FllImporter`)

`c : Op.FllIO.Comp` is one of the three component methods `input_variable`, `output_variable`, `rule_block`
(`Gen.Code.FllImporter_*`, regenerated from the source); `c.Raises fll e` says that the *translated* method raises `e`
on the text `fll`.  The document is arbitrary: the lines `pre` before the malformed line only have to be accepted
(`c.Accepts pre`: the model's reading of them is not an error), the lines `post` after it are arbitrary. -/

open Op.FllIO in
/-- a line whose key is not a key of the component is a `SyntaxError` -/
theorem fll_unknown_key_rejected (c : Comp) (fll : String) (pre post : List String) (x : String) (l : Line)
    (hs : Py.Fll.splitLines fll = pre ++ x :: post) (ha : c.Accepts pre) (hx : lexLine x.toList = .ok (some l))
    (hk : l.key ∉ c.keys) : c.Raises fll .syntax :=
  raises_of_lineErr c fll pre post x l .syntax hs ha hx (lineErr_unknown c l hk)

open Op.FllIO in
/-- a line of a boolean key (`enabled`, `lock-range`, `lock-previous`) whose value is neither `true` nor `false` is a
    `SyntaxError` -/
theorem fll_bad_boolean_rejected (c : Comp) (fll : String) (pre post : List String) (x : String) (l : Line)
    (hs : Py.Fll.splitLines fll = pre ++ x :: post) (ha : c.Accepts pre) (hx : lexLine x.toList = .ok (some l))
    (hk : l.key ∈ c.boolKeys) (h1 : l.toks ≠ [.w "true"]) (h2 : l.toks ≠ [.w "false"]) : c.Raises fll .syntax :=
  raises_of_lineErr c fll pre post x l .syntax hs ha hx (lineErr_boolean c l hk h1 h2)

open Op.FllIO in
/-- a `range` line: a wrong number of values is a `SyntaxError`, two values of which one is not the text of a number
    are a `ValueError` -/
theorem fll_bad_range_rejected (c : Comp) (fll : String) (pre post : List String) (x : String) (l : Line)
    (hs : Py.Fll.splitLines fll = pre ++ x :: post) (ha : c.Accepts pre) (hx : lexLine x.toList = .ok (some l))
    (hk : l.key ∈ c.rangeKeys) :
    (l.toks.length ≠ 2 → c.Raises fll .syntax) ∧
    (∀ a b, l.toks = [a, b] → (¬ ∃ p q, a = .n p ∧ b = .n q) → c.Raises fll .value) :=
  ⟨fun h => raises_of_lineErr c fll pre post x l .syntax hs ha hx (lineErr_range c l .syntax hk (rangeOf_syntax _ h)),
   fun a b hab h => raises_of_lineErr c fll pre post x l .value hs ha hx
     (lineErr_range c l .value hk (by rw [hab]; exact rangeOf_value a b h))⟩

open Op.FllIO in
/-- the hypotheses are satisfiable: `enabled: maybe` after the header of an input variable -/
example : Comp.input.Raises "InputVariable: x\n  enabled: maybe\n  range: 0 1" .syntax :=
  fll_bad_boolean_rejected .input _ ["InputVariable: x"] ["  range: 0 1"] "  enabled: maybe" ⟨.enabled, [.w "maybe"]⟩
    (by decide +kernel) ⟨{ name := "x" }, by decide +kernel⟩ (by decide +kernel) (by decide) (by decide) (by decide)

end C16
