import FlVerif.Spec.Norm
import FlVerif.Lemmas.Norm
import FlVerif.Lemmas.Tie
import FlVerif.Gen.NormGen

/-! # C04 — T-norms and S-norms compute their formulas and obey the norm laws

`Gen.Norm.*` is regenerated from `fuzzylite/norm.py` on every run (Tie A); `Spec.tnorm/snorm` are the
docstring equations.  All statements are over an arbitrary linearly ordered field `α` (so over ℚ ⊇ float64
and over ℝ), `I a := 0 ≤ a ∧ a ≤ 1`. -/

namespace C04
variable {α : Type} [Field α] [LinearOrder α] [IsStrictOrderedRing α]
open X Spec

/-! ## the code computes the documented formula -/

theorem gen_AlgebraicProduct (a b : α) : Gen.Norm.AlgebraicProduct (fin a) (fin b) = fin (tnorm .algebraicProduct a b) := by
  unfold Gen.Norm.AlgebraicProduct tnorm; tie_fin
theorem gen_BoundedDifference (a b : α) : Gen.Norm.BoundedDifference (fin a) (fin b) = fin (tnorm .boundedDifference a b) := by
  unfold Gen.Norm.BoundedDifference tnorm; tie_fin
theorem gen_DrasticProduct (a b : α) : Gen.Norm.DrasticProduct (fin a) (fin b) = fin (tnorm .drasticProduct a b) := by
  unfold Gen.Norm.DrasticProduct tnorm drastic; tie_fin
theorem gen_Minimum (a b : α) : Gen.Norm.Minimum (fin a) (fin b) = fin (tnorm .minimum a b) := by
  unfold Gen.Norm.Minimum tnorm; tie_fin
theorem gen_NilpotentMinimum (a b : α) : Gen.Norm.NilpotentMinimum (fin a) (fin b) = fin (tnorm .nilpotentMinimum a b) := by
  unfold Gen.Norm.NilpotentMinimum tnorm; tie_fin
theorem gen_EinsteinProduct {a b : α} (ha : I a) (hb : I b) :
    Gen.Norm.EinsteinProduct (fin a) (fin b) = fin (tnorm .einsteinProduct a b) := by
  unfold Gen.Norm.EinsteinProduct tnorm; tie_fin
  exact div_fin _ _ (einstein_den_pos ha hb).ne'
theorem gen_HamacherProduct {a b : α} (ha : I a) (hb : I b) :
    Gen.Norm.HamacherProduct (fin a) (fin b) = fin (tnorm .hamacherProduct a b) := by
  unfold Gen.Norm.HamacherProduct tnorm; tie_fin
  by_cases h : a + b ≠ 0
  · rw [div_fin _ _ (hamacher_den_pos ha hb h).ne']; simp [h]
  · simp [h]

theorem gen_AlgebraicSum (a b : α) : Gen.Norm.AlgebraicSum (fin a) (fin b) = fin (snorm .algebraicSum a b) := by
  unfold Gen.Norm.AlgebraicSum snorm; tie_fin
theorem gen_BoundedSum (a b : α) : Gen.Norm.BoundedSum (fin a) (fin b) = fin (snorm .boundedSum a b) := by
  unfold Gen.Norm.BoundedSum snorm; tie_fin
theorem gen_DrasticSum (a b : α) : Gen.Norm.DrasticSum (fin a) (fin b) = fin (snorm .drasticSum a b) := by
  unfold Gen.Norm.DrasticSum snorm; tie_fin
theorem gen_Maximum (a b : α) : Gen.Norm.Maximum (fin a) (fin b) = fin (snorm .maximum a b) := by
  unfold Gen.Norm.Maximum snorm; tie_fin
theorem gen_NilpotentMaximum (a b : α) : Gen.Norm.NilpotentMaximum (fin a) (fin b) = fin (snorm .nilpotentMaximum a b) := by
  unfold Gen.Norm.NilpotentMaximum snorm; tie_fin
theorem gen_UnboundedSum (a b : α) : Gen.Norm.UnboundedSum (fin a) (fin b) = fin (snorm .unboundedSum a b) := by
  unfold Gen.Norm.UnboundedSum snorm; tie_fin
theorem gen_EinsteinSum {a b : α} (ha : I a) (hb : I b) :
    Gen.Norm.EinsteinSum (fin a) (fin b) = fin (snorm .einsteinSum a b) := by
  unfold Gen.Norm.EinsteinSum snorm; tie_fin
  have : (0 : α) < 1 + a * b := by nlinarith [mul_nonneg ha.1 hb.1]
  exact div_fin _ _ this.ne'
theorem gen_HamacherSum {a b : α} (ha : I a) (hb : I b) :
    Gen.Norm.HamacherSum (fin a) (fin b) = fin (snorm .hamacherSum a b) := by
  unfold Gen.Norm.HamacherSum snorm; tie_fin
  by_cases h : a * b ≠ 1
  · have hd : (1 : α) - a * b ≠ 0 := sub_ne_zero.2 (Ne.symm h)
    rw [div_fin _ _ hd]; simp [h]
  · simp [h]
theorem gen_NormalizedSum {a b : α} (_ha : I a) (_hb : I b) :
    Gen.Norm.NormalizedSum (fin a) (fin b) = fin (snorm .normalizedSum a b) := by
  unfold Gen.Norm.NormalizedSum snorm; tie_fin
  have : (0 : α) < max 1 (a + b) := lt_of_lt_of_le one_pos (le_max_left _ _)
  exact div_fin _ _ this.ne'

/-- the registered class lists are exactly the 7 + 9 documented norms -/
theorem registered_tnorms : Gen.tnormNames.map TNorm.ofName = TNorm.all.map some := by decide
theorem registered_snorms : Gen.snormNames.map SNorm.ofName = SNorm.all.map some := by decide

/-! ## laws of the T-norms -/

theorem tnorm_range (T : TNorm) {a b : α} (ha : I a) (hb : I b) : I (tnorm T a b) := Spec.tnorm_range T ha hb
theorem tnorm_comm (T : TNorm) (a b : α) : tnorm T a b = tnorm T b a := Spec.tnorm_comm T a b
theorem tnorm_mono (T : TNorm) {a a' b b' : α} (ha : I a) (ha' : I a') (hb : I b) (hb' : I b')
    (h1 : a ≤ a') (h2 : b ≤ b') : tnorm T a b ≤ tnorm T a' b' := by
  calc tnorm T a b ≤ tnorm T a' b := Spec.tnorm_mono_left T ha ha' hb h1
    _ = tnorm T b a' := Spec.tnorm_comm T _ _
    _ ≤ tnorm T b' a' := Spec.tnorm_mono_left T hb hb' ha' h2
    _ = tnorm T a' b' := Spec.tnorm_comm T _ _
theorem tnorm_assoc (T : TNorm) {a b c : α} (ha : I a) (hb : I b) (hc : I c) :
    tnorm T (tnorm T a b) c = tnorm T a (tnorm T b c) := Spec.tnorm_assoc T ha hb hc
theorem tnorm_identity (T : TNorm) {a : α} (ha : I a) : tnorm T a 1 = a ∧ tnorm T 1 a = a :=
  ⟨Spec.tnorm_one T ha, by rw [Spec.tnorm_comm]; exact Spec.tnorm_one T ha⟩
theorem tnorm_annihilator (T : TNorm) {a : α} (ha : I a) : tnorm T a 0 = 0 ∧ tnorm T 0 a = 0 :=
  ⟨Spec.tnorm_zero T ha, by rw [Spec.tnorm_comm]; exact Spec.tnorm_zero T ha⟩
theorem tnorm_le_min (T : TNorm) {a b : α} (ha : I a) (hb : I b) : tnorm T a b ≤ min a b := Spec.tnorm_le_min T ha hb

/-! ## laws of the S-norms -/

theorem snorm_range (S : SNorm) (hS : S ≠ .unboundedSum) {a b : α} (ha : I a) (hb : I b) : I (snorm S a b) :=
  Spec.snorm_range S hS ha hb
theorem unboundedSum_eq_add (a b : α) : snorm .unboundedSum a b = a + b := rfl
theorem snorm_comm (S : SNorm) (a b : α) : snorm S a b = snorm S b a := Spec.snorm_comm S a b
theorem snorm_mono (S : SNorm) (hS : S ≠ .unboundedSum) {a a' b b' : α} (ha : I a) (ha' : I a') (hb : I b) (hb' : I b')
    (h1 : a ≤ a') (h2 : b ≤ b') : snorm S a b ≤ snorm S a' b' := by
  calc snorm S a b ≤ snorm S a' b := Spec.snorm_mono_left S hS ha ha' hb h1
    _ = snorm S b a' := Spec.snorm_comm S _ _
    _ ≤ snorm S b' a' := Spec.snorm_mono_left S hS hb hb' ha' h2
    _ = snorm S a' b' := Spec.snorm_comm S _ _
theorem snorm_identity (S : SNorm) (hS : S ≠ .unboundedSum) {a : α} (ha : I a) : snorm S a 0 = a ∧ snorm S 0 a = a :=
  ⟨Spec.snorm_zero S hS ha, by rw [Spec.snorm_comm]; exact Spec.snorm_zero S hS ha⟩
theorem snorm_annihilator (S : SNorm) (hS : S ≠ .unboundedSum) {a : α} (ha : I a) : snorm S a 1 = 1 ∧ snorm S 1 a = 1 :=
  ⟨Spec.snorm_one S hS ha, by rw [Spec.snorm_comm]; exact Spec.snorm_one S hS ha⟩
theorem snorm_ge_max (S : SNorm) (hS : S ≠ .unboundedSum) {a b : α} (ha : I a) (hb : I b) : max a b ≤ snorm S a b :=
  Spec.snorm_ge_max S hS ha hb
/-- associativity of every bounded S-norm (NormalizedSum included: it coincides with BoundedSum on [0,1]²,
    which is more than the property asks) -/
theorem snorm_assoc (S : SNorm) (hS : S ≠ .unboundedSum) {a b c : α} (ha : I a) (hb : I b) (hc : I c) :
    snorm S (snorm S a b) c = snorm S a (snorm S b c) := Spec.snorm_assoc S hS ha hb hc

/-! ## duality -/

theorem duality (S : SNorm) (T : TNorm) (h : dual S = some T) {a b : α} (ha : I a) (hb : I b) :
    snorm S a b = 1 - tnorm T (1 - a) (1 - b) := Spec.duality S T h ha hb
/-- the seven same-family pairs -/
theorem dual_pairs : SNorm.all.filterMap (fun S => (dual S).map (fun T => (S, T))) =
    [(.algebraicSum, .algebraicProduct), (.boundedSum, .boundedDifference), (.drasticSum, .drasticProduct),
     (.einsteinSum, .einsteinProduct), (.hamacherSum, .hamacherProduct), (.maximum, .minimum),
     (.nilpotentMaximum, .nilpotentMinimum)] := by decide

/-! ## NaN behaviour of the code, read off the regenerated definitions -/

theorem gen_Minimum_nan (b : X α) : Gen.Norm.Minimum nan b = nan ∧ Gen.Norm.Minimum b nan = nan := by
  constructor <;> cases b <;> rfl
theorem gen_Maximum_nan (b : X α) : Gen.Norm.Maximum nan b = nan ∧ Gen.Norm.Maximum b nan = nan := by
  constructor <;> cases b <;> rfl
theorem gen_AlgebraicProduct_nan (b : X α) : Gen.Norm.AlgebraicProduct nan b = nan := by
  cases b <;> rfl

/-! ## non-vacuity: the hypotheses are met by concrete non-trivial values -/

example : I (1/2 : ℚ) ∧ I (3/4 : ℚ) := by unfold I; norm_num
example : tnorm .einsteinProduct (1/2 : ℚ) (3/4) = 1/3 := by unfold tnorm; norm_num
example : tnorm .nilpotentMinimum (1/2 : ℚ) (1/2) = 0 ∧ tnorm .nilpotentMinimum (1/2 : ℚ) (3/4) = 1/2 := by
  unfold tnorm; constructor <;> norm_num

end C04
